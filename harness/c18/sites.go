package c18

// Pseudo-property C18SITES (model free, run as part of C18 through `also`): the CALL SITES of the penalties.
//
// Clause of C18: "malformed envelopes, unknown procedures, invalid sync requests and request rates above the
// limit lead to these penalties; well-formed traffic within the limits never does". The C18 correspondence
// covers the machinery from Connection.BanPeer / ApplyPenalty / Peer.banPeer downwards; whether an input that
// is supposed to be penalised actually REACHES that machinery is decided at the call sites, i.e. in the RPC
// handlers the engine registers on its Connection:
//
//	pkg/consensus/sync/sync.go   HandleRPCEndpointGetLastBlock          (no input, never penalises)
//	                             HandleRPCEndpointGetHighestCommonBlock (BanPeer: no data, undecodable, no ids,
//	                                                                     an id that is not a 32 byte block id)
//	                             HandleRPCEndpointGetBlocksFromID       (BanPeer: no data, undecodable, id not 32 bytes)
//	pkg/txpool/txpool.go         HandleRPCEndpointGetTransaction        (declares ApplyPenalty, never calls it)
//	pkg/p2p/message_protocol.go  onRequest / onResponse                 (C18 / C18ENV: envelopes, unknown procedure)
//	pkg/p2p/ratelimit.go         checkLimit                             (C18 / C18WIN / C18LIFE)
//	pkg/consensus/sync/{block_sync,fast_sync}.go                        (client side: the SERVING peer is banned
//	                             for invalid responses - clause of C19, checked there over loopback hosts)
//
// (`grep BanPeer|ApplyPenalty|banRemotePeer|addPenalty` over pkg/: no other site; the gossip validators of
// pkg/consensus and pkg/txpool reject through the pubsub verdict, not through the gater.)
//
// Here every request handler is exercised the way the node runs it: a REAL consensus.Executer + txpool on a
// node harness register their handlers on their Connection (Executer.Init / TransactionPool.Init), the
// Connection's real MessageProtocol is started over the stub host (hook VerifC09Attach), and each input
// arrives as a request ENVELOPE through the real onRequest -> rate limiter -> registered handler ->
// Connection.BanPeer -> Peer.banPeer -> connectionGater. Inputs are malformed at EVERY position: first /
// middle / last / only element of the id list; ids too short / too long / empty; empty list; undecodable
// payload; empty and absent data. The expected verdict comes from siteExpected below - a table written from
// the handler contract (LIP-style request schemas: `ids`: array of 32 byte block ids, at least one;
// `id`: one 32 byte block id; a request violating its schema costs the sender MaxPenaltyScore), not from
// the code. After every input the gater-level clause is checked: verdict B => the sender's IP (every
// address it is connected from) has score >= 100, is banned, ClosePeer was called for the sender, it has no
// connection left, and InterceptAddrDial / InterceptAccept / InterceptSecured(inbound) refuse the address on
// every transport; verdict N => score, ban state, connections and gates unchanged.
//
// Extra: the same over two REAL libp2p hosts on loopback (the responder is the node harness's own
// Connection, started; once after a Stop()+Start() cycle of it).

import (
	"bytes"
	"context"
	"crypto/ed25519"
	"crypto/sha256"
	"encoding/hex"
	"fmt"
	"math/rand"
	"strconv"
	"strings"
	"sync"
	"time"

	"github.com/libp2p/go-libp2p/core/crypto"
	"github.com/libp2p/go-libp2p/core/peer"
	ma "github.com/multiformats/go-multiaddr"

	lsync "github.com/LiskHQ/lisk-engine/pkg/consensus/sync"
	"github.com/LiskHQ/lisk-engine/pkg/p2p"
	"github.com/LiskHQ/lisk-engine/pkg/txpool"

	"verifharness/corr"
	"verifharness/node"
)

type sitesProp struct{}

func init() { corr.Register(sitesProp{}) }

func (sitesProp) ID() string    { return "C18SITES" }
func (sitesProp) NoModel() bool { return true }
func (sitesProp) Parallel() int { return 4 }

const (
	siteBan  = "B" // the request violates its schema: MaxPenaltyScore for the sender
	siteNone = "N" // well-formed request (or a procedure without input): never penalised
	siteOpen = "U" // the contract does not say (recorded, not judged)
)

var sitePeers = func() []peer.ID {
	res := make([]peer.ID, 64)
	for i := range res {
		seed := sha256.Sum256([]byte(fmt.Sprintf("c18-site-peer-%d", i)))
		priv := ed25519.NewKeyFromSeed(seed[:])
		pk, err := crypto.UnmarshalEd25519PublicKey(priv.Public().(ed25519.PublicKey))
		if err != nil {
			panic(err)
		}
		id, err := peer.IDFromPublicKey(pk)
		if err != nil {
			panic(err)
		}
		res[i] = id
	}
	return res
}()

var siteProcs = map[string]string{
	"last": lsync.RPCEndpointGetLastBlock,
	"ghcb": lsync.RPCEndpointGetHighestCommonBlock,
	"gbfi": lsync.RPCEndpointGetBlocksFromID,
	"tx":   txpool.RPCEndpointGetTransactions,
}

// ---------------------------------------------------------------------------------------------
// inputs
//
// op:  site <proc> ids <item,item,...|->      payload = request with this id list (ghcb)
//      site <proc> id <item>                  payload = request with this id (gbfi)
//      site <proc> raw <hex|nil|empty>        payload bytes as given (nil = envelope without data field)
// item: k<h> id of the responder's block at height h (mod chain length); u<n> a 32 byte id on no chain;
//       b<len>[x<fill>] a byte string of len bytes (a malformed id unless len = 32)

type siteItem struct {
	kind byte
	n    int
	fill byte
}

func parseSiteItem(s string) (siteItem, bool) {
	if len(s) < 2 {
		return siteItem{}, false
	}
	it := siteItem{kind: s[0], fill: 0x5a}
	body := s[1:]
	if i := strings.IndexByte(body, 'x'); i >= 0 && it.kind == 'b' {
		f, err := strconv.ParseUint(body[i+1:], 16, 8)
		if err != nil {
			return it, false
		}
		it.fill = byte(f)
		body = body[:i]
	}
	n, err := strconv.Atoi(body)
	if err != nil || n < 0 || n > 1<<16 || !strings.ContainsRune("kub", rune(it.kind)) {
		return it, false
	}
	it.n = n
	return it, true
}

func (it siteItem) wellFormedID() bool { return it.kind != 'b' || it.n == 32 }

// siteExpected is the verdict TABLE (see the file comment): what the handler contract says about the input.
func siteExpected(proc, form string, items []siteItem, raw []byte, rawNil bool) string {
	switch proc {
	case "last":
		return siteNone // the procedure takes no input; whatever is sent, the tip is served
	case "tx":
		if form == "raw" && len(raw) == 0 {
			return siteNone // "without request body": the processable transactions are served
		}
		return siteOpen
	case "ghcb":
		switch form {
		case "ids":
			if len(items) == 0 {
				return siteBan // `ids` needs at least one id
			}
			for _, it := range items {
				if !it.wellFormedID() {
					return siteBan // wherever the malformed id sits
				}
			}
			return siteNone
		case "raw":
			if rawNil || len(raw) == 0 {
				return siteBan // no request body = no ids
			}
			return siteRawVerdict(raw)
		}
	case "gbfi":
		switch form {
		case "id":
			if len(items) == 1 && items[0].wellFormedID() {
				return siteNone
			}
			return siteBan
		case "raw":
			if rawNil || len(raw) == 0 {
				return siteBan
			}
			return siteRawVerdict(raw)
		}
	}
	return siteOpen
}

// siteRawVerdict judges raw payload bytes of the two sync requests (one length-delimited field number 1,
// repeated for ghcb) by the wire format alone: bytes that are not a sequence of complete `0x0a len bytes`
// fields cannot be decoded into the request => ban. Byte strings that ARE such a sequence are judged by
// their id lengths (both procedures: every id must have 32 bytes; a gbfi request has one id - for several
// the contract is open).
func siteRawVerdict(raw []byte) string {
	var lens []int
	for i := 0; i < len(raw); {
		if raw[i] != 0x0a {
			if raw[i]>>3 == 1 || raw[i]&7 > 5 || raw[i]>>3 == 0 {
				return siteBan // field 1 with another wire type, an invalid wire type, field number 0
			}
			return siteOpen // other field numbers: lenient vs strict decoding is not part of the contract
		}
		i++
		n, k := 0, 0
		for {
			if i >= len(raw) || k > 9 {
				return siteBan // truncated / over-long length varint
			}
			b := raw[i]
			i++
			n |= int(b&0x7f) << (7 * k)
			k++
			if b < 0x80 {
				break
			}
			if k > 4 {
				return siteBan // length beyond any buffer
			}
		}
		if n > len(raw)-i {
			return siteBan // length runs past the end
		}
		lens = append(lens, n)
		i += n
	}
	for _, l := range lens {
		if l != 32 {
			return siteBan
		}
	}
	if len(lens) == 0 {
		return siteBan
	}
	return siteNone
}

var siteRawShapes = [][]byte{
	{0x0a},                   // lone key
	{0x0a, 0x80},             // truncated length varint
	{0x0a, 0xff},             // length past the end
	{0x0a, 0x20, 1, 2, 3},    // 32 announced, 3 delivered
	{0x08, 0x01},             // field 1 as varint
	{0x0d, 1, 2, 3, 4},       // field 1 as fixed32
	{0x0f, 0x00},             // invalid wire type 7
	{0x00},                   // field number 0
	{0x0a, 0x00},             // one empty id
	{0x0a, 0x01, 0x41},       // one 1-byte id
	{0xff, 0xff, 0xff, 0xff}, // garbage
	{0x0a, 0x80, 0x80, 0x80, 0x80, 0x80, 0x01, 0x41}, // 2^35 byte length
}

func idList(n int, bad map[int]string) string {
	l := make([]string, n)
	for i := range l {
		if b, ok := bad[i]; ok {
			l[i] = b
		} else if i%3 == 2 {
			l[i] = fmt.Sprintf("u%d", i)
		} else {
			l[i] = fmt.Sprintf("k%d", i+1)
		}
	}
	return strings.Join(l, ",")
}

var badLens = []int{0, 1, 31, 33, 64, 16}

func (sitesProp) Generate(rng *rand.Rand, tier string) []corr.Case {
	var cases []corr.Case
	add := func(tag string, ops []string) {
		cases = append(cases, corr.Case{Ops: append([]string{fmt.Sprintf("reset %d", 1+rng.Intn(1000))}, ops...), Tag: tag})
	}
	// 1. exhaustive small: every position of every list length 1..4, every malformed length
	var ops []string
	for n := 1; n <= 4; n++ {
		for pos := 0; pos < n; pos++ {
			for _, bl := range badLens {
				ops = append(ops, fmt.Sprintf("site ghcb ids %s", idList(n, map[int]string{pos: fmt.Sprintf("b%d", bl)})))
			}
		}
		ops = append(ops, fmt.Sprintf("site ghcb ids %s", idList(n, nil)))
	}
	add("positions", ops)
	// 2. degenerate payloads of every procedure
	ops = nil
	for _, p := range []string{"ghcb", "gbfi", "last", "tx"} {
		ops = append(ops, "site "+p+" raw nil", "site "+p+" raw empty")
		for _, s := range siteRawShapes {
			ops = append(ops, fmt.Sprintf("site %s raw %s", p, hex.EncodeToString(s)))
		}
	}
	ops = append(ops, "site ghcb ids -")
	for _, bl := range append([]int{32}, badLens...) {
		ops = append(ops, fmt.Sprintf("site gbfi id b%d", bl), fmt.Sprintf("site gbfi id b%dx00", bl), fmt.Sprintf("site ghcb ids b%dxff", bl))
	}
	for h := 0; h < 8; h++ {
		ops = append(ops, fmt.Sprintf("site gbfi id k%d", h), fmt.Sprintf("site gbfi id u%d", h), fmt.Sprintf("site ghcb ids k%d", h))
	}
	add("degenerate", ops)
	// 2b. request RATES on the handlers as the engine registers them (default counter: 100 per window, penalty 10)
	add("flood", []string{"flood last 100", "flood last 101", "flood ghcb 100", "flood ghcb 203", "flood gbfi 101", "flood tx 101", "flood ghcb 1010", "flood last 1009"})
	// 3. random: longer lists (as the syncers send: up to 2 rounds of ids), 0-2 malformed ids anywhere,
	// all procedures interleaved
	nRandom := 6
	if tier == "thorough" {
		nRandom = 400
	}
	for c := 0; c < nRandom; c++ {
		ops = nil
		for i := 0; i < 30; i++ {
			switch r := rng.Intn(10); {
			case r < 6:
				n := []int{1, 2, 3, 5, 8, 13, 21, 34, 60, 103}[rng.Intn(10)]
				bad := map[int]string{}
				for k := rng.Intn(3); k > 0; k-- {
					pos := []int{0, 0, n - 1, n / 2, rng.Intn(n)}[rng.Intn(5)]
					bad[pos] = fmt.Sprintf("b%dx%02x", []int{0, 1, 31, 33, 64, rng.Intn(70)}[rng.Intn(6)], rng.Intn(256))
				}
				ops = append(ops, "site ghcb ids "+idList(n, bad))
			case r < 8:
				ops = append(ops, fmt.Sprintf("site gbfi id %s", []string{"k1", "u1", "b31", "b33", "b0", "b32", fmt.Sprintf("b%d", rng.Intn(70))}[rng.Intn(7)]))
			case r < 9:
				b := make([]byte, rng.Intn(6))
				rng.Read(b)
				if rng.Intn(2) == 0 && len(b) > 0 {
					b[0] = 0x0a
				}
				ops = append(ops, fmt.Sprintf("site %s raw %s", []string{"ghcb", "gbfi"}[rng.Intn(2)], corr.Hex(b)))
			default:
				ops = append(ops, "site last raw nil", "site tx raw nil")
			}
		}
		add("random", ops)
	}
	return cases
}

// ---------------------------------------------------------------------------------------------
// world + runner

type siteWorld struct {
	n      *node.Node
	pool   *txpool.TransactionPool
	vn     *p2p.VerifNode
	blocks [][]byte // ids by height
}

const siteHeight = 8

func newSiteWorld(seed int64) (w *siteWorld, err error) {
	defer func() {
		if r := recover(); r != nil {
			err = fmt.Errorf("world construction panicked: %v", r)
		}
	}()
	n, err := node.New(node.Config{NumValidators: 4, Seed: seed})
	if err != nil {
		return nil, err
	}
	w = &siteWorld{n: n}
	w.pool = txpool.NewTransactionPool(&txpool.TransactionPoolConfig{MaxTransactions: 64, MaxTransactionsPerAccount: 8})
	if err := w.pool.Init(context.Background(), node.NopLogger(), n.DB, n.Chain, n.Conn, n.ABI); err != nil {
		n.Close()
		return nil, err
	}
	w.pool.VerifStopTicker()
	blocks, err := n.Extend(siteHeight)
	if err != nil {
		n.Close()
		return nil, err
	}
	w.blocks = append(w.blocks, n.Genesis.Header.ID)
	for _, b := range blocks {
		w.blocks = append(w.blocks, b.Header.ID)
	}
	return w, nil
}

func (w *siteWorld) attach() error {
	vn, err := p2p.VerifC09Attach(w.n.Conn, sitePeers[63])
	if err != nil {
		return err
	}
	vn.StartGater()
	w.vn = vn
	return nil
}

func (w *siteWorld) close() {
	if w.vn != nil {
		w.vn.Close()
	}
	w.n.Close()
}

func (w *siteWorld) itemBytes(it siteItem) []byte {
	switch it.kind {
	case 'k':
		return w.blocks[it.n%len(w.blocks)]
	case 'u':
		h := sha256.Sum256([]byte(fmt.Sprintf("c18-site-unknown-%d", it.n)))
		return h[:]
	}
	return bytes.Repeat([]byte{it.fill}, it.n)
}

type siteInput struct {
	proc, form string
	items      []siteItem
	raw        []byte
	rawNil     bool
}

func parseSiteOp(op string) (in siteInput, ok bool) {
	w := strings.Fields(op)
	if len(w) != 4 || w[0] != "site" {
		return in, false
	}
	if _, known := siteProcs[w[1]]; !known {
		return in, false
	}
	in.proc, in.form = w[1], w[2]
	switch w[2] {
	case "ids", "id":
		if w[3] != "-" {
			for _, s := range strings.Split(w[3], ",") {
				it, ok := parseSiteItem(s)
				if !ok {
					return in, false
				}
				in.items = append(in.items, it)
			}
		}
		if w[2] == "id" && len(in.items) != 1 {
			return in, false
		}
	case "raw":
		switch w[3] {
		case "nil":
			in.rawNil = true
		case "empty", "-":
		default:
			b, err := hex.DecodeString(w[3])
			if err != nil {
				return in, false
			}
			in.raw = b
		}
	default:
		return in, false
	}
	return in, true
}

// payload: hand encoded (independent of the package's codecs)
func (w *siteWorld) payload(in siteInput) []byte {
	switch in.form {
	case "ids", "id":
		var out []byte
		for _, it := range in.items {
			out = append(out, fld(1, w.itemBytes(it))...)
		}
		if out == nil {
			out = []byte{}
		}
		return out
	}
	if in.rawNil {
		return nil
	}
	if in.raw == nil {
		return []byte{}
	}
	return in.raw
}

func (in siteInput) describe() string {
	switch in.form {
	case "ids", "id":
		var lens, bad []string
		for i, it := range in.items {
			l := 32
			if it.kind == 'b' {
				l = it.n
			}
			lens = append(lens, strconv.Itoa(l))
			if !it.wellFormedID() {
				bad = append(bad, strconv.Itoa(i))
			}
		}
		s := fmt.Sprintf("%s request with %d id(s) of lengths [%s]", siteProcs[in.proc], len(in.items), strings.Join(lens, ","))
		if len(bad) > 0 {
			s += fmt.Sprintf(", malformed at position(s) %s of 0..%d", strings.Join(bad, ","), len(in.items)-1)
		}
		return s
	}
	if in.rawNil {
		return siteProcs[in.proc] + " request without data field"
	}
	return fmt.Sprintf("%s request with %d payload byte(s) %s", siteProcs[in.proc], len(in.raw), corr.Hex(in.raw))
}

func reqEnvelope(id, proc string, data []byte) []byte {
	out := cat(fld(1, []byte(id)), fld(2, []byte(proc)))
	if data != nil {
		out = append(out, fld(3, data)...)
	}
	return out
}

type siteRunner struct {
	w     *siteWorld
	fails []corr.Fail
	sent  int
}

func (r *siteRunner) step(idx int, op string) string {
	f := strings.Fields(op)
	if f[0] == "reset" {
		if r.w != nil {
			r.w.close()
			r.w = nil
		}
		w, err := newSiteWorld(int64(atoi(f[1])))
		if err == nil {
			err = w.attach()
		}
		if err != nil {
			r.fails = append(r.fails, corr.Fail{Sig: "c18-site-setup", Detail: err.Error(), Op: idx})
			return "setup-failed"
		}
		r.w = w
		return "ok"
	}
	if r.w == nil {
		return "no-world"
	}
	if f[0] == "flood" {
		return r.flood(idx, op, f)
	}
	in, ok := parseSiteOp(op)
	if !ok {
		return "bad-op"
	}
	want := siteExpected(in.proc, in.form, in.items, in.raw, in.rawNil)
	vn := r.w.vn
	// a fresh sender: own peer id (rotating), own IP(s); every third sender is connected from two addresses
	r.sent++
	if r.sent%40 == 0 {
		vn.RLTick() // a new rate limiter window now and then: this family is about well-formed RATES
	}
	pid := sitePeers[idx%48]
	ips := []string{fmt.Sprintf("10.18.%d.%d", idx/250, 1+idx%250)}
	addrs := []ma.Multiaddr{ma.StringCast("/ip4/" + ips[0] + "/tcp/4001")}
	if idx%3 == 0 {
		ips = append(ips, fmt.Sprintf("2001:db8:18::%x", idx+1))
		addrs = append(addrs, ma.StringCast("/ip6/"+ips[1]+"/udp/4001/quic-v1"))
	}
	_ = vn.PeerDisconnect(pid)
	vn.TakeClosed()
	for _, a := range addrs {
		vn.AddConn(pid, a)
	}
	env := reqEnvelope(fmt.Sprintf("c18-site-%d", idx), siteProcs[in.proc], r.w.payload(in))
	vn.OnRequest(pid, addrs[0], env)
	closed := false
	for _, p := range vn.TakeClosed() {
		closed = closed || p == pid
	}
	stillConn := false
	for _, c := range vn.ConnList() {
		stillConn = stillConn || c.Peer == pid
	}
	type ipState struct {
		score  int
		banned bool
		gates  []string // gates that ALLOW the address
	}
	var st []ipState
	for i, ip := range ips {
		s, exp, there := vn.Score(ip)
		is := ipState{score: s, banned: there && exp != -1}
		fam := "/ip4/"
		if i == 1 {
			fam = "/ip6/"
		}
		for _, tr := range []string{"/tcp/4001", "/udp/4001/quic-v1", ""} {
			m := ma.StringCast(fam + ip + tr)
			if vn.InterceptAddrDial(pid, m) {
				is.gates = append(is.gates, "addrdial"+tr)
			}
			if vn.InterceptAccept(m) {
				is.gates = append(is.gates, "accept"+tr)
			}
			if vn.InterceptSecured(true, pid, m) {
				is.gates = append(is.gates, "secured-in"+tr)
			}
		}
		st = append(st, is)
	}
	fail := func(sig, format string, a ...any) {
		r.fails = append(r.fails, corr.Fail{Sig: sig, Detail: fmt.Sprintf("%s: %s: ", op, in.describe()) + fmt.Sprintf(format, a...), Op: idx})
	}
	name := siteProcs[in.proc]
	switch want {
	case siteBan:
		if !st[0].banned || st[0].score < p2p.VerifMaxPenaltyScore {
			fail("c18-site-invalid-request-not-penalised:"+name, "the request violates its schema (table verdict BAN), but the sender's IP %s has score %d, banned=%v, ClosePeer called=%v, still connected=%v, gates allowing it %v", ips[0], st[0].score, st[0].banned, closed, stillConn, st[0].gates)
			break
		}
		for i, is := range st {
			if !is.banned || is.score < p2p.VerifMaxPenaltyScore {
				fail("c18-site-ban-misses-address:"+name, "the sender is connected from %v; address %s has score %d banned=%v", ips, ips[i], is.score, is.banned)
			} else if len(is.gates) > 0 {
				fail("gate-allows-banned-or-blacklisted:site:"+name, "banned IP %s is still allowed by %v", ips[i], is.gates)
			}
		}
		if !closed || stillConn {
			fail("ban-without-disconnect:site:"+name, "ClosePeer called=%v, still connected=%v", closed, stillConn)
		}
	case siteNone:
		for i, is := range st {
			if is.score != 0 || is.banned || len(is.gates) != 9 {
				fail("c18-site-valid-request-penalised:"+name, "well-formed request (table verdict NONE), but address %s has score %d banned=%v, allowed by %d of 9 gate probes", ips[i], is.score, is.banned, len(is.gates))
			}
		}
		if closed || !stillConn {
			fail("legal-traffic-disconnected:site:"+name, "ClosePeer called=%v, still connected=%v", closed, stillConn)
		}
	}
	res := "none"
	if st[0].banned {
		res = "ban"
	}
	return fmt.Sprintf("%s want=%s closed=%v conn=%v score=%d", res, want, closed, stillConn, st[0].score)
}

// flood: n well-formed requests of one procedure from one fresh peer inside one rate limiter window, through the
// real onRequest and the engine's handler. The handlers are registered without WithRPCMessageCounter, i.e. with
// the package defaults (limit L = 100 per window, penalty P = 10): c messages in one window cost floor(c/(L+1))
// penalties (the counter restarts after a penalty), the IP is banned once the sum reaches 100.
func (r *siteRunner) flood(idx int, op string, f []string) string {
	if len(f) != 3 {
		return "bad-op"
	}
	name, known := siteProcs[f[1]]
	n, err := strconv.Atoi(f[2])
	if !known || err != nil || n < 0 || n > 5000 {
		return "bad-op"
	}
	vn := r.w.vn
	vn.RLTick()
	pid := sitePeers[48+idx%15]
	ip := fmt.Sprintf("10.17.%d.%d", idx/250, 1+idx%250)
	addr := ma.StringCast("/ip4/" + ip + "/tcp/4001")
	_ = vn.PeerDisconnect(pid)
	vn.TakeClosed()
	vn.AddConn(pid, addr)
	var payload []byte
	switch f[1] {
	case "ghcb":
		payload = fld(1, r.w.blocks[1])
	case "gbfi":
		payload = fld(1, r.w.blocks[1])
	}
	L, P := p2p.VerifDefaultRateLimit, p2p.VerifDefaultRatePenalty
	want := 0
	sent := 0
	for i := 0; i < n; i++ {
		if want >= p2p.VerifMaxPenaltyScore {
			break // banned and disconnected: the peer cannot send any more
		}
		vn.OnRequest(pid, addr, reqEnvelope(fmt.Sprintf("c18-flood-%d-%d", idx, i), name, payload))
		sent++
		if sent%(L+1) == 0 {
			want += P
		}
	}
	score, exp, there := vn.Score(ip)
	banned := there && exp != -1
	closed := false
	for _, p := range vn.TakeClosed() {
		closed = closed || p == pid
	}
	fail := func(sig, format string, a ...any) {
		r.fails = append(r.fails, corr.Fail{Sig: sig, Detail: fmt.Sprintf("%s: %d well-formed %s requests of one peer in one window (limit %d, penalty %d): ", op, sent, name, L, P) + fmt.Sprintf(format, a...), Op: idx})
	}
	switch {
	case score < want:
		fail("excess-not-penalised:site:"+name, "score %d, want %d", score, want)
	case score > want:
		fail("legal-traffic-penalised:site:"+name, "score %d, want %d", score, want)
	case banned != (want >= p2p.VerifMaxPenaltyScore):
		fail("ban-iff-threshold:site:"+name, "score %d banned=%v", score, banned)
	case banned && (!closed || vn.InterceptAccept(addr) || vn.InterceptAddrDial(pid, addr) || vn.InterceptSecured(true, pid, addr)):
		fail("ban-without-disconnect:site:"+name, "banned by rate, ClosePeer called=%v, accept=%v", closed, vn.InterceptAccept(addr))
	}
	vn.RLTick()
	return fmt.Sprintf("flood sent=%d score=%d banned=%v", sent, score, banned)
}

func (sitesProp) RunImpl(c corr.Case) ([]string, []corr.Fail) {
	r := &siteRunner{}
	out := make([]string, 0, len(c.Ops))
	for i, op := range c.Ops {
		func() {
			defer func() {
				if e := recover(); e != nil {
					out = append(out, "panic")
					r.fails = append(r.fails, corr.Fail{Sig: "c18-panic", Detail: fmt.Sprintf("%s: %v", op, e), Op: i})
				}
			}()
			out = append(out, r.step(i, op))
		}()
	}
	if r.w != nil {
		r.w.close()
	}
	return out, r.fails
}

func (sitesProp) Classify(c corr.Case, out []string) string {
	k := map[string]bool{}
	for _, o := range out {
		switch {
		case strings.HasPrefix(o, "ban want=B"):
			k["invalid-banned"] = true
		case strings.HasPrefix(o, "none want=N"):
			k["valid-served"] = true
		case strings.Contains(o, "want=U"):
			k["open"] = true
		case strings.HasPrefix(o, "flood") && strings.HasSuffix(o, "banned=true"):
			k["rate-banned"] = true
		case strings.HasPrefix(o, "flood"):
			k["rate"] = true
		}
	}
	var l []string
	for _, n := range []string{"invalid-banned", "valid-served", "open", "rate", "rate-banned"} {
		if k[n] {
			l = append(l, n)
		}
	}
	return strings.Join(l, "+")
}

// ---------------------------------------------------------------------------------------------
// Extra: two real hosts

type siteLoop struct {
	op       string
	restarts int // Stop()+Start() cycles of the responder before the sender connects
}

func (sitesProp) Extra(rng *rand.Rand, tier string) corr.ExtraResult {
	res := corr.ExtraResult{Notes: map[string]any{}}
	scens := []siteLoop{
		{"site ghcb ids b31,k1,k2", 0},
		{"site ghcb ids b33", 0},
		{"site ghcb ids k1,b0,k2", 0},
		{"site ghcb ids k1,k2,u1", 0},
		{"site gbfi id b31", 0},
		{"site gbfi id k2", 0},
		{"site ghcb ids b0,k1", 1},
		{"site ghcb raw nil", 1},
		{"site ghcb ids k3,k1", 1},
	}
	if tier == "thorough" {
		for n := 1; n <= 3; n++ {
			for pos := 0; pos < n; pos++ {
				for _, bl := range []int{0, 31, 33} {
					scens = append(scens, siteLoop{"site ghcb ids " + idList(n, map[int]string{pos: fmt.Sprintf("b%d", bl)}), (n + pos) % 3})
				}
			}
		}
		for _, s := range siteRawShapes {
			scens = append(scens, siteLoop{"site ghcb raw " + hex.EncodeToString(s), 0}, siteLoop{"site gbfi raw " + hex.EncodeToString(s), 1})
		}
	}
	var mu sync.Mutex
	var wg sync.WaitGroup
	sem := make(chan struct{}, 4)
	for i, sc := range scens {
		wg.Add(1)
		sem <- struct{}{}
		go func(i int, sc siteLoop) {
			defer wg.Done()
			defer func() { <-sem }()
			note, fails := siteLoopback(int64(100+i), sc)
			mu.Lock()
			res.Evaluations++
			res.Fails = append(res.Fails, fails...)
			if len(res.Samples) < 6 {
				res.Samples = append(res.Samples, note)
			}
			mu.Unlock()
		}(i, sc)
	}
	wg.Wait()
	res.Notes["scenarios"] = len(scens)
	return res
}

func siteLoopback(seed int64, sc siteLoop) (note string, fails []corr.Fail) {
	fail := func(sig, format string, a ...any) {
		fails = append(fails, corr.Fail{Sig: sig, Detail: fmt.Sprintf("real hosts on loopback, responder restarted %d time(s), %s: ", sc.restarts, sc.op) + fmt.Sprintf(format, a...), Op: -1})
	}
	defer func() {
		if e := recover(); e != nil {
			fail("c18-panic", "%v", e)
		}
	}()
	in, ok := parseSiteOp(sc.op)
	if !ok {
		fail("c18-site-setup", "bad scenario")
		return
	}
	want := siteExpected(in.proc, in.form, in.items, in.raw, in.rawNil)
	w, err := newSiteWorld(seed)
	if err != nil {
		fail("c18-site-setup", "%v", err)
		return
	}
	defer w.n.Close()
	server := w.n.Conn
	server.VerifC19SetListen([]string{"/ip4/127.0.0.1/tcp/0"})
	server.VerifC19SetTimeout(300 * time.Millisecond)
	if err := server.Start([]byte{}); err != nil {
		fail("c18-site-setup", "responder start: %v", err)
		return
	}
	defer func() { _ = server.Stop() }()
	for i := 0; i < sc.restarts; i++ {
		if err := server.Stop(); err != nil {
			fail("c18-site-setup", "responder stop: %v", err)
			return
		}
		if err := server.Start([]byte{}); err != nil {
			fail("c18-site-setup", "responder restart: %v", err)
			return
		}
	}
	client := p2p.NewConnection(node.NopLogger(), &p2p.Config{Addresses: []string{"/ip4/127.0.0.1/tcp/0"}, ChainID: w.n.Cfg.ChainID})
	client.VerifC19SetTimeout(300 * time.Millisecond)
	for _, name := range siteProcs {
		// a response is only accepted for a procedure the receiver has registered itself
		if err := client.RegisterRPCHandler(name, func(p2p.ResponseWriter, *p2p.Request) {}); err != nil {
			fail("c18-site-setup", "sender register: %v", err)
			return
		}
	}
	if err := client.Start([]byte{}); err != nil {
		fail("c18-site-setup", "sender start: %v", err)
		return
	}
	defer func() { _ = client.Stop() }()
	ctx := context.Background()
	sa, err := server.MultiAddress()
	if err != nil || len(sa) == 0 {
		fail("c18-site-setup", "responder address: %v", err)
		return
	}
	sInfo, _ := p2p.AddrInfoFromMultiAddr(sa[0])
	ca, _ := client.MultiAddress()
	cInfo, _ := p2p.AddrInfoFromMultiAddr(ca[0])
	if err := client.Connect(ctx, *sInfo); err != nil {
		fail("c18-site-setup", "connect: %v", err)
		return
	}
	waitFor := func(cond func() bool, d time.Duration) bool {
		for deadline := time.Now().Add(d); time.Now().Before(deadline); time.Sleep(5 * time.Millisecond) {
			if cond() {
				return true
			}
		}
		return cond()
	}
	serverSees := func() bool {
		for _, p := range server.ConnectedPeers() {
			if p == client.ID() {
				return true
			}
		}
		return false
	}
	if !waitFor(serverSees, 5*time.Second) {
		fail("c18-site-setup", "the two hosts did not get connected")
		return
	}
	rctx, cancel := context.WithTimeout(ctx, time.Second)
	resp := client.RequestFrom(rctx, server.ID(), siteProcs[in.proc], w.payload(in))
	cancel()
	banned := func() bool { return len(server.VerifC19BannedIPs()) > 0 }
	name := siteProcs[in.proc]
	switch want {
	case siteBan:
		waitFor(banned, 2*time.Second)
		if !banned() {
			fail("c18-site-invalid-request-not-penalised:"+name, "%s: table verdict BAN, but the responder's gater has banned nobody (response error: %v, %d response bytes, sender still connected=%v)", in.describe(), resp.Error(), len(resp.Data()), serverSees())
			break
		}
		if !waitFor(func() bool { return !serverSees() }, 2*time.Second) {
			fail("ban-without-disconnect:site:"+name, "%s: banned %v but the sender is still connected", in.describe(), server.VerifC19BannedIPs())
		}
		_ = server.Disconnect(client.ID())
		_ = client.Disconnect(server.ID())
		waitFor(func() bool { return !serverSees() }, time.Second)
		if server.Connect(ctx, *cInfo) == nil {
			fail("banned-ip-connection-accepted:site:"+name, "%s: the responder could dial the banned sender", in.describe())
		}
		if client.Connect(ctx, *sInfo) == nil && waitFor(serverSees, 300*time.Millisecond) {
			fail("banned-ip-connection-accepted:site:"+name, "%s: the banned sender could connect again", in.describe())
		}
	case siteNone:
		time.Sleep(100 * time.Millisecond)
		if banned() || !serverSees() {
			fail("c18-site-valid-request-penalised:"+name, "%s: table verdict NONE, but banned=%v connected=%v", in.describe(), server.VerifC19BannedIPs(), serverSees())
		}
		if resp.Error() != nil && in.proc != "gbfi" {
			fail("c18-site-valid-request-not-served:"+name, "%s: %v", in.describe(), resp.Error())
		}
	}
	return fmt.Sprintf("loopback %s (responder restarted %d): want=%s banned=%v", sc.op, sc.restarts, want, banned()), fails
}
