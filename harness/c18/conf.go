package c18

// Pseudo-property C18CONF (model free, run as part of C18 through `also`): CONFIGURATION conflicts and aliasing.
//
// Clause of C18: "every inbound and outbound connection attempt involving ... a permanently blacklisted IP is
// refused", quantified over all blacklist configurations. The blacklist is one list of the p2p configuration next
// to the seed peers, the fixed peers and the listen addresses, and the same IP may legitimately (or by mistake)
// appear in several of them. Whatever ELSE an IP is listed as, and wherever in the blacklist it stands:
//
//	(1) every blacklisted IP is refused by InterceptAddrDial, InterceptAccept and InterceptSecured(inbound) of the
//	    gater of the RUNNING Peer, in every textual / multiaddr form (IPv4, IPv6, IPv4-mapped IPv6, with and
//	    without /p2p, TCP and QUIC), after the first Start and after every Stop()+Start() of the same Connection;
//	    every IP that is not blacklisted is allowed; the block list of the gater is exactly the blacklist;
//	(2) the Config object handed to NewConnection is left exactly as it was by Start and Stop: every list element
//	    by element INCLUDING its spare capacity (an in-place filter or an append on a configuration list writes into
//	    the caller's array although the length of the caller's slice does not change);
//	(3) a Start that fails (an entry net.ParseIP rejects, a seed peer without /p2p) leaves the Config unchanged too;
//	(4) between two REAL Connections on 127.0.0.1: a victim that blacklists 127.0.0.1 and ALSO lists the remote
//	    peer as seed and / or fixed peer neither dials it (its own bootstrap included) nor accepts it.
//
// Reference (independent of the package): the set of canonical IPs (net.IP.To4 / To16) of the blacklist.
// Directed cases: conflict IP of every family x position in the blacklist (only / first / middle / last) x role
// (seed / fixed / both), 0 and 1 restart; plus random configurations over a small pool of IPs so that overlaps
// between all four lists, duplicates and different spellings of one IP are frequent.
//
// Signatures: `c18-conf-blacklisted-ip-allowed:<also listed as>`, `c18-conf-unlisted-ip-refused`,
// `c18-conf-blocklist-differs`, `c18-conf-config-mutated:<list>`, `c18-conf-start-verdict`,
// `c18-conf-blacklisted-peer-connected:<direction>`, `c18-conf-unlisted-peer-refused`.

import (
	"fmt"
	"math/rand"
	"net"
	"sort"
	"strconv"
	"strings"
	"time"

	"github.com/LiskHQ/lisk-engine/pkg/p2p"

	"verifharness/corr"
)

type confProp struct{}

func init() { corr.Register(confProp{}) }

func (confProp) ID() string    { return "C18CONF" }
func (confProp) NoModel() bool { return true }
func (confProp) Parallel() int { return 6 }

func (confProp) CaseTimeout() time.Duration { return 120 * time.Second }

// ---------------------------------------------------------------------------------------------
// IP pool: canonical IP -> spellings net.ParseIP accepts

type confIP struct {
	fam       string   // 4 | 6
	canon     string   // the spelling used inside multiaddrs
	spellings []string // blacklist spellings (all parse to the same IP)
	local     bool     // an address of this machine's loopback interface: a dial is answered at once (refused)
}

// Only loopback addresses are ever DIALLED by a correct node in these configurations: an address outside
// 127.0.0.0/8 and ::1 (documentation prefix 2001:db8::/32) is listed as seed / fixed peer only when the same
// configuration blacklists it, so the gater refuses the dial before a packet leaves the machine.

var confPool = []confIP{
	{"4", "127.9.1.1", []string{"127.9.1.1", "::ffff:127.9.1.1", "::ffff:7f09:101"}, true},
	{"4", "127.9.1.2", []string{"127.9.1.2", "::ffff:127.9.1.2"}, true},
	{"4", "127.9.2.7", []string{"127.9.2.7"}, true},
	{"4", "127.200.0.9", []string{"127.200.0.9", "::ffff:127.200.0.9"}, true},
	{"6", "2001:db8::7", []string{"2001:db8::7", "2001:0db8:0000:0000:0000:0000:0000:0007", "2001:DB8::7"}, false},
	{"6", "2001:db8:0:1::9", []string{"2001:db8:0:1::9", "2001:db8:0:1:0:0:0:9"}, false},
	{"6", "2001:db8:5::5", []string{"2001:db8:5::5"}, false},
	{"6", "::1", []string{"::1", "0:0:0:0:0:0:0:1"}, true},
}

const confNeutral4, confNeutral6 = "127.77.7.7", "2001:db8:ffff::77"

func confKey(text string) string {
	ip := net.ParseIP(text)
	if ip == nil {
		return ""
	}
	return ipHex(ip)
}

// peerAddr: the multiaddr of a seed / fixed peer at ip (form m = IPv4-mapped /ip6 spelling of an IPv4 address).
func peerAddr(ip string, mapped bool, k int) string {
	id := peerIDs[k%nPeers].String()
	switch {
	case strings.Contains(ip, ":"):
		return "/ip6/" + ip + "/tcp/4001/p2p/" + id
	case mapped:
		return "/ip6/::ffff:" + ip + "/tcp/4001/p2p/" + id
	}
	return "/ip4/" + ip + "/tcp/4001/p2p/" + id
}

// probeAddrs: the forms under which a remote at ip can show up at the gates.
func probeAddrs(ip string) []string {
	id := peerIDs[3].String()
	if strings.Contains(ip, ":") {
		return []string{"/ip6/" + ip + "/tcp/4001", "/ip6/" + ip + "/udp/4001/quic-v1", "/ip6/" + ip + "/tcp/5000/p2p/" + id}
	}
	return []string{"/ip4/" + ip + "/tcp/4001", "/ip4/" + ip + "/udp/4001/quic-v1", "/ip4/" + ip + "/tcp/5000/p2p/" + id, "/ip6/::ffff:" + ip + "/tcp/4001"}
}

// ---------------------------------------------------------------------------------------------
// ops
//
//	conf bl=<ip,...|-> seed=<ip[~]#k,...|-> fixed=<...> listen=<ip,...> cycles=<n>     (ip~ = IPv4-mapped multiaddr form)
//	dial bl=<ip,...|-> seed=<R|ip#k,...|-> fixed=<...> cycles=<n>                      (R = the real remote peer on 127.0.0.1)

type confOp struct {
	kind                    string
	bl, seed, fixed, listen []string
	cycles                  int
}

func splitList(s string) []string {
	if s == "-" || s == "" {
		return nil
	}
	return strings.Split(s, ",")
}

func parseConfOp(op string) (*confOp, bool) {
	f := strings.Fields(op)
	if len(f) < 2 || (f[0] != "conf" && f[0] != "dial") {
		return nil, false
	}
	c := &confOp{kind: f[0], listen: []string{"127.0.0.1"}}
	for _, kv := range f[1:] {
		p := strings.SplitN(kv, "=", 2)
		if len(p) != 2 {
			return nil, false
		}
		switch p[0] {
		case "bl":
			c.bl = splitList(p[1])
		case "seed":
			c.seed = splitList(p[1])
		case "fixed":
			c.fixed = splitList(p[1])
		case "listen":
			c.listen = splitList(p[1])
		case "cycles":
			n, err := strconv.Atoi(p[1])
			if err != nil || n < 0 || n > 4 {
				return nil, false
			}
			c.cycles = n
		default:
			return nil, false
		}
	}
	return c, true
}

// peerEntry: `ip#k`, `ip~#k` (mapped form), `R` (dial scenarios), `bad` (a multiaddr without /p2p)
func peerEntry(tok string) (addr, ip string, ok bool) {
	switch tok {
	case "R":
		return "{remote}", "127.0.0.1", true
	case "bad":
		return "/ip4/127.9.1.1/tcp/4001", "", false
	}
	p := strings.SplitN(tok, "#", 2)
	k := 0
	if len(p) == 2 {
		k, _ = strconv.Atoi(p[1])
	}
	mapped := strings.HasSuffix(p[0], "~")
	ip = strings.TrimSuffix(p[0], "~")
	return peerAddr(ip, mapped, k), ip, true
}

type confRef struct {
	valid   bool
	blocked map[string]bool   // canonical keys of the blacklist
	roles   map[string]string // canonical key -> what else the IP is listed as
	ips     []string          // every IP of the configuration (spelling for probes) + neutral ones
	seeds   []string
	fixed   []string
	listen  []string
}

func (c *confOp) reference() confRef {
	r := confRef{valid: true, blocked: map[string]bool{}, roles: map[string]string{}}
	seen := map[string]bool{}
	note := func(ip string) {
		if k := confKey(ip); k != "" && !seen[k] {
			seen[k] = true
			r.ips = append(r.ips, net.ParseIP(ip).String())
		}
	}
	role := func(ip, what string) {
		k := confKey(ip)
		if k == "" {
			return
		}
		if !strings.Contains(r.roles[k], what) {
			if r.roles[k] != "" {
				r.roles[k] += "+"
			}
			r.roles[k] += what
		}
	}
	for _, b := range c.bl {
		k := confKey(b)
		if k == "" {
			r.valid = false
			continue
		}
		r.blocked[k] = true
		note(b)
	}
	for _, t := range c.seed {
		a, ip, ok := peerEntry(t)
		r.valid = r.valid && ok
		r.seeds = append(r.seeds, a)
		note(ip)
		role(ip, "seed")
	}
	for _, t := range c.fixed {
		a, ip, ok := peerEntry(t)
		r.valid = r.valid && ok
		r.fixed = append(r.fixed, a)
		note(ip)
		role(ip, "fixed")
	}
	for _, l := range c.listen {
		r.listen = append(r.listen, "/ip4/"+l+"/tcp/0")
		note(l)
		role(l, "listen")
	}
	note(confNeutral4)
	note(confNeutral6)
	return r
}

func (r confRef) roleOf(key string) string {
	if s := r.roles[key]; s != "" {
		return s
	}
	return "plain"
}

func imageDiff(want, got p2p.VerifC18ConfImage) (list string, detail string) {
	cmp := func(name string, a, b []string) bool {
		if len(a) == len(b) {
			same := true
			for i := range a {
				same = same && a[i] == b[i]
			}
			if same {
				return false
			}
		}
		list, detail = name, fmt.Sprintf("%s (with its spare capacity) was %q and is now %q", name, a, b)
		return true
	}
	switch {
	case cmp("BlacklistedIPs", want.BlacklistedIPs, got.BlacklistedIPs):
	case cmp("SeedPeers", want.SeedPeers, got.SeedPeers):
	case cmp("FixedPeers", want.FixedPeers, got.FixedPeers):
	case cmp("Addresses", want.Addresses, got.Addresses):
	case want.Lens != got.Lens:
		list, detail = "lengths", fmt.Sprintf("list lengths were %v and are now %v", want.Lens, got.Lens)
	case want.Rest != got.Rest:
		list, detail = "scalars", fmt.Sprintf("scalar fields were %s and are now %s", want.Rest, got.Rest)
	}
	return
}

type confRunner struct {
	idx   int
	fails []corr.Fail
	seen  map[string]bool
}

func (r *confRunner) fail(sig, detail string) {
	if r.seen == nil {
		r.seen = map[string]bool{}
	}
	if r.seen[sig] {
		return
	}
	r.seen[sig] = true
	r.fails = append(r.fails, corr.Fail{Sig: sig, Detail: detail, Op: r.idx})
}

func (c *confOp) describe(ref confRef) string {
	return fmt.Sprintf("Config{BlacklistedIPs: %q, SeedPeers: %q, FixedPeers: %q, Addresses: %q}", c.bl, ref.seeds, ref.fixed, ref.listen)
}

func (r *confRunner) checkBlocked(where, desc string, ref confRef, blocked []string) {
	got := map[string]bool{}
	for _, b := range blocked {
		got[confKey(b)] = true
	}
	same := len(got) == len(ref.blocked)
	for k := range ref.blocked {
		same = same && got[k]
	}
	if !same {
		var want []string
		for k := range ref.blocked {
			want = append(want, keyToIPString(k))
		}
		sort.Strings(want)
		r.fail("c18-conf-blocklist-differs", fmt.Sprintf("%s, %s: the block list of the gater of the running Peer is %v, the configured blacklist is %v", desc, where, blocked, want))
	}
}

func (r *confRunner) runConf(c *confOp) string {
	ref := c.reference()
	desc := c.describe(ref)
	var probes, probeIP []string
	for _, ip := range ref.ips {
		for _, a := range probeAddrs(ip) {
			probes = append(probes, a)
			probeIP = append(probeIP, ip)
		}
	}
	res := p2p.VerifC18ConfScenario(p2p.VerifC18ConfSpec{Addresses: ref.listen, SeedPeers: ref.seeds, FixedPeers: ref.fixed,
		BlacklistedIPs: c.bl, Cycles: c.cycles, Probes: probes})
	// NewConnection inserts the documented defaults into the scalar fields (insertDefault); the lists were given
	// non-nil and must be untouched. From here on nothing may change.
	base := res.Given
	base.Rest = res.AfterNew.Rest
	if l, d := imageDiff(base, res.AfterNew); l != "" {
		r.fail("c18-conf-config-mutated:"+l, desc+": NewConnection changed the caller's configuration: "+d)
	}
	out := "ok"
	for i, run := range res.Runs {
		where := "after the first Start()"
		if i > 0 {
			where = fmt.Sprintf("after %d Stop()+Start() cycle(s)", i)
		}
		if (run.StartErr == "") != ref.valid {
			r.fail("c18-conf-start-verdict", fmt.Sprintf("%s, %s: Start returned %q, the configuration is valid: %v", desc, where, run.StartErr, ref.valid))
		}
		if l, d := imageDiff(base, run.AfterStart); l != "" {
			r.fail("c18-conf-config-mutated:"+l, fmt.Sprintf("%s: Start() changed the caller's configuration object (%s): %s", desc, where, d))
			out = "mutated"
		}
		if l, d := imageDiff(base, run.AfterStop); l != "" {
			r.fail("c18-conf-config-mutated:"+l, fmt.Sprintf("%s: the caller's configuration object is changed after Stop() (%s): %s", desc, where, d))
			out = "mutated"
		}
		if run.StartErr != "" {
			return "start-error"
		}
		if run.StopErr != "" {
			r.fail("c18-conf-harness", desc+": Stop: "+run.StopErr)
			return "stop-error"
		}
		r.checkBlocked(where, desc, ref, run.Blocked)
		for j, a := range probes {
			key := confKey(probeIP[j])
			var allow, refuse []string
			for _, g := range []struct {
				name string
				ok   bool
			}{{"InterceptAddrDial", run.Dial[j]}, {"InterceptAccept", run.Accept[j]}, {"InterceptSecured(inbound)", run.Secured[j]}} {
				if g.ok {
					allow = append(allow, g.name)
				} else {
					refuse = append(refuse, g.name)
				}
			}
			switch {
			case ref.blocked[key] && len(allow) > 0:
				r.fail("c18-conf-blacklisted-ip-allowed:"+ref.roleOf(key),
					fmt.Sprintf("%s, %s: %s is permanently blacklisted (also listed as: %s) but %s of the running gater allow(s) %s (block list of the gater: %v)", desc, where, probeIP[j], ref.roleOf(key), strings.Join(allow, ", "), a, run.Blocked))
				out = "allowed"
			case !ref.blocked[key] && len(refuse) > 0:
				r.fail("c18-conf-unlisted-ip-refused", fmt.Sprintf("%s, %s: %s is not blacklisted and not banned but %s refuse(s) %s", desc, where, probeIP[j], strings.Join(refuse, ", "), a))
			}
		}
	}
	if ref.valid && len(res.Runs) != c.cycles+1 {
		r.fail("c18-conf-harness", fmt.Sprintf("%s: %d runs instead of %d", desc, len(res.Runs), c.cycles+1))
	}
	return out
}

func (r *confRunner) runDial(c *confOp) string {
	ref := c.reference()
	desc := c.describe(ref) + " against a real remote peer {remote} on 127.0.0.1"
	var res p2p.VerifC18ConfDialResult
	for attempt := 0; attempt < 2; attempt++ {
		res = p2p.VerifC18ConfDial(c.bl, ref.seeds, ref.fixed, c.cycles, 150*time.Millisecond)
		if res.Err == "" {
			break
		}
	}
	if res.Err != "" || res.Cycles != c.cycles {
		r.fail("c18-conf-harness", fmt.Sprintf("%s: %+v", desc, res))
		return "harness-error"
	}
	where := fmt.Sprintf("after %d Stop()+Start() cycle(s)", c.cycles)
	r.checkBlocked(where, desc, ref, res.Blocked)
	want := append(append([]string{}, c.bl...), p2p.VerifC18Spare, p2p.VerifC18Spare)
	if strings.Join(want, "|") != strings.Join(res.Image.BlacklistedIPs, "|") {
		r.fail("c18-conf-config-mutated:BlacklistedIPs", fmt.Sprintf("%s: Start() changed the caller's configuration object (%s): BlacklistedIPs (with its spare capacity) was %q and is now %q", desc, where, want, res.Image.BlacklistedIPs))
	}
	key := confKey("127.0.0.1")
	if ref.blocked[key] {
		out := "refused"
		if !res.OutboundFailed {
			r.fail("c18-conf-blacklisted-peer-connected:outbound", fmt.Sprintf("%s, %s: 127.0.0.1 is permanently blacklisted (also listed as: %s) but the victim dialled the remote successfully: %+v", desc, where, ref.roleOf(key), res))
			out = "connected"
		}
		if !res.InboundFailed || res.VictimConns > 0 {
			r.fail("c18-conf-blacklisted-peer-connected:inbound", fmt.Sprintf("%s, %s: 127.0.0.1 is permanently blacklisted (also listed as: %s) but the victim has %d connection(s) with the remote: %+v", desc, where, ref.roleOf(key), res.VictimConns, res))
			out = "connected"
		}
		return out
	}
	if res.OutboundFailed || res.VictimConns == 0 {
		r.fail("c18-conf-unlisted-peer-refused", fmt.Sprintf("%s, %s: 127.0.0.1 is not blacklisted but no connection could be made: %+v", desc, where, res))
		return "refused"
	}
	return "connected"
}

func (confProp) RunImpl(c corr.Case) ([]string, []corr.Fail) {
	r := &confRunner{}
	var outs []string
	for i, s := range c.Ops {
		r.idx = i
		if strings.HasPrefix(s, "reset") {
			outs = append(outs, "ok")
			continue
		}
		op, ok := parseConfOp(s)
		switch {
		case !ok:
			outs = append(outs, "bad-op")
		case op.kind == "conf":
			outs = append(outs, r.runConf(op))
		default:
			outs = append(outs, r.runDial(op))
		}
	}
	return outs, r.fails
}

func (confProp) Classify(c corr.Case, out []string) string {
	if len(c.Ops) < 2 || len(out) < 2 {
		return ""
	}
	op, ok := parseConfOp(c.Ops[1])
	if !ok {
		return ""
	}
	ref := op.reference()
	conflict := "no-conflict"
	for k := range ref.blocked {
		if ref.roles[k] != "" {
			conflict = "conflict"
		}
	}
	if len(ref.blocked) == 0 {
		conflict = "no-blacklist"
	}
	return fmt.Sprintf("%s:%s:cycles%d:%s", op.kind, conflict, op.cycles, out[len(out)-1])
}

// ---------------------------------------------------------------------------------------------
// generation

func joinList(l []string) string {
	if len(l) == 0 {
		return "-"
	}
	return strings.Join(l, ",")
}

func (confProp) Generate(rng *rand.Rand, tier string) []corr.Case {
	thorough := tier == "thorough"
	var cases []corr.Case
	seen := map[string]bool{}
	add := func(tag, op string) {
		if !seen[op] {
			seen[op] = true
			cases = append(cases, corr.Case{Ops: []string{"reset", op}, Tag: tag})
		}
	}
	spell := func(p confIP) string { return p.spellings[rng.Intn(len(p.spellings))] }
	others := func(not confIP, n int) []string {
		var l []string
		for len(l) < n {
			p := confPool[rng.Intn(len(confPool))]
			if p.canon != not.canon {
				l = append(l, spell(p))
			}
		}
		return l
	}
	place := func(pos string, c string, o []string) []string {
		switch pos {
		case "only":
			return []string{c}
		case "first":
			return append([]string{c}, o...)
		case "last":
			return append(append([]string{}, o...), c)
		}
		return append([]string{o[0], c}, o[1:]...)
	}
	// directed: family x position x role
	type famCase struct {
		ip     confIP
		bl     string // spelling in the blacklist
		mapped bool   // seed / fixed peer in IPv4-mapped multiaddr form
	}
	fams := []famCase{
		{confPool[0], "127.9.1.1", false},
		{confPool[4], "2001:db8::7", false},
		{confPool[0], "::ffff:127.9.1.1", true},
	}
	if thorough {
		fams = append(fams, famCase{confPool[3], "127.200.0.9", false}, famCase{confPool[5], "2001:db8:0:1:0:0:0:9", false},
			famCase{confPool[0], "::ffff:127.9.1.1", false}, famCase{confPool[1], "127.9.1.2", true}, famCase{confPool[7], "::1", false})
	}
	n := 0
	for _, fc := range fams {
		for _, pos := range []string{"only", "first", "middle", "last"} {
			for _, role := range []string{"seed", "fixed", "both"} {
				n++
				cyc := []int{0, 1, 2}
				if !thorough {
					cyc = []int{n % 2}
					if pos == "first" && role == "seed" {
						cyc = []int{0, 1}
					}
				}
				tok := fc.ip.canon
				if fc.mapped {
					tok += "~"
				}
				for _, cy := range cyc {
					bl := place(pos, fc.bl, others(fc.ip, 2))
					seed, fixed := "-", "-"
					other := confPool[(n+1)%4].canon // a loopback address that is not blacklisted in this configuration
					inBl := func(ip string) bool {
						for _, b := range bl {
							if confKey(b) == confKey(ip) {
								return true
							}
						}
						return false
					}
					for j := 2; inBl(other); j++ {
						other = []string{"127.9.9.1", "127.9.9.2", "127.9.9.3"}[j%3]
					}
					switch role {
					case "seed":
						seed, fixed = fmt.Sprintf("%s#%d", tok, n%5), fmt.Sprintf("%s#%d", other, (n+1)%5)
					case "fixed":
						fixed = fmt.Sprintf("%s#%d,%s#%d", other, (n+1)%5, tok, n%5)
					default:
						seed, fixed = fmt.Sprintf("%s#%d", tok, n%5), fmt.Sprintf("%s#%d", tok, n%5)
					}
					add("directed-"+pos, fmt.Sprintf("conf bl=%s seed=%s fixed=%s listen=127.0.0.1 cycles=%d", joinList(bl), seed, fixed, cy))
				}
			}
		}
	}
	// the listen address itself blacklisted / listed as seed peer; controls without conflict; failing Starts
	add("directed-listen", "conf bl=127.9.1.2,127.0.0.1,2001:db8:5::5 seed=127.0.0.1#1 fixed=- listen=127.0.0.1 cycles=1")
	add("directed-listen", "conf bl=127.9.1.1,127.9.2.7 seed=- fixed=127.9.1.1#2 listen=127.0.0.1,127.9.1.1 cycles=0")
	add("control", "conf bl=- seed=127.9.1.1#1 fixed=::1#2 listen=127.0.0.1 cycles=1")
	add("control", "conf bl=127.9.2.7,2001:db8:5::5 seed=127.9.1.1#1 fixed=::1#2,127.9.1.2~#3 listen=127.0.0.1 cycles=0")
	add("control", "conf bl=127.9.2.7,127.9.2.7,::ffff:127.9.2.7 seed=- fixed=- listen=127.0.0.1 cycles=0")
	add("invalid", "conf bl=127.9.1.1,not-an-ip,127.9.2.7 seed=127.9.1.1#1 fixed=- listen=127.0.0.1 cycles=0")
	add("invalid", "conf bl=127.9.1.1,127.9.2.7 seed=127.9.1.1#1,bad fixed=- listen=127.0.0.1 cycles=0")
	add("invalid", "conf bl=1.222.2222.12.12 seed=- fixed=127.9.1.1#1 listen=127.0.0.1 cycles=0")
	// random configurations
	nr := 24
	if thorough {
		nr = 2500
	}
	for i := 0; i < nr; i++ {
		var bl, seed, fixed []string
		for j, k := 0, rng.Intn(6); j < k; j++ {
			bl = append(bl, spell(confPool[rng.Intn(len(confPool))]))
		}
		blKeys := map[string]bool{}
		for _, b := range bl {
			blKeys[confKey(b)] = true
		}
		peers := func() []string {
			var l []string
			for j, k := 0, rng.Intn(4); j < k; j++ {
				p := confPool[rng.Intn(len(confPool))]
				if !p.local && !blKeys[confKey(p.canon)] {
					continue
				}
				t := p.canon
				if p.fam == "4" && rng.Intn(4) == 0 {
					t += "~"
				}
				l = append(l, fmt.Sprintf("%s#%d", t, rng.Intn(5)))
			}
			return l
		}
		seed, fixed = peers(), peers()
		listen := "127.0.0.1"
		if rng.Intn(4) == 0 {
			listen += "," + confPool[rng.Intn(3)].canon
		}
		add("random", fmt.Sprintf("conf bl=%s seed=%s fixed=%s listen=%s cycles=%d", joinList(bl), joinList(seed), joinList(fixed), listen, rng.Intn(3)))
	}
	// real peers on loopback
	dials := []string{
		"dial bl=127.0.0.1,127.9.2.7 seed=R fixed=- cycles=0",
		"dial bl=127.9.1.2,127.0.0.1,2001:db8:5::5 seed=- fixed=R cycles=0",
		"dial bl=127.0.0.1,2001:db8::7,127.9.2.7 seed=R fixed=R cycles=1",
		"dial bl=127.9.2.7,127.0.0.1 seed=R fixed=- cycles=0",
		"dial bl=::ffff:127.0.0.1,127.9.2.7 seed=127.9.1.1#1 fixed=R cycles=0",
		"dial bl=127.9.2.7,2001:db8:5::5 seed=R fixed=- cycles=0",
		"dial bl=- seed=- fixed=R cycles=1",
	}
	if thorough {
		for _, pos := range []string{"only", "first", "middle", "last"} {
			for _, role := range [][2]string{{"R", "-"}, {"-", "R"}, {"R", "R"}, {"-", "-"}} {
				for cy := 0; cy <= 2; cy++ {
					bl := place(pos, "127.0.0.1", others(confIP{canon: "127.0.0.1"}, 2))
					dials = append(dials, fmt.Sprintf("dial bl=%s seed=%s fixed=%s cycles=%d", joinList(bl), role[0], role[1], cy))
				}
			}
		}
	}
	for _, d := range dials {
		add("loopback", d)
	}
	return cases
}
