package c18

// Pseudo-property C18WIN (model free, run as part of C18 through `also`): the WINDOW semantics of the rate
// limiter over many windows, with the package's real rateLimiterHandler goroutine running on the wall clock.
//
// Clause of C18: "request rates above the limit lead to penalties; well-formed traffic within the limits
// never does". The limit is per rate-limiting window (rateLimit.interval; 10 s in production, 200 ms here):
// a peer that sends at most `limit` messages of a procedure in every window is never penalised, however
// many windows that goes on; limit+1 messages inside one window cost exactly one penalty (the counter
// restarts at 0 after a penalty, so c messages in one window cost floor(c/(limit+1)) penalties).
//
// The virtual-clock correspondence of C18 runs the handler for a single reset pass at a time (RLTick starts a
// fresh handler, waits for its first reset, stops it), so it cannot see what a long-running handler does in
// its second, third ... window. Here the handler is started once per case (hook VerifNode.RLRun =
// Connection.Start's `go rateLimiterHandler(...)` with a short interval) and stays up for the whole schedule.
//
// Robustness against scheduling: nothing is decided by sleeping. A sentinel key placed in the counter maps
// (hook RLMark / RLMarked) disappears with the handler's reset, so the harness OBSERVES window starts:
//   - step `w` (new window): mark, wait until the mark is gone -> a reset happened after every earlier
//     message; mark again. Every burst of a schedule is separated from the previous one by such a step.
//   - after every burst the mark is checked: still there -> no reset since the window start was observed, the
//     messages sent since then are provably in ONE window and the exact number of penalties is required
//     (`c18-overlimit-not-penalised` if fewer). Mark gone -> a reset fell into the burst ("straddled"): only
//     the upper bound is checked for the rest of that window and the case is counted as straddled.
//   - always: the score never exceeds the penalties of the observed windows (`c18-legal-traffic-penalised`);
//     unobserved resets can only lower the real count.
// A `w` step that sees no reset for 8 intervals (plus 2 more after the deadline, so that a frozen process
// cannot fake it) gives up and starts the next window of the reference anyway: traffic that is at most
// `limit` messages per 8+ intervals is within the limit by any reading of "rate"; the failure text says so.

import (
	"fmt"
	"math/rand"
	"strconv"
	"strings"
	"time"

	ma "github.com/multiformats/go-multiaddr"

	"github.com/LiskHQ/lisk-engine/pkg/p2p"

	"verifharness/corr"
)

type winProp struct{}

func init() { corr.Register(winProp{}) }

func (winProp) ID() string    { return "C18WIN" }
func (winProp) NoModel() bool { return true }
func (winProp) Parallel() int { return 4 }

const (
	winGiveUp  = 8 // intervals without an observed reset before a `w` step gives up
	winConfirm = 2 // further intervals waited after the deadline before the give-up is final
)

type winStep struct {
	kind byte // 'w' new window, 's' k requests, 'r' k responses, 'p' pause pct % of the interval
	k    int
}

type winCase struct {
	interval time.Duration
	limit    int
	penalty  int
	peers    int  // 1..3
	sameIP   bool // all peers behind one IP (penalties accumulate on it)
	procs    int  // 1..2
	steps    []winStep
}

func (c winCase) String() string {
	var st []string
	for _, s := range c.steps {
		if s.kind == 'w' {
			st = append(st, "w")
		} else {
			st = append(st, fmt.Sprintf("%c%d", s.kind, s.k))
		}
	}
	ip := 0
	if c.sameIP {
		ip = 1
	}
	return fmt.Sprintf("sched %d %d %d %d %d %d %s", c.interval/time.Millisecond, c.limit, c.penalty, c.peers, ip, c.procs, strings.Join(st, ","))
}

func parseWinCase(op string) (winCase, bool) {
	f := strings.Fields(op)
	var c winCase
	if len(f) != 8 || f[0] != "sched" {
		return c, false
	}
	v := make([]int, 6)
	for i := range v {
		x, err := strconv.Atoi(f[i+1])
		if err != nil || x < 0 {
			return c, false
		}
		v[i] = x
	}
	c.interval, c.limit, c.penalty, c.peers, c.sameIP, c.procs = time.Duration(v[0])*time.Millisecond, v[1], v[2], v[3], v[4] == 1, v[5]
	if v[0] < 5 || v[0] > 5000 || c.limit < 1 || c.limit > 1000 || c.penalty < 1 || c.peers < 1 || c.peers > 3 || c.procs < 1 || c.procs > 2 {
		return c, false
	}
	for _, t := range strings.Split(f[7], ",") {
		if t == "w" {
			c.steps = append(c.steps, winStep{kind: 'w'})
			continue
		}
		if len(t) < 2 || !strings.ContainsRune("srp", rune(t[0])) {
			return c, false
		}
		k, err := strconv.Atoi(t[1:])
		if err != nil || k < 0 || k > 100000 {
			return c, false
		}
		c.steps = append(c.steps, winStep{kind: t[0], k: k})
	}
	return c, len(c.steps) > 0 && len(c.steps) <= 200
}

type winOutcome struct {
	windows   int // observed window starts
	straddled int // bursts with a reset inside
	gaveUp    int // `w` steps without any reset
	exactOver int // over-limit bursts verified to lie in one window
	penalties int // penalty units applied by the implementation at the end
	fails     []corr.Fail
}

func runWinCase(c winCase) (o winOutcome) {
	n, err := p2p.VerifNewNode(time.Hour, time.Hour, peerIDs[7])
	if err != nil {
		o.fails = append(o.fails, corr.Fail{Sig: "c18win-harness", Detail: err.Error(), Op: 1})
		return
	}
	defer n.Close()
	n.StartGater()
	procs := []string{"winA", "winB"}[:c.procs]
	for _, p := range procs {
		if err := n.Register(p, c.limit, c.penalty, true); err != nil {
			o.fails = append(o.fails, corr.Fail{Sig: "c18win-harness", Detail: err.Error(), Op: 1})
			return
		}
	}
	n.StartMessageProtocol()
	addrs := make([]ma.Multiaddr, c.peers)
	ips := make([]string, c.peers)
	for i := range addrs {
		ips[i] = fmt.Sprintf("10.9.0.%d", i+1)
		if c.sameIP {
			ips[i] = "10.9.0.1"
		}
		addrs[i] = ma.StringCast(fmt.Sprintf("/ip4/%s/tcp/%d", ips[i], 4001+i))
	}
	stop := n.RLRun(c.interval) // the real handler goroutine, as Connection.Start launches it
	defer stop()
	n.RLMark()
	began := time.Now()

	type key struct{ peer, proc int }
	count := map[key]int{} // messages since the last observed window start
	given := map[key]int{} // penalties already accounted for that window
	upper := map[string]int{}
	lower := map[string]int{}
	exact := true // no reset since the last mark was placed at an observed window start
	var trace []string

	score := func(ip string) int {
		s, _, ok := n.Score(ip)
		if !ok {
			return 0
		}
		return s
	}
	check := func(step int) bool {
		for _, ip := range ips {
			s := score(ip)
			switch {
			case s > upper[ip]*c.penalty:
				why := fmt.Sprintf("no (peer, procedure) pair exceeded %d messages between two observed window starts beyond the %d penalties accounted for", c.limit, upper[ip])
				if o.gaveUp > 0 {
					why += fmt.Sprintf("; %d `w` steps saw NO window reset within %d intervals (%v) - the counters of earlier windows were never cleared", o.gaveUp, winGiveUp+winConfirm, time.Duration(winGiveUp+winConfirm)*c.interval)
				}
				o.fails = append(o.fails, corr.Fail{Sig: "c18-legal-traffic-penalised", Op: 1,
					Detail: fmt.Sprintf("%s: at step %d (%s; %v after the handler started) IP %s has score %d, at most %d x %d allowed: %s. trace: %s",
						c, step, stepStr(c.steps[step]), time.Since(began).Round(time.Millisecond), ip, s, upper[ip], c.penalty, why, strings.Join(trace, " "))})
				return false
			case s < lower[ip]*c.penalty:
				o.fails = append(o.fails, corr.Fail{Sig: "c18-overlimit-not-penalised", Op: 1,
					Detail: fmt.Sprintf("%s: at step %d (%s) IP %s has score %d although bursts verified to lie inside one window (no reset between the observed window start and the end of the burst) require %d x %d. trace: %s",
						c, step, stepStr(c.steps[step]), ip, s, lower[ip], c.penalty, strings.Join(trace, " "))})
				return false
			}
		}
		return true
	}

	for i, st := range c.steps {
		switch st.kind {
		case 'p':
			time.Sleep(c.interval * time.Duration(st.k) / 100)
			trace = append(trace, fmt.Sprintf("p%d", st.k))
		case 'w':
			n.RLMark()
			deadline := time.Now().Add(time.Duration(winGiveUp) * c.interval)
			seen := false
			for {
				if !n.RLMarked() {
					seen = true
					break
				}
				if time.Now().After(deadline) {
					break
				}
				time.Sleep(c.interval / 400)
			}
			if !seen {
				// a frozen process would wake the handler and this loop at the same time: give the handler
				// two more intervals measured with fresh timers
				end := time.Now().Add(time.Duration(winConfirm) * c.interval)
				for time.Now().Before(end) && !seen {
					time.Sleep(c.interval / 20)
					seen = !n.RLMarked()
				}
			}
			n.RLMark()
			for k := range count {
				delete(count, k)
				delete(given, k)
			}
			exact = seen
			if seen {
				o.windows++
				trace = append(trace, "w")
			} else {
				o.gaveUp++
				trace = append(trace, "w(no-reset)")
			}
		case 's', 'r':
			over := false
			delta := map[string]int{}
			for p := 0; p < c.peers; p++ {
				for q, proc := range procs {
					for j := 0; j < st.k; j++ {
						if st.kind == 's' {
							n.OnRequest(peerIDs[p], addrs[p], p2p.VerifEncodeRequest(peerIDs[p], proc, []byte{byte(j)}))
						} else {
							n.OnResponse(peerIDs[p], addrs[p], p2p.VerifEncodeResponse(fmt.Sprintf("win-%d-%d", i, j), proc, []byte{byte(j)}))
						}
					}
					k := key{p, q}
					count[k] += st.k
					if d := count[k]/(c.limit+1) - given[k]; d > 0 {
						given[k] += d
						delta[ips[p]] += d
						over = true
					}
				}
			}
			still := n.RLMarked()
			t := fmt.Sprintf("%c%d", st.kind, st.k)
			if exact && !still {
				exact = false
				o.straddled++
				t += "(straddled)"
			}
			for ip, d := range delta {
				upper[ip] += d
				if exact {
					lower[ip] += d
				}
			}
			if over && exact {
				o.exactOver++
			}
			trace = append(trace, t)
		}
		if !check(i) {
			break
		}
	}
	for _, ip := range ips[:1] {
		o.penalties = score(ip) / c.penalty
	}
	return o
}

func stepStr(s winStep) string {
	if s.kind == 'w' {
		return "w"
	}
	return fmt.Sprintf("%c%d", s.kind, s.k)
}

func (winProp) RunImpl(c corr.Case) ([]string, []corr.Fail) {
	outs := []string{}
	var fails []corr.Fail
	for _, op := range c.Ops {
		if strings.HasPrefix(op, "reset") {
			outs = append(outs, "ok")
			continue
		}
		wc, ok := parseWinCase(op)
		if !ok {
			outs = append(outs, "bad-op")
			continue
		}
		o := runWinCase(wc)
		fails = append(fails, o.fails...)
		word := "legal"
		if o.exactOver > 0 {
			word = "over-verified"
		} else if o.penalties > 0 {
			word = "over"
		}
		if o.straddled > 0 {
			word += "+straddled"
		}
		if o.gaveUp > 0 {
			word += "+no-reset"
		}
		if len(o.fails) > 0 {
			word += "+FAIL"
		}
		outs = append(outs, fmt.Sprintf("%s windows=%d", word, o.windows))
	}
	return outs, fails
}

func (winProp) Classify(c corr.Case, out []string) string {
	if len(out) < 2 {
		return ""
	}
	w := strings.Fields(out[len(out)-1])
	if len(w) == 0 {
		return ""
	}
	return c.Tag + ":" + w[0]
}

// ---------------------------------------------------------------------------------------------
// generation

func rep(n int, steps ...winStep) []winStep {
	var r []winStep
	for i := 0; i < n; i++ {
		r = append(r, steps...)
	}
	return r
}

func (winProp) Generate(rng *rand.Rand, tier string) []corr.Case {
	W := winStep{kind: 'w'}
	S := func(k int) winStep { return winStep{'s', k} }
	R := func(k int) winStep { return winStep{'r', k} }
	P := func(k int) winStep { return winStep{'p', k} }
	var cases []corr.Case
	add := func(tag string, c winCase) {
		cases = append(cases, corr.Case{Ops: []string{"reset", c.String()}, Tag: tag})
	}
	iv := func() time.Duration {
		if tier == "thorough" {
			return []time.Duration{60, 100, 200, 200, 300}[rng.Intn(5)] * time.Millisecond
		}
		return 200 * time.Millisecond
	}
	pen := func() int { return []int{1, 3, 10}[rng.Intn(3)] }
	rounds := 1
	if tier == "thorough" {
		rounds = 12
	}
	for round := 0; round < rounds; round++ {
		L := 1 + rng.Intn(6)
		nw := 4 + rng.Intn(3)
		// exactly `limit` per window for >= 4 windows, the first burst in the handler's very first window
		add("legal-windows", winCase{iv(), L, pen(), 1, false, 1, append([]winStep{S(L)}, rep(nw, W, S(L))...)})
		L = 1 + rng.Intn(6)
		add("legal-windows-peers", winCase{iv(), L, pen(), 2 + rng.Intn(2), rng.Intn(2) == 0, 2, rep(4, W, S(L))})
		// limit+1 in one window: penalty required; legal windows before and after stay free
		L = 1 + rng.Intn(6)
		add("over-one-window", winCase{iv(), L, pen(), 1, false, 1, []winStep{W, S(L + 1), W, S(L), W, S(L + 1), W, S(L)}})
		L = 1 + rng.Intn(6)
		add("over-then-legal", winCase{iv(), L, pen(), 1, false, 1, append([]winStep{W, S(L + 1)}, rep(4, W, S(L))...)})
		// 2 x limit around a window boundary: late in one window, early in the next
		L = 1 + rng.Intn(6)
		add("straddle-legal", winCase{iv(), L, pen(), 1, false, 1, []winStep{W, P(55 + rng.Intn(20)), S(L), W, S(L), W, P(60), S(L), W, S(L), W, S(L)}})
		// limit+1 inside one window in two parts
		L = 2 + rng.Intn(5)
		a := 1 + rng.Intn(L)
		add("split-over", winCase{iv(), L, pen(), 1, false, 1, []winStep{W, S(a), P(10 + rng.Intn(25)), S(L + 1 - a), W, S(L), W, S(L)}})
		// several penalties in one window, then legal
		L = 1 + rng.Intn(4)
		add("double-over", winCase{iv(), L, 3, 1, false, 1, []winStep{W, S(2*L + 2), W, S(L), W, S(L), W, S(L)}})
		// responses count like requests
		L = 2 + rng.Intn(5)
		a = 1 + rng.Intn(L-1)
		add("responses", winCase{iv(), L, pen(), 1, false, 1, []winStep{W, S(a), R(L - a), W, R(L), W, S(1), R(L), W, R(L), W, S(L)}})
		// random schedules
		nr := 3
		if tier == "thorough" {
			nr = 8
		}
		for i := 0; i < nr; i++ {
			L = 1 + rng.Intn(5)
			c := winCase{iv(), L, 1 + 2*rng.Intn(2), 1 + rng.Intn(2), rng.Intn(2) == 0, 1 + rng.Intn(2), nil}
			overs := 0
			nwin := 4 + rng.Intn(4)
			if tier == "thorough" {
				nwin = 4 + rng.Intn(9)
			}
			for w := 0; w < nwin; w++ {
				if w > 0 || rng.Intn(2) == 0 {
					c.steps = append(c.steps, W)
				}
				cnt := 0 // the implementation's counter inside this window
				parts := 1 + rng.Intn(3)
				for p := 0; p < parts; p++ {
					left := L - cnt
					k := rng.Intn(left + 1)
					if p == parts-1 && rng.Intn(3) > 0 {
						k = left // fill the window exactly
					}
					if rng.Intn(9) == 0 && overs < 3 {
						k = left + 1
						overs++
					}
					cnt = (cnt + k) % (L + 1)
					if k == 0 {
						continue
					}
					if rng.Intn(4) == 0 {
						c.steps = append(c.steps, R(k))
					} else {
						c.steps = append(c.steps, S(k))
					}
					if rng.Intn(4) == 0 {
						c.steps = append(c.steps, P(5+rng.Intn(60)))
					}
				}
			}
			add("random", c)
		}
	}
	return cases
}
