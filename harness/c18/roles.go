// C18ROLES: the ban clause of C18 for every ROLE a peer can have in the node's configuration.
//
// "once the total reaches the ban threshold the peer is disconnected and every inbound and outbound connection
// attempt involving that IP is refused until the ban expires" does not mention the peer's role: a peer the operator
// listed in FixedPeers / SeedPeers (or both) that reaches the threshold has to be thrown out exactly like any
// other. Every case is one scenario between two REAL Connections on 127.0.0.1 (p2p.VerifC18RoleScenario, add-only
// hook): the victim is configured with the remote as ordinary / fixed / seed / fixed+seed peer, the connection is
// made by the victim (outbound) or by the remote (inbound), and the remote is driven over the threshold through
// one of the ban paths
//
//	bad-req / bad-res          undecodable envelope on the request / response protocol (banRemotePeer)
//	unknown-req / unknown-res  unregistered procedure (banRemotePeer)
//	rate                       rounds of limit+1 requests, `penalty` each round (rateLimit.checkLimit -> addPenalty)
//	sums                       Connection.ApplyPenalty with a list of values whose running sum crosses 100 at the end
//	banpeer                    Connection.BanPeer
//	responses                  the C17 view: the VICTIM asks, the remote answers; more than `limit` exchanges in one
//	                           interval, so the responses themselves trip the rate limiter
//
// Model-free oracle (the clause itself, no model, no table of expected internals):
//
//	c18-misbehaviour-not-banned:<kind>   threshold reached, IP not banned in the gater
//	c18-ban-below-threshold / c18-score-not-accumulated  (sums) running sum below 100 banned / score != sum
//	c18-banned-peer-still-connected      IP banned, victim still has a connection to the peer / lists it in ConnectedPeers
//	c18-banned-ip-gate-open              IP banned, InterceptAddrDial / InterceptAccept / InterceptSecured(inbound) allow it
//	c18-banned-peer-answered             during the ban a request of the peer reached the handler or was answered
//	c18-banned-ip-dial-allowed           during the ban victim.Connect(peer) succeeded / a new connection exists
//	c18-ban-not-lifted-after-expiry      after the expiry pass the IP is still banned / has a score / a gate refuses
//	c18-peer-refused-after-expiry        after the expiry pass the peer cannot connect or is not answered
//	c18-response-dropped-without-ban     (responses) an exchange did not deliver the remote's answer although the
//	                                     peer is not (banned AND disconnected)
//
// All waits in the hook are condition waits with generous caps; no verdict depends on a short timeout.
package c18

import (
	"fmt"
	"math/rand"
	"strconv"
	"strings"
	"time"

	"github.com/LiskHQ/lisk-engine/pkg/p2p"

	"verifharness/corr"
)

type rolesProp struct{}

func init() { corr.Register(rolesProp{}) }

func (rolesProp) ID() string                 { return "C18ROLES" }
func (rolesProp) NoModel() bool              { return true }
func (rolesProp) Parallel() int              { return 4 }
func (rolesProp) CaseTimeout() time.Duration { return 240 * time.Second }

var roleNames = []string{"ordinary", "fixed", "seed", "fixedseed"}
var roleKinds = []string{"bad-req", "bad-res", "unknown-req", "unknown-res", "rate", "sums", "banpeer", "responses"}

const roleThreshold = 100 // p2p.MaxPenaltyScore, restated (the oracle must not read it from the code under test)

type roleOp struct {
	role, dir, kind string
	limit, penalty  int
	pens            []int
	exchanges       int
}

func (o roleOp) String() string {
	ps := make([]string, len(o.pens))
	for i, p := range o.pens {
		ps[i] = strconv.Itoa(p)
	}
	pl := strings.Join(ps, ",")
	if pl == "" {
		pl = "-"
	}
	return fmt.Sprintf("role role=%s dir=%s kind=%s limit=%d penalty=%d pens=%s ex=%d", o.role, o.dir, o.kind, o.limit, o.penalty, pl, o.exchanges)
}

func parseRoleOp(s string) (o roleOp, ok bool) {
	f := strings.Fields(s)
	if len(f) != 8 || f[0] != "role" {
		return o, false
	}
	kv := map[string]string{}
	for _, t := range f[1:] {
		i := strings.IndexByte(t, '=')
		if i < 0 {
			return o, false
		}
		kv[t[:i]] = t[i+1:]
	}
	o.role, o.dir, o.kind = kv["role"], kv["dir"], kv["kind"]
	var e1, e2, e3 error
	o.limit, e1 = strconv.Atoi(kv["limit"])
	o.penalty, e2 = strconv.Atoi(kv["penalty"])
	o.exchanges, e3 = strconv.Atoi(kv["ex"])
	if e1 != nil || e2 != nil || e3 != nil || o.limit < 1 || o.penalty < 1 {
		return o, false
	}
	if kv["pens"] != "-" {
		for _, t := range strings.Split(kv["pens"], ",") {
			v, err := strconv.Atoi(t)
			if err != nil || v < 1 {
				return o, false
			}
			o.pens = append(o.pens, v)
		}
	}
	okRole, okKind := false, false
	for _, r := range roleNames {
		okRole = okRole || r == o.role
	}
	for _, k := range roleKinds {
		okKind = okKind || k == o.kind
	}
	return o, okRole && okKind && (o.dir == "in" || o.dir == "out")
}

// rolePenalties: a list of penalties whose running sum stays below the threshold until the last element.
func rolePenalties(rng *rand.Rand) []int {
	switch rng.Intn(4) {
	case 0:
		return []int{40, 40, 20} // lands exactly on the threshold
	case 1:
		return []int{99, 1}
	}
	var out []int
	sum := 0
	for sum < roleThreshold {
		p := 1 + rng.Intn(60)
		if len(out) >= 5 {
			p = roleThreshold - sum + rng.Intn(3)
		}
		out = append(out, p)
		sum += p
	}
	return out
}

func roleCase(rng *rand.Rand, role, dir, kind string, variant int) corr.Case {
	o := roleOp{role: role, dir: dir, kind: kind, limit: 3 + rng.Intn(4), penalty: 100}
	switch kind {
	case "rate":
		o.penalty = []int{100, 50, 34, 100}[rng.Intn(4)]
	case "sums":
		o.pens = rolePenalties(rng)
	case "responses":
		if variant%2 == 0 {
			// low penalty: no ban may happen, every exchange must be answered
			o.penalty = 1 + rng.Intn(10)
			o.exchanges = 2*(o.limit+1) + 1 + rng.Intn(3)
		} else {
			// the (limit+1)-th response bans the responder
			o.penalty = 100
			o.exchanges = o.limit + 3
		}
	}
	return corr.Case{Ops: []string{"reset", o.String()}, Tag: "role-" + role}
}

func (rolesProp) Generate(rng *rand.Rand, tier string) []corr.Case {
	var cases []corr.Case
	dirs := []string{"in", "out"}
	reps := 1
	if tier == "thorough" {
		reps = 4
	}
	for _, role := range roleNames {
		for _, kind := range roleKinds {
			for rep := 0; rep < reps; rep++ {
				if rep > 0 && kind != "sums" && kind != "rate" && kind != "responses" {
					continue // nothing random in the other kinds
				}
				for di, d := range dirs {
					// "responses": both variants (no ban expected / ban by the responses) in both directions over the reps
					cases = append(cases, roleCase(rng, role, d, kind, rep+di))
					if kind == "responses" && rep == 0 {
						cases = append(cases, roleCase(rng, role, d, kind, rep+di+1))
					}
				}
			}
		}
	}
	return cases
}

func (rolesProp) Classify(c corr.Case, out []string) string {
	if len(c.Ops) < 2 || len(out) < 2 {
		return ""
	}
	o, ok := parseRoleOp(c.Ops[1])
	if !ok {
		return ""
	}
	return fmt.Sprintf("%s:%s:%s:%s", o.role, o.dir, o.kind, out[1])
}

func (rolesProp) RunImpl(c corr.Case) ([]string, []corr.Fail) {
	var outs []string
	var fails []corr.Fail
	for i, s := range c.Ops {
		if strings.HasPrefix(s, "reset") {
			outs = append(outs, "ok")
			continue
		}
		o, ok := parseRoleOp(s)
		if !ok {
			outs = append(outs, "bad-op")
			continue
		}
		out, fs := runRole(o)
		for j := range fs {
			fs[j].Op = i
		}
		outs = append(outs, out)
		fails = append(fails, fs...)
	}
	return outs, fails
}

func runRole(o roleOp) (string, []corr.Fail) {
	spec := p2p.VerifC18RoleSpec{Fixed: o.role == "fixed" || o.role == "fixedseed", Seed: o.role == "seed" || o.role == "fixedseed",
		Inbound: o.dir == "in", Kind: o.kind, Penalties: o.pens, Limit: o.limit, Penalty: o.penalty, Exchanges: o.exchanges}
	var res p2p.VerifC18RoleResult
	for attempt := 0; attempt < 2; attempt++ {
		res = p2p.VerifC18RoleScenario(spec)
		if res.Err == "" || !(strings.HasPrefix(res.Err, "connect:") || strings.HasPrefix(res.Err, "remote:") || strings.HasPrefix(res.Err, "victim:")) {
			break
		}
	}
	var fails []corr.Fail
	seen := map[string]bool{}
	desc := fmt.Sprintf("two real Connections on 127.0.0.1; the remote is a %s peer of the victim (FixedPeers=%v SeedPeers=%v), connection made %sbound (victim's connections before: %s); %s",
		o.role, spec.Fixed, spec.Seed, o.dir, strings.TrimSpace(res.Dirs), o)
	fail := func(sig, what string) {
		if seen[sig] {
			return
		}
		seen[sig] = true
		fails = append(fails, corr.Fail{Sig: sig, Detail: fmt.Sprintf("%s: %s; observed %+v", desc, what, res), Op: -1})
	}
	if res.Err != "" {
		fail("c18-roles-harness", "scenario could not be set up: "+res.Err)
		return "harness-error", fails
	}
	b := res.Before
	if b.Banned || b.Score != 0 || b.Conns == 0 || !b.GateDial || !b.GateAccept || !b.GateSecuredIn {
		fail("c18-roles-harness", "unexpected state before the misbehaviour")
		return "harness-error", fails
	}
	gatesOpen := func(st p2p.VerifC18RoleStage) bool { return st.GateDial || st.GateAccept || st.GateSecuredIn }
	gatesAllOpen := func(st p2p.VerifC18RoleStage) bool { return st.GateDial && st.GateAccept && st.GateSecuredIn }

	if o.kind == "responses" {
		dropped := false
		for i, a := range res.Answers {
			if a == "pong" {
				continue
			}
			st := res.ResponsesStage[i]
			if !(st.Banned && st.Conns == 0) {
				dropped = true
				fail("c18-response-dropped-without-ban", fmt.Sprintf("exchange %d of %d with the %s peer (rate limit %d per interval, penalty %d) ended with %q although the remote handler ran %d time(s) and the peer is not banned-and-disconnected (banned=%v score=%d connections=%d)",
					i+1, o.exchanges, o.role, o.limit, o.penalty, a, res.RemoteHandled, st.Banned, st.Score, st.Conns))
			}
		}
		a := res.After
		if a.Banned && (a.Conns > 0 || a.InPeers) {
			fail("c18-banned-peer-still-connected", fmt.Sprintf("127.0.0.1 is banned (score %d) after the responses tripped the rate limiter, but the victim still has %d connection(s) to the peer (in ConnectedPeers=%v)", a.Score, a.Conns, a.InPeers))
		}
		if a.Banned && gatesOpen(a) {
			fail("c18-banned-ip-gate-open", "banned IP passes a gate")
		}
		switch {
		case dropped:
			return "dropped", fails
		case a.Banned:
			return "banned", fails
		}
		return "answered", fails
	}

	if o.kind == "sums" {
		sum := 0
		for i, p := range o.pens {
			sum += p
			if i >= len(res.SumsTrace) {
				break
			}
			st := res.SumsTrace[i]
			if sum < roleThreshold {
				if st.Banned || st.Conns == 0 {
					fail("c18-ban-below-threshold", fmt.Sprintf("after ApplyPenalty %v (sum %d < %d) the peer is banned=%v connections=%d", o.pens[:i+1], sum, roleThreshold, st.Banned, st.Conns))
				} else if st.Score != sum {
					fail("c18-score-not-accumulated", fmt.Sprintf("after ApplyPenalty %v the score is %d, not %d", o.pens[:i+1], st.Score, sum))
				}
			}
		}
	}
	a := res.After
	if !a.Banned {
		fail("c18-misbehaviour-not-banned:"+o.kind, fmt.Sprintf("the %s peer reached the ban threshold through %q but 127.0.0.1 is not banned (score %d, connections %d)", o.role, o.kind, a.Score, a.Conns))
		return "not-banned", fails
	}
	if !a.Listed {
		fail("c18-banned-ip-gate-open", "banned IP is not in listBannedPeers")
	}
	if a.Conns > 0 || a.InPeers {
		fail("c18-banned-peer-still-connected", fmt.Sprintf("127.0.0.1 is banned (score %d) through %q but the victim still has %d connection(s) to the %s peer (in ConnectedPeers=%v)", a.Score, o.kind, a.Conns, o.role, a.InPeers))
	}
	if gatesOpen(a) || gatesOpen(res.DuringBan) {
		fail("c18-banned-ip-gate-open", fmt.Sprintf("banned IP passes a gate: dial=%v accept=%v secured(in)=%v", a.GateDial, a.GateAccept, a.GateSecuredIn))
	}
	if res.RawHandled > 0 || res.ReqAnswered {
		fail("c18-banned-peer-answered", fmt.Sprintf("during the ban %d request(s) of the banned %s peer reached the victim's handler; its RequestFrom was answered=%v with %q", res.RawHandled, o.role, res.ReqAnswered, res.ReqData))
	}
	if res.VictimDialErr == "" || res.DuringBan.Conns > 0 {
		fail("c18-banned-ip-dial-allowed", fmt.Sprintf("during the ban victim.Connect(peer) returned %q and the victim has %d connection(s) to the peer (remote.Connect(victim): %q)", res.VictimDialErr, res.DuringBan.Conns, res.RemoteDialErr))
	}
	e := res.AfterExpiry
	if !res.Swept || e.Banned || e.Listed || e.Score != 0 || !gatesAllOpen(e) {
		fail("c18-ban-not-lifted-after-expiry", fmt.Sprintf("after the ban expired and the gater's expiry loop made a pass: banned=%v listed=%v score=%d gates dial=%v accept=%v secured=%v", e.Banned, e.Listed, e.Score, e.GateDial, e.GateAccept, e.GateSecuredIn))
	} else {
		if !res.Reconnected || res.AnswerAfter != "pong" {
			fail("c18-peer-refused-after-expiry", fmt.Sprintf("after the expiry the peer could not come back: connect error %q, connected=%v, answer %q (%s)", res.ReconnectErr, res.Reconnected, res.AnswerAfter, res.AnswerErr))
		}
		if f := res.FinalStage; f.Banned || f.Score != 0 {
			fail("c18-ban-not-lifted-after-expiry", fmt.Sprintf("one legal request after the expiry and the IP has score %d banned=%v", f.Score, f.Banned))
		}
	}
	if len(fails) > 0 {
		return "violated", fails
	}
	return "banned-disconnected-refused-readmitted", fails
}
