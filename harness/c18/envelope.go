package c18

// Degenerate envelopes on the request and response stream protocols.
//
// Clause of C18: "malformed envelopes, unknown procedures ... lead to these penalties; well-formed traffic
// within the limits never does". envShapes is the TABLE of degenerate inputs a remote peer can produce on
// /lisk/message/req and /lisk/message/res - nothing at all, single bytes, an envelope cut at and inside every
// field, envelopes with an empty / unregistered / almost-registered procedure name, invalid UTF-8, odd
// field orders, trailing bytes, over-long fields, streams that are reset instead of closed - each with the
// verdict the unchanged code gives (established by running it, then frozen here):
//
//	B  the sender's IP gets MaxPenaltyScore (ban), the peer is disconnected, no handler runs
//	W  well formed for the registered procedure: counted by the rate limiter, no penalty within the limit
//	N  nothing happens (the read failed: no envelope was received)
//
// A later silent change of any row is a failure with a specific signature:
// `c18-malformed-envelope-not-penalised` (row B, no ban), `c18-wellformed-penalised` (row W or N, penalty).
//
// Three uses:
//   - envelopeCases: C18 cases (tag "envelope"), one shape x protocol x sender family (IPv4, IPv6, IPv4-mapped,
//     zone, relay) each, with connections, gates and a dump around it; the ops carry the raw bytes
//     (`x:<hex>:<verdict>` closed stream, `e:<hex>:N` reset stream). The Go runner checks the table verdict on
//     the real onRequest / onResponse (fake streams); the Lean driver does NOT read the verdict: it decodes
//     the bytes with the model codec over the regenerated p2p schemas (Model/Envelope.lean) and the outputs
//     are diffed, so "zero bytes = envelope with the empty procedure = unknown procedure = ban" is derived.
//   - the malformed stream of the random generator picks from the same table.
//   - pseudo-property C18ENV (model free, `also` of C18): a few shapes between two real libp2p hosts on
//     loopback (stream opened, bytes written or not, closed / reset by the remote).

import (
	"encoding/hex"
	"fmt"
	"math/rand"
	"strings"
	"time"

	"github.com/LiskHQ/lisk-engine/pkg/p2p"

	"verifharness/corr"
)

const (
	envBan  = "B"
	envWell = "W"
	envNone = "N"
)

// envIn is what a shape is built from: a well-formed envelope for a registered procedure.
type envIn struct {
	isReq bool
	proc  string // registered procedure
	id    string
	data  []byte
	err   string // responses only
}

type envShape struct {
	name  string
	build func(e envIn) []byte
	req   string // verdict on the request protocol
	res   string // verdict on the response protocol
	reset bool   // the stream is reset by the remote after these bytes instead of being closed
}

func uvarint(n uint64) []byte {
	var b []byte
	for n >= 0x80 {
		b = append(b, byte(n)|0x80)
		n >>= 7
	}
	return append(b, byte(n))
}

// fld is one length-delimited field (hand encoded, independent of the package's writer).
func fld(num int, b []byte) []byte {
	out := append([]byte{byte(num<<3 | 2)}, uvarint(uint64(len(b)))...)
	return append(out, b...)
}

func (e envIn) fID() []byte   { return fld(1, []byte(e.id)) }
func (e envIn) fProc() []byte { return fld(2, []byte(e.proc)) }
func (e envIn) fData() []byte { return fld(3, e.data) }
func (e envIn) fErr() []byte  { return fld(4, []byte(e.err)) }

func cat(parts ...[]byte) []byte {
	var out []byte
	for _, p := range parts {
		out = append(out, p...)
	}
	return out
}

// full is the well-formed envelope of the protocol (responses carry the error field).
func (e envIn) full() []byte {
	if e.isReq {
		return cat(e.fID(), e.fProc(), e.fData())
	}
	return cat(e.fID(), e.fProc(), e.fData(), e.fErr())
}

func withProc(e envIn, p string) envIn { e.proc = p; return e }

// envShapes: see the file comment. Verdicts established on the unchanged code.
var envShapes = []envShape{
	// nothing / single bytes
	{"empty", func(e envIn) []byte { return nil }, envBan, envBan, false},
	{"key-id-only", func(e envIn) []byte { return []byte{0x0a} }, envBan, envBan, false},
	{"key-proc-only", func(e envIn) []byte { return []byte{0x12} }, envBan, envBan, false},
	{"key-data-only", func(e envIn) []byte { return []byte{0x1a} }, envBan, envBan, false},
	{"byte-00", func(e envIn) []byte { return []byte{0x00} }, envBan, envBan, false},
	{"byte-ff", func(e envIn) []byte { return []byte{0xff} }, envBan, envBan, false},
	{"byte-80", func(e envIn) []byte { return []byte{0x80} }, envBan, envBan, false},
	// lengths
	{"len-varint-truncated", func(e envIn) []byte { return []byte{0x0a, 0x80} }, envBan, envBan, false},
	{"len-past-end", func(e envIn) []byte { return []byte{0x0a, 0xff} }, envBan, envBan, false},
	{"len-2^32", func(e envIn) []byte { return cat([]byte{0x0a}, uvarint(1<<32), []byte("abc")) }, envBan, envBan, false},
	{"len-2^63", func(e envIn) []byte { return cat([]byte{0x0a}, uvarint(1<<63), []byte("abc")) }, envBan, envBan, false},
	{"len-2^64-1", func(e envIn) []byte { return cat([]byte{0x0a}, uvarint(1<<64-1), []byte("abc")) }, envBan, envBan, false},
	{"len-varint-11-bytes", func(e envIn) []byte {
		return cat([]byte{0x0a}, []byte{0x80, 0x80, 0x80, 0x80, 0x80, 0x80, 0x80, 0x80, 0x80, 0x80, 0x01}, []byte("abc"))
	}, envBan, envBan, false},
	{"len-nonminimal", func(e envIn) []byte {
		return cat(e.fID(), []byte{0x12, byte(len(e.proc)) | 0x80, 0x00}, []byte(e.proc), e.fData())
	}, envBan, envBan, false},
	// truncated at and inside every field
	{"cut-in-id", func(e envIn) []byte { f := e.fID(); return f[:len(f)/2] }, envBan, envBan, false},
	{"cut-after-id", func(e envIn) []byte { return e.fID() }, envBan, envBan, false},
	{"cut-at-proc-key", func(e envIn) []byte { return cat(e.fID(), []byte{0x12}) }, envBan, envBan, false},
	{"cut-in-proc", func(e envIn) []byte { f := e.fProc(); return cat(e.fID(), f[:len(f)-1]) }, envBan, envBan, false},
	{"cut-after-proc", func(e envIn) []byte { return cat(e.fID(), e.fProc()) }, envWell, envWell, false},
	{"cut-at-data-key", func(e envIn) []byte { return cat(e.fID(), e.fProc(), []byte{0x1a}) }, envBan, envBan, false},
	{"cut-in-data", func(e envIn) []byte { f := e.fData(); return cat(e.fID(), e.fProc(), f[:len(f)-1]) }, envBan, envBan, false},
	{"cut-after-data", func(e envIn) []byte { return cat(e.fID(), e.fProc(), e.fData()) }, envWell, envWell, false},
	{"cut-at-error-key", func(e envIn) []byte { return cat(e.fID(), e.fProc(), e.fData(), []byte{0x22}) }, envWell, envBan, false},
	{"cut-in-error", func(e envIn) []byte { f := e.fErr(); return cat(e.fID(), e.fProc(), e.fData(), f[:len(f)-1]) }, envWell, envBan, false},
	// procedure names
	{"proc-empty", func(e envIn) []byte { return withProc(e, "").full() }, envBan, envBan, false},
	{"proc-field-absent", func(e envIn) []byte { return cat(e.fID(), e.fData()) }, envBan, envBan, false},
	{"proc-unregistered", func(e envIn) []byte { return withProc(e, "noSuchProcedure").full() }, envBan, envBan, false},
	{"proc-upper-case", func(e envIn) []byte { return withProc(e, strings.ToUpper(e.proc)).full() }, envBan, envBan, false},
	{"proc-prefix", func(e envIn) []byte { return withProc(e, e.proc[:len(e.proc)-1]).full() }, envBan, envBan, false},
	{"proc-nul-suffix", func(e envIn) []byte { return withProc(e, e.proc+"\x00").full() }, envBan, envBan, false},
	{"proc-space-suffix", func(e envIn) []byte { return withProc(e, e.proc+" ").full() }, envBan, envBan, false},
	{"proc-invalid-utf8", func(e envIn) []byte { return withProc(e, "\xc3\x28").full() }, envBan, envBan, false},
	{"proc-overlong-utf8", func(e envIn) []byte { return withProc(e, "\xc0\xaf").full() }, envBan, envBan, false},
	{"proc-4000-bytes", func(e envIn) []byte { return withProc(e, strings.Repeat("p", 4000)).full() }, envBan, envBan, false},
	{"proc-twice-unregistered-last", func(e envIn) []byte {
		return cat(e.fID(), e.fProc(), fld(2, []byte("noSuchProcedure")), e.fData())
	}, envWell, envWell, false},
	{"proc-twice-unregistered-first", func(e envIn) []byte {
		return cat(e.fID(), fld(2, []byte("noSuchProcedure")), e.fProc(), e.fData())
	}, envBan, envBan, false},
	{"proc-wire-type-varint", func(e envIn) []byte { return cat(e.fID(), []byte{0x10, 0x05}, e.fData()) }, envBan, envBan, false},
	// ids
	{"id-invalid-utf8", func(e envIn) []byte { return cat(fld(1, []byte{0xc3, 0x28}), e.fProc(), e.fData()) }, envBan, envBan, false},
	{"id-empty", func(e envIn) []byte { e.id = ""; return e.full() }, envWell, envWell, false},
	{"id-absent", func(e envIn) []byte { return cat(e.fProc(), e.fData()) }, envWell, envWell, false},
	{"id-5000-bytes", func(e envIn) []byte { e.id = strings.Repeat("i", 5000); return e.full() }, envWell, envWell, false},
	// order, trailing bytes, the other protocol's envelope
	{"fields-reversed", func(e envIn) []byte { return cat(e.fData(), e.fProc(), e.fID()) }, envBan, envBan, false},
	{"data-before-proc", func(e envIn) []byte { return cat(e.fID(), e.fData(), e.fProc()) }, envBan, envBan, false},
	{"trailing-garbage", func(e envIn) []byte { return cat(e.full(), []byte{0xff, 0xff}) }, envWell, envWell, false},
	{"trailing-unknown-field", func(e envIn) []byte { return cat(e.full(), fld(5, []byte{0})) }, envWell, envWell, false},
	{"trailing-second-envelope", func(e envIn) []byte { return cat(e.full(), withProc(e, "noSuchProcedure").full()) }, envWell, envWell, false},
	{"leading-unknown-field", func(e envIn) []byte { return cat(fld(7, []byte{1}), e.full()) }, envBan, envBan, false},
	{"request-envelope", func(e envIn) []byte { return cat(e.fID(), e.fProc(), e.fData()) }, envWell, envWell, false},
	{"response-envelope-with-error", func(e envIn) []byte { return cat(e.fID(), e.fProc(), e.fData(), fld(4, []byte("boom"))) }, envWell, envWell, false},
	{"response-error-only", func(e envIn) []byte { return cat(e.fID(), e.fProc(), fld(4, []byte("boom"))) }, envWell, envWell, false},
	{"error-invalid-utf8", func(e envIn) []byte { return cat(e.fID(), e.fProc(), e.fData(), fld(4, []byte{0xc3, 0x28})) }, envWell, envBan, false},
	// the remote resets the stream instead of closing it
	{"reset-before-data", func(e envIn) []byte { return nil }, envNone, envNone, true},
	{"reset-after-one-byte", func(e envIn) []byte { return []byte{0x0a} }, envNone, envNone, true},
	{"reset-after-half-envelope", func(e envIn) []byte { f := e.full(); return f[:len(f)/2] }, envNone, envNone, true},
	{"reset-after-envelope", func(e envIn) []byte { return e.full() }, envNone, envNone, true},
	{"reset-after-unregistered", func(e envIn) []byte { return withProc(e, "noSuchProcedure").full() }, envNone, envNone, true},
	{"reset-after-garbage", func(e envIn) []byte { return []byte{0x0a, 0xff} }, envNone, envNone, true},
}

func (s envShape) verdict(isReq bool) string {
	if isReq {
		return s.req
	}
	return s.res
}

// envTok is the kind token of a `req` / `res` op for the shape: `x:<hex>:B`, `x:<hex>:W:<proc>`, `e:<hex>:N`.
func envTok(s envShape, e envIn) string {
	h := hex.EncodeToString(s.build(e))
	if h == "" {
		h = "-"
	}
	v := s.verdict(e.isReq)
	switch {
	case s.reset:
		return "e:" + h + ":" + envNone
	case v == envWell:
		return "x:" + h + ":" + envWell + ":" + e.proc
	}
	return "x:" + h + ":" + v
}

// parseEnvTok: raw bytes, whether the stream is reset, the table verdict and (verdict W) the procedure.
func parseEnvTok(tok string) (data []byte, reset bool, verdict, proc string, ok bool) {
	f := strings.Split(tok, ":")
	if len(f) < 3 || (f[0] != "x" && f[0] != "e") {
		return nil, false, "", "", false
	}
	if f[1] != "-" {
		var err error
		if data, err = hex.DecodeString(f[1]); err != nil {
			return nil, false, "", "", false
		}
	}
	reset, verdict = f[0] == "e", f[2]
	if verdict == envWell {
		if len(f) != 4 {
			return nil, false, "", "", false
		}
		proc = f[3]
	}
	if reset && verdict != envNone {
		return nil, false, "", "", false
	}
	return data, reset, verdict, proc, true
}

func isEnvTok(tok string) bool { return strings.HasPrefix(tok, "x:") || strings.HasPrefix(tok, "e:") }

// randomEnvTok picks a shape for the malformed stream of the random generator.
func (g *gen) randomEnvTok(isReq bool) string {
	pc := g.procs[g.rng.Intn(len(g.procs))]
	s := envShapes[g.rng.Intn(len(envShapes))]
	e := envIn{isReq: isReq, proc: pc.name, id: fmt.Sprintf("id-%d", g.rng.Intn(1000)), data: []byte{1, 2, 3}, err: "e"}
	if strings.Contains(s.name, "000-bytes") { // keep random cases short
		s = envShapes[0]
	}
	return envTok(s, e)
}

// envelopeCases: one C18 case per shape x protocol x sender family.
func envelopeCases(rng *rand.Rand, tier string) []corr.Case {
	var cases []corr.Case
	families := []string{"4", "6"}
	if tier == "thorough" {
		families = []string{"4", "6", "m", "z", "r"}
	}
	for _, s := range envShapes {
		for _, isReq := range []bool{true, false} {
			for _, fam := range families {
				g := &gen{rng: rng}
				g.genIPs()
				b4 := []byte{byte(11 + rng.Intn(200)), byte(rng.Intn(256)), 7, byte(1 + rng.Intn(250))}
				b6 := make([]byte, 16)
				b6[0], b6[1], b6[2], b6[3], b6[15] = 0x20, 0x01, 0x0d, 0xb8, byte(1+rng.Intn(250))
				var host string
				switch fam {
				case "4":
					host = "4:" + hex.EncodeToString(b4)
				case "6":
					host = "6:" + hex.EncodeToString(b6)
				case "m":
					host = "6:" + hex.EncodeToString(append(append(make([]byte, 10), 0xff, 0xff), b4...))
				case "z":
					b6[0], b6[1], b6[2], b6[3] = 0xfe, 0x80, 0, 0
					host = "z:" + hex.EncodeToString(b6)
				default:
					host = "r:" + hex.EncodeToString(b4)
				}
				g.ips = append([]string{host}, g.ips...)
				g.header(expChoices[rng.Intn(len(expChoices))], true)
				// give every procedure room: the shape, not the rate limit, decides
				pc := g.procs[rng.Intn(len(g.procs))]
				pid := g.peer()
				other := (pid + 1) % 5
				g.add("connect in %s %d", g.addr(host, -1), pid)
				g.add("connect in %s %d", g.addr(g.pick(g.ips[1:]), -1), other)
				e := envIn{isReq: isReq, proc: pc.name, id: "6f1c3b52-7a0e-4c55-9a41-0d2f8e6b7c90", data: []byte{1, 2, 3}, err: "failed"}
				op := "res"
				if isReq {
					op = "req"
				}
				remote := g.addr(host, -1)
				n := 1 + rng.Intn(2)
				for i := 0; i < n; i++ {
					g.add("%s %d %s %d %s", op, g.t, remote, pid, envTok(s, e))
				}
				g.add("gate %s %d", g.addr(host, -1), pid)
				g.add("connect %s %s %d", g.pick([]string{"in", "out"}), g.addr(host, -1), pid)
				// a well-formed message of the same peer afterwards (handled iff the IP is not banned: the
				// handlers do not consult the gater, so this only moves the counter)
				g.add("%s %d %s %d p:%s", op, g.t, remote, pid, pc.name)
				g.t += g.E + 1
				g.add("sweep %d", g.t)
				g.add("gate %s %d", g.addr(host, -1), pid)
				g.add("dump")
				cases = append(cases, corr.Case{Ops: g.ops, Tag: "envelope"})
			}
		}
	}
	return cases
}

// ---------------------------------------------------------------------------------------------
// C18ENV: a few shapes between two real libp2p hosts

type envProp struct{}

func init() { corr.Register(envProp{}) }

func (envProp) ID() string    { return "C18ENV" }
func (envProp) NoModel() bool { return true }
func (envProp) Parallel() int { return 6 }

var envLoopShapes = []string{"empty", "key-id-only", "cut-after-id", "proc-empty", "cut-after-proc", "trailing-garbage", "reset-before-data", "reset-after-unregistered"}

func (envProp) Generate(rng *rand.Rand, tier string) []corr.Case {
	var cases []corr.Case
	names := envLoopShapes
	if tier != "thorough" {
		names = []string{"empty", "cut-after-id", "cut-after-proc", "reset-before-data"}
	}
	for _, n := range names {
		for _, p := range []string{"req", "res"} {
			if tier != "thorough" && n != "empty" && (p == "res") != (rng.Intn(2) == 0) {
				continue // quick: the empty stream on both protocols, the others on one of them
			}
			cases = append(cases, corr.Case{Ops: []string{"reset", "loop " + p + " " + n}, Tag: "loopback"})
		}
	}
	return cases
}

func (envProp) RunImpl(c corr.Case) ([]string, []corr.Fail) {
	var outs []string
	var fails []corr.Fail
	for i, op := range c.Ops {
		w := strings.Fields(op)
		if w[0] == "reset" {
			outs = append(outs, "ok")
			continue
		}
		var shape *envShape
		if len(w) == 3 && w[0] == "loop" && (w[1] == "req" || w[1] == "res") {
			for k := range envShapes {
				if envShapes[k].name == w[2] {
					shape = &envShapes[k]
				}
			}
		}
		if shape == nil {
			outs = append(outs, "bad-op")
			continue
		}
		isReq := w[1] == "req"
		e := envIn{isReq: isReq, proc: "testRPC", id: "6f1c3b52-7a0e-4c55-9a41-0d2f8e6b7c90", data: []byte{1, 2, 3}, err: "failed"}
		v := shape.verdict(isReq)
		wait := 400 * time.Millisecond
		if v == envBan {
			wait = 4 * time.Second
		}
		data := shape.build(e)
		r := p2p.VerifLoopbackEnvelope(isReq, data, shape.reset, wait)
		desc := fmt.Sprintf("%s: a connected peer opens a stream of the %s protocol, writes %d bytes (%s) and %s it; table verdict %s; observed %+v",
			op, map[bool]string{true: "request", false: "response"}[isReq], len(data), hex.EncodeToString(data),
			map[bool]string{true: "resets", false: "closes"}[shape.reset], v, r)
		switch {
		case r.Err != "" || !r.ConnectedBefore:
			fails = append(fails, corr.Fail{Sig: "c18env-loopback-setup", Detail: desc, Op: i})
			outs = append(outs, "setup-error")
		case v == envBan:
			out := "banned"
			if !r.IPBanned {
				fails = append(fails, corr.Fail{Sig: "c18-malformed-envelope-not-penalised", Detail: desc, Op: i})
				out = "not-banned"
			} else {
				if r.StillConnected {
					fails = append(fails, corr.Fail{Sig: "ban-without-disconnect:loopback:envelope", Detail: desc, Op: i})
					out = "banned-still-connected"
				}
				if !r.RedialRefused || !r.InboundRefused {
					fails = append(fails, corr.Fail{Sig: "banned-ip-connection-accepted:loopback:envelope", Detail: desc, Op: i})
					out = "banned-accepted"
				}
			}
			outs = append(outs, out)
		default:
			out := "not-penalised"
			if r.IPBanned || !r.StillConnected {
				fails = append(fails, corr.Fail{Sig: "c18-wellformed-penalised", Detail: desc, Op: i})
				out = "penalised"
			}
			outs = append(outs, out)
		}
	}
	return outs, fails
}

func (envProp) Classify(c corr.Case, out []string) string {
	if len(c.Ops) < 2 || len(out) < 2 {
		return ""
	}
	return strings.Join(strings.Fields(c.Ops[1])[1:], "-") + ":" + out[1]
}
