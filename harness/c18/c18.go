// Package c18: correspondence and model-free oracle for peer penalties, bans and rate limiting
// (pkg/p2p: connectionGater, Peer.addPenalty/banPeer, rateLimit, MessageProtocol.onRequest/onResponse,
// Connection.ApplyPenalty/BanPeer).
//
// Clock.  The gater reads time.Now().Unix() itself.  Ops carry explicit virtual seconds; the verif
// hook VerifNode.At translates the stored ban expirations so that the wall-clock second at which the
// op runs plays the role of the op's virtual second, and SweepOnce runs the gater's own expiry
// goroutine for one pass.  All comparisons are done by the package's code.  A case during which the
// wall clock crosses a second boundary inside an op is restarted.  The wall-clock scenarios of
// Extra (thorough tier) use no translation at all.
package c18

import (
	"bytes"
	"crypto/ed25519"
	"encoding/hex"
	"fmt"
	"math/rand"
	"net"
	"sort"
	"strconv"
	"strings"
	"sync"
	"time"

	"github.com/libp2p/go-libp2p/core/crypto"
	"github.com/libp2p/go-libp2p/core/peer"
	ma "github.com/multiformats/go-multiaddr"

	"github.com/LiskHQ/lisk-engine/pkg/p2p"

	"verifharness/corr"
)

type prop struct{}

func init() { corr.Register(prop{}) }

func (prop) ID() string    { return "C18" }
func (prop) Parallel() int { return 8 }

// ---------------------------------------------------------------------------------------------
// peers and addresses

const nPeers = 8

var peerIDs = func() []peer.ID {
	ids := make([]peer.ID, nPeers+1)
	for i := range ids {
		seed := bytes.Repeat([]byte{byte(i + 1)}, ed25519.SeedSize)
		std := ed25519.NewKeyFromSeed(seed)
		priv, _, err := crypto.KeyPairFromStdKey(&std)
		if err != nil {
			panic(err)
		}
		id, err := peer.IDFromPrivateKey(priv)
		if err != nil {
			panic(err)
		}
		ids[i] = id
	}
	return ids
}()

var relayID = peerIDs[nPeers] // peer id used inside relay (circuit) addresses

func peerIndex(id peer.ID) int {
	for i, p := range peerIDs {
		if p == id {
			return i
		}
	}
	return -1
}

func ip6Text(b []byte) string {
	parts := make([]string, 8)
	for i := 0; i < 8; i++ {
		parts[i] = fmt.Sprintf("%x", int(b[2*i])<<8|int(b[2*i+1]))
	}
	return strings.Join(parts, ":")
}

// canonical key bytes of an IP: 4 bytes when it is (or maps to) IPv4, else 16 bytes
func canonBytes(b []byte) []byte {
	ip := net.IP(b)
	if v4 := ip.To4(); v4 != nil {
		return []byte(v4)
	}
	return []byte(ip.To16())
}

type addrTok struct {
	text  string // multiaddr text
	ipKey string // hex of the canonical IP the address starts with, "" if none
	pid   int    // peer index of the trailing /p2p component, -1 if none
}

// parseTok builds the multiaddr text for an address token `host/transport/pid`.
func parseTok(tok string) addrTok {
	f := strings.Split(tok, "/")
	if len(f) != 3 {
		panic("bad address token " + tok)
	}
	res := addrTok{pid: -1}
	var sb strings.Builder
	host := f[0]
	switch {
	case host == "d":
		sb.WriteString("/dns4/example.com")
	case host == "n":
	default:
		kv := strings.SplitN(host, ":", 2)
		b, err := hex.DecodeString(kv[1])
		if err != nil {
			panic(err)
		}
		res.ipKey = hex.EncodeToString(canonBytes(b))
		switch kv[0] {
		case "4":
			sb.WriteString("/ip4/" + net.IP(b).String())
		case "6":
			sb.WriteString("/ip6/" + ip6Text(b))
		case "z":
			sb.WriteString("/ip6zone/eth0/ip6/" + ip6Text(b))
		case "r":
			sb.WriteString("/ip4/" + net.IP(b).String() + "/tcp/4001/p2p/" + relayID.String() + "/p2p-circuit")
		default:
			panic("bad host " + host)
		}
	}
	switch f[1] {
	case "t":
		sb.WriteString("/tcp/4001")
	case "u":
		sb.WriteString("/udp/4001/quic-v1")
	}
	if f[2] != "-" {
		res.pid = atoi(f[2])
		sb.WriteString("/p2p/" + peerIDs[res.pid].String())
	}
	res.text = sb.String()
	return res
}

func (a addrTok) maddr() ma.Multiaddr {
	m, err := ma.NewMultiaddr(a.text)
	if err != nil {
		panic(fmt.Sprintf("multiaddr %q: %v", a.text, err))
	}
	return m
}

func ipTokBytes(tok string) []byte {
	kv := strings.SplitN(tok, ":", 2)
	b, err := hex.DecodeString(kv[1])
	if err != nil {
		panic(err)
	}
	return b
}

// key (hex) -> textual key of the Go maps
func keyToIPString(key string) string {
	b, _ := hex.DecodeString(key)
	return net.IP(b).String()
}

func ipHex(ip net.IP) string {
	if v4 := ip.To4(); v4 != nil {
		return hex.EncodeToString(v4)
	}
	return hex.EncodeToString(ip.To16())
}

func atoi(s string) int {
	n, err := strconv.Atoi(s)
	if err != nil {
		panic(err)
	}
	return n
}

func joinOr(l []string) string {
	if len(l) == 0 {
		return "-"
	}
	return strings.Join(l, ",")
}

// ---------------------------------------------------------------------------------------------
// envelopes (hand-encoded, independent of the package's encoder)

func lenField(tag byte, b []byte) []byte {
	if len(b) > 127 {
		panic("field too long")
	}
	return append([]byte{tag, byte(len(b))}, b...)
}

func envelope(id, proc string, data []byte, isReq bool) []byte {
	out := append(lenField(0x0a, []byte(id)), lenField(0x12, []byte(proc))...)
	out = append(out, lenField(0x1a, data)...)
	if !isReq {
		out = append(out, lenField(0x22, nil)...)
	}
	return out
}

// undecodable envelopes
var badPayloads = [][]byte{
	{0x0a, 0xff},                         // length runs past the end
	{0x0a, 0x80},                         // truncated varint
	{0x0a, 0x01, 0x41, 0x12, 0x05, 0x61}, // field 2 truncated
	{0x0a, 0x02, 0xc3, 0x28},             // field 1 is not valid UTF-8
}

// ---------------------------------------------------------------------------------------------
// generator

type gen struct {
	rng   *rand.Rand
	ops   []string
	t     int64
	E     int64
	ips   []string // ip tokens (4:.. / 6:.. / z:.. / r:..)
	procs []procCfg
}

type procCfg struct {
	name       string
	limit, pen int
	explicit   bool
}

func (g *gen) add(format string, a ...any) { g.ops = append(g.ops, fmt.Sprintf(format, a...)) }

func (g *gen) pick(l []string) string { return l[g.rng.Intn(len(l))] }

func (g *gen) genIPs() {
	rng := g.rng
	n := 2 + rng.Intn(4)
	v4 := func() []byte {
		return []byte{byte(1 + rng.Intn(223)), byte(rng.Intn(256)), byte(rng.Intn(3)), byte(1 + rng.Intn(3))}
	}
	var firstV4 []byte
	for i := 0; i < n; i++ {
		switch r := rng.Intn(10); {
		case r < 4:
			b := v4()
			if firstV4 == nil {
				firstV4 = b
			}
			g.ips = append(g.ips, "4:"+hex.EncodeToString(b))
		case r < 7:
			b := make([]byte, 16)
			b[0], b[1] = 0x20, 0x01
			b[2], b[3] = 0x0d, 0xb8
			b[15] = byte(1 + rng.Intn(3))
			if rng.Intn(2) == 0 {
				b[7] = byte(rng.Intn(2))
			}
			g.ips = append(g.ips, "6:"+hex.EncodeToString(b))
		case r < 8:
			// IPv4-mapped IPv6 of an IPv4 address of the pool: same key
			b := firstV4
			if b == nil {
				b = v4()
				firstV4 = b
			}
			m := append(append(make([]byte, 10), 0xff, 0xff), b...)
			g.ips = append(g.ips, "6:"+hex.EncodeToString(m))
		case r < 9:
			b := make([]byte, 16)
			b[0], b[1] = 0xfe, 0x80
			b[15] = byte(1 + rng.Intn(2))
			g.ips = append(g.ips, "z:"+hex.EncodeToString(b))
		default:
			g.ips = append(g.ips, "r:"+hex.EncodeToString(v4()))
		}
	}
	if rng.Intn(3) == 0 {
		// two addresses differing in the last byte only
		b := v4()
		c := append([]byte{}, b...)
		c[3] ^= 1
		g.ips = append(g.ips, "4:"+hex.EncodeToString(b), "4:"+hex.EncodeToString(c))
	}
}

// addr returns an address token; withPid: -1 none, else the index
func (g *gen) addr(host string, pid int) string {
	tr := "-"
	if !strings.HasPrefix(host, "r:") {
		tr = g.pick([]string{"t", "t", "u", "-"})
		if host == "n" && pid < 0 {
			tr = "t"
		}
	}
	p := "-"
	if pid >= 0 {
		p = strconv.Itoa(pid)
	}
	return host + "/" + tr + "/" + p
}

func (g *gen) host() string {
	if g.rng.Intn(25) == 0 {
		return g.pick([]string{"d", "n"})
	}
	return g.pick(g.ips)
}

func (g *gen) peer() int { return g.rng.Intn(5) }

func (g *gen) maybePid() int {
	if g.rng.Intn(5) == 0 {
		return -1
	}
	return g.peer()
}

var scoreChoices = []int{1, 10, 10, 25, 34, 49, 50, 50, 51, 99, 100, 100, 101, 0, -10, 200, 60, 40}

func (g *gen) advance() {
	switch r := g.rng.Intn(12); {
	case r < 5:
	case r < 7:
		g.t++
	case r < 8:
		g.t += g.E - 1
	case r < 9:
		g.t += g.E
	case r < 10:
		g.t += g.E + 1
	case r < 11:
		g.t += int64(g.rng.Intn(5))
	default:
		g.t += 2*g.E + 3
	}
	if g.t < 1000 {
		g.t = 1000
	}
}

func (g *gen) header(expMs int64, started bool) {
	g.E = expMs / 1000
	g.t = 1000 + int64(g.rng.Intn(1000))
	g.add("reset %d %d", expMs, 10000)
	if started {
		g.add("start")
	}
	names := []string{"ping", "blk", "tx"}
	n := 1 + g.rng.Intn(3)
	for i := 0; i < n; i++ {
		pc := procCfg{name: names[i], limit: 100, pen: 10}
		if g.rng.Intn(6) > 0 {
			pc.explicit = true
			pc.limit = []int{0, 1, 2, 3, 4, 5, 5, 7}[g.rng.Intn(8)]
			pc.pen = []int{10, 25, 34, 50, 100, 100, 0, 99}[g.rng.Intn(8)]
			g.add("reg %s %d %d", pc.name, pc.limit, pc.pen)
		} else {
			g.add("reg %s", pc.name)
		}
		g.procs = append(g.procs, pc)
	}
	if g.rng.Intn(10) == 0 {
		g.add("reg %s", g.procs[0].name) // duplicate
	}
	if g.rng.Intn(15) == 0 {
		g.add("rlcheck %d %s %d %s", g.t, g.procs[0].name, g.peer(), g.addr(g.pick(g.ips), -1)) // not started
	}
	g.add("mpstart")
	if g.rng.Intn(10) == 0 {
		g.add("reg late") // after start
	}
}

var expChoices = []int64{1000, 1000, 1500, 1999, 2000, 3000, 5000, 60000, 500, 86400000}

func (g *gen) blacklistOp() {
	n := g.rng.Intn(3) + 1
	var l []string
	for i := 0; i < n; i++ {
		ip := g.pick(g.ips)
		if ip[0] == 'z' || ip[0] == 'r' {
			ip = map[byte]string{'z': "6", 'r': "4"}[ip[0]] + ip[1:]
		}
		l = append(l, ip)
	}
	if g.rng.Intn(5) == 0 {
		l = append(l, "x"+strconv.Itoa(g.rng.Intn(3)))
		g.rng.Shuffle(len(l), func(i, j int) { l[i], l[j] = l[j], l[i] })
	}
	g.add("blacklist %s", strings.Join(l, ","))
}

func plainIP(tok string) string {
	switch tok[0] {
	case 'z':
		return "6" + tok[1:]
	case 'r':
		return "4" + tok[1:]
	}
	return tok
}

func (g *gen) traffic(burst bool) {
	pc := g.procs[g.rng.Intn(len(g.procs))]
	host := g.host()
	pid := g.peer()
	remote := g.addr(host, -1)
	op := "req"
	if g.rng.Intn(3) == 0 {
		op = "res"
	}
	n := 1
	if burst {
		lim := pc.limit
		if lim > 12 {
			lim = 3
		}
		n = []int{lim, lim + 1, lim + 2, 2*lim + 2, lim - 1, 1}[g.rng.Intn(6)]
		if n < 1 {
			n = 1
		}
	}
	for i := 0; i < n; i++ {
		g.add("%s %d %s %d p:%s", op, g.t, remote, pid, pc.name)
		if g.rng.Intn(12) == 0 {
			g.advance()
		}
	}
}

func (g *gen) randomOp() {
	rng := g.rng
	switch r := rng.Intn(100); {
	case r < 14:
		g.add("pen %d %s %d", g.t, g.addr(g.host(), g.maybePid()), scoreChoices[rng.Intn(len(scoreChoices))])
	case r < 26:
		g.add("ppen %d %s %d", g.t, g.addr(g.host(), g.maybePid()), scoreChoices[rng.Intn(len(scoreChoices))])
	case r < 30:
		g.add("ban %d %s", g.t, g.addr(g.host(), g.maybePid()))
	case r < 42:
		dir := g.pick([]string{"in", "out"})
		g.add("connect %s %s %d", dir, g.addr(g.host(), -1), g.peer())
	case r < 46:
		g.add("applypen %d %d %d", g.t, g.peer(), scoreChoices[rng.Intn(len(scoreChoices))])
	case r < 49:
		g.add("banpid %d %d", g.t, g.peer())
	case r < 59:
		g.advance()
		g.add("sweep %d", g.t)
	case r < 62:
		g.add("block %s", plainIP(g.pick(g.ips)))
	case r < 64:
		g.add("unblock %s", plainIP(g.pick(g.ips)))
	case r < 66:
		g.blacklistOp()
	case r < 72:
		g.add("gate %s %d", g.addr(g.host(), g.maybePid()), g.peer())
	case r < 80:
		g.traffic(false)
	case r < 85:
		g.traffic(true)
	case r < 88:
		g.add("tick")
	case r < 91:
		kind := fmt.Sprintf("bad%d", rng.Intn(len(badPayloads)))
		if rng.Intn(2) == 0 {
			kind = "p:" + g.pick([]string{"nosuch", "", "PING"})
			if kind == "p:" {
				kind = "p:nosuch2"
			}
		}
		op := g.pick([]string{"req", "res"})
		if rng.Intn(3) == 0 {
			kind = g.randomEnvTok(op == "req")
		}
		g.add("%s %d %s %d %s", op, g.t, g.addr(g.host(), -1), g.peer(), kind)
	case r < 93:
		g.add("disc %d", g.peer())
	case r < 95:
		pc := g.procs[rng.Intn(len(g.procs))]
		g.add("rlinc %s %d", pc.name, g.peer())
	case r < 97:
		pc := g.procs[rng.Intn(len(g.procs))]
		g.add("rlcheck %d %s %d %s", g.t, pc.name, g.peer(), g.addr(g.host(), -1))
	case r < 98:
		g.add("start")
	default:
		g.add("dump")
	}
	if rng.Intn(4) == 0 {
		g.advance()
	}
}

func genCase(rng *rand.Rand, tag string) corr.Case {
	g := &gen{rng: rng}
	g.genIPs()
	switch tag {
	case "random":
		exp := expChoices[rng.Intn(len(expChoices))]
		g.header(exp, rng.Intn(20) > 0)
		n := 5 + rng.Intn(40)
		for i := 0; i < n; i++ {
			g.randomOp()
		}
	case "expiry":
		// bans, then sweeps placed exactly around the expiration
		exp := []int64{1000, 2000, 1999, 5000, 500}[rng.Intn(5)]
		g.header(exp, true)
		nb := 1 + rng.Intn(3)
		for i := 0; i < nb; i++ {
			host := g.pick(g.ips)
			parts := [][]int{{100}, {60, 40}, {50, 49, 1}, {99, 1}, {30, 30, 30, 10}, {101}, {99, -10, 11}, {100, -50}}[rng.Intn(8)]
			for _, s := range parts {
				g.add("%s %d %s %d", g.pick([]string{"pen", "ppen"}), g.t, g.addr(host, g.maybePid()), s)
				if rng.Intn(3) == 0 {
					g.t += int64(rng.Intn(2))
				}
			}
			if rng.Intn(2) == 0 {
				g.add("connect %s %s %d", g.pick([]string{"in", "out"}), g.addr(host, -1), g.peer())
			}
			g.t += int64(rng.Intn(2))
		}
		for _, d := range []int64{g.E - 1, 1, 1, 1, 1} {
			if d > 0 {
				g.t += d
			}
			g.add("sweep %d", g.t)
			host := g.pick(g.ips)
			g.add("gate %s %d", g.addr(host, -1), g.peer())
			if rng.Intn(3) == 0 {
				g.add("pen %d %s %d", g.t, g.addr(host, g.maybePid()), scoreChoices[rng.Intn(len(scoreChoices))])
			}
			if rng.Intn(3) == 0 {
				g.add("connect %s %s %d", g.pick([]string{"in", "out"}), g.addr(host, -1), g.peer())
			}
		}
		for _, ip := range g.ips {
			g.add("pen %d %s 7", g.t, g.addr(ip, -1))
		}
	case "rate":
		g.header([]int64{2000, 60000}[rng.Intn(2)], true)
		for i := 0; i < 3; i++ {
			g.add("connect in %s %d", g.addr(g.pick(g.ips), -1), g.peer())
		}
		n := 3 + rng.Intn(8)
		for i := 0; i < n; i++ {
			g.traffic(true)
			switch rng.Intn(5) {
			case 0:
				g.add("tick")
			case 1:
				g.advance()
				g.add("sweep %d", g.t)
			}
		}
	case "shared-ip":
		// several peers behind one IP (different transports, ids, IPv4-mapped form)
		g.header(expChoices[rng.Intn(len(expChoices))], true)
		b := []byte{10, byte(rng.Intn(256)), 0, 1}
		v4 := "4:" + hex.EncodeToString(b)
		mapped := "6:" + hex.EncodeToString(append(append(make([]byte, 10), 0xff, 0xff), b...))
		relay := "r:" + hex.EncodeToString(b)
		g.ips = append([]string{v4, mapped, relay}, g.ips...)
		hosts := []string{v4, v4, mapped, relay}
		for p := 0; p < 4; p++ {
			g.add("connect %s %s %d", g.pick([]string{"in", "out"}), g.addr(g.pick(hosts), -1), p)
		}
		if rng.Intn(2) == 0 {
			g.add("connect in %s 0", g.addr(v4, -1)) // second connection of peer 0
		}
		n := 4 + rng.Intn(10)
		for i := 0; i < n; i++ {
			switch rng.Intn(6) {
			case 0:
				g.add("ppen %d %s %d", g.t, g.addr(g.pick(hosts), rng.Intn(4)), []int{25, 34, 50, 10}[rng.Intn(4)])
			case 1:
				g.add("applypen %d %d %d", g.t, rng.Intn(4), []int{25, 34, 50, 10}[rng.Intn(4)])
			case 2:
				g.add("pen %d %s %d", g.t, g.addr(g.pick(hosts), -1), []int{25, 34, 50, 10}[rng.Intn(4)])
			case 3:
				g.add("gate %s %d", g.addr(g.pick(g.ips), -1), rng.Intn(4))
			case 4:
				g.add("connect %s %s %d", g.pick([]string{"in", "out"}), g.addr(g.pick(g.ips), -1), rng.Intn(5))
			default:
				g.traffic(true)
			}
		}
		g.t += g.E + 1
		g.add("sweep %d", g.t)
	case "blacklist":
		started := rng.Intn(3) > 0
		g.header(expChoices[rng.Intn(len(expChoices))], started)
		g.blacklistOp()
		n := 4 + rng.Intn(12)
		for i := 0; i < n; i++ {
			switch rng.Intn(7) {
			case 0:
				g.blacklistOp()
			case 1:
				g.add("block %s", plainIP(g.pick(g.ips)))
			case 2:
				g.add("unblock %s", plainIP(g.pick(g.ips)))
			case 3, 4:
				g.add("connect %s %s %d", g.pick([]string{"in", "out"}), g.addr(g.host(), -1), g.peer())
			case 5:
				g.add("gate %s %d", g.addr(g.host(), g.maybePid()), g.peer())
			default:
				g.add("ppen %d %s %d", g.t, g.addr(g.host(), g.maybePid()), []int{50, 100}[rng.Intn(2)])
			}
		}
		g.t += g.E + 1
		g.add("sweep %d", g.t)
	case "invalid":
		g.add("reset %d %d", []int64{0, -1000, 1000, 5}[rng.Intn(4)], []int64{0, -1, 10000}[rng.Intn(3)])
		g.add("start")
		g.add("pen 1000 %s 100", g.addr(g.pick(g.ips), -1))
	}
	g.add("dump")
	return corr.Case{Ops: g.ops, Tag: tag}
}

func (prop) Generate(rng *rand.Rand, tier string) []corr.Case {
	n := 4000
	if tier == "thorough" {
		n = 150000
	}
	cases := make([]corr.Case, 0, n)
	tags := []string{"random", "random", "random", "expiry", "expiry", "rate", "rate", "shared-ip", "blacklist", "random"}
	for i := 0; i < n; i++ {
		tag := tags[i%len(tags)]
		if i%97 == 96 {
			tag = "invalid"
		}
		cases = append(cases, genCase(rng, tag))
	}
	return append(cases, envelopeCases(rng, tier)...)
}

// ---------------------------------------------------------------------------------------------
// runner + reference bookkeeping (model-free oracle)

type refEntry struct {
	sum    int
	banned bool
	exp    int64
}

type refConn struct {
	pid int
	key string
}

type runner struct {
	node   *p2p.VerifNode
	glitch bool
	fails  []corr.Fail
	opIdx  int
	seen   map[string]addrTok // probe addresses
	// reference
	E       int64
	started bool
	mp      bool
	scores  map[string]*refEntry
	blocked map[string]bool
	procs   map[string][2]int
	counts  map[string]int
	conns   []refConn
	handled int
}

func (r *runner) fail(sig, detail string) {
	r.fails = append(r.fails, corr.Fail{Sig: sig, Detail: detail, Op: r.opIdx})
}

func (r *runner) at(t int64, f func()) {
	if !r.node.At(t, f) {
		r.glitch = true
	}
}

// refPenalty: the specification of a penalty of s against key at time t.
func (r *runner) refPenalty(t int64, key string, s int) (newSum int, reached bool) {
	e := r.scores[key]
	if e == nil {
		e = &refEntry{}
		r.scores[key] = e
	}
	e.sum += s
	if e.sum >= p2p.VerifMaxPenaltyScore {
		e.banned = true
		e.exp = t + r.E
		return e.sum, true
	}
	return e.sum, false
}

func (r *runner) refDisconnect(pid int) {
	kept := r.conns[:0:0]
	for _, c := range r.conns {
		if c.pid != pid {
			kept = append(kept, c)
		}
	}
	r.conns = kept
}

func (r *runner) refRefused(key string) bool {
	if key == "" {
		return false
	}
	if r.blocked[key] {
		return true
	}
	e := r.scores[key]
	return e != nil && e.banned
}

func (r *runner) entryStr(a addrTok) string {
	if a.ipKey == "" {
		return "noip"
	}
	s, exp, ok := r.node.Score(keyToIPString(a.ipKey))
	if !ok {
		return "-"
	}
	return fmt.Sprintf("%d/%d", s, exp)
}

func (r *runner) closedStr() (string, []int) {
	var l []string
	var pids []int
	for _, id := range r.node.TakeClosed() {
		i := peerIndex(id)
		l = append(l, strconv.Itoa(i))
		pids = append(pids, i)
	}
	return "d:" + joinOr(l), pids
}

func has(l []int, x int) bool {
	for _, y := range l {
		if y == x {
			return true
		}
	}
	return false
}

func (r *runner) connectedPid(pid int) bool {
	for _, c := range r.node.ConnList() {
		if peerIndex(c.Peer) == pid {
			return true
		}
	}
	return false
}

// expectDisconnected: the clause "once the total reaches the threshold the peer is disconnected".
func (r *runner) expectDisconnected(path string, pid int, closed []int) {
	if !has(closed, pid) || r.connectedPid(pid) {
		r.fail("ban-without-disconnect:"+path, fmt.Sprintf("peer %d reached the ban threshold via %s but was not disconnected (ClosePeer calls %v)", pid, path, closed))
		// follow the implementation from here on, so that one defect is reported once
		r.conns = nil
		for _, c := range r.node.ConnList() {
			k := parseRemoteKey(c.Remote)
			if k == "-" {
				k = ""
			}
			r.conns = append(r.conns, refConn{peerIndex(c.Peer), k})
		}
	}
}

// checkState compares the gater's complete score table and every gate with the reference.
func (r *runner) checkState(op string) {
	got := map[string]p2p.VerifScoreEntry{}
	for _, e := range r.node.Scores() {
		ip := net.ParseIP(e.IP)
		if ip == nil {
			r.fail("score-key-not-ip", fmt.Sprintf("%s: key %q", op, e.IP))
			continue
		}
		got[ipHex(ip)] = e
	}
	for k, e := range r.scores {
		g, ok := got[k]
		switch {
		case !ok:
			r.fail("score-entry-missing", fmt.Sprintf("%s: ip %s: accumulated %d but no entry", op, k, e.sum))
		case g.Score != e.sum:
			r.fail("score-not-accumulated-per-ip", fmt.Sprintf("%s: ip %s: score %d, sum of penalties since last expiry %d", op, k, g.Score, e.sum))
		case (g.Expiration != -1) != e.banned:
			r.fail("ban-iff-threshold", fmt.Sprintf("%s: ip %s: banned=%v but threshold reached=%v (sum %d)", op, k, g.Expiration != -1, e.banned, e.sum))
		case e.banned && g.Expiration != e.exp:
			r.fail("ban-expiry-time", fmt.Sprintf("%s: ip %s: expiration %d want %d", op, k, g.Expiration, e.exp))
		}
	}
	for k, g := range got {
		if _, ok := r.scores[k]; !ok {
			r.fail("score-entry-unexpected", fmt.Sprintf("%s: ip %s has entry %d/%d but received no penalty since its last expiry", op, k, g.Score, g.Expiration))
		}
	}
	banned := map[string]bool{}
	for _, ip := range r.node.BannedIPs() {
		banned[ipHex(ip)] = true
	}
	for k, e := range r.scores {
		if e.banned != banned[k] {
			r.fail("list-banned", fmt.Sprintf("%s: ip %s listBannedPeers=%v want %v", op, k, banned[k], e.banned))
		}
	}
	// gates, on every address seen so far
	keys := make([]string, 0, len(r.seen))
	for k := range r.seen {
		keys = append(keys, k)
	}
	sort.Strings(keys)
	for _, k := range keys {
		a := r.seen[k]
		m := a.maddr()
		pid := peerIDs[0]
		refuse := r.refRefused(a.ipKey)
		gates := map[string]bool{
			"addrdial":   r.node.InterceptAddrDial(pid, m),
			"accept":     r.node.InterceptAccept(m),
			"secured-in": r.node.InterceptSecured(true, pid, m),
		}
		for name, allow := range gates {
			if allow == refuse {
				sig := "gate-refuses-clean-ip:" + name
				if refuse {
					sig = "gate-allows-banned-or-blacklisted:" + name
				}
				r.fail(sig, fmt.Sprintf("%s: %s on %s returned %v (blocked=%v, ref=%+v)", op, name, a.text, allow, r.blocked[a.ipKey], r.scores[a.ipKey]))
			}
		}
		if !r.node.InterceptPeerDial(pid) || !r.node.InterceptSecured(false, pid, m) || !r.node.InterceptUpgraded(pid, m) {
			r.fail("gate-unconditional", fmt.Sprintf("%s: PeerDial/Secured(out)/Upgraded refused %s", op, a.text))
		}
	}
	// connections
	var gc, rc []string
	for _, c := range r.node.ConnList() {
		gc = append(gc, fmt.Sprintf("%d@%s", peerIndex(c.Peer), parseRemoteKey(c.Remote)))
	}
	for _, c := range r.conns {
		k := c.key
		if k == "" {
			k = "-"
		}
		rc = append(rc, fmt.Sprintf("%d@%s", c.pid, k))
	}
	if strings.Join(gc, ",") != strings.Join(rc, ",") {
		r.fail("connections-differ", fmt.Sprintf("%s: open connections %v, expected %v", op, gc, rc))
	}
}

func parseRemoteKey(m ma.Multiaddr) string {
	var key string
	first := true
	ma.ForEach(m, func(c ma.Component) bool {
		if !first {
			return false
		}
		switch c.Protocol().Code {
		case ma.P_IP6ZONE:
			return true
		case ma.P_IP4, ma.P_IP6:
			key = ipHex(net.IP(c.RawValue()))
		}
		first = false
		return false
	})
	if key == "" {
		return "-"
	}
	return key
}

func (r *runner) note(tok string) addrTok {
	a := parseTok(tok)
	if _, ok := r.seen[tok]; !ok {
		r.seen[tok] = a
		// the same host with the other transports / without id is probed as well
		f := strings.Split(tok, "/")
		if f[0] != "n" && !strings.HasPrefix(f[0], "r:") {
			for _, tr := range []string{"t", "u"} {
				alt := f[0] + "/" + tr + "/-"
				if _, ok := r.seen[alt]; !ok {
					r.seen[alt] = parseTok(alt)
				}
			}
		}
	}
	return a
}

func (r *runner) dump() string {
	var s, b, c, rl []string
	for _, e := range r.node.Scores() {
		s = append(s, fmt.Sprintf("%s=%d/%d", ipHex(net.ParseIP(e.IP)), e.Score, e.Expiration))
	}
	sort.Strings(s)
	for _, ip := range r.node.BlockedIPs() {
		b = append(b, ipHex(ip))
	}
	sort.Strings(b)
	for _, cn := range r.node.ConnList() {
		c = append(c, fmt.Sprintf("%d@%s", peerIndex(cn.Peer), parseRemoteKey(cn.Remote)))
	}
	for _, ct := range r.node.RLCounters() {
		var cs []string
		for p, n := range ct.Counts {
			if n != 0 {
				cs = append(cs, fmt.Sprintf("%d=%d", peerIndex(p), n))
			}
		}
		sort.Strings(cs)
		rl = append(rl, fmt.Sprintf("%s:%d:%d[%s]", ct.Name, ct.Limit, ct.Penalty, strings.Join(cs, ";")))
	}
	sort.Strings(rl)
	b01 := func(x bool) string {
		if x {
			return "1"
		}
		return "0"
	}
	return fmt.Sprintf("S:%s B:%s C:%s R:%s st=%s%s h=%d", joinOr(s), joinOr(b), joinOr(c), joinOr(rl),
		b01(r.node.GaterStarted()), b01(r.node.MessageProtocolStarted()), r.node.Handled)
}

// refPeerPenalty: reference effect of Peer.addPenalty / banPeer through an address with known peer:
// returns whether the disconnect clause applies.
func (r *runner) refPathPenalty(t int64, a addrTok, s int) (applied, reached bool) {
	if !r.started || a.ipKey == "" {
		return false, false
	}
	_, reached = r.refPenalty(t, a.ipKey, s)
	return true, reached
}

func (r *runner) step(op string) string {
	w := strings.Fields(op)
	if w[0] == "reset" {
		if r.node != nil {
			r.node.Close()
			r.node = nil
		}
		expMs, ivMs := int64(atoi(w[1])), int64(atoi(w[2]))
		iv := time.Hour
		if ivMs <= 0 {
			iv = time.Duration(ivMs) * time.Millisecond
		}
		n, err := p2p.VerifNewNode(time.Duration(expMs)*time.Millisecond, iv, peerIDs[nPeers-1])
		if (err != nil) != (expMs <= 0 || ivMs <= 0) {
			r.fail("constructor-verdict", fmt.Sprintf("%s: err=%v", op, err))
		}
		if err != nil {
			return p2p.VerifErrKind(err)
		}
		r.node = n
		r.E = expMs / 1000
		r.started, r.mp = false, false
		r.scores = map[string]*refEntry{}
		r.blocked = map[string]bool{}
		r.procs = map[string][2]int{}
		r.counts = map[string]int{}
		r.conns = nil
		r.handled = 0
		r.seen = map[string]addrTok{}
		return "ok"
	}
	if r.node == nil {
		return "no-node"
	}
	n := r.node
	out := r.stepNode(n, w, op)
	r.checkState(op)
	return out
}

func (r *runner) stepNode(n *p2p.VerifNode, w []string, op string) string {
	switch w[0] {
	case "start":
		n.StartGater()
		r.started = true
		return "ok"
	case "reg":
		name := w[1]
		var res string
		if len(w) == 4 {
			res = n.RegisterKind(name, atoi(w[2]), atoi(w[3]), true)
		} else {
			res = n.RegisterKind(name, 0, 0, false)
		}
		if res == "ok" {
			if len(w) == 4 {
				r.procs[name] = [2]int{atoi(w[2]), atoi(w[3])}
			} else {
				r.procs[name] = [2]int{p2p.VerifDefaultRateLimit, p2p.VerifDefaultRatePenalty}
			}
		}
		return res
	case "mpstart":
		n.StartMessageProtocol()
		r.mp = true
		return "ok"
	case "pen":
		t, a, s := int64(atoi(w[1])), r.note(w[2]), atoi(w[3])
		var ns int
		var err error
		r.at(t, func() { ns, err = n.GaterAddPenalty(a.maddr(), s) })
		res := p2p.VerifErrKind(err)
		if applied, _ := r.refPathPenalty(t, a, s); applied {
			if err != nil {
				r.fail("penalty-rejected", fmt.Sprintf("%s: %v", op, err))
			} else if ns != r.scores[a.ipKey].sum {
				r.fail("score-not-accumulated-per-ip", fmt.Sprintf("%s: returned %d, sum of penalties since last expiry %d", op, ns, r.scores[a.ipKey].sum))
			}
		} else if err == nil {
			r.fail("penalty-accepted-without-ip-or-start", op)
		}
		if err == nil {
			res = fmt.Sprintf("ok %d", ns)
		}
		return res + " s=" + r.entryStr(a)
	case "ppen", "ban":
		t, a := int64(atoi(w[1])), r.note(w[2])
		s := p2p.VerifMaxPenaltyScore
		var err error
		if w[0] == "ppen" {
			s = atoi(w[3])
			r.at(t, func() { err = n.PeerAddPenalty(a.maddr(), s) })
		} else {
			r.at(t, func() { err = n.PeerBan(a.maddr()) })
		}
		d, closed := r.closedStr()
		applied, reached := r.refPathPenalty(t, a, s)
		if applied && a.pid >= 0 {
			if reached || w[0] == "ban" {
				r.refDisconnect(a.pid)
			}
			if reached {
				r.expectDisconnected(w[0], a.pid, closed)
			}
		}
		return p2p.VerifErrKind(err) + " " + d + " s=" + r.entryStr(a)
	case "applypen", "banpid":
		t, pid := int64(atoi(w[1])), atoi(w[2])
		s := p2p.VerifMaxPenaltyScore
		if w[0] == "applypen" {
			s = atoi(w[3])
			r.at(t, func() { n.ApplyPenalty(peerIDs[pid], s) })
		} else {
			r.at(t, func() { n.BanPeer(peerIDs[pid]) })
		}
		d, closed := r.closedStr()
		anyReached := false
		snapshot := append([]refConn{}, r.conns...)
		for _, c := range snapshot {
			if c.pid != pid {
				continue
			}
			applied, reached := r.refPathPenalty(t, addrTok{ipKey: c.key, pid: pid}, s)
			if applied && (reached || w[0] == "banpid") {
				r.refDisconnect(pid)
			}
			anyReached = anyReached || reached
		}
		if anyReached {
			r.expectDisconnected(w[0], pid, closed)
		}
		return d
	case "sweep":
		t := int64(atoi(w[1]))
		r.at(t, func() { n.SweepOnce() })
		for k, e := range r.scores {
			if e.banned && t > e.exp {
				delete(r.scores, k) // the ban expired: clean score, accepted again (checked by checkState)
			}
		}
		var l []string
		for _, ip := range n.BannedIPs() {
			l = append(l, ipHex(ip))
		}
		sort.Strings(l)
		return "B:" + joinOr(l)
	case "block", "unblock":
		b := ipTokBytes(w[1])
		if w[0] == "block" {
			n.BlockAddr(net.IP(b))
			r.blocked[hex.EncodeToString(canonBytes(b))] = true
		} else {
			n.UnblockAddr(net.IP(b))
			delete(r.blocked, hex.EncodeToString(canonBytes(b)))
		}
		return "ok"
	case "blacklist":
		var strs []string
		valid := true
		var keys []string
		if w[1] != "-" {
			for _, tok := range strings.Split(w[1], ",") {
				if tok[0] == 'x' {
					strs = append(strs, []string{"1.222.2222.12.12", "not-an-ip", "12.30.28"}[atoi(tok[1:])%3])
					valid = false
					continue
				}
				b := ipTokBytes(tok)
				if tok[0] == '6' {
					strs = append(strs, ip6Text(b))
				} else {
					strs = append(strs, net.IP(b).String())
				}
				keys = append(keys, hex.EncodeToString(canonBytes(b)))
			}
		}
		err := n.Blacklist(strs)
		if (err == nil) != valid {
			r.fail("blacklist-verdict", fmt.Sprintf("%s: %v err=%v", op, strs, err))
		}
		if valid {
			for _, k := range keys {
				r.blocked[k] = true
			}
		}
		if err != nil {
			return "err-invalid"
		}
		return "ok"
	case "gate":
		a, pid := r.note(w[1]), peerIDs[atoi(w[2])]
		m := a.maddr()
		b01 := func(x bool) string {
			if x {
				return "1"
			}
			return "0"
		}
		return b01(n.InterceptPeerDial(pid)) + b01(n.InterceptAddrDial(pid, m)) + b01(n.InterceptAccept(m)) +
			b01(n.InterceptSecured(true, pid, m)) + b01(n.InterceptSecured(false, pid, m)) + b01(n.InterceptUpgraded(pid, m))
	case "connect":
		a, pi := r.note(w[2]), atoi(w[3])
		pid := peerIDs[pi]
		m := a.maddr()
		var ok bool
		if w[1] == "in" {
			ok = n.InterceptAccept(m) && n.InterceptSecured(true, pid, m) && n.InterceptUpgraded(pid, m)
		} else {
			ok = n.InterceptPeerDial(pid) && n.InterceptAddrDial(pid, m) && n.InterceptSecured(false, pid, m) && n.InterceptUpgraded(pid, m)
		}
		if ok == r.refRefused(a.ipKey) {
			sig := "connection-refused-for-clean-ip"
			if ok {
				sig = "connection-accepted-from-banned-or-blacklisted"
			}
			r.fail(sig, fmt.Sprintf("%s: accepted=%v", op, ok))
		}
		if ok {
			n.AddConn(pid, m)
			r.conns = append(r.conns, refConn{pi, a.ipKey})
			return "ok"
		}
		return "refused"
	case "disc":
		pid := atoi(w[1])
		_ = n.PeerDisconnect(peerIDs[pid])
		n.TakeClosed()
		r.refDisconnect(pid)
		return "ok"
	case "rlinc":
		pid := atoi(w[2])
		n.RLIncrease(w[1], peerIDs[pid])
		r.counts[w[1]+"|"+w[2]]++
		c, _ := n.RLCount(w[1], peerIDs[pid])
		return strconv.Itoa(c)
	case "rlcheck":
		t, proc, pid, a := int64(atoi(w[1])), w[2], atoi(w[3]), r.note(w[4])
		var err error
		var notStarted bool
		r.at(t, func() { err, notStarted = n.RLCheck(proc, peerIDs[pid], a.maddr()) })
		d, closed := r.closedStr()
		res := p2p.VerifErrKind(err)
		if err != nil && notStarted {
			res = "err-notstarted"
		}
		if r.mp {
			r.refCheckLimit(op, "rlcheck", t, proc, pid, a, closed)
		}
		c, _ := n.RLCount(proc, peerIDs[pid])
		return fmt.Sprintf("%s %s c=%d s=%s", res, d, c, r.entryStr(a))
	case "tick":
		n.RLTick()
		r.counts = map[string]int{}
		return "ok"
	case "req", "res":
		if !r.mp {
			return "not-started"
		}
		t, a, pid, kind := int64(atoi(w[1])), r.note(w[2]), atoi(w[3]), w[4]
		isReq := w[0] == "req"
		var data []byte
		proc := ""
		reset, verdict := false, "" // raw-stream kinds (envelope.go): table verdict of the shape
		envMissed := false
		if isEnvTok(kind) {
			var ok bool
			if data, reset, verdict, proc, ok = parseEnvTok(kind); !ok {
				return "bad-op"
			}
		} else if strings.HasPrefix(kind, "bad") {
			data = badPayloads[atoi(kind[3:])]
		} else {
			proc = kind[2:]
			id := fmt.Sprintf("id-%d", r.opIdx)
			if r.opIdx%2 == 0 {
				data = envelope(id, proc, []byte{1, 2, 3}, isReq)
			} else if isReq {
				data = p2p.VerifEncodeRequest(peerIDs[pid], proc, []byte{9})
			} else {
				data = p2p.VerifEncodeResponse(id, proc, nil)
			}
		}
		before := n.Handled
		scoreBefore := 0
		if a.ipKey != "" {
			scoreBefore, _, _ = n.Score(keyToIPString(a.ipKey))
		}
		r.at(t, func() {
			switch {
			case reset && isReq:
				n.OnRequestReset(peerIDs[pid], a.maddr(), data)
			case reset:
				n.OnResponseReset(peerIDs[pid], a.maddr(), data)
			case isReq:
				n.OnRequest(peerIDs[pid], a.maddr(), data)
			default:
				n.OnResponse(peerIDs[pid], a.maddr(), data)
			}
		})
		d, closed := r.closedStr()
		_, registered := r.procs[proc]
		cstr := "-"
		if verdict != "" {
			// the table of degenerate envelopes: the row's verdict must still be the one of the code
			scoreAfter := 0
			if a.ipKey != "" {
				scoreAfter, _, _ = n.Score(keyToIPString(a.ipKey))
			}
			shape := fmt.Sprintf("%s stream delivering %d bytes (%s), %s by the remote", w[0], len(data), hex.EncodeToString(data), map[bool]string{true: "reset", false: "closed"}[reset])
			switch {
			case verdict == envBan && r.started && a.ipKey != "" && scoreAfter < scoreBefore+p2p.VerifMaxPenaltyScore:
				envMissed = true // follow the implementation from here on, so that one defect is reported once
				r.fail("c18-malformed-envelope-not-penalised", fmt.Sprintf("%s: %s: table verdict BAN, but the score of the sender's IP went %d -> %d (ClosePeer calls %v)", op, shape, scoreBefore, scoreAfter, closed))
			case verdict == envBan && n.Handled != before:
				r.fail("c18-malformed-envelope-not-penalised", fmt.Sprintf("%s: %s: table verdict BAN, but the handler ran", op, shape))
			case verdict == envNone && (scoreAfter != scoreBefore || len(closed) > 0 || n.Handled != before):
				r.fail("c18-wellformed-penalised", fmt.Sprintf("%s: %s: no envelope was received (table verdict NONE), but score %d -> %d, ClosePeer %v, handler runs %d", op, shape, scoreBefore, scoreAfter, closed, n.Handled-before))
			case verdict == envWell && !registered:
				return "bad-op"
			}
		}
		if verdict == envNone {
			return fmt.Sprintf("h=%d %s s=%s c=-", n.Handled, d, r.entryStr(a))
		}
		if proc != "" && registered {
			// well-formed traffic for a registered procedure: only the rate limit may penalise
			r.counts[proc+"|"+w[3]]++
			nFails := len(r.fails)
			penalised := r.refCheckLimit(op, w[0], t, proc, pid, a, closed)
			if verdict == envWell {
				for i := nFails; i < len(r.fails); i++ {
					if strings.HasPrefix(r.fails[i].Sig, "legal-traffic-") {
						r.fails[i].Sig = "c18-wellformed-penalised"
					}
				}
			}
			wantHandled := isReq && !penalised
			if (n.Handled-before == 1) != wantHandled {
				r.fail("request-handling", fmt.Sprintf("%s: handler invoked %d times, want invoked=%v", op, n.Handled-before, wantHandled))
			}
			c, _ := n.RLCount(proc, peerIDs[pid])
			cstr = strconv.Itoa(c)
		} else if !envMissed {
			// malformed envelope or unknown procedure: ban
			applied, reached := r.refPathPenalty(t, addrTok{ipKey: a.ipKey, pid: pid}, p2p.VerifMaxPenaltyScore)
			if applied {
				r.refDisconnect(pid)
				if reached {
					r.expectDisconnected("onmessage", pid, closed)
				}
			}
			if n.Handled != before {
				r.fail("bad-message-handled", op)
			}
		}
		return fmt.Sprintf("h=%d %s s=%s c=%s", n.Handled, d, r.entryStr(a), cstr)
	case "dump":
		return r.dump()
	}
	return "bad-op"
}

// refCheckLimit: reference semantics of the rate limit: a penalty is due exactly when the number
// of messages of (procedure, peer) since the last interval tick / last penalty exceeds the limit.
// Returns whether a penalty was due and could not be applied (the message is then dropped).
func (r *runner) refCheckLimit(op, path string, t int64, proc string, pid int, a addrTok, closed []int) (dropped bool) {
	cfg := r.procs[proc]
	key := proc + "|" + strconv.Itoa(pid)
	prev := r.scores[a.ipKey]
	prevSum, prevThere := 0, prev != nil
	if prevThere {
		prevSum = prev.sum
	}
	if r.counts[key] > cfg[0] {
		applied, reached := r.refPathPenalty(t, addrTok{ipKey: a.ipKey, pid: pid}, cfg[1])
		if !applied {
			return true
		}
		r.counts[key] = 0
		if reached {
			r.refDisconnect(pid)
			r.expectDisconnected(path, pid, closed)
		}
		// C18 clause: excess is penalised
		s, _, ok := r.node.Score(keyToIPString(a.ipKey))
		if !ok || s != prevSum+cfg[1] {
			r.fail("excess-not-penalised", fmt.Sprintf("%s: count exceeded limit %d but score is %d (was %d, penalty %d)", op, cfg[0], s, prevSum, cfg[1]))
		}
		return false
	}
	// C18 clause: traffic within the limit is never penalised
	if a.ipKey != "" {
		s, _, ok := r.node.Score(keyToIPString(a.ipKey))
		if ok != prevThere || s != prevSum {
			r.fail("legal-traffic-penalised", fmt.Sprintf("%s: %d messages in the interval (limit %d) but score changed %d -> %d", op, r.counts[key], cfg[0], prevSum, s))
		}
	}
	if len(closed) > 0 {
		r.fail("legal-traffic-disconnected", fmt.Sprintf("%s: ClosePeer %v", op, closed))
	}
	return false
}

func (r *runner) runOnce(c corr.Case) ([]string, []corr.Fail) {
	out := make([]string, 0, len(c.Ops))
	for i, op := range c.Ops {
		r.opIdx = i
		func() {
			defer func() {
				if e := recover(); e != nil {
					out = append(out, "panic")
					r.fail("c18-panic", fmt.Sprintf("%s: %v", op, e))
				}
			}()
			out = append(out, r.step(op))
		}()
	}
	if r.node != nil {
		r.node.Close()
	}
	return out, r.fails
}

func (prop) RunImpl(c corr.Case) ([]string, []corr.Fail) {
	var out []string
	var fails []corr.Fail
	for attempt := 0; attempt < 6; attempt++ {
		r := &runner{}
		out, fails = r.runOnce(c)
		if !r.glitch {
			return out, fails
		}
	}
	return out, append(fails, corr.Fail{Sig: "clock-glitch", Detail: "wall clock crossed a second boundary inside an op in 6 attempts", Op: -1})
}

func (prop) Classify(c corr.Case, out []string) string {
	kinds := map[string]bool{}
	bannedSeen := false
	for i, op := range c.Ops {
		if i >= len(out) {
			break
		}
		w := strings.Fields(op)
		o := out[i]
		switch w[0] {
		case "pen", "ppen", "ban", "rlcheck":
			if strings.Contains(o, " s=") {
				e := o[strings.Index(o, " s=")+3:]
				if strings.Contains(e, "/") && !strings.HasSuffix(strings.Fields(e)[0], "/-1") {
					bannedSeen = true
					kinds["ban"] = true
				}
			}
			if strings.Contains(o, "d:") && !strings.Contains(o, "d:-") {
				kinds["disconnect"] = true
			}
		case "req", "res":
			if strings.Contains(o, "d:") && !strings.Contains(o, "d:-") {
				kinds["msg-disconnect"] = true
			}
			f := strings.Fields(o)
			if len(f) == 4 && f[3] == "c=0" && strings.HasPrefix(w[4], "p:") {
				kinds["rate-penalty"] = true
			}
			if isEnvTok(w[4]) {
				if _, _, v, _, ok := parseEnvTok(w[4]); ok {
					kinds["envelope-"+v] = true
				}
			}
		case "connect":
			if o == "refused" {
				kinds["refused"] = true
			}
		case "sweep":
			if bannedSeen {
				kinds["sweep"] = true
			}
		case "applypen", "banpid":
			if o != "d:-" {
				kinds["conn-ban"] = true
			}
		case "blacklist":
			if o == "ok" {
				kinds["blacklist"] = true
			}
		}
	}
	if len(kinds) == 0 {
		return ""
	}
	ks := []string{}
	for k := range kinds {
		ks = append(ks, k)
	}
	sort.Strings(ks)
	return strings.Join(ks, "+")
}

// ---------------------------------------------------------------------------------------------
// Extra: real libp2p hosts on loopback; wall-clock expiry scenarios (thorough)

func (prop) Extra(rng *rand.Rand, tier string) corr.ExtraResult {
	res := corr.ExtraResult{Notes: map[string]any{}}
	// 1. two real hosts: misbehaviour leads to ban + disconnect + refusal in both directions
	for _, kind := range []string{"bad-req", "bad-res", "unknown-req", "unknown-res", "rate", "legal"} {
		r := p2p.VerifLoopbackScenario(kind)
		res.Evaluations++
		res.Samples = append(res.Samples, fmt.Sprintf("loopback %s: %+v", kind, r))
		if r.Err != "" || !r.ConnectedBefore {
			res.Fails = append(res.Fails, corr.Fail{Sig: "loopback-setup", Detail: fmt.Sprintf("%s: %+v", kind, r), Op: -1})
			continue
		}
		if kind == "legal" {
			if r.IPBanned || !r.StillConnected {
				res.Fails = append(res.Fails, corr.Fail{Sig: "legal-traffic-penalised:loopback", Detail: fmt.Sprintf("%+v", r), Op: -1})
			}
			continue
		}
		if !r.IPBanned {
			res.Fails = append(res.Fails, corr.Fail{Sig: "misbehaviour-not-penalised:loopback:" + kind, Detail: fmt.Sprintf("%+v", r), Op: -1})
			continue
		}
		if r.StillConnected {
			res.Fails = append(res.Fails, corr.Fail{Sig: "ban-without-disconnect:loopback:" + kind,
				Detail: fmt.Sprintf("peer banned after %s but still connected; %d further requests were served: %+v", kind, r.HandledAfterBan, r), Op: -1})
		}
		if !r.RedialRefused || !r.InboundRefused {
			res.Fails = append(res.Fails, corr.Fail{Sig: "banned-ip-connection-accepted:loopback:" + kind, Detail: fmt.Sprintf("%+v", r), Op: -1})
		}
	}
	if tier != "thorough" {
		return res
	}
	// 2. wall clock, no clock translation: ban lasts while now <= ban second + E, is lifted by the first
	// pass of the expiry loop afterwards, score is clean again.
	const nScen = 64
	var mu sync.Mutex
	var wg sync.WaitGroup
	seeds := make([]int64, nScen)
	for i := range seeds {
		seeds[i] = rng.Int63()
	}
	for i := 0; i < nScen; i++ {
		wg.Add(1)
		go func(i int) {
			defer wg.Done()
			fs, note := realClockScenario(rand.New(rand.NewSource(seeds[i])), i)
			mu.Lock()
			res.Evaluations++
			res.Fails = append(res.Fails, fs...)
			if i < 4 {
				res.Samples = append(res.Samples, note)
			}
			mu.Unlock()
		}(i)
	}
	wg.Wait()
	return res
}

func realClockScenario(rng *rand.Rand, idx int) (fails []corr.Fail, note string) {
	E := int64(1 + idx%2)
	interval := []time.Duration{20 * time.Millisecond, 50 * time.Millisecond, 100 * time.Millisecond}[idx%3]
	expiration := time.Duration(E)*time.Second + time.Duration(idx%4)*200*time.Millisecond // fraction is truncated by the code
	g, err := p2p.VerifNewRealGater(expiration, interval)
	if err != nil {
		return []corr.Fail{{Sig: "realclock-setup", Detail: err.Error(), Op: -1}}, ""
	}
	defer g.Close()
	fail := func(sig, d string) { fails = append(fails, corr.Fail{Sig: sig, Detail: d, Op: -1}) }
	var host, other string
	if idx%2 == 0 {
		host = fmt.Sprintf("4:%02x%02x%02x%02x", 10, idx, rng.Intn(256), 1+rng.Intn(200))
		other = fmt.Sprintf("4:%02x%02x%02x%02x", 11, idx, rng.Intn(256), 1+rng.Intn(200))
	} else {
		host = fmt.Sprintf("6:20010db8%04x000000000000000000%02x", idx, 1+rng.Intn(200))
		other = fmt.Sprintf("6:20010db9%04x000000000000000000%02x", idx, 1+rng.Intn(200))
	}
	a1 := parseTok(host + "/t/1")
	a2 := parseTok(host + "/u/2")
	probe := parseTok(host + "/t/-")
	o := parseTok(other + "/t/3")
	var r0 int64
	for {
		for ns := time.Now().Nanosecond(); ns < 100_000_000 || ns > 400_000_000; ns = time.Now().Nanosecond() {
			time.Sleep(5 * time.Millisecond)
		}
		r0 = time.Now().Unix()
		break
	}
	if _, err := g.AddPenalty(o.maddr(), 99); err != nil {
		fail("realclock-penalty", err.Error())
	}
	s1, _ := g.AddPenalty(a1.maddr(), 60)
	if !g.Allowed(probe.maddr()) {
		fail("gate-refuses-clean-ip:real-clock", "refused at 60 points")
	}
	s2, _ := g.AddPenalty(a2.maddr(), 40)
	if time.Now().Unix() != r0 {
		return nil, "skipped: clock moved during setup"
	}
	if s1 != 60 || s2 != 100 {
		fail("score-not-accumulated-per-ip:real-clock", fmt.Sprintf("scores %d %d", s1, s2))
	}
	liftDeadline := time.Unix(r0+E+1, 0).Add(interval + 600*time.Millisecond)
	end := liftDeadline.Add(200 * time.Millisecond)
	lifted := false
	var liftedAt time.Time
	for time.Now().Before(end) {
		before := time.Now()
		refused := g.Refused(probe.maddr())
		allowed := g.Allowed(probe.maddr())
		after := time.Now()
		if after.Unix() <= r0+E && !refused {
			fail("ban-lifted-early:real-clock", fmt.Sprintf("banned at second %d, E=%d, not refused at %v", r0, E, after))
			break
		}
		if before.After(liftDeadline) && !allowed {
			fail("ban-not-lifted:real-clock", fmt.Sprintf("banned at second %d, E=%d, interval %v, still refused at %v", r0, E, interval, before))
			break
		}
		if allowed && !lifted {
			lifted, liftedAt = true, after
		}
		if !g.Allowed(o.maddr()) {
			fail("gate-refuses-clean-ip:real-clock", "ip with 99 points refused")
			break
		}
		time.Sleep(10 * time.Millisecond)
	}
	if lifted {
		if _, _, ok := g.Score(keyToIPString(a1.ipKey)); ok {
			fail("expired-entry-kept:real-clock", "entry still present after the ban was lifted")
		}
		if s, _ := g.AddPenalty(a1.maddr(), 7); s != 7 {
			fail("score-not-clean-after-expiry:real-clock", fmt.Sprintf("first penalty after expiry returned %d", s))
		}
	}
	if s, exp, ok := g.Score(keyToIPString(o.ipKey)); !ok || s != 99 || exp != -1 {
		fail("unbanned-entry-changed:real-clock", fmt.Sprintf("%d %d %v", s, exp, ok))
	}
	return fails, fmt.Sprintf("real-clock E=%ds interval=%v: banned at %d, lifted %.3fs after the ban second", E, interval, r0, liftedAt.Sub(time.Unix(r0, 0)).Seconds())
}
