package c18

// Pseudo-property C18LIFE (run as part of C18 through `also`; model driver `ldriver C18LIFE` =
// lean/Driver/Lifecycle.lean over Model/Lifecycle.lean): the LIFE CYCLE of the Connection.
//
// Connection.Start builds a new Peer (libp2p host + connectionGater) on every call; the MessageProtocol, its
// rateLimit, the GossipSub and the Connection are created once by NewConnection and hold a pointer to "their"
// Peer. Every clause of C18 (penalties accumulate per IP, ban at >= 100, refusal on all gates, expiry, rate
// limiter, malformed envelope / unknown procedure ban, ApplyPenalty / BanPeer) must hold in EVERY run of
// the same Connection object, i.e. after 0, 1, 2 ... Stop()/Start() cycles, with or without traffic in
// between. That needs every long-lived component to be re-bound to the Peer of the current run; a component
// that keeps the Peer of a previous run books its penalties on a dead gater and closes connections of a closed
// host - silently (the old gater still says isStarted).
//
// Two parts:
//
//  1. op sequences of C18 with `restart <blacklist>` and `bind` ops on the stub node (hook
//     VerifNode.VerifC18Restart = what Stop()+Start() do, with the package's own newConnGater /
//     optionWithBlacklist / connectionGater.start / MessageProtocol.start -> rateLimit.start). The runner is the
//     C18 runner: its model-free reference (score sums per IP, message counts per window, open connections,
//     all gates on all addresses after every op) continues across the restart with the specification of a
//     restart: the new run starts with an empty score table (bans taken before are forgotten by the new
//     gater - what the code does, pinned here and in the model, not part of the property), the configured
//     blacklist re-applied (runtime block/unblock forgotten), no connections, gater and message protocol
//     started, message counters of the current window KEPT (the rateLimit object survives). Oracle signatures
//     after a restart are the C18 ones (excess-not-penalised, score-not-accumulated-per-ip, ban-iff-threshold,
//     gate-allows-banned-or-blacklisted ...) plus `c18-life-stale-binding:<component>`. Every output line is
//     also diffed with the Lean model, which carries a generation counter per component.
//
//  2. Extra: REAL Connections on loopback (hook VerifC18LifeScenario): 0 / 1 / 2 Stop()+Start() cycles, with
//     and without traffic in between, then each way of misbehaving; the ban must be in the gater of the RUNNING
//     host, the sender disconnected and refused in both directions; legal traffic must not be penalised.

import (
	"fmt"
	"math/rand"
	"regexp"
	"sort"
	"strings"
	"sync"

	"github.com/LiskHQ/lisk-engine/pkg/p2p"

	"verifharness/corr"
)

type lifeProp struct{}

func init() { corr.Register(lifeProp{}) }

func (lifeProp) ID() string    { return "C18LIFE" }
func (lifeProp) Parallel() int { return 8 }

// ---------------------------------------------------------------------------------------------
// generator

var ipTokRe = regexp.MustCompile(`\b[46zr]:[0-9a-f]{8,32}\b`)

// restartList: the configured blacklist of the restarted Connection: none, or addresses of the case.
func restartList(rng *rand.Rand, ips []string) string {
	if len(ips) == 0 || rng.Intn(2) == 0 {
		return "-"
	}
	n := 1 + rng.Intn(2)
	var l []string
	for i := 0; i < n; i++ {
		l = append(l, plainIP(ips[rng.Intn(len(ips))]))
	}
	if rng.Intn(12) == 0 {
		l = append(l, "x1") // an entry net.ParseIP rejects: Start fails
	}
	return strings.Join(l, ",")
}

func caseIPs(ops []string) []string {
	seen := map[string]bool{}
	var l []string
	for _, op := range ops {
		for _, t := range ipTokRe.FindAllString(op, -1) {
			if !seen[t] {
				seen[t] = true
				l = append(l, t)
			}
		}
	}
	sort.Strings(l)
	return l
}

func lifeCase(rng *rand.Rand, tag string) corr.Case {
	switch tag {
	case "life-mixed":
		// a C18 case of any family with 1-2 restarts (and binding probes) placed anywhere after the header
		// (the direct rate limiter ops `rlinc` / `rlcheck` need their procedure registered, and registering
		// is refused once a restart has started the message protocol)
		base := genCase(rng, []string{"random", "random", "expiry", "rate", "rate", "shared-ip", "blacklist"}[rng.Intn(7)])
		ips := caseIPs(base.Ops)
		ops := append([]string{}, base.Ops...)
		first := 1
		for i, op := range ops {
			if op == "mpstart" {
				first = i + 1
			}
		}
		if first >= len(ops) {
			first = len(ops) - 1
		}
		for k := 1 + rng.Intn(2); k > 0; k-- {
			at := first + rng.Intn(len(ops)-first)
			ins := []string{"restart " + restartList(rng, ips)}
			if rng.Intn(3) == 0 {
				ins = append(ins, "bind")
			}
			ops = append(ops[:at], append(ins, ops[at:]...)...)
		}
		return corr.Case{Ops: ops, Tag: tag}
	}
	g := &gen{rng: rng}
	g.genIPs()
	cycles := 1 + rng.Intn(2)
	between := rng.Intn(2) == 0
	restart := func() {
		if between {
			for i := 0; i < 1+rng.Intn(2); i++ {
				g.add("connect in %s %d", g.addr(g.pick(g.ips), -1), g.peer())
				g.traffic(rng.Intn(2) == 0)
			}
		}
		g.add("restart %s", restartList(rng, g.ips))
		if rng.Intn(2) == 0 {
			g.add("bind")
		}
	}
	switch tag {
	case "life-rate":
		// the rate limiter after 1-2 restarts: bursts around the limit, ticks, sweeps
		g.header([]int64{2000, 60000}[rng.Intn(2)], true)
		if rng.Intn(4) == 0 {
			// the message protocol is started by the (re)start of the Connection only
			kept := g.ops[:0:0]
			for _, op := range g.ops {
				if op != "mpstart" && !strings.HasPrefix(op, "reg late") {
					kept = append(kept, op)
				}
			}
			g.ops = kept
		}
		g.add("bind")
		for c := 0; c < cycles; c++ {
			restart()
		}
		for i := 0; i < 2; i++ {
			g.add("connect in %s %d", g.addr(g.pick(g.ips), -1), g.peer())
		}
		n := 3 + rng.Intn(6)
		for i := 0; i < n; i++ {
			g.traffic(true)
			switch rng.Intn(6) {
			case 0:
				g.add("tick")
			case 1:
				g.advance()
				g.add("sweep %d", g.t)
			case 2:
				pc := g.procs[rng.Intn(len(g.procs))]
				g.add("rlcheck %d %s %d %s", g.t, pc.name, g.peer(), g.addr(g.host(), -1))
			}
		}
	case "life-ban":
		// a ban taken before the cycle (forgotten by the new gater), then accumulation from zero, ban at the
		// threshold, refusal, expiry - in the new run
		g.header([]int64{1000, 2000, 5000}[rng.Intn(3)], true)
		host := g.pick(g.ips)
		g.add("connect %s %s %d", g.pick([]string{"in", "out"}), g.addr(host, -1), 1)
		g.add("%s %d %s 100", g.pick([]string{"pen", "ppen"}), g.t, g.addr(host, 1))
		g.add("gate %s %d", g.addr(host, -1), 1)
		for c := 0; c < cycles; c++ {
			restart()
		}
		g.add("gate %s %d", g.addr(host, -1), 1)
		g.add("connect %s %s %d", g.pick([]string{"in", "out"}), g.addr(host, -1), 1)
		parts := [][]int{{100}, {60, 40}, {50, 49, 1}, {99, 1}, {30, 30, 30, 10}, {99, -10, 11}}[rng.Intn(6)]
		for _, s := range parts {
			switch rng.Intn(3) {
			case 0:
				g.add("pen %d %s %d", g.t, g.addr(host, g.maybePid()), s)
			case 1:
				g.add("ppen %d %s %d", g.t, g.addr(host, 1), s)
			default:
				g.add("applypen %d 1 %d", g.t, s)
			}
		}
		g.add("connect %s %s %d", g.pick([]string{"in", "out"}), g.addr(host, -1), 2)
		for _, d := range []int64{g.E - 1, 1, 1, 1} {
			if d > 0 {
				g.t += d
			}
			g.add("sweep %d", g.t)
			g.add("gate %s %d", g.addr(host, -1), g.peer())
		}
		g.add("pen %d %s 7", g.t, g.addr(host, -1))
	case "life-bad":
		// malformed envelopes / unknown procedures / connection-level bans after 1-2 restarts
		g.header(expChoices[rng.Intn(len(expChoices))], rng.Intn(4) > 0)
		for c := 0; c < cycles; c++ {
			restart()
		}
		n := 3 + rng.Intn(5)
		for i := 0; i < n; i++ {
			host, pid := g.pick(g.ips), g.peer()
			g.add("connect %s %s %d", g.pick([]string{"in", "out"}), g.addr(host, -1), pid)
			op := g.pick([]string{"req", "res"})
			switch rng.Intn(5) {
			case 0:
				g.add("%s %d %s %d bad%d", op, g.t, g.addr(host, -1), pid, rng.Intn(len(badPayloads)))
			case 1:
				g.add("%s %d %s %d p:nosuch", op, g.t, g.addr(host, -1), pid)
			case 2:
				g.add("%s %d %s %d %s", op, g.t, g.addr(host, -1), pid, g.randomEnvTok(op == "req"))
			case 3:
				g.add("banpid %d %d", g.t, pid)
			default:
				g.add("applypen %d %d %d", g.t, pid, []int{50, 100, 34}[rng.Intn(3)])
			}
			g.add("connect %s %s %d", g.pick([]string{"in", "out"}), g.addr(host, -1), g.peer())
			if rng.Intn(3) == 0 {
				g.add("reg late%d", i) // registering after a restart: still "started"
			}
		}
	}
	g.add("bind")
	g.add("dump")
	return corr.Case{Ops: g.ops, Tag: tag}
}

func (lifeProp) Generate(rng *rand.Rand, tier string) []corr.Case {
	n := 900
	if tier == "thorough" {
		n = 30000
	}
	tags := []string{"life-mixed", "life-rate", "life-mixed", "life-ban", "life-mixed", "life-bad", "life-rate", "life-mixed"}
	cases := make([]corr.Case, 0, n)
	for i := 0; i < n; i++ {
		cases = append(cases, lifeCase(rng, tags[i%len(tags)]))
	}
	return cases
}

// ---------------------------------------------------------------------------------------------
// runner: the C18 runner plus the two life-cycle ops

func bindStr(n *p2p.VerifNode) (string, []string) {
	mp, rl, conn, gater := n.VerifC18Bindings()
	var stale []string
	for _, c := range [][2]string{{"MessageProtocol.peer", mp}, {"rateLimit.peer", rl}, {"Connection.Peer", conn}, {"Peer.connGater", gater}} {
		if c[1] == "old" {
			stale = append(stale, c[0])
		}
	}
	return "b=" + mp + "/" + rl + "/" + conn, stale
}

func (r *runner) lifeStep(op string) string {
	w := strings.Fields(op)
	if r.node == nil || (w[0] != "restart" && w[0] != "bind") {
		return r.step(op)
	}
	n := r.node
	if w[0] == "bind" {
		s, _ := bindStr(n)
		return s
	}
	if len(w) != 2 {
		return "bad-op"
	}
	var strs, keys []string
	valid := true
	if w[1] != "-" {
		for _, tok := range strings.Split(w[1], ",") {
			if tok[0] == 'x' {
				strs = append(strs, []string{"1.222.2222.12.12", "not-an-ip", "12.30.28"}[atoi(tok[1:])%3])
				valid = false
				continue
			}
			b := ipTokBytes(tok)
			if tok[0] == '6' {
				strs = append(strs, ip6Text(b))
			} else {
				strs = append(strs, fmt.Sprintf("%d.%d.%d.%d", b[0], b[1], b[2], b[3]))
			}
			keys = append(keys, fmt.Sprintf("%x", canonBytes(b)))
		}
	}
	err := n.VerifC18Restart(strs)
	if (err == nil) != valid {
		r.fail("c18-life-restart-verdict", fmt.Sprintf("%s: blacklist %v: err=%v", op, strs, err))
	}
	// specification of Stop(): the host is closed, all its connections are gone
	r.conns = nil
	res := "err-invalid"
	if err == nil {
		// specification of Start(): a new run. Fresh score table, configured blacklist, gater and message
		// protocol started; the message counters of the window survive (r.counts is kept).
		r.scores = map[string]*refEntry{}
		r.blocked = map[string]bool{}
		if valid {
			for _, k := range keys {
				r.blocked[k] = true
			}
		}
		r.started, r.mp = true, true
		res = "ok"
	}
	s, stale := bindStr(n)
	if err == nil {
		for _, c := range stale {
			r.fail("c18-life-stale-binding:"+c, fmt.Sprintf("%s: after Stop()+Start() %s still points to the Peer (host, connection gater) of the previous run: what this component penalises or disconnects from now on does not reach the running host (%s)", op, c, s))
		}
	}
	r.checkState(op)
	return res + " " + s
}

func (r *runner) lifeRunOnce(c corr.Case) ([]string, []corr.Fail) {
	out := make([]string, 0, len(c.Ops))
	for i, op := range c.Ops {
		r.opIdx = i
		func() {
			defer func() {
				if e := recover(); e != nil {
					out = append(out, "panic")
					r.fail("c18-panic", fmt.Sprintf("%s: %v", op, e))
				}
			}()
			out = append(out, r.lifeStep(op))
		}()
	}
	if r.node != nil {
		r.node.Close()
	}
	return out, r.fails
}

func (lifeProp) RunImpl(c corr.Case) ([]string, []corr.Fail) {
	var out []string
	var fails []corr.Fail
	for attempt := 0; attempt < 6; attempt++ {
		r := &runner{}
		out, fails = r.lifeRunOnce(c)
		if !r.glitch {
			return out, firstPerSig(fails)
		}
	}
	return out, append(firstPerSig(fails), corr.Fail{Sig: "clock-glitch", Detail: "wall clock crossed a second boundary inside an op in 6 attempts", Op: -1})
}

// firstPerSig keeps the first failure of every signature of a case: a component left on the Peer of a previous
// run makes the reference and the implementation disagree on every later op.
func firstPerSig(fails []corr.Fail) []corr.Fail {
	seen := map[string]bool{}
	var kept []corr.Fail
	for _, f := range fails {
		if !seen[f.Sig] {
			seen[f.Sig] = true
			kept = append(kept, f)
		}
	}
	return kept
}

// Classify: the C18 class of the part after the last successful restart, prefixed with the number of restarts.
func (lifeProp) Classify(c corr.Case, out []string) string {
	restarts, last := 0, -1
	for i, op := range c.Ops {
		if i < len(out) && strings.HasPrefix(op, "restart ") && strings.HasPrefix(out[i], "ok") {
			restarts++
			last = i
		}
	}
	if restarts == 0 {
		return ""
	}
	tail := corr.Case{Ops: c.Ops[last+1:]}
	cl := prop{}.Classify(tail, out[last+1:])
	if cl == "" {
		return ""
	}
	return fmt.Sprintf("restart%d:%s", restarts, cl)
}

// ---------------------------------------------------------------------------------------------
// Extra: real Connections on loopback, stopped and started again

type lifeScen struct {
	kind              string
	cycles            int
	traffic, banFirst bool
}

func (s lifeScen) String() string {
	return fmt.Sprintf("%s after %d Stop()+Start() cycle(s), traffic in between=%v, ban before the first cycle=%v", s.kind, s.cycles, s.traffic, s.banFirst)
}

var lifeKinds = []string{"bad-req", "bad-res", "unknown-req", "unknown-res", "rate", "legal", "accumulate", "banpeer"}

func lifeScenarios(rng *rand.Rand, tier string) []lifeScen {
	var l []lifeScen
	if tier == "thorough" {
		for _, k := range lifeKinds {
			for cyc := 0; cyc <= 3; cyc++ {
				for _, tr := range []bool{false, true} {
					l = append(l, lifeScen{k, cyc, tr, false})
				}
				if cyc > 0 {
					l = append(l, lifeScen{k, cyc, cyc%2 == 0, true})
				}
			}
		}
		return l
	}
	// quick: 0 cycles for the kinds the C18 loopback scenarios do not have; 1 cycle: every kind, traffic
	// alternating (both values for the rate limiter); 2 cycles: every kind
	l = append(l, lifeScen{"accumulate", 0, false, false}, lifeScen{"banpeer", 0, false, false})
	for i, k := range lifeKinds {
		l = append(l, lifeScen{k, 1, (i+int(rng.Int63()))%2 == 0, i%4 == 1})
		l = append(l, lifeScen{k, 2, i%2 == 0, i%4 == 2})
	}
	l = append(l, lifeScen{"rate", 1, false, false}, lifeScen{"rate", 1, true, false}, lifeScen{"legal", 1, true, false})
	seen := map[lifeScen]bool{}
	uniq := l[:0:0]
	for _, s := range l {
		if !seen[s] {
			seen[s] = true
			uniq = append(uniq, s)
		}
	}
	return uniq
}

func (lifeProp) Extra(rng *rand.Rand, tier string) corr.ExtraResult {
	res := corr.ExtraResult{Notes: map[string]any{}}
	scens := lifeScenarios(rng, tier)
	var mu sync.Mutex
	var wg sync.WaitGroup
	sem := make(chan struct{}, 4)
	forgotten, kept := 0, 0
	for _, sc := range scens {
		wg.Add(1)
		sem <- struct{}{}
		go func(sc lifeScen) {
			defer wg.Done()
			defer func() { <-sem }()
			r := p2p.VerifC18LifeScenario(sc.kind, sc.cycles, sc.traffic, sc.banFirst)
			if r.Err != "" && strings.Contains(r.Err, "connect:") {
				r = p2p.VerifC18LifeScenario(sc.kind, sc.cycles, sc.traffic, sc.banFirst) // one retry on a loopback hiccup
			}
			mu.Lock()
			defer mu.Unlock()
			res.Evaluations++
			if len(res.Samples) < 6 {
				res.Samples = append(res.Samples, fmt.Sprintf("life %s: %+v", sc, r))
			}
			fail := func(sig string) {
				res.Fails = append(res.Fails, corr.Fail{Sig: sig, Detail: fmt.Sprintf("real Connection on loopback, %s: %+v", sc, r), Op: -1})
			}
			if sc.banFirst && sc.cycles > 0 {
				if r.BanForgotten {
					forgotten++
				} else {
					kept++
				}
			}
			switch {
			case r.Err != "" && strings.HasPrefix(r.Err, "accumulate:"):
				fail("score-not-accumulated-per-ip:life:accumulate")
				return
			case r.Err != "" || !r.ConnectedBefore || r.Restarts != sc.cycles:
				fail("loopback-setup:life")
				return
			}
			if strings.Contains(r.Bindings, "old") {
				fail("c18-life-stale-binding:loopback")
			}
			if sc.kind == "legal" {
				if r.IPBanned || r.Score != 0 || !r.StillConnected {
					fail("legal-traffic-penalised:life")
				}
				if r.Handled != 5 {
					fail("request-handling:life")
				}
				return
			}
			if !r.IPBanned {
				fail("misbehaviour-not-penalised:life:" + sc.kind)
				return
			}
			if r.StillConnected {
				fail("ban-without-disconnect:life:" + sc.kind)
			}
			if !r.RedialRefused || !r.InboundRefused {
				fail("banned-ip-connection-accepted:life:" + sc.kind)
			}
		}(sc)
	}
	wg.Wait()
	res.Notes["scenarios"] = len(scens)
	res.Notes["ban-before-cycle-forgotten-by-new-gater"] = forgotten
	res.Notes["ban-before-cycle-kept"] = kept
	sort.Slice(res.Fails, func(i, j int) bool { return res.Fails[i].Detail < res.Fails[j].Detail })
	return res
}
