package c18

// Pseudo-property C18SIZE (model free, run as part of C18 through `also`): message SIZES.
//
// Clause of C18: "Malformed envelopes, unknown procedures, invalid sync requests and request rates above the
// limit lead to these penalties; well-formed traffic within the limits never does." The request / response layer
// of pkg/p2p has no size limit of its own (a message is whatever the remote wrote until it closed its side of the
// stream), so a well-formed envelope is well formed WHATEVER its size: for every payload size, as request and as
// response, one message within the rate limit
//
//	reaches its destination intact  (request: the registered handler runs once and sees exactly the payload;
//	                                 response: the waiting requester gets exactly the payload; sha256 compared)
//	and costs its sender nothing    (penalty table of the receiver - and of the sender - empty, nobody banned,
//	                                 the connection still there, the sender's address passes InterceptAddrDial,
//	                                 InterceptAccept and InterceptSecured).
//
// Sizes: L-1, L, L+1 for every power of two L up to 4 MiB (16 MiB thorough), once measured on the PAYLOAD and
// once on the ENCODED envelope (the payload size whose wire form has exactly L-1, L, L+1 bytes), a random size
// in the envelope band below every boundary, log-uniform random sizes, and the LARGEST LEGITIMATE message of the
// engine: the answer to getBlocksFromId = sync.GetBlocksFromIDResponse with the maximum number of blocks (103),
// every block with maximal header fields, assets and transactions of exactly Genesis.MaxTransactionsSize bytes
// (the default of config.GenesisConfig.InsertDefault, 15 KiB) - encoded with the real codec (about 1.6 MiB).
//
// Two paths:
//
//	stub  the stub node of pkg/p2p/export_verif.go: hand-encoded envelopes (independent of the package's writer)
//	      fed to the REAL onRequest / onResponse as a stream from a connected peer (IPv4, IPv6, IPv4-mapped);
//	loop  two REAL Connections (NewConnection + Start, default rate limits) on 127.0.0.1: RequestFrom on one
//	      side, a registered handler on the other; while the exchange is in flight the penalty tables of both
//	      sides are polled, so a message that is cut, "fails to decode" and gets its sender banned is reported
//	      within milliseconds instead of after the retry budget.
//
// Signatures: `c18-size-wellformed-penalised:<path>:<req|res>`, `c18-size-wellformed-not-delivered:<path>:<req|res>`.

import (
	"context"
	"crypto/sha256"
	"fmt"
	"math/rand"
	"strconv"
	"strings"
	"sync"
	"time"

	ma "github.com/multiformats/go-multiaddr"

	"github.com/LiskHQ/lisk-engine/pkg/blockchain"
	"github.com/LiskHQ/lisk-engine/pkg/codec"
	csync "github.com/LiskHQ/lisk-engine/pkg/consensus/sync"
	"github.com/LiskHQ/lisk-engine/pkg/engine/config"
	"github.com/LiskHQ/lisk-engine/pkg/p2p"

	"verifharness/corr"
)

type sizeProp struct{}

func init() { corr.Register(sizeProp{}) }

func (sizeProp) ID() string    { return "C18SIZE" }
func (sizeProp) NoModel() bool { return true }

const (
	sizeStubProc   = "c18size"
	sizeReqID      = "01234567-89ab-cdef-0123-456789abcdef"
	sizeTimeout    = 25 * time.Second // response timeout of the real Connections: every response is in time
	sizeWatchdog   = 45 * time.Second
	sizePairBudget = 320 // exchanges per pair of Connections (4 procedures x 80 < default limit of 100 per window)
)

var sizeLoopProcs = []string{"c18sizeA", "c18sizeB", "c18sizeC", "c18sizeD"}

// sizeFill returns n bytes determined by (n, seed) (xorshift).
func sizeFill(n int, seed uint64) []byte {
	b := make([]byte, n)
	x := seed*0x9E3779B97F4A7C15 + uint64(n)*0xD1B54A32D192ED03 + 1
	i := 0
	for ; i+8 <= n; i += 8 {
		x ^= x << 13
		x ^= x >> 7
		x ^= x << 17
		b[i], b[i+1], b[i+2], b[i+3] = byte(x), byte(x>>8), byte(x>>16), byte(x>>24)
		b[i+4], b[i+5], b[i+6], b[i+7] = byte(x>>32), byte(x>>40), byte(x>>48), byte(x>>56)
	}
	for ; i < n; i++ {
		x ^= x << 13
		x ^= x >> 7
		x ^= x << 17
		b[i] = byte(x)
	}
	return b
}

// ---------------------------------------------------------------------------------------------
// the largest legitimate message: the full answer to getBlocksFromId

// MaxBlocksPerResponse is the cap of HandleRPCEndpointGetBlocksFromID (requestedBlock.Height+103).
const sizeMaxBlocks = csync.VerifC19MaxBlocksPerResponse

func maxTransactionsSize() int {
	g := &config.GenesisConfig{}
	_ = g.InsertDefault()
	return int(g.MaxTransactionsSize)
}

// maximalBlock: every header field at its largest encoding, an aggregate commit for `validators` validators,
// two assets, and ONE transaction whose encoding has exactly txBytes bytes.
func maximalBlock(seed uint64, height uint32, txBytes, validators int) *blockchain.Block {
	b32 := func(k uint64) []byte { return sizeFill(32, seed+k) }
	tx := &blockchain.Transaction{
		Module: "interoperability", Command: "submitMainchainCrossChainUpdate", Nonce: ^uint64(0), Fee: ^uint64(0),
		SenderPublicKey: b32(1), Signatures: []codec.Hex{sizeFill(64, seed+2)},
	}
	base := len(tx.Encode())
	p := txBytes - base - 4
	if p < 0 {
		p = 0
	}
	for i := 0; i < 8; i++ {
		tx.Params = sizeFill(p, seed+3)
		d := txBytes - len(tx.Encode())
		if d == 0 {
			break
		}
		p += d
		if p < 0 {
			p = 0
			break
		}
	}
	return &blockchain.Block{
		Header: &blockchain.BlockHeader{
			Version: ^uint32(0), Timestamp: ^uint32(0), Height: height, PreviousBlockID: b32(4),
			GeneratorAddress: sizeFill(20, seed+5), TransactionRoot: b32(6), AssetRoot: b32(7), EventRoot: b32(8),
			StateRoot: b32(9), MaxHeightPrevoted: ^uint32(0), MaxHeightGenerated: ^uint32(0), ImpliesMaxPrevotes: true,
			ValidatorsHash: b32(10),
			AggregateCommit: &blockchain.AggregateCommit{Height: ^uint32(0), AggregationBits: sizeFill((validators+7)/8, seed+11),
				CertificateSignature: sizeFill(96, seed+12)},
			Signature: sizeFill(64, seed+13),
		},
		Transactions: []*blockchain.Transaction{tx},
		Assets: []*blockchain.BlockAsset{
			{Module: "random", Data: sizeFill(64, seed+14)},
			{Module: "dynamicReward", Data: sizeFill(64, seed+15)},
		},
	}
}

var (
	blocksMu    sync.Mutex
	blocksCache = map[string][]byte{}
)

// blocksAnswer is the encoded answer of getBlocksFromId with `count` maximal blocks.
func blocksAnswer(count int, seed uint64) []byte {
	blocksMu.Lock()
	defer blocksMu.Unlock()
	key := fmt.Sprintf("%d/%d", count, seed)
	if b, ok := blocksCache[key]; ok {
		return b
	}
	resp := &csync.GetBlocksFromIDResponse{}
	for i := 0; i < count; i++ {
		resp.Blocks = append(resp.Blocks, maximalBlock(seed+uint64(i)*17, ^uint32(0)-uint32(i), maxTransactionsSize(), 101))
	}
	b := resp.Encode()
	blocksCache[key] = b
	return b
}

// ---------------------------------------------------------------------------------------------
// ops

type sizeOp struct {
	path    string // stub | loop
	dir     string // req | res | both
	reqN    int
	resN    int
	seed    uint64
	fam     string // stub: family of the sender's address (4 | 6 | m)
	blocks  int    // > 0: the response payload is the getBlocksFromId answer with that many maximal blocks
	reqData []byte
	resData []byte
}

func (o *sizeOp) describe() string {
	what := ""
	switch {
	case o.blocks > 0:
		what = fmt.Sprintf("the answer of getBlocksFromId with %d blocks carrying %d bytes of transactions each (%d bytes, encoded by sync.GetBlocksFromIDResponse) as response payload", o.blocks, maxTransactionsSize(), o.resN)
	case o.dir == "req":
		what = fmt.Sprintf("a well-formed request with %d payload bytes", o.reqN)
	case o.dir == "res":
		what = fmt.Sprintf("a well-formed response with %d payload bytes", o.resN)
	default:
		what = fmt.Sprintf("a well-formed request with %d payload bytes answered by a response with %d payload bytes", o.reqN, o.resN)
	}
	if o.path == "stub" {
		return what + " through the real onRequest / onResponse of the stub node (sender family " + o.fam + ")"
	}
	return what + " between two real Connections on 127.0.0.1"
}

// parseSizeOp: `stub req|res <n> <seed> <fam>`, `loop req|res <n> <seed>`, `loop both <n> <m> <seed>`,
// `blocks stub|loop <count> <seed>`.
func parseSizeOp(s string) (*sizeOp, bool) {
	f := strings.Fields(s)
	num := func(i int) (int, bool) {
		if i >= len(f) {
			return 0, false
		}
		v, err := strconv.Atoi(f[i])
		return v, err == nil && v >= 0 && v <= 64<<20
	}
	if len(f) < 4 {
		return nil, false
	}
	op := &sizeOp{fam: "4"}
	switch f[0] {
	case "blocks":
		if len(f) != 4 || (f[1] != "stub" && f[1] != "loop") {
			return nil, false
		}
		cnt, ok1 := num(2)
		sd, ok2 := num(3)
		if !ok1 || !ok2 || cnt < 1 || cnt > 1000 {
			return nil, false
		}
		op.path, op.dir, op.blocks, op.seed = f[1], "res", cnt, uint64(sd)
		op.reqN = 40
		op.resData = blocksAnswer(cnt, op.seed)
		op.resN = len(op.resData)
		op.reqData = sizeFill(op.reqN, op.seed)
		return op, true
	case "stub", "loop":
		op.path = f[0]
	default:
		return nil, false
	}
	op.dir = f[1]
	switch {
	case op.dir == "req" || op.dir == "res":
		n, ok1 := num(2)
		sd, ok2 := num(3)
		if !ok1 || !ok2 {
			return nil, false
		}
		op.seed = uint64(sd)
		if op.dir == "req" {
			op.reqN, op.resN = n, 32
		} else {
			op.reqN, op.resN = 16, n
		}
		if op.path == "stub" {
			if len(f) != 5 || (f[4] != "4" && f[4] != "6" && f[4] != "m") {
				return nil, false
			}
			op.fam = f[4]
		} else if len(f) != 4 {
			return nil, false
		}
	case op.dir == "both" && op.path == "loop" && len(f) == 5:
		n, ok1 := num(2)
		m, ok2 := num(3)
		sd, ok3 := num(4)
		if !ok1 || !ok2 || !ok3 {
			return nil, false
		}
		op.reqN, op.resN, op.seed = n, m, uint64(sd)
	default:
		return nil, false
	}
	op.reqData = sizeFill(op.reqN, op.seed)
	op.resData = sizeFill(op.resN, op.seed+1)
	return op, true
}

// ---------------------------------------------------------------------------------------------
// stub path

var sizeStubRemotes = map[string]string{
	"4": "/ip4/10.1.2.3/tcp/4001",
	"6": "/ip6/2001:db8::5/tcp/4001",
	"m": "/ip6/::ffff:10.1.2.3/tcp/4001",
}

func (o *sizeOp) runStub(idx int) (out string, fails []corr.Fail) {
	dir := o.dir
	fail := func(sig, detail string) {
		fails = append(fails, corr.Fail{Sig: sig + ":stub:" + dir, Detail: o.describe() + ": " + detail, Op: idx})
	}
	node, err := p2p.VerifNewNode(24*time.Hour, time.Hour, peerIDs[7])
	if err != nil {
		return "harness-error", []corr.Fail{{Sig: "c18-size-harness", Detail: err.Error(), Op: idx}}
	}
	defer node.Close()
	runs, gotLen := 0, -1
	var gotSum [32]byte
	if err := node.VerifC18RegisterSink(sizeStubProc, -1, 0, func(d []byte) {
		runs++
		gotLen = len(d)
		gotSum = sha256.Sum256(d)
	}); err != nil {
		return "harness-error", []corr.Fail{{Sig: "c18-size-harness", Detail: err.Error(), Op: idx}}
	}
	node.StartGater()
	node.StartMessageProtocol()
	remote := ma.StringCast(sizeStubRemotes[o.fam])
	pid := peerIDs[1]
	node.AddConn(pid, remote)
	out = "delivered"
	if dir == "req" {
		data := o.reqData
		want := sha256.Sum256(data)
		env := cat(fld(1, []byte(sizeReqID)), fld(2, []byte(sizeStubProc)), fld(3, data))
		node.OnRequest(pid, remote, env)
		switch {
		case runs != 1:
			fail("c18-size-wellformed-not-delivered", fmt.Sprintf("the envelope of %d bytes was read by onRequest but the registered handler ran %d times", len(env), runs))
			out = "lost"
		case gotLen != len(data) || gotSum != want:
			fail("c18-size-wellformed-not-delivered", fmt.Sprintf("the handler saw a payload of %d bytes with another sha256", gotLen))
			out = "corrupted"
		}
	} else {
		data := o.resData
		want := sha256.Sum256(data)
		env := cat(fld(1, []byte(sizeReqID)), fld(2, []byte(sizeStubProc)), fld(3, data))
		if o.seed%2 == 0 {
			env = append(env, fld(4, nil)...) // an explicit empty error field, as the package's writer may produce
		}
		take := node.VerifC18Expect(sizeReqID)
		node.OnResponse(pid, remote, env)
		d, e, from, ok := take()
		switch {
		case !ok:
			fail("c18-size-wellformed-not-delivered", fmt.Sprintf("the envelope of %d bytes was read by onResponse but nothing was delivered to the waiting request", len(env)))
			out = "lost"
		case len(d) != len(data) || sha256.Sum256(d) != want || e != "" || from != pid:
			fail("c18-size-wellformed-not-delivered", fmt.Sprintf("the waiting request got %d bytes (sha256 equal: %v), error %q, from the sender: %v", len(d), sha256.Sum256(d) == want, e, from == pid))
			out = "corrupted"
		}
	}
	// gater level
	var bad []string
	if sc := node.Scores(); len(sc) != 0 {
		bad = append(bad, fmt.Sprintf("penalty table %v", sc))
	}
	if b := node.BannedIPs(); len(b) != 0 {
		bad = append(bad, fmt.Sprintf("banned %v", b))
	}
	if cl := node.TakeClosed(); len(cl) != 0 {
		bad = append(bad, fmt.Sprintf("%d ClosePeer call(s) on the sender", len(cl)))
	}
	still := false
	for _, c := range node.ConnList() {
		still = still || c.Peer == pid
	}
	if !still {
		bad = append(bad, "the connection to the sender is gone")
	}
	if !node.IsAllowed(remote) || !node.InterceptAddrDial(pid, remote) || !node.InterceptAccept(remote) || !node.InterceptSecured(true, pid, remote) {
		bad = append(bad, fmt.Sprintf("gates for %s: dial=%v accept=%v secured=%v", remote, node.InterceptAddrDial(pid, remote), node.InterceptAccept(remote), node.InterceptSecured(true, pid, remote)))
	}
	if len(bad) > 0 {
		fail("c18-size-wellformed-penalised", "one well-formed message within the rate limit, afterwards: "+strings.Join(bad, "; "))
		out += "+penalised"
	}
	return out, fails
}

// ---------------------------------------------------------------------------------------------
// loopback path

type sizeWorld struct {
	pair *p2p.VerifC18Pair
	used int

	mu     sync.Mutex
	cur    *sizeOp
	runs   int
	gotLen int
	gotSum [32]byte
}

func (w *sizeWorld) handler(rw p2p.ResponseWriter, req *p2p.Request) {
	w.mu.Lock()
	w.runs++
	w.gotLen = len(req.Data)
	w.gotSum = sha256.Sum256(req.Data)
	op := w.cur
	w.mu.Unlock()
	if op != nil {
		rw.Write(op.resData)
	}
}

var (
	sizeMu     sync.Mutex
	sizeShared *sizeWorld
)

func sizeGetWorld() (*sizeWorld, error) {
	if sizeShared != nil && sizeShared.used >= sizePairBudget {
		sizeShared.pair.Close()
		sizeShared = nil
	}
	if sizeShared == nil {
		w := &sizeWorld{}
		var err error
		for attempt := 0; attempt < 2; attempt++ {
			w.pair, err = p2p.VerifC18NewPair(sizeLoopProcs, w.handler, sizeTimeout)
			if err == nil {
				break
			}
		}
		if err != nil {
			return nil, err
		}
		sizeShared = w
	}
	return sizeShared, nil
}

func sidePenalised(s p2p.VerifC18Side) bool { return len(s.Scores) != 0 || len(s.Banned) != 0 }

func sideBad(name string, s p2p.VerifC18Side) []string {
	var bad []string
	if len(s.Scores) != 0 {
		bad = append(bad, fmt.Sprintf("penalty table of %s %v", name, s.Scores))
	}
	if len(s.Banned) != 0 {
		bad = append(bad, fmt.Sprintf("%s banned %v", name, s.Banned))
	}
	if !s.Connected {
		bad = append(bad, name+" has no connection to the other peer any more")
	}
	if !s.DialAllowed || !s.AcceptOK || !s.SecuredOK {
		bad = append(bad, fmt.Sprintf("gates of %s for the other peer: dial=%v accept=%v secured=%v", name, s.DialAllowed, s.AcceptOK, s.SecuredOK))
	}
	return bad
}

func (o *sizeOp) runLoop(idx int) (out string, fails []corr.Fail) {
	dir := o.dir
	if dir == "both" {
		dir = "req"
		if o.resN > o.reqN {
			dir = "res"
		}
	}
	fail := func(sig, detail string) {
		fails = append(fails, corr.Fail{Sig: sig + ":loop:" + dir, Detail: o.describe() + ": " + detail, Op: idx})
	}
	w, err := sizeGetWorld()
	if err != nil {
		return "harness-error", []corr.Fail{{Sig: "c18-size-harness", Detail: "pair of Connections: " + err.Error(), Op: idx}}
	}
	proc := sizeLoopProcs[w.used%len(sizeLoopProcs)]
	w.used++
	w.mu.Lock()
	w.cur, w.runs, w.gotLen = o, 0, -1
	w.mu.Unlock()
	ctx, cancel := context.WithCancel(w.pair.Context())
	defer cancel()
	ch := make(chan p2p.Response, 1)
	start := time.Now()
	go func() { ch <- w.pair.Request(ctx, proc, o.reqData) }()
	var got *p2p.Response
	early := ""
	tick := time.NewTicker(2 * time.Millisecond)
	defer tick.Stop()
wait:
	for {
		select {
		case r := <-ch:
			got = &r
			break wait
		case <-tick.C:
		}
		a, b := w.pair.Sides()
		switch {
		case sidePenalised(a) || sidePenalised(b):
			early = fmt.Sprintf("%v after the request was issued, while it was still waiting for its answer", time.Since(start).Round(time.Millisecond))
		case time.Since(start) > sizeWatchdog:
			early = fmt.Sprintf("no result within %v", sizeWatchdog)
		}
		if early != "" {
			break wait
		}
	}
	if got == nil {
		cancel()
		select {
		case r := <-ch:
			got = &r
		case <-time.After(5 * time.Second):
		}
	}
	w.mu.Lock()
	runs, gotLen, gotSum := w.runs, w.gotLen, w.gotSum
	w.cur = nil
	w.mu.Unlock()
	out = "delivered"
	wantReq, wantRes := sha256.Sum256(o.reqData), sha256.Sum256(o.resData)
	switch {
	case runs == 0:
		fail("c18-size-wellformed-not-delivered", "the registered handler of the responder never ran")
		out = "lost"
	case gotLen != len(o.reqData) || gotSum != wantReq:
		fail("c18-size-wellformed-not-delivered", fmt.Sprintf("the handler saw a request payload of %d bytes with another sha256", gotLen))
		out = "corrupted"
	case early != "" || got == nil || got.Error() != nil:
		e := "none (cancelled by the harness)"
		if got != nil && got.Error() != nil && early == "" {
			e = got.Error().Error()
			if len(e) > 120 {
				e = e[:120] + "..."
			}
		}
		fail("c18-size-wellformed-not-delivered", fmt.Sprintf("the handler ran and wrote its %d bytes, but the requester got no answer (error: %s)", len(o.resData), e))
		out = "lost"
	case len(got.Data()) != len(o.resData) || sha256.Sum256(got.Data()) != wantRes:
		fail("c18-size-wellformed-not-delivered", fmt.Sprintf("the requester got a response payload of %d bytes with another sha256", len(got.Data())))
		out = "corrupted"
	case o.blocks > 0:
		dec := &csync.GetBlocksFromIDResponse{}
		if err := dec.Decode(got.Data()); err != nil || len(dec.Blocks) != o.blocks {
			fail("c18-size-wellformed-not-delivered", fmt.Sprintf("the requester cannot decode the answer: %v (%d blocks)", err, len(dec.Blocks)))
			out = "corrupted"
		}
	}
	if runs > 1 {
		out += "+retried"
	}
	time.Sleep(2 * time.Millisecond)
	a, b := w.pair.Sides()
	bad := append(sideBad("the requester", a), sideBad("the responder", b)...)
	if len(bad) > 0 {
		d := "one well-formed exchange within the rate limits between two honest nodes, afterwards: " + strings.Join(bad, "; ")
		if early != "" {
			d += " (first seen " + early + ")"
		}
		fail("c18-size-wellformed-penalised", d)
		out += "+penalised"
	}
	if len(fails) > 0 {
		// a ban outlives the case: the next one gets a fresh pair
		w.pair.Close()
		sizeShared = nil
	}
	return out, fails
}

func (sizeProp) RunImpl(c corr.Case) ([]string, []corr.Fail) {
	sizeMu.Lock()
	defer sizeMu.Unlock()
	var outs []string
	var fails []corr.Fail
	for i, s := range c.Ops {
		if strings.HasPrefix(s, "reset") {
			outs = append(outs, "ok")
			continue
		}
		op, ok := parseSizeOp(s)
		if !ok {
			outs = append(outs, "bad-op")
			continue
		}
		var out string
		var fs []corr.Fail
		if op.path == "stub" {
			out, fs = op.runStub(i)
		} else {
			out, fs = op.runLoop(i)
		}
		outs = append(outs, out)
		fails = append(fails, fs...)
	}
	return outs, fails
}

func (sizeProp) CaseTimeout() time.Duration { return 90 * time.Second }

func (sizeProp) Classify(c corr.Case, out []string) string {
	if len(c.Ops) < 2 || len(out) < 2 {
		return ""
	}
	op, ok := parseSizeOp(c.Ops[1])
	if !ok {
		return ""
	}
	n := op.reqN
	if op.resN > n {
		n = op.resN
	}
	cl := "small"
	switch {
	case op.blocks > 0:
		cl = "blocks-answer"
	case n >= 1<<20:
		cl = "large"
	case n >= 64<<10:
		cl = "medium"
	}
	return op.path + "-" + op.dir + "-" + cl + ":" + out[len(out)-1]
}

// ---------------------------------------------------------------------------------------------
// generation

// payloadFor returns the payload size whose wire form (enc) has exactly target bytes (-1: none).
func payloadFor(target int, enc func(n int) int) int {
	n := target - 64
	if n < 0 {
		n = 0
	}
	for i := 0; i < 8; i++ {
		d := target - enc(n)
		if d == 0 {
			return n
		}
		n += d
		if n < 0 {
			return -1
		}
	}
	return -1
}

// classEnc: the envelope overhead enc(n)-n depends only on the length of the varint holding n; it is measured
// once per class at the smallest size of the class.
func classEnc(enc func(n int) int) func(n int) int {
	ov := map[int]int{}
	return func(n int) int {
		lo := 0
		switch {
		case n == 0:
			return enc(0)
		case n < 1<<7:
			lo = 1
		case n < 1<<14:
			lo = 1 << 7
		case n < 1<<21:
			lo = 1 << 14
		case n < 1<<28:
			lo = 1 << 21
		default:
			return enc(n)
		}
		o, ok := ov[lo]
		if !ok {
			o = enc(lo) - lo
			ov[lo] = o
		}
		return n + o
	}
}

func (sizeProp) Generate(rng *rand.Rand, tier string) []corr.Case {
	thorough := tier == "thorough"
	maxPow := 22
	if thorough {
		maxPow = 24
	}
	loopPows := map[int]bool{10: true, 13: true, 16: true, 17: true, 18: true, 19: true, 20: true, 21: true, 22: true}
	stubReq := func(n int) int {
		return len(fld(1, []byte(sizeReqID))) + len(fld(2, []byte(sizeStubProc))) + 1 + len(uvarint(uint64(n))) + n
	}
	stubRes := func(n int) int { return stubReq(n) + 2 }
	loopReq := classEnc(func(n int) int { return len(p2p.VerifEncodeRequest(peerIDs[0], sizeLoopProcs[0], make([]byte, n))) })
	loopRes := classEnc(func(n int) int {
		return len(p2p.VerifC17EncodeResponse(sizeReqID, sizeLoopProcs[0], make([]byte, n), ""))
	})
	var cases []corr.Case
	seen := map[string]bool{}
	sd := func() int { return rng.Intn(1 << 16) }
	add := func(tag, key, op string) {
		if seen[key] {
			return
		}
		seen[key] = true
		cases = append(cases, corr.Case{Ops: []string{"reset", op}, Tag: tag})
	}
	fams := []string{"4", "6", "m"}
	stub := func(tag, dir string, n int) {
		if n < 0 {
			return
		}
		add(tag, fmt.Sprintf("stub %s %d", dir, n), fmt.Sprintf("stub %s %d %d %s", dir, n, sd(), fams[rng.Intn(3)]))
	}
	loop := func(tag, dir string, n int) {
		if n < 0 {
			return
		}
		add(tag, fmt.Sprintf("loop %s %d", dir, n), fmt.Sprintf("loop %s %d %d", dir, n, sd()))
	}
	// the largest legitimate message
	add("blocks-answer", "blocks stub", fmt.Sprintf("blocks stub %d %d", sizeMaxBlocks, sd()))
	add("blocks-answer", "blocks loop", fmt.Sprintf("blocks loop %d %d", sizeMaxBlocks, sd()))
	if thorough {
		for _, cnt := range []int{1, 51, 102, 2 * sizeMaxBlocks} {
			add("blocks-answer", fmt.Sprintf("blocks stub %d", cnt), fmt.Sprintf("blocks stub %d %d", cnt, sd()))
			add("blocks-answer", fmt.Sprintf("blocks loop %d", cnt), fmt.Sprintf("blocks loop %d %d", cnt, sd()))
		}
	}
	for _, n := range []int{0, 1, 2} {
		stub("tiny", "req", n)
		stub("tiny", "res", n)
		loop("tiny", "req", n)
		loop("tiny", "res", n)
	}
	for k := 2; k <= maxPow; k++ {
		L := 1 << k
		band := -1
		if L > 256 {
			band = L - 2 - rng.Intn(120)
		}
		for _, n := range []int{L - 1, L, L + 1, band} {
			stub("pow2-payload", "req", n)
			stub("pow2-payload", "res", n)
		}
		for _, t := range []int{L - 1, L, L + 1} {
			stub("pow2-wire", "req", payloadFor(t, stubReq))
			stub("pow2-wire", "res", payloadFor(t, stubRes))
		}
		if !thorough && !loopPows[k] {
			continue
		}
		for _, n := range []int{L - 1, L, L + 1, band} {
			loop("pow2-payload", "req", n)
			loop("pow2-payload", "res", n)
		}
		for _, t := range []int{L - 1, L, L + 1} {
			loop("pow2-wire", "req", payloadFor(t, loopReq))
			loop("pow2-wire", "res", payloadFor(t, loopRes))
		}
	}
	// log-uniform random sizes
	nr := 10
	if thorough {
		nr = 1000
	}
	rnd := func() int {
		k := 8 + rng.Intn(maxPow-8)
		return (1 << k) + rng.Intn(1<<k)
	}
	for i := 0; i < nr; i++ {
		stub("random", []string{"req", "res"}[i%2], rnd())
		loop("random", []string{"req", "res"}[i%2], rnd())
		if i%3 == 0 {
			n, m := rnd(), rnd()
			add("random", fmt.Sprintf("loop both %d %d", n, m), fmt.Sprintf("loop both %d %d %d", n, m, sd()))
		}
	}
	return cases
}
