//go:build verif

// Package c04race runs the single-writer scenarios of pseudo-property C04WRITER (harness/c04/writer.go) under the
// Go race detector:
//
//	go test -race -tags verif ./c04race/ -run . -count=1
//
// The Start loop of a real Executer runs on its own goroutine while other goroutines hand in blocks through the
// postBlock gossip handler, AddInternal and the chain_postBlock endpoint. With a single writer the only memory the
// consensus path shares with these goroutines is the process queue; any other access pair is reported by the race
// detector ("WARNING: DATA RACE", the test binary exits non-zero). The scenarios' own oracles are reported too.
package c04race

import (
	"math/rand"
	"testing"

	"verifharness/c04"
)

func TestSingleWriterScenarios(t *testing.T) {
	for _, c := range c04.WriterCases(rand.New(rand.NewSource(11)), "quick") {
		_, fails := c04.WriterRun(c)
		for _, f := range fails {
			t.Errorf("%s: %s (ops %v)", f.Sig, f.Detail, c.Ops)
		}
	}
}
