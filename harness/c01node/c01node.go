// Package c01node — pseudo-property C01NODE (run as part of property C01 through `also`, no model):
// finality safety over what the real NODE accepts.
//
// The C01 harness drives liskbft.Module with headers its own simulator considers chain-valid. The
// safety argument (Props/C01_Safety.lean, C01_NodeRules.lean) however rests on acceptance rules that
// live outside liskbft, in pkg/consensus (verify.go / execute.go): header.maxHeightPrevoted EQUALS
// the chain's value, the header does not contradict the generator's latest header in the vote
// window, the block is by the generator of its slot and carries that generator's signature. Here
// every view of a fork tree is a REAL node of the node harness (real Executer.process -> Block.Validate
// -> processValidated -> verifyBlock -> liskbft -> chain database; mock application), and a block is in
// the tree iff a real node ACCEPTED it on top of its parent.
//
// Honest validators follow fork choice (or a stale view), report the largest height they generated
// and the chain's maxHeightPrevoted, and never sign a header contradicting one of their own
// (contradiction.AreDistinctHeadersContradicting against everything they signed). Byzantine validators
// (strictly less than one third of the BFT weight) try, at every opportunity, arbitrary claims —
// maxHeightGenerated in {0, own last height -1/+0/+1, height-1, height, beyond the window, 2^31, replays
// of every claim they made before}, maxHeightPrevoted in {chain value, understated by 1.. down to 0,
// overstated}, several blocks on one parent, blocks in an honest validator's slot signed with their own
// key — the most damaging first (gen.go); the tree keeps exactly those the real node accepts.
// Parameters: static validator set, standard thresholds (floor(2W/3)+1), i.e. the region covered by
// C01_safety_standard_threshold / C01_finality_safety_node_rules_partial; the two C01 known findings
// (low precommit threshold, validator-set replacement) lie outside it.
//
// Oracles (model-free):
//
//	c01node-conflicting-finalization  two views (any two blocks of the tree, each with the finalized height its
//	                                  node reported) finalize different blocks at one height
//	c01node-double-vote-accepted      a node accepted a header whose prevotes / precommits (per-header vote rule of
//	                                  bftsim/votes.go and the observed growth of the vote store) cover a height an
//	                                  earlier header of the same generator on the same chain already voted for
//	c01node-forged-header-accepted    a node accepted a block in an honest validator's name that was signed with
//	                                  another key
//	c01node-panic                     repository code panicked
//
// Ops (a case IS the tree: every accepted block, in creation order):
//
//	reset nv=<n> w=<w0,w1,..> byz=<i,j|-> batch=<b> seed=<key seed> gts=<genesis timestamp> fam=<family>
//	try <label> <parent label|g> v=<validator> mhg=<n> mhp=<n> [sig=<validator whose key signs>]
//	check
package c01node

import (
	"bytes"
	"fmt"
	"sort"
	"strconv"
	"strings"
	"time"

	"github.com/LiskHQ/lisk-engine/pkg/blockchain"
	"github.com/LiskHQ/lisk-engine/pkg/consensus/contradiction"

	"verifharness/bftsim"
	"verifharness/corr"
	"verifharness/node"
)

type prop struct{}

func init() { corr.Register(prop{}) }

func (prop) ID() string                 { return "C01NODE" }
func (prop) NoModel() bool              { return true }
func (prop) Parallel() int              { return 8 }
func (prop) CaseTimeout() time.Duration { return 4 * time.Minute }

const maxPool = 10 // live nodes per tree

// hd is a header as the contradiction rule sees it.
type hd struct {
	height, mhg, mhp uint32
	gen              []byte
}

func (h hd) Height() uint32             { return h.height }
func (h hd) GeneratorAddress() []byte   { return h.gen }
func (h hd) MaxHeightGenerated() uint32 { return h.mhg }
func (h hd) MaxHeightPrevoted() uint32  { return h.mhp }

// blk is one accepted block = one view (the node that accepted it reported the heights below).
type blk struct {
	label            string
	parent           *blk // nil: child of the genesis block
	b                *blockchain.Block
	gen, signer      int // validator named by generatorAddress; validator whose key signed
	height, mhg, mhp uint32
	chainMhp         uint32   // maxHeightPrevoted of the view
	chainMhpc        uint32   // maxHeightPrecommitted of the view
	fin              uint32   // finalized height in the chain database of the view
	pv, pc           []uint32 // heights whose prevote / precommit weight the header raised (observed)
	children         int
	seq              int
}

func (b *blk) hd(addr [][]byte) hd {
	return hd{height: b.height, mhg: b.mhg, mhp: b.mhp, gen: addr[b.gen]}
}

func heightOf(b *blk) uint32 {
	if b == nil {
		return 0
	}
	return b.height
}

func chainMhpOf(b *blk) uint32 {
	if b == nil {
		return 0
	}
	return b.chainMhp
}

// ancestor returns the ancestor-or-self of b at the given height (nil for height 0 / not found).
func ancestor(b *blk, height uint32) *blk {
	for b != nil && b.height > height {
		b = b.parent
	}
	if b != nil && b.height == height {
		return b
	}
	return nil
}

func isAncestorOrSelf(a, b *blk) bool { return a == nil || ancestor(b, a.height) == a }

type setup struct {
	nv      int
	weights []uint64
	byz     []bool
	batch   int
	seed    int64
	gts     uint32
	fam     string
	quiet   bool // failures of this tree are listed in the output of `check` only (gen.go, maxLoud)
}

func (s setup) resetLine() string {
	ws := make([]string, len(s.weights))
	for i, w := range s.weights {
		ws[i] = strconv.FormatUint(w, 10)
	}
	var bz []string
	for i, b := range s.byz {
		if b {
			bz = append(bz, strconv.Itoa(i))
		}
	}
	b := "-"
	if len(bz) > 0 {
		b = strings.Join(bz, ",")
	}
	return fmt.Sprintf("reset nv=%d w=%s byz=%s batch=%d seed=%d gts=%d fam=%s", s.nv, strings.Join(ws, ","), b, s.batch, s.seed, s.gts, s.fam)
}

func parseSetup(op string) (setup, error) {
	var s setup
	f := strings.Fields(op)
	if len(f) == 0 || f[0] != "reset" {
		return s, fmt.Errorf("not a reset op: %q", op)
	}
	kv := map[string]string{}
	for _, x := range f[1:] {
		if i := strings.Index(x, "="); i > 0 {
			kv[x[:i]] = x[i+1:]
		}
	}
	s.nv, _ = strconv.Atoi(kv["nv"])
	for _, x := range strings.Split(kv["w"], ",") {
		w, err := strconv.ParseUint(x, 10, 64)
		if err != nil {
			return s, fmt.Errorf("bad weights %q", kv["w"])
		}
		s.weights = append(s.weights, w)
	}
	if s.nv < 1 || len(s.weights) != s.nv {
		return s, fmt.Errorf("bad validator count in %q", op)
	}
	s.byz = make([]bool, s.nv)
	if kv["byz"] != "-" && kv["byz"] != "" {
		for _, x := range strings.Split(kv["byz"], ",") {
			i, err := strconv.Atoi(x)
			if err != nil || i < 0 || i >= s.nv {
				return s, fmt.Errorf("bad byz %q", kv["byz"])
			}
			s.byz[i] = true
		}
	}
	s.batch, _ = strconv.Atoi(kv["batch"])
	s.seed, _ = strconv.ParseInt(kv["seed"], 10, 64)
	g, _ := strconv.ParseUint(kv["gts"], 10, 32)
	s.gts = uint32(g)
	s.fam = kv["fam"]
	s.quiet = kv["quiet"] == "1"
	if s.batch < s.nv {
		return s, fmt.Errorf("batch size below the number of validators in %q", op)
	}
	return s, nil
}

// claim is what a validator puts into a header.
type claim struct {
	v        int // generatorAddress
	mhg, mhp uint32
	signer   int // -1: v's own key
}

func (c claim) op(label, parent string) string {
	s := fmt.Sprintf("try %s %s v=%d mhg=%d mhp=%d", label, parent, c.v, c.mhg, c.mhp)
	if c.signer >= 0 && c.signer != c.v {
		s += fmt.Sprintf(" sig=%d", c.signer)
	}
	return s
}

type stats struct {
	Attempts, Accepted, Rejected, ByzAccepted, SuspiciousTried, SuspiciousAccepted, Nodes, Replayed int
}

// world is one tree with its live nodes.
type world struct {
	set    setup
	cfg    node.Config
	addr   [][]byte
	win    int
	blocks map[string]*blk
	order  []*blk
	views  map[*blk]*node.Node
	stamp  map[*blk]int
	clock  int
	fails  []corr.Fail
	seen   map[string]bool
	st     stats
	opIdx  int
}

func newWorld(s setup) (*world, error) {
	w := &world{set: s, win: 3 * s.batch, blocks: map[string]*blk{}, views: map[*blk]*node.Node{}, stamp: map[*blk]int{}, seen: map[string]bool{}}
	cfg := node.Config{NumValidators: s.nv, Weights: append([]uint64{}, s.weights...), BatchSize: s.batch, Seed: s.seed, GenesisTimestamp: s.gts}
	n, err := node.New(cfg)
	if err != nil {
		return nil, err
	}
	w.st.Nodes++
	w.cfg = n.Cfg
	for _, v := range n.Validators[:s.nv] {
		w.addr = append(w.addr, append([]byte{}, v.Address...))
	}
	w.views[nil] = n
	return w, nil
}

func (w *world) close() {
	for k, n := range w.views {
		n.Close()
		delete(w.views, k)
	}
}

func (w *world) fail(sig, detail string) {
	if w.seen[sig] {
		return
	}
	w.seen[sig] = true
	w.fails = append(w.fails, corr.Fail{Sig: sig, Detail: detail, Op: w.opIdx})
}

func path(b *blk) []*blk {
	var p []*blk
	for ; b != nil; b = b.parent {
		p = append(p, b)
	}
	for i, j := 0, len(p)-1; i < j; i, j = i+1, j-1 {
		p[i], p[j] = p[j], p[i]
	}
	return p
}

// nodeAt hands out a real node whose tip is p (nil = genesis): the pooled node at p, a pooled node at
// an inner ancestor of p advanced along the path, or a fresh node fed the whole chain.
func (w *world) nodeAt(p *blk) (*node.Node, error) {
	if n, ok := w.views[p]; ok {
		delete(w.views, p)
		return n, nil
	}
	var from *blk
	var n *node.Node
	for a, v := range w.views {
		if a != nil && a.children > 0 && isAncestorOrSelf(a, p) && (from == nil || a.height > from.height) {
			from, n = a, v
		}
	}
	if n != nil {
		delete(w.views, from)
	} else {
		var err error
		n, err = node.New(w.cfg)
		if err != nil {
			return nil, err
		}
		w.st.Nodes++
	}
	for _, b := range path(p) {
		if from != nil && b.height <= from.height {
			continue
		}
		r := n.ProcessResult(b.b)
		w.st.Replayed++
		if !r.Applied {
			n.Close()
			// a block one node accepted on this very chain is refused by another node: the acceptance
			// depends on something outside the chain
			return nil, fmt.Errorf("block %s (height %d), accepted before on the same chain, was not applied by a fresh node: %v", b.label, b.height, r.Err)
		}
	}
	return n, nil
}

func (w *world) release(n *node.Node, tip *blk) {
	if _, ok := w.views[tip]; ok {
		n.Close()
		return
	}
	w.views[tip] = n
	w.clock++
	w.stamp[tip] = w.clock
	for len(w.views) > maxPool {
		var old *blk
		first := true
		for k := range w.views {
			if k == tip {
				continue
			}
			if first || w.stamp[k] < w.stamp[old] {
				old, first = k, false
			}
		}
		w.views[old].Close()
		delete(w.views, old)
	}
}

// attempt builds the block of the claim on top of parent (slot: the first one after the parent's that
// belongs to the named generator) and hands it to a real node at parent. The block enters the tree iff
// the node applied it.
func (w *world) attempt(label string, parent *blk, c claim) (*blk, string) {
	w.st.Attempts++
	if c.v < 0 || c.v >= w.set.nv || c.signer >= w.set.nv {
		return nil, "bad-validator"
	}
	n, err := w.nodeAt(parent)
	if err != nil {
		w.fail("c01node-chain-not-replayable", err.Error()+"; tree: "+strings.Join(w.script(parent), "; "))
		return nil, "no-node"
	}
	pre := n.BFTDump()
	mhg, mhp := c.mhg, c.mhp
	opts := node.BlockOpts{Generator: n.Validators[c.v], MaxHeightGenerated: &mhg, MaxHeightPrevoted: &mhp}
	signer := c.v
	if c.signer >= 0 {
		signer = c.signer
		opts.SignWith = n.Validators[c.signer]
	}
	b, err := n.BuildBlock(opts)
	if err != nil {
		w.release(n, parent)
		return nil, "build-error"
	}
	r := n.ProcessResult(b)
	if pe, ok := r.Err.(*node.PanicError); ok {
		w.fail("c01node-panic", fmt.Sprintf("%s on top of %s: %v", c.op(label, labelOf(parent)), labelOf(parent), pe))
	}
	if !r.Applied {
		w.st.Rejected++
		if bytes.Equal(r.TipAfter, r.TipBefore) {
			w.release(n, parent)
		} else {
			n.Close() // the node moved somewhere else: do not reuse it
		}
		return nil, "rejected"
	}
	w.st.Accepted++
	x := &blk{label: label, parent: parent, b: b, gen: c.v, signer: signer, height: b.Header.Height, mhg: c.mhg, mhp: c.mhp, seq: len(w.order)}
	x.chainMhp, x.chainMhpc, _ = n.BFTHeights()
	x.fin = n.Finalized()
	if _, pv, pc, ok := bftsim.VoteDelta(pre, n.BFTDump()); ok {
		x.pv, x.pc = pv, pc
	}
	w.blocks[label] = x
	w.order = append(w.order, x)
	if parent != nil {
		parent.children++
	}
	if w.set.byz[c.v] || signer != c.v {
		w.st.ByzAccepted++
	}
	w.release(n, x)
	w.checkAccepted(x)
	return x, fmt.Sprintf("accepted h=%d mhp=%d mhpc=%d fin=%d pv=%s pc=%s", x.height, x.chainMhp, x.chainMhpc, x.fin, span(x.pv), span(x.pc))
}

func labelOf(b *blk) string {
	if b == nil {
		return "g"
	}
	return b.label
}

func span(hs []uint32) string {
	if len(hs) == 0 {
		return "-"
	}
	return fmt.Sprintf("%d..%d", hs[0], hs[len(hs)-1])
}

func intersect(a, b []uint32) []uint32 {
	m := map[uint32]bool{}
	for _, x := range a {
		m[x] = true
	}
	var r []uint32
	for _, x := range b {
		if m[x] {
			r = append(r, x)
		}
	}
	return r
}

// impliedOverlap: heights inside the vote window of x that both headers prevote according to the
// per-header rule (genesis height 0, every validator active from height 1).
func (w *world) impliedOverlap(e, x *blk) (lo, hi int64, ok bool) {
	lx, hx, vx := bftsim.ImpliedPrevotes(x.height, x.mhg, 1)
	le, he, ve := bftsim.ImpliedPrevotes(e.height, e.mhg, 1)
	if !vx || !ve {
		return 0, 0, false
	}
	lo, hi = lx, hx
	if le > lo {
		lo = le
	}
	if he < hi {
		hi = he
	}
	if wl := int64(x.height) - int64(w.win) + 1; wl > lo {
		lo = wl
	}
	return lo, hi, lo <= hi
}

// checkAccepted: the witnesses that concern one accepted block.
func (w *world) checkAccepted(x *blk) {
	if x.signer != x.gen && !w.set.byz[x.gen] {
		w.fail("c01node-forged-header-accepted", fmt.Sprintf("a node accepted block %s (height %d) in the name of honest validator %d, signed with the key of validator %d; tree: %s",
			x.label, x.height, x.gen, x.signer, strings.Join(w.script(x), "; ")))
	}
	for e := x.parent; e != nil && int(x.height-e.height) < w.win; e = e.parent {
		if e.gen != x.gen {
			continue
		}
		lo, hi, rule := w.impliedOverlap(e, x)
		opv, opc := intersect(e.pv, x.pv), intersect(e.pc, x.pc)
		if !rule && len(opv) == 0 && len(opc) == 0 {
			continue
		}
		what := []string{}
		if rule {
			what = append(what, fmt.Sprintf("by the per-header vote rule both prevote heights %d..%d", lo, hi))
		}
		if len(opv) > 0 {
			what = append(what, fmt.Sprintf("the vote store added the validator's prevote weight twice at heights %s", span(opv)))
		}
		if len(opc) > 0 {
			what = append(what, fmt.Sprintf("the vote store added the validator's precommit weight twice at heights %s", span(opc)))
		}
		w.fail("c01node-double-vote-accepted", fmt.Sprintf(
			"a node accepted header %s of validator %d (height %d, maxHeightGenerated %d, maxHeightPrevoted %d; chain value %d) on a chain that holds its header %s (height %d, maxHeightGenerated %d, maxHeightPrevoted %d); %s; LIP-0014 contradicting: %v; validator weight %d of %d, byzantine: %v; tree: %s",
			x.label, x.gen, x.height, x.mhg, x.mhp, chainMhpOf(x.parent), e.label, e.height, e.mhg, e.mhp, strings.Join(what, "; "),
			contradiction.AreDistinctHeadersContradicting(e.hd(w.addr), x.hd(w.addr)), w.set.weights[x.gen], total(w.set.weights), w.set.byz[x.gen],
			strings.Join(w.script(x), "; ")))
		return
	}
}

func total(ws []uint64) uint64 {
	var t uint64
	for _, x := range ws {
		t += x
	}
	return t
}

// script renders the part of the tree that leads to the given blocks as a replayable case.
func (w *world) script(tips ...*blk) []string {
	need := map[*blk]bool{}
	for _, t := range tips {
		for b := t; b != nil; b = b.parent {
			need[b] = true
		}
	}
	ops := []string{w.set.resetLine()}
	for _, b := range w.order {
		if need[b] {
			ops = append(ops, claim{v: b.gen, mhg: b.mhg, mhp: b.mhp, signer: b.signer}.op(b.label, labelOf(b.parent)))
		}
	}
	return append(ops, "check")
}

// checkTree: finality safety over all views. Every block is a view (its node reported blk.fin); the
// block a view finalizes is its ancestor at that height; all finalized blocks must lie on one chain.
func (w *world) checkTree() string {
	type finView struct{ view, block *blk }
	var fins []finView
	seen := map[*blk]bool{}
	for _, v := range w.order {
		if v.fin == 0 {
			continue
		}
		f := ancestor(v, v.fin)
		if f == nil {
			w.fail("c01node-finalized-above-tip", fmt.Sprintf("view %s (height %d) reports finalized height %d; tree: %s", v.label, v.height, v.fin, strings.Join(w.script(v), "; ")))
			continue
		}
		if !seen[f] {
			seen[f] = true
			fins = append(fins, finView{v, f})
		}
	}
	sort.SliceStable(fins, func(i, j int) bool { return fins[i].block.height < fins[j].block.height })
	conflicts := 0
	for i := range fins {
		for j := i + 1; j < len(fins); j++ {
			a, b := fins[i], fins[j]
			if isAncestorOrSelf(a.block, b.block) {
				continue
			}
			conflicts++
			// the lowest height at which the two finalized chains differ
			h := a.block.height
			for h > 1 && ancestor(a.block, h-1) != ancestor(b.block, h-1) {
				h--
			}
			var byzW uint64
			for i, bz := range w.set.byz {
				if bz {
					byzW += w.set.weights[i]
				}
			}
			w.fail("c01node-conflicting-finalization", fmt.Sprintf(
				"view %s (height %d) reports finalized height %d and view %s (height %d) reports finalized height %d, but their chains hold different blocks at height %d (%s by validator %d / %s by validator %d); Byzantine weight %d of %d, standard thresholds; the two branches: %s",
				a.view.label, a.view.height, a.view.fin, b.view.label, b.view.height, b.view.fin, h,
				ancestor(a.block, h).label, ancestor(a.block, h).gen, ancestor(b.block, h).label, ancestor(b.block, h).gen,
				byzW, total(w.set.weights), strings.Join(w.script(a.view, b.view), "; ")))
		}
	}
	tips := 0
	var maxFin uint32
	for _, b := range w.order {
		if b.children == 0 {
			tips++
		}
		if b.fin > maxFin {
			maxFin = b.fin
		}
	}
	res := fmt.Sprintf("blocks=%d tips=%d finalized-blocks=%d max-finalized=%d conflicts=%d", len(w.order), tips, len(fins), maxFin, conflicts)
	if w.set.quiet && len(w.fails) > 0 {
		var sigs []string
		for _, f := range w.fails {
			sigs = append(sigs, f.Sig)
		}
		res += " unreported=" + strings.Join(sigs, ",")
	}
	return res
}

// reported: the failures of the tree that RunImpl hands to the framework.
func (w *world) reported() []corr.Fail {
	if w.set.quiet {
		return nil
	}
	return w.fails
}

// ---- replay of a case ----

func parseTry(op string) (label, parent string, c claim, err error) {
	f := strings.Fields(op)
	if len(f) < 6 || f[0] != "try" {
		return "", "", c, fmt.Errorf("bad try op %q", op)
	}
	label, parent = f[1], f[2]
	c.signer = -1
	for _, x := range f[3:] {
		i := strings.Index(x, "=")
		if i < 0 {
			return "", "", c, fmt.Errorf("bad try op %q", op)
		}
		n, e := strconv.ParseUint(x[i+1:], 10, 32)
		if e != nil {
			return "", "", c, fmt.Errorf("bad try op %q", op)
		}
		switch x[:i] {
		case "v":
			c.v = int(n)
		case "mhg":
			c.mhg = uint32(n)
		case "mhp":
			c.mhp = uint32(n)
		case "sig":
			c.signer = int(n)
		}
	}
	return label, parent, c, nil
}

func (prop) RunImpl(c corr.Case) (out []string, fails []corr.Fail) {
	var w *world
	defer func() {
		if w != nil {
			w.close()
		}
	}()
	for i, op := range c.Ops {
		f := strings.Fields(op)
		if len(f) == 0 {
			out = append(out, "bad-op")
			continue
		}
		switch f[0] {
		case "reset":
			if w != nil {
				fails = append(fails, w.reported()...)
				w.close()
				w = nil
			}
			s, err := parseSetup(op)
			if err != nil {
				out = append(out, "bad-setup")
				// a tree the generator could not build (its panic is in the tag) or a malformed corpus file
				fails = append(fails, corr.Fail{Sig: "c01node-bad-case", Detail: err.Error() + " " + c.Tag, Op: i})
				continue
			}
			w, err = newWorld(s)
			if err != nil {
				w = nil
				out = append(out, "setup-error")
				fails = append(fails, corr.Fail{Sig: "c01node-setup-error", Detail: err.Error(), Op: i})
				continue
			}
			out = append(out, "ok")
		case "try":
			if w == nil {
				out = append(out, "no-world")
				continue
			}
			w.opIdx = i
			label, pl, cl, err := parseTry(op)
			if err != nil {
				out = append(out, "bad-op")
				continue
			}
			var parent *blk
			if pl != "g" {
				parent = w.blocks[pl]
				if parent == nil {
					out = append(out, "skipped") // the parent was not accepted (or was removed by the shrinker)
					continue
				}
			}
			if w.blocks[label] != nil {
				out = append(out, "skipped")
				continue
			}
			_, res := w.attempt(label, parent, cl)
			out = append(out, res)
		case "check":
			if w == nil {
				out = append(out, "no-world")
				continue
			}
			w.opIdx = i
			out = append(out, w.checkTree())
		default:
			out = append(out, "bad-op")
		}
	}
	if w != nil {
		fails = append(fails, w.reported()...)
	}
	return out, fails
}

// Classify: the family and what the tree exercised (forks, Byzantine blocks, finality).
func (prop) Classify(c corr.Case, out []string) string {
	if len(out) == 0 || !strings.HasPrefix(out[len(out)-1], "blocks=") {
		return ""
	}
	fam := "tree"
	if i := strings.Index(c.Ops[0], "fam="); i >= 0 {
		fam = strings.Fields(c.Ops[0][i+4:])[0]
	}
	last := out[len(out)-1]
	parts := []string{fam}
	if !strings.Contains(last, " tips=1 ") && !strings.Contains(last, " tips=0 ") {
		parts = append(parts, "forks")
	}
	if !strings.Contains(last, "max-finalized=0 ") {
		parts = append(parts, "finalized")
	} else {
		return ""
	}
	if strings.Contains(last, " unreported=") {
		parts = append(parts, "oracle-fired-not-reported-individually")
	}
	return strings.Join(parts, "/")
}
