package c01node

// Adaptive generation of the trees: the simulator below talks to real nodes (world.attempt) while it
// builds a tree and records every ACCEPTED block as a `try` op, so that the case handed to RunImpl is
// the tree itself.
//
// Families
//
//	random   bftsim's tree shape: a random validator moves; honest ones extend the best tip they know
//	         (LIP-0014 fork choice on the header fields) or — half of the time — any block (stale view),
//	         Byzantine ones any block
//	private  the classical long-range pattern: a common prefix by everybody, then the honest validators go
//	         on on the public chain while the Byzantine validators alone build a private fork from a block
//	         of the prefix, then the fork is released and every honest validator follows fork choice again
//
// Weight profiles: bftsim's equal (all 1) and unequal (1, every third validator 1..4) profiles and the
// "just below one third" profile 34/34/32. Byzantine set: as much weight as fits strictly below W/3.
// Thresholds: the node harness default floor(2W/3)+1 for precommits and certificates.
//
// A Byzantine opportunity (validator v, parent p): all candidate claims are scored by the damage they
// would do if accepted — how many heights of the vote window they would prevote a SECOND time on this
// chain (per-header vote rule), whether they contradict (LIP-0014) any header of v on this chain, whether
// the maxHeightPrevoted differs from the chain's — and tried most damaging first; when none of the
// suspicious claims is accepted, v forges a harmless block: one that implies no votes (maxHeightGenerated
// far above the height; this hides v's earlier voting header from a scan that looks at the latest header
// only) or a truthful one.

import (
	"fmt"
	"math/rand"
	"sort"
	"sync"
	"time"

	"github.com/LiskHQ/lisk-engine/pkg/consensus/contradiction"

	"verifharness/bftsim"
	"verifharness/corr"
)

const shadowMHG = uint32(1) << 31 // "I generated a block far above this one": implies no votes

type simVal struct {
	idx     int
	byz     bool
	maxGen  uint32
	signed  []hd
	claimed map[uint32]bool // every maxHeightGenerated the validator ever put into an accepted header
}

type sim struct {
	w    *world
	rng  *rand.Rand
	vals []*simVal
	ops  []string
	next int
	kids map[*blk]map[string]bool // claims already in the tree, per parent
}

func newSim(s setup, rng *rand.Rand) (*sim, error) {
	w, err := newWorld(s)
	if err != nil {
		return nil, err
	}
	m := &sim{w: w, rng: rng, ops: []string{s.resetLine()}, kids: map[*blk]map[string]bool{}}
	for i := 0; i < s.nv; i++ {
		m.vals = append(m.vals, &simVal{idx: i, byz: s.byz[i], claimed: map[uint32]bool{}})
	}
	return m, nil
}

func claimKey(c claim) string { return fmt.Sprintf("%d/%d/%d/%d", c.v, c.mhg, c.mhp, c.signer) }

// try hands one claim to a real node; an accepted block is recorded.
func (m *sim) try(parent *blk, c claim) *blk {
	if m.kids[parent][claimKey(c)] {
		return nil // the identical block is in the tree already
	}
	label := fmt.Sprintf("b%d", m.next)
	b, _ := m.w.attempt(label, parent, c)
	if b == nil {
		return nil
	}
	m.next++
	m.ops = append(m.ops, c.op(label, labelOf(parent)))
	if m.kids[parent] == nil {
		m.kids[parent] = map[string]bool{}
	}
	m.kids[parent][claimKey(c)] = true
	signer := c.v
	if c.signer >= 0 {
		signer = c.signer
	}
	if signer == c.v {
		v := m.vals[c.v]
		v.signed = append(v.signed, b.hd(m.w.addr))
		v.claimed[c.mhg] = true
		if b.height > v.maxGen {
			v.maxGen = b.height
		}
	}
	return b
}

// honest: the largest height generated so far, the chain's maxHeightPrevoted, and never a header that
// contradicts one the validator signed before. Returns nil when the validator declines or the node refuses.
func (m *sim) honest(v *simVal, parent *blk) *blk {
	x := hd{height: heightOf(parent) + 1, gen: m.w.addr[v.idx], mhg: v.maxGen, mhp: chainMhpOf(parent)}
	for _, e := range v.signed {
		if contradiction.AreDistinctHeadersContradicting(e, x) {
			return nil
		}
	}
	return m.try(parent, claim{v: v.idx, mhg: x.mhg, mhp: x.mhp, signer: -1})
}

// bestTip: LIP-0014 fork choice over the given tips (largest maxHeightPrevoted field, then height,
// then the block seen first).
func bestTip(tips []*blk) *blk {
	var best *blk
	for _, t := range tips {
		if best == nil || t.mhp > best.mhp || (t.mhp == best.mhp && t.height > best.height) ||
			(t.mhp == best.mhp && t.height == best.height && t.seq < best.seq) {
			best = t
		}
	}
	return best
}

func (m *sim) tips(known func(*blk) bool) []*blk {
	var ts []*blk
	for _, b := range m.w.order {
		if b.children == 0 && (known == nil || known(b)) {
			ts = append(ts, b)
		}
	}
	return ts
}

type scored struct {
	c          claim
	score      int
	suspicious bool
	tie        int
}

// candidates lists the claims of Byzantine validator v on top of parent, most damaging first, and the
// harmless fall-backs.
func (m *sim) candidates(v *simVal, parent *blk, preferShadow bool) (suspicious []claim, harmless []claim) {
	w := m.w
	h := heightOf(parent) + 1
	cm := chainMhpOf(parent)
	var own []*blk // v's blocks on this chain, newest first
	for e := parent; e != nil; e = e.parent {
		if e.gen == v.idx {
			own = append(own, e)
		}
	}
	mhgs := map[uint32]bool{0: true, h - 1: true, h: true, h + uint32(w.win): true, shadowMHG: true, v.maxGen: true}
	for _, e := range own {
		mhgs[e.mhg] = true
		mhgs[e.height] = true
		mhgs[e.height+1] = true
		if e.height > 0 {
			mhgs[e.height-1] = true
		}
	}
	for g := range v.claimed {
		mhgs[g] = true
	}
	mhps := map[uint32]bool{cm: true, cm + 1: true, cm + 2 + uint32(m.rng.Intn(5)): true, 0: true}
	for _, k := range []uint32{1, 2, 3, 1 + uint32(m.rng.Intn(w.win))} {
		if cm >= k {
			mhps[cm-k] = true
		}
	}
	for _, e := range own {
		if e.mhp > 0 {
			mhps[e.mhp-1] = true // just below what one of its earlier headers reported
		}
	}
	var gs, ps []uint32
	for g := range mhgs {
		gs = append(gs, g)
	}
	for p := range mhps {
		ps = append(ps, p)
	}
	sort.Slice(gs, func(i, j int) bool { return gs[i] < gs[j] })
	sort.Slice(ps, func(i, j int) bool { return ps[i] < ps[j] })
	var sc []scored
	for _, g := range gs {
		for _, p := range ps {
			x := hd{height: h, gen: w.addr[v.idx], mhg: g, mhp: p}
			s := scored{c: claim{v: v.idx, mhg: g, mhp: p, signer: -1}, tie: m.rng.Int()}
			contra := false
			overlap := int64(0)
			for _, e := range own {
				if contradiction.AreDistinctHeadersContradicting(e.hd(w.addr), x) {
					contra = true
				}
				if int(h-e.height) < w.win {
					if lo, hi, ok := w.impliedOverlap(e, &blk{height: h, mhg: g}); ok && hi-lo+1 > overlap {
						overlap = hi - lo + 1
					}
				}
			}
			s.suspicious = contra || p != cm
			s.score = int(overlap) * 8
			if contra {
				s.score += 4
			}
			if p < cm {
				s.score += 2
			}
			if p > cm {
				s.score++
			}
			if s.suspicious {
				sc = append(sc, s)
			}
		}
	}
	sort.Slice(sc, func(i, j int) bool {
		if sc[i].score != sc[j].score {
			return sc[i].score > sc[j].score
		}
		return sc[i].tie < sc[j].tie
	})
	for _, s := range sc {
		suspicious = append(suspicious, s.c)
	}
	last := uint32(0)
	lastVotes := false
	if len(own) > 0 {
		last = own[0].height
		lastVotes = own[0].mhg < own[0].height
	}
	shadow := claim{v: v.idx, mhg: shadowMHG, mhp: cm, signer: -1}
	truthful := claim{v: v.idx, mhg: last, mhp: cm, signer: -1}
	global := claim{v: v.idx, mhg: v.maxGen, mhp: cm, signer: -1}
	if lastVotes && preferShadow {
		harmless = []claim{shadow, truthful, global}
	} else {
		harmless = []claim{truthful, global, shadow}
	}
	return suspicious, harmless
}

// byzantine: one opportunity of v on parent. Up to maxSusp suspicious claims are tried, most damaging
// first; the first accepted one is kept. Otherwise a harmless block is forged.
func (m *sim) byzantine(v *simVal, parent *blk, maxSusp int, preferShadow bool) *blk {
	susp, harmless := m.candidates(v, parent, preferShadow)
	for i, c := range susp {
		if i >= maxSusp {
			break
		}
		m.w.st.SuspiciousTried++
		if b := m.try(parent, c); b != nil {
			m.w.st.SuspiciousAccepted++
			return b
		}
	}
	for _, c := range harmless {
		if b := m.try(parent, c); b != nil {
			return b
		}
	}
	return nil
}

// impersonate: Byzantine v signs a block that names an honest validator as generator (in that
// validator's slot).
func (m *sim) impersonate(v *simVal, parent *blk) *blk {
	var honest []*simVal
	for _, x := range m.vals {
		if !x.byz {
			honest = append(honest, x)
		}
	}
	if len(honest) == 0 {
		return nil
	}
	victim := honest[m.rng.Intn(len(honest))]
	return m.try(parent, claim{v: victim.idx, mhg: victim.maxGen, mhp: chainMhpOf(parent), signer: v.idx})
}

func (m *sim) pickAny() *blk {
	all := m.w.order
	if len(all) == 0 || m.rng.Intn(8) == 0 {
		return nil
	}
	if m.rng.Intn(2) == 0 {
		k := len(all)
		if k > 4 {
			k = 4
		}
		return all[len(all)-1-m.rng.Intn(k)]
	}
	return all[m.rng.Intn(len(all))]
}

func (m *sim) random(maxBlocks, maxSusp int) {
	target := 6 + m.rng.Intn(maxBlocks)
	for tries := 0; len(m.w.order) < target && tries < 5*target; tries++ {
		v := m.vals[m.rng.Intn(len(m.vals))]
		if v.byz {
			parent := m.pickAny()
			if m.rng.Intn(12) == 0 {
				m.impersonate(v, parent)
				continue
			}
			if b := m.byzantine(v, parent, maxSusp, m.rng.Intn(2) == 0); b != nil && m.rng.Intn(4) == 0 {
				m.byzantine(v, parent, maxSusp, true) // a second block on the same parent
			}
			continue
		}
		var parent *blk
		if m.rng.Intn(2) == 0 {
			parent = m.pickAny()
		} else {
			parent = bestTip(m.tips(nil))
		}
		m.honest(v, parent)
	}
}

// private: see the file comment. All lengths are drawn; nothing depends on what the node accepts except
// the tree itself.
func (m *sim) private(maxSusp int) {
	nv := len(m.vals)
	var hon, byz []*simVal
	for _, v := range m.vals {
		if v.byz {
			byz = append(byz, v)
		} else {
			hon = append(hon, v)
		}
	}
	if len(byz) == 0 || len(hon) == 0 {
		m.random(20, maxSusp)
		return
	}
	// 1. common prefix: everybody, truthful, one chain
	var tip *blk
	prefix := 2 + m.rng.Intn(nv+2)
	var common []*blk
	for i := 0; i < prefix; i++ {
		v := m.vals[(i+m.rng.Intn(2))%nv]
		var b *blk
		if v.byz {
			b = m.try(tip, claim{v: v.idx, mhg: v.maxGen, mhp: chainMhpOf(tip), signer: -1})
		} else {
			b = m.honest(v, tip)
		}
		if b != nil {
			tip = b
			common = append(common, b)
		}
	}
	if len(common) == 0 {
		return
	}
	fork := common[m.rng.Intn(len(common))]
	if m.rng.Intn(2) == 0 {
		fork = common[len(common)-1]
	}
	// 2. the public chain: honest validators only (the Byzantine ones are busy elsewhere), fork choice
	pub := tip
	inPublic := func(b *blk) bool { return isAncestorOrSelf(b, pub) }
	for i, n := 0, 3+m.rng.Intn(2*len(hon)+4); i < n; i++ {
		v := hon[i%len(hon)]
		if b := m.honest(v, pub); b != nil {
			pub = b
		}
	}
	_ = inPublic
	// 3. the private fork: Byzantine validators only
	priv := fork
	for i, n := 0, 6+m.rng.Intn(14+2*m.w.set.batch); i < n; i++ {
		v := byz[i%len(byz)]
		if b := m.byzantine(v, priv, maxSusp, true); b != nil {
			priv = b
		}
	}
	// 4. release: everybody sees everything; honest validators follow fork choice, Byzantine ones keep
	// working on the private fork
	for i, n := 0, 2*nv+m.rng.Intn(3*nv); i < n; i++ {
		v := m.vals[i%nv]
		if v.byz {
			if b := m.byzantine(v, priv, maxSusp, true); b != nil {
				priv = b
			}
			continue
		}
		best := bestTip(m.tips(nil))
		if b := m.honest(v, best); b != nil {
			if best == priv {
				priv = b
			}
			if best == pub {
				pub = b
			}
		}
	}
}

// ---- parameters ----

func drawSetup(rng *rand.Rand, fam string, i int, gts uint32) setup {
	var s setup
	switch i % 3 {
	case 0: // just below one third
		s.nv, s.weights = 3, []uint64{34, 34, 32}
	case 1: // equal weights
		s.nv = 4 + rng.Intn(4)
		for k := 0; k < s.nv; k++ {
			s.weights = append(s.weights, 1)
		}
	default: // bftsim's unequal profile
		s.nv = 3 + rng.Intn(5)
		for k := 0; k < s.nv; k++ {
			w := uint64(1)
			if rng.Intn(3) == 0 {
				w = uint64(1 + rng.Intn(4))
			}
			s.weights = append(s.weights, w)
		}
	}
	tot := total(s.weights)
	s.byz = make([]bool, s.nv)
	var byzW uint64
	// heaviest first: as much Byzantine weight as fits strictly below one third
	idx := rng.Perm(s.nv)
	sort.SliceStable(idx, func(a, b int) bool { return s.weights[idx[a]] > s.weights[idx[b]] })
	if i%3 == 0 {
		idx = []int{2, 0, 1}
	}
	for _, k := range idx {
		if 3*(byzW+s.weights[k]) < tot {
			s.byz[k] = true
			byzW += s.weights[k]
		}
	}
	s.batch = s.nv + rng.Intn(3)
	s.seed = int64(1 + rng.Intn(1000))
	s.gts = gts
	s.fam = fam
	return s
}

// genesisTimestamp: about 10^6 s in the past (so that every slot a tree uses has passed), not a multiple
// of the block time.
func genesisTimestamp() uint32 {
	t := uint32(time.Now().Unix()) - 1_000_000
	return t - t%10 + 3
}

// ---- Generate / Extra ----

var genStats = struct {
	sync.Mutex
	byFam map[string]*stats
	trees map[string]int
	// trees on which an oracle fired while they were generated / of those, the ones not reported one by one
	failing, quiet int
}{byFam: map[string]*stats{}, trees: map[string]int{}}

func record(fam string, st stats) {
	genStats.Lock()
	defer genStats.Unlock()
	a := genStats.byFam[fam]
	if a == nil {
		a = &stats{}
		genStats.byFam[fam] = a
	}
	a.Attempts += st.Attempts
	a.Accepted += st.Accepted
	a.Rejected += st.Rejected
	a.ByzAccepted += st.ByzAccepted
	a.SuspiciousTried += st.SuspiciousTried
	a.SuspiciousAccepted += st.SuspiciousAccepted
	a.Nodes += st.Nodes
	a.Replayed += st.Replayed
	genStats.trees[fam]++
}

type job struct {
	fam  string
	i    int
	seed int64
}

// built is one generated tree: the case and the oracle signatures that fired while it was built.
type built struct {
	c    corr.Case
	sigs []string
}

func build(j job, gts uint32, tier string) built {
	rng := rand.New(rand.NewSource(j.seed))
	s := drawSetup(rng, j.fam, j.i, gts)
	m, err := newSim(s, rng)
	if err != nil {
		return built{c: corr.Case{Ops: []string{s.resetLine(), "check"}, Tag: j.fam + ":setup-error"}}
	}
	defer m.w.close()
	maxSusp := 10
	if tier == "thorough" {
		maxSusp = 24
	}
	switch j.fam {
	case "private":
		m.private(maxSusp)
	default:
		m.random(26, maxSusp)
	}
	record(j.fam, m.w.st)
	m.w.checkTree()
	prof := []string{"third", "equal", "unequal"}[j.i%3]
	res := built{c: corr.Case{Ops: append(m.ops, "check"), Tag: j.fam + ":" + prof}}
	for _, f := range m.w.fails {
		res.sigs = append(res.sigs, f.Sig)
	}
	return res
}

// maxLoud: how many failing trees per oracle signature are handed on as failing cases (the smallest
// ones). The framework minimises every reported failure by re-running the case up to 400 times; further
// trees failing with a signature that is already reported twice are marked `quiet=1` — RunImpl still
// replays and checks them, but lists their failures in the output of `check` only (and Extra counts them).
const maxLoud = 2

func (prop) Generate(rng *rand.Rand, tier string) []corr.Case {
	nRandom, nPrivate := 18, 12
	if tier == "thorough" {
		nRandom, nPrivate = 400, 240
	}
	gts := genesisTimestamp()
	var jobs []job
	for i := 0; i < nPrivate; i++ {
		jobs = append(jobs, job{"private", i, rng.Int63()})
	}
	for i := 0; i < nRandom; i++ {
		jobs = append(jobs, job{"random", i, rng.Int63()})
	}
	trees := make([]built, len(jobs))
	var wg sync.WaitGroup
	sem := make(chan struct{}, 8)
	for k := range jobs {
		wg.Add(1)
		sem <- struct{}{}
		go func(k int) {
			defer wg.Done()
			defer func() { <-sem }()
			defer func() {
				if r := recover(); r != nil {
					trees[k] = built{c: corr.Case{Ops: []string{"reset nv=0", "check"}, Tag: fmt.Sprintf("%s:generator-panic %v", jobs[k].fam, r)}}
				}
			}()
			trees[k] = build(jobs[k], gts, tier)
		}(k)
	}
	wg.Wait()
	// at most maxLoud failing trees per signature stay loud: the smallest ones (ties: generation order)
	bySig := map[string][]int{}
	for k, t := range trees {
		for _, sig := range t.sigs {
			bySig[sig] = append(bySig[sig], k)
		}
	}
	loud := map[int]bool{}
	for _, ks := range bySig {
		sort.SliceStable(ks, func(a, b int) bool { return len(trees[ks[a]].c.Ops) < len(trees[ks[b]].c.Ops) })
		for i, k := range ks {
			if i < maxLoud {
				loud[k] = true
			}
		}
	}
	cases := make([]corr.Case, len(trees))
	failing, quiet := 0, 0
	for k, t := range trees {
		cases[k] = t.c
		if len(t.sigs) > 0 {
			failing++
			if !loud[k] {
				quiet++
				cases[k].Ops[0] += " quiet=1"
			}
		}
	}
	genStats.Lock()
	genStats.failing += failing
	genStats.quiet += quiet
	genStats.Unlock()
	return cases
}

// Extra reports what the generation did (attempts on real nodes, how many suspicious claims were tried
// and how many of them a node accepted).
func (prop) Extra(rng *rand.Rand, tier string) corr.ExtraResult {
	genStats.Lock()
	defer genStats.Unlock()
	res := corr.ExtraResult{Notes: map[string]any{}}
	for fam, st := range genStats.byFam {
		res.Evaluations += st.Attempts
		res.Notes["generation_"+fam] = *st
	}
	res.Notes["trees"] = genStats.trees
	res.Notes["failing_trees"] = genStats.failing
	res.Notes["failing_trees_not_reported_individually"] = genStats.quiet
	return res
}

var _ = bftsim.ImpliedPrevotes
