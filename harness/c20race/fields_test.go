//go:build verif

package c20race

import (
	"math/rand"
	"os"
	"sync"
	"testing"

	"github.com/LiskHQ/lisk-engine/pkg/generator"

	"verifharness/c04"
	"verifharness/c20"
)

// Every exported accessor of Chain / DataAccess (found by reflection) and the RPC endpoints that read chain,
// consensus and generator data, against the single writer - under the race detector. A plain field that one of
// them reads while AddBlock / RemoveBlock writes it is reported as a DATA RACE whichever accessor it is.
func TestEveryAccessorAgainstWriter(t *testing.T) {
	names, skipped := c20.AccessorNames()
	if len(names) < 20 {
		t.Fatalf("reflection found only %d accessors: %v", len(names), names)
	}
	t.Logf("accessors exercised: %v; not callable with synthesised arguments: %v", names, skipped)
	rng := rand.New(rand.NewSource(21))
	fs, n := c20.ScenarioAccessors(rng, 12, 5, 6, 300, 3, 2, false)
	report(t, fs)
	if n < len(names) {
		t.Errorf("only %d of %d accessors were called", n, len(names))
	}
}

func TestFinalizedHeightReaders(t *testing.T) {
	rng := rand.New(rand.NewSource(22))
	fs, _ := c20.ScenarioAccessors(rng, 4, 5, 6, 800, 2, 2, true)
	report(t, fs)
}

func TestFirstReadsAfterRestart(t *testing.T) {
	rng := rand.New(rand.NewSource(23))
	report(t, c20.ScenarioRestartWindow(rng, 3, 8, 4, 300, 1))
}

func TestRPCEndpointsAgainstBlockProcessing(t *testing.T) {
	rng := rand.New(rand.NewSource(24))
	report(t, c20.ScenarioRPCReaders(rng, 1, 5, 4, 25))
}

// The event subscribers that submit blocks from their event loop (pseudo-property C20WAITFOR) under the race
// detector: the boundary cases and a few generated ones.
func TestSubscribersThatSubmit(t *testing.T) {
	cases := c04.WaitForCases(rand.New(rand.NewSource(25)), "quick")
	if len(cases) > 6 {
		cases = cases[:6]
	}
	for _, c := range cases {
		_, fails := c04.WaitForRun(c)
		for _, f := range fails {
			t.Errorf("%s: %s (ops %v)", f.Sig, f.Detail, c.Ops)
		}
	}
}

// Candidate finding reported by Props/C20_Fields.lean (C20_fields_unsynchronised_today): Generator.enabledKeys is a
// plain map written by EnableGeneration / DisableGeneration (generator_updateStatus, RPC goroutines) and read by
// IsGenerationEnabled (generator_getStatus) and forge. On the unchanged tree this test FAILS under the race detector
// (and may abort with "concurrent map read and map write"), so it only runs on request:
//
//	C20_KNOWN_RACES=1 go test -race -tags verif ./c20race/ -run TestKnownUnsynchronisedGeneratorKeys -count=1
//
// It passes with fixes/C20-generator-enabled-keys-race.patch applied.
func TestKnownUnsynchronisedGeneratorKeys(t *testing.T) {
	if os.Getenv("C20_KNOWN_RACES") == "" {
		t.Skip("set C20_KNOWN_RACES=1 to run the scenario of the reported candidate finding")
	}
	gen := generator.NewGenerator(&generator.GeneratorParams{})
	addr := []byte("01234567890123456789")
	var wg sync.WaitGroup
	stop := make(chan struct{})
	for r := 0; r < 2; r++ {
		wg.Add(1)
		go func() { // generator_getStatus
			defer wg.Done()
			for {
				select {
				case <-stop:
					return
				default:
					_ = gen.IsGenerationEnabled(addr)
				}
			}
		}()
	}
	for i := 0; i < 2000; i++ { // generator_updateStatus
		gen.EnableGeneration(addr, &generator.PlainKeys{})
		gen.DisableGeneration(addr)
	}
	close(stop)
	wg.Wait()
}
