//go:build verif

package c20race

import (
	"math/rand"
	"strings"
	"testing"

	"verifharness/c20"
	"verifharness/corr"
)

// reportRace: the byte-level clause (b) of the staged store is a sequential oracle that `vh C20` reports
// under its own signature (c20-alias-diffdb-*-shared-with-store); it is not repeated here, this package
// is about what the race detector and the concurrent owners see.
func reportRace(t *testing.T, fails []corr.Fail) {
	t.Helper()
	var rest []corr.Fail
	for _, f := range fails {
		if !strings.HasSuffix(f.Sig, "-shared-with-store") {
			rest = append(rest, f)
		}
	}
	report(t, rest)
}

// The hand-out scenarios of c20/alias.go under the race detector: the owner of a result re-reads it
// outside of the structure's lock while other goroutines keep writing under the lock, so a result that
// aliases internal memory is a reported data race (reader-after-return vs writer-under-lock) in addition
// to the scenario's own "result changed after return" oracle.

func TestHandedOutSelectionsOfTheCertificatePool(t *testing.T) {
	rng := rand.New(rand.NewSource(9))
	// the directed regimes (sequential part only)
	for i, sp := range c20.PoolAliasGrid() {
		if i%3 == 0 {
			report(t, c20.ScenarioPoolAlias(rng, sp))
		}
	}
	// concurrent selectors / adders / cleaner: chain beyond the first hundred blocks with more old
	// non-gossiped commits than the limit, exactly as many, fewer, and a young chain
	for _, sp := range []c20.PoolAliasSpec{
		{MaxH: 400, Old: 10, Recent: 3, Limit: 4, Rounds: 3, Workers: 3, Iters: 150},
		{MaxH: 250, Old: 5, Recent: 0, Limit: 5, Rounds: 3, Workers: 2, Iters: 100},
		{MaxH: 150, Old: 2, Recent: 6, Limit: 6, Rounds: 3, Workers: 3, Iters: 100},
		{MaxH: 400, Old: 6, Recent: 2, Limit: 0, Rounds: 2, Workers: 2, Iters: 60},
		{MaxH: 60, Old: 0, Recent: 9, Limit: 3, Rounds: 3, Workers: 3, Iters: 100},
	} {
		report(t, c20.ScenarioPoolAlias(rng, sp))
	}
}

func TestHandedOutBulkLookupResults(t *testing.T) {
	rng := rand.New(rand.NewSource(10))
	report(t, c20.ScenarioBulkAlias(rng, 12, 5, 3, 4, 8, 3))
	report(t, c20.ScenarioBulkAlias(rng, 6, 64, 2, 2, 6, 2))
	report(t, c20.ScenarioBulkAlias(rng, 3, 2, 1, 1, 6, 2))
}

func TestHandedOutStagedStoreResults(t *testing.T) {
	rng := rand.New(rand.NewSource(11))
	reportRace(t, c20.ScenarioViewsAlias(rng, 4, 3, 10, 3))
	reportRace(t, c20.ScenarioViewsAlias(rng, 0, 5, 8, 2))
	reportRace(t, c20.ScenarioViewsAlias(rng, 6, 0, 8, 2))
}
