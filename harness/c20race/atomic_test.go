//go:build verif

package c20race

import (
	"math/rand"
	"testing"

	"verifharness/c20"
)

// The forced interleavings of atomic.go under the race detector: an atomicity violation is not a data
// race (every access is under the mutex), so it is the scenario's own oracle that reports it here.
func TestForcedInterleavingsOfTheStagedStore(t *testing.T) {
	rng := rand.New(rand.NewSource(7))
	all := c20.AllLostUpdateSpecs(rng)
	for i := 0; i < len(all); i += 5 {
		report(t, c20.ScenarioLostUpdate(rng, all[i]))
	}
	report(t, c20.ScenarioLostUpdate(rng, c20.LostUpdateSpec{Reader: "get", Writer: "set", View: "sibling", Stored: true, Noise: 1}))
	report(t, c20.ScenarioLostUpdate(rng, c20.LostUpdateSpec{Reader: "get", Writer: "del", View: "sibling", Stored: true}))
}

func TestChainCheckThenAct(t *testing.T) {
	rng := rand.New(rand.NewSource(8))
	report(t, c20.ScenarioChainCheckThenAct(rng, 8, 3, 3, 200))
}
