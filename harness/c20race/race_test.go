//go:build verif

// Package c20race runs the C20 concurrency scenarios under the Go race detector:
//
//	go test -race -tags verif ./c20race/ -run . -count=1
//
// A data race makes the test binary exit non-zero ("WARNING: DATA RACE" + "testing.go: race detected
// during execution of test"); hangs and oracle violations are reported by the scenarios themselves.
package c20race

import (
	"math/rand"
	"testing"
	"time"

	"verifharness/c20"
	"verifharness/corr"
)

func init() { c20.Stall = 10 * time.Second } // the race detector slows everything down

func report(t *testing.T, fails []corr.Fail) {
	t.Helper()
	for _, f := range fails {
		t.Errorf("%s: %s", f.Sig, f.Detail)
	}
}

func TestBulkLookups(t *testing.T) {
	rng := rand.New(rand.NewSource(1))
	specs := []c20.BulkSpec{{Heights: []int{0, 1, 2, 3, 4, 5, 6, 7, 8, 9, 10, 11, 12}, Missing: 2}, {Heights: []int{12, 12, 1}, Missing: 0}, {Missing: 3}}
	report(t, c20.ScenarioBulk(rng, 12, 5, 3, 4, 30, specs))
}

func TestReadersAgainstWriter(t *testing.T) {
	rng := rand.New(rand.NewSource(2))
	report(t, c20.ScenarioTip(rng, 10, 5, 6, 1500, 4, true))
}

func TestRemovalsWithinTheCache(t *testing.T) {
	rng := rand.New(rand.NewSource(6))
	report(t, c20.ScenarioDrain(rng, 12, 4, 3, 4))
}

func TestCertificatePool(t *testing.T) {
	rng := rand.New(rand.NewSource(3))
	report(t, c20.ScenarioPool(rng, 6, 400))
}

func TestEmitterLiveSubscribers(t *testing.T) {
	rng := rand.New(rand.NewSource(4))
	report(t, c20.ScenarioEmitterLive(rng, 4, 3, 100, 3, true))
}

func TestStagedStoreViews(t *testing.T) {
	rng := rand.New(rand.NewSource(5))
	report(t, c20.ScenarioViews(rng, 5, 400, true, false))
	report(t, c20.ScenarioViews(rng, 5, 400, true, true))
}
