// Package c08rpc — pseudo-property "C08RPC" (model-free, run with C08 through `also`): the RPC entry
// points that build transactions and blocks from JSON, on a real in-process node (verifharness/node:
// real chain, executer, transaction pool, endpoints; mock application; no network):
//
//	txpool_postTransaction   json.Unmarshal -> Transaction.Init -> VerifyTransaction -> pool.Add
//	chain_postBlock          json.Unmarshal -> validatePostedBlock -> Block.Init -> AddInternal (process queue)
//
// `id` is a JSON member of Transaction and BlockHeader, so a client can supply any value (none, the
// right one, a wrong one, the id of another object, a short one). Clause of C08 checked here, without
// a model: whatever the client supplies, the ID the node answers with, keeps in the pool, queues,
// stores and loads again is the hash of exactly the encoded bytes of the object, and Size() is their
// length; IDs are unchanged by store/load.
package c08rpc

import (
	"bytes"
	"context"
	"crypto/sha256"
	"encoding/hex"
	"encoding/json"
	"fmt"
	"math/rand"
	"strconv"
	"strings"

	"github.com/LiskHQ/lisk-engine/pkg/engine/config"
	"github.com/LiskHQ/lisk-engine/pkg/engine/endpoint"
	"github.com/LiskHQ/lisk-engine/pkg/router"
	"github.com/LiskHQ/lisk-engine/pkg/rpc"
	"github.com/LiskHQ/lisk-engine/pkg/txpool"

	"verifharness/corr"
	"verifharness/node"
)

type prop struct{}

func init() { corr.Register(prop{}) }

func (prop) ID() string    { return "C08RPC" }
func (prop) NoModel() bool { return true }

const genesisTimestamp = 1_600_000_000

var idModes = []string{"absent", "right", "wrong", "other", "short", "empty"}

func (prop) Generate(rng *rand.Rand, tier string) []corr.Case {
	n := 4
	if tier == "thorough" {
		n = 150
	}
	var cases []corr.Case
	for c := 0; c < n; c++ {
		ops := []string{fmt.Sprintf("reset %d", rng.Intn(1000))}
		nonce := map[int]int{}
		for j := 0; j < 10; j++ {
			if rng.Intn(3) > 0 {
				// posttx <sender> <nonce> <fee> <params> <id mode> <size member 0/1>
				s := rng.Intn(4)
				ops = append(ops, fmt.Sprintf("posttx %d %d %d %s %s %d", s, nonce[s], 1000+rng.Intn(5000),
					corr.Hex(append([]byte{node.TxOK, node.TxOK}, byte(rng.Intn(256)))), idModes[rng.Intn(len(idModes))], rng.Intn(2)))
				nonce[s]++
			} else {
				// postblk <number of transactions> <header id mode> <tx id mode>
				ops = append(ops, fmt.Sprintf("postblk %d %s %s", rng.Intn(3), idModes[rng.Intn(len(idModes))], idModes[rng.Intn(len(idModes))]))
			}
		}
		cases = append(cases, corr.Case{Ops: ops, Tag: "rpc"})
	}
	return cases
}

func sha(b []byte) []byte { h := sha256.Sum256(b); return h[:] }

// supplied returns the `id` a client sends in the given mode (nil = member absent).
func supplied(mode string, enc []byte, salt string) (val []byte, present bool) {
	switch mode {
	case "absent":
		return nil, false
	case "right":
		return sha(enc), true
	case "wrong":
		return sha([]byte("wrong" + salt)), true
	case "other":
		return sha(append([]byte{1}, enc...)), true
	case "short":
		return []byte{0xde, 0xad}, true
	}
	return []byte{}, true
}

func withID(obj json.RawMessage, mode string, enc []byte, salt string, addSize bool) json.RawMessage {
	m := map[string]json.RawMessage{}
	if err := json.Unmarshal(obj, &m); err != nil {
		panic(err)
	}
	if v, ok := supplied(mode, enc, salt); ok {
		m["id"] = json.RawMessage(strconv.Quote(hex.EncodeToString(v)))
	} else {
		delete(m, "id")
	}
	if addSize {
		m["size"] = json.RawMessage("3")
	}
	out, _ := json.Marshal(m)
	return out
}

type world struct {
	n    *node.Node
	pool *txpool.TransactionPool
	eps  map[string]router.EndpointHandler
}

func newWorld(seed int64) (*world, error) {
	n, err := node.New(node.Config{NumValidators: 4, Seed: seed, GenesisTimestamp: genesisTimestamp})
	if err != nil {
		return nil, err
	}
	w := &world{n: n, eps: map[string]router.EndpointHandler{}}
	w.pool = txpool.NewTransactionPool(&txpool.TransactionPoolConfig{MaxTransactions: 64, MaxTransactionsPerAccount: 16})
	if err := w.pool.Init(context.Background(), node.NopLogger(), n.DB, n.Chain, n.Conn, n.ABI); err != nil {
		n.Close()
		return nil, err
	}
	w.pool.VerifStopTicker()
	cfg := &config.Config{Genesis: &config.GenesisConfig{ChainID: n.Cfg.ChainID, BlockTime: n.Cfg.BlockTime, BFTBatchSize: uint32(n.Cfg.BatchSize)}}
	_ = cfg.InsertDefault()
	for m, h := range endpoint.NewChainEndpoint(n.Chain, n.Exec, n.Conn, w.pool, n.ABI).Endpoint() {
		w.eps["chain_"+m] = h
	}
	for m, h := range endpoint.NewtxpoolEndpoint(cfg, n.Chain, n.Exec, n.Conn, w.pool, n.ABI).Endpoint() {
		w.eps["txpool_"+m] = h
	}
	return w, nil
}

func (w *world) close() {
	if w != nil {
		w.pool.VerifStopTicker()
		w.n.Close()
	}
}

func (w *world) call(name string, params []byte) (json.RawMessage, error) {
	h, ok := w.eps[name]
	if !ok {
		return nil, fmt.Errorf("no endpoint %s", name)
	}
	rw := rpc.NewEndpointResponseWriter()
	h(rw, router.NewEndpointRequest(context.Background(), node.NopLogger(), params))
	res := rw.Result()
	if res.Err() != nil {
		return nil, res.Err()
	}
	return res.JSONData()
}

func (prop) RunImpl(c corr.Case) (out []string, fails []corr.Fail) {
	var w *world
	defer func() { w.close() }()
	for i, op := range c.Ops {
		f := strings.Fields(op)
		fail := func(sig, format string, a ...interface{}) {
			fails = append(fails, corr.Fail{Sig: sig, Detail: op + ": " + fmt.Sprintf(format, a...), Op: i})
		}
		res := func() (res string) {
			defer func() {
				if r := recover(); r != nil {
					res = "panic"
					fail("c08-rpc-panics", "%v", r)
				}
			}()
			// every transaction the pool holds: ID = hash of its encoding, Size() = its length
			checkPool := func() {
				for _, t := range w.pool.GetAll() {
					enc := t.Encode()
					if !bytes.Equal(t.ID, sha(enc)) {
						fail("c08-rpc-id-not-hash-of-encoding", "the pool holds a transaction with ID %x whose encoding hashes to %x", []byte(t.ID), sha(enc))
					}
					if t.Size() != len(enc) {
						fail("c08-rpc-size-not-encoding-length", "the pool holds transaction %x with Size() %d, encoding has %d bytes", []byte(t.ID), t.Size(), len(enc))
					}
				}
			}
			switch f[0] {
			case "reset":
				w.close()
				seed, _ := strconv.Atoi(f[1])
				var err error
				if w, err = newWorld(int64(seed)); err != nil {
					w = nil
					return "world-error " + err.Error()
				}
				return "ok"
			case "posttx":
				if w == nil {
					return "no-world"
				}
				s, _ := strconv.Atoi(f[1])
				nonce, _ := strconv.ParseUint(f[2], 10, 64)
				fee, _ := strconv.ParseUint(f[3], 10, 64)
				tx := w.n.NewTransaction(w.n.Validators[s%len(w.n.Validators)], nonce, fee, corr.UnHex(f[4]))
				enc := tx.Encode()
				js, _ := json.Marshal(tx)
				js = withID(js, f[5], enc, op, f[6] == "1")
				params, _ := json.Marshal(map[string]json.RawMessage{"transaction": js})
				data, err := w.call("txpool_postTransaction", params)
				checkPool()
				// (without a network the announcement cannot be published: pool.Add has inserted the
				// transaction and then reports failure, the endpoint answers with an error — the pooled
				// transaction is checked all the same)
				pooled := ""
				if t, ok := w.pool.Get(sha(enc)); ok {
					pooled = "pooled"
					if !bytes.Equal(t.Encode(), enc) {
						fail("c08-rpc-posted-transaction-changed", "the pooled transaction encodes to %x, posted %x", t.Encode(), enc)
					}
				}
				if err != nil {
					return "error-" + pooled
				}
				resp := &endpoint.PostTransactionResponse{}
				if err := json.Unmarshal(data, resp); err != nil {
					return "unmarshalable"
				}
				if !bytes.Equal(resp.TransactionID, sha(enc)) {
					fail("c08-rpc-id-not-hash-of-encoding", "postTransaction (client id %s) answers transactionID %x, the posted transaction encodes to %x with hash %x", f[5], []byte(resp.TransactionID), enc, sha(enc))
				}
				if pooled == "" {
					fail("c08-rpc-posted-transaction-not-under-its-id", "postTransaction succeeded (client id %s) but the pool has nothing under the hash of the encoding %x", f[5], sha(enc))
				}
				return "posted-" + pooled
			case "postblk":
				if w == nil {
					return "no-world"
				}
				ntx, _ := strconv.Atoi(f[1])
				opts := node.BlockOpts{}
				for k := 0; k < ntx; k++ {
					opts.Txs = append(opts.Txs, w.n.NewTransaction(w.n.Validators[k%len(w.n.Validators)], uint64(1000+i), uint64(2000+k), []byte{node.TxOK, node.TxOK, byte(i)}))
				}
				b, err := w.n.BuildBlock(opts)
				if err != nil {
					return "build-error"
				}
				henc := b.Header.Encode()
				var txEnc [][]byte
				for _, t := range b.Transactions {
					txEnc = append(txEnc, t.Encode())
				}
				js, _ := json.Marshal(b)
				top := map[string]json.RawMessage{}
				var jtxs []json.RawMessage
				if json.Unmarshal(js, &top) != nil || json.Unmarshal(top["transactions"], &jtxs) != nil {
					return "json-error"
				}
				top["header"] = withID(top["header"], f[2], henc, op, false)
				for k := range jtxs {
					jtxs[k] = withID(jtxs[k], f[3], txEnc[k], op+strconv.Itoa(k), k%2 == 0)
				}
				top["transactions"], _ = json.Marshal(jtxs)
				js, _ = json.Marshal(top)
				params, _ := json.Marshal(map[string]json.RawMessage{"block": js})
				data, err := w.call("chain_postBlock", params)
				if err != nil {
					return "error"
				}
				resp := &endpoint.PostBlockResponse{}
				if err := json.Unmarshal(data, resp); err != nil {
					return "unmarshalable"
				}
				if !bytes.Equal(resp.BlockID, sha(henc)) {
					fail("c08-rpc-id-not-hash-of-encoding", "postBlock (client header id %s) answers blockID %x, the posted header hashes to %x", f[2], []byte(resp.BlockID), sha(henc))
				}
				// what the endpoint queued for the consensus loop
				q, _, ok := w.n.Exec.VerifC09TakeQueued()
				if !ok {
					return "ok-not-queued"
				}
				if !bytes.Equal(q.Header.Encode(), henc) || len(q.Transactions) != len(txEnc) {
					fail("c08-rpc-posted-block-changed", "queued header encodes to %x, posted %x", q.Header.Encode(), henc)
					return "ok-changed"
				}
				if !bytes.Equal(q.Header.ID, sha(henc)) {
					fail("c08-rpc-id-not-hash-of-encoding", "postBlock (client header id %s) queued a header with ID %x, its encoding hashes to %x", f[2], []byte(q.Header.ID), sha(henc))
				}
				for k, t := range q.Transactions {
					if !bytes.Equal(t.ID, sha(t.Encode())) {
						fail("c08-rpc-id-not-hash-of-encoding", "postBlock (client tx id %s) queued transaction %d with ID %x, its encoding hashes to %x", f[3], k, []byte(t.ID), sha(t.Encode()))
					}
					if t.Size() != len(t.Encode()) {
						fail("c08-rpc-size-not-encoding-length", "postBlock queued transaction %d with Size() %d, encoding has %d bytes", k, t.Size(), len(t.Encode()))
					}
				}
				// process it as the consensus loop does, then load it again: IDs unchanged by store/load
				if err := w.n.Process(q); err != nil {
					return "ok-rejected"
				}
				tip := w.n.Tip()
				if !bytes.Equal(tip.Header.ID, sha(henc)) {
					// (a wrong client id makes the block unprocessable or stored under the wrong key)
					fail("c08-rpc-id-not-hash-of-encoding", "after processing the posted block the tip has ID %x, header hashes to %x", []byte(tip.Header.ID), sha(henc))
				}
				lb, err := w.n.Chain.DataAccess().GetBlock(sha(henc))
				if err != nil {
					fail("c08-rpc-id-changed-by-store-load", "the applied block cannot be loaded under the hash of its header: %v", err)
					return "ok-applied"
				}
				if !bytes.Equal(lb.Header.ID, q.Header.ID) || len(lb.Transactions) != len(q.Transactions) {
					fail("c08-rpc-id-changed-by-store-load", "loaded header ID %x, queued %x", []byte(lb.Header.ID), []byte(q.Header.ID))
				} else {
					for k := range lb.Transactions {
						if !bytes.Equal(lb.Transactions[k].ID, q.Transactions[k].ID) {
							fail("c08-rpc-id-changed-by-store-load", "transaction %d: loaded ID %x, queued ID %x", k, []byte(lb.Transactions[k].ID), []byte(q.Transactions[k].ID))
						}
						if _, err := w.n.Chain.DataAccess().GetTransaction(sha(txEnc[k])); err != nil {
							fail("c08-rpc-id-changed-by-store-load", "transaction %d of the applied block cannot be loaded under the hash of its encoding: %v", k, err)
						}
					}
				}
				return "ok-applied"
			}
			return "bad-op"
		}()
		out = append(out, res)
	}
	return out, fails
}

func (prop) Classify(c corr.Case, out []string) string {
	kinds := map[string]bool{}
	for _, o := range out {
		kinds[strings.Fields(o)[0]] = true
	}
	if !kinds["ok-applied"] && !kinds["posted-pooled"] && !kinds["error-pooled"] {
		return ""
	}
	k := []string{}
	for _, s := range []string{"posted-pooled", "error-pooled", "error-", "ok-applied", "ok-rejected"} {
		if kinds[s] {
			k = append(k, s)
		}
	}
	return strings.Join(k, "+")
}
