// Package c03conv: pseudo-property C03CONV (run as part of property C03 through `also`).
//
// "The slot's assigned generator": the APPLICATION decides the validator list (NextValidators of
// InitGenesisState / AfterTransactionsExecute); liskbft.GetBFTValidatorAndGenerators splits it into the BFT
// validators (SetBFTParameters: weights, thresholds, validatorsHash) and the generator list
// (SetGeneratorKeys; verifyBlock takes Generators.AtTimestamp = list[slot % len] of it). Every op runs the
// REAL exported functions and the Lean model (Model/Convert.lean, Driver/Convert.lean) on the same list:
//
//	conv    GetBFTValidatorAndGenerators: both results, every field, and the sum of the BFT weights
//	owner   Generators.AtTimestamp of result #1 for a slot (a panic is an outcome)
//	back    GetLabiValidators of the two results (labi.Consensus.CurrentValidators)
//	stored  Executer.SetBFTParameters on a staged store of a real node (the third call site; block and genesis
//	        execution are exercised by C03 itself), read back with GetGeneratorKeys / GetBFTParameters
//	vhash   the validatorsHash SetBFTParameters computes for the list
//
// Model-free oracles (own reference, written against the property text: every entry of the application's list,
// in its order, owns the slots congruent to its position; entries without BFT weight do not vote):
//
//	c03conv-generators-differ      result #1 is not (address, generator key) of every entry in order
//	c03conv-bft-validators-differ  result #0 is not (address, weight, BLS key) of exactly the entries with weight > 0 in order
//	c03conv-weight-sum             the sum of the BFT weights is not the sum over the list
//	c03conv-slot-owner-differs     the generator expected in a slot is not list[slot % len] of the APPLICATION's list
//	c03conv-stored-generators-differ / -stored-validators-differ   the same for what a real node stores and reads back
//	c03conv-round-trip             distinct addresses: the list handed back differs (beyond the BLS key of standby entries)
//	c03conv-validators-hash        the hash is not SHA-256 of the hand-encoded (BLS key, weight) of the voting entries + threshold
//	c03conv-input-mutated          the argument list was changed by the call
//	c03conv-panic                  anything but AtTimestamp on an empty list panicked
package c03conv

import (
	"bytes"
	"crypto/sha256"
	"fmt"
	"math/big"
	"math/rand"
	"sort"
	"strconv"
	"strings"

	"github.com/LiskHQ/lisk-engine/pkg/consensus/liskbft"
	"github.com/LiskHQ/lisk-engine/pkg/consensus/validator"
	"github.com/LiskHQ/lisk-engine/pkg/labi"

	"verifharness/corr"
	"verifharness/node"
)

type prop struct{}

func init() { corr.Register(prop{}) }

func (prop) ID() string    { return "C03CONV" }
func (prop) Parallel() int { return 4 }

// ---- lists ----

type entry struct {
	addr, gkey, bls []byte
	weight          uint64
}

func hx(b []byte) string {
	if len(b) == 0 {
		return "-"
	}
	return fmt.Sprintf("%x", b)
}

func unhx(s string) ([]byte, bool) {
	if s == "-" {
		return []byte{}, true
	}
	if len(s)%2 != 0 {
		return nil, false
	}
	b := make([]byte, len(s)/2)
	for i := range b {
		v, err := strconv.ParseUint(s[2*i:2*i+2], 16, 8)
		if err != nil || strings.ToLower(s[2*i:2*i+2]) != s[2*i:2*i+2] {
			return nil, false
		}
		b[i] = byte(v)
	}
	return b, true
}

func showList(l []entry) string {
	if len(l) == 0 {
		return "_"
	}
	s := make([]string, len(l))
	for i, e := range l {
		s[i] = fmt.Sprintf("%s:%d:%s:%s", hx(e.addr), e.weight, hx(e.gkey), hx(e.bls))
	}
	return strings.Join(s, ",")
}

func parseList(s string) ([]entry, bool) {
	if s == "_" {
		return nil, true
	}
	var res []entry
	for _, it := range strings.Split(s, ",") {
		p := strings.Split(it, ":")
		if len(p) != 4 {
			return nil, false
		}
		a, ok1 := unhx(p[0])
		w, err := strconv.ParseUint(p[1], 10, 64)
		g, ok2 := unhx(p[2])
		k, ok3 := unhx(p[3])
		if !ok1 || !ok2 || !ok3 || err != nil || strconv.FormatUint(w, 10) != p[1] {
			return nil, false
		}
		res = append(res, entry{addr: a, gkey: g, bls: k, weight: w})
	}
	return res, true
}

func toLabi(l []entry) labi.Validators {
	res := make(labi.Validators, len(l))
	for i, e := range l {
		res[i] = &labi.Validator{Address: append([]byte{}, e.addr...), BFTWeight: e.weight, GeneratorKey: append([]byte{}, e.gkey...), BLSKey: append([]byte{}, e.bls...)}
	}
	return res
}

func sameLabi(a labi.Validators, l []entry) bool {
	if len(a) != len(l) {
		return false
	}
	for i, e := range l {
		if a[i] == nil || !bytes.Equal(a[i].Address, e.addr) || a[i].BFTWeight != e.weight || !bytes.Equal(a[i].GeneratorKey, e.gkey) || !bytes.Equal(a[i].BLSKey, e.bls) {
			return false
		}
	}
	return true
}

// ---- reference (the property text, not the code) ----

func refGenerators(l []entry) []string {
	res := []string{}
	for _, e := range l {
		res = append(res, hx(e.addr)+":"+hx(e.gkey))
	}
	return res
}

func refVoting(l []entry) []entry {
	var res []entry
	for _, e := range l {
		if e.weight != 0 {
			res = append(res, e)
		}
	}
	return res
}

func refSum(l []entry) *big.Int {
	s := new(big.Int)
	for _, e := range l {
		s.Add(s, new(big.Int).SetUint64(e.weight))
	}
	return s
}

func pbVarint(n uint64) []byte {
	var b []byte
	for n >= 128 {
		b = append(b, byte(n%128)+128)
		n /= 128
	}
	return append(b, byte(n))
}
func pbBytes(fn int, v []byte) []byte {
	return append(append(pbVarint(uint64(fn*8+2)), pbVarint(uint64(len(v)))...), v...)
}
func pbUint(fn int, n uint64) []byte { return append(pbVarint(uint64(fn*8)), pbVarint(n)...) }

// RefValidatorsHash is the validatorsHash of LIP-0058 for an application list: SHA-256 over the hand-written
// encoding of {activeValidators: [(blsKey, bftWeight)] of the entries with weight > 0 sorted by BLS key,
// certificateThreshold}. ambiguous: two voting entries share a BLS key with different weights (the order of
// equal keys is not determined).
func RefValidatorsHash(vals []*labi.Validator, certThreshold uint64) (hash []byte, ambiguous bool) {
	type kw struct {
		k []byte
		w uint64
	}
	var l []kw
	for _, v := range vals {
		if v.BFTWeight != 0 {
			l = append(l, kw{v.BLSKey, v.BFTWeight})
		}
	}
	sort.SliceStable(l, func(i, j int) bool { return bytes.Compare(l[i].k, l[j].k) < 0 })
	var enc []byte
	for i, v := range l {
		if i > 0 && bytes.Equal(l[i-1].k, v.k) && l[i-1].w != v.w {
			ambiguous = true
		}
		enc = append(enc, pbBytes(1, append(pbBytes(1, v.k), pbUint(2, v.w)...))...)
	}
	enc = append(enc, pbUint(2, certThreshold)...)
	h := sha256.Sum256(enc)
	return h[:], ambiguous
}

type fixedSlot int

func (s fixedSlot) GetSlotNumber(uint32) int { return int(s) }

// ---- runner ----

type runner struct {
	n     *node.Node
	fails []corr.Fail
	op    int
}

func (r *runner) fail(sig, format string, a ...any) {
	r.fails = append(r.fails, corr.Fail{Sig: sig, Detail: fmt.Sprintf(format, a...), Op: r.op})
}

func (r *runner) close() {
	if r.n != nil {
		r.n.Close()
		r.n = nil
	}
}

func clip(s string) string {
	if len(s) > 700 {
		return s[:700] + "..."
	}
	return s
}

func (r *runner) conv(l []entry) string {
	in := toLabi(l)
	bft, gens := liskbft.GetBFTValidatorAndGenerators(in)
	if !sameLabi(in, l) {
		r.fail("c03conv-input-mutated", "GetBFTValidatorAndGenerators changed its argument: %s", clip(showList(l)))
	}
	var bs, gs []string
	sum := new(big.Int)
	for _, v := range bft {
		bs = append(bs, fmt.Sprintf("%s:%d:%s", hx(v.Address()), v.BFTWeight(), hx(v.BLSKey())))
		sum.Add(sum, new(big.Int).SetUint64(v.BFTWeight()))
	}
	for _, g := range gens {
		gs = append(gs, hx(g.Address())+":"+hx(g.GeneratorKey()))
	}
	// oracles
	if want := refGenerators(l); strings.Join(want, ",") != strings.Join(gs, ",") {
		r.fail("c03conv-generators-differ", "list %s: generators %s, every entry in order is %s", clip(showList(l)), clip(strings.Join(gs, ",")), clip(strings.Join(want, ",")))
	}
	var wantB []string
	for _, e := range refVoting(l) {
		wantB = append(wantB, fmt.Sprintf("%s:%d:%s", hx(e.addr), e.weight, hx(e.bls)))
	}
	if strings.Join(wantB, ",") != strings.Join(bs, ",") {
		r.fail("c03conv-bft-validators-differ", "list %s: BFT validators %s, the entries with weight > 0 in order are %s", clip(showList(l)), clip(strings.Join(bs, ",")), clip(strings.Join(wantB, ",")))
	}
	if sum.Cmp(refSum(l)) != 0 {
		r.fail("c03conv-weight-sum", "list %s: BFT weights sum to %s, the list to %s", clip(showList(l)), sum, refSum(l))
	}
	j := func(x []string) string {
		if len(x) == 0 {
			return "_"
		}
		return strings.Join(x, ",")
	}
	return fmt.Sprintf("bft=%s gen=%s w=%s", j(bs), j(gs), sum)
}

func (r *runner) owner(slot int, l []entry) (out string) {
	_, gens := liskbft.GetBFTValidatorAndGenerators(toLabi(l))
	defer func() {
		if p := recover(); p != nil {
			out = "panic"
			if len(l) != 0 {
				r.fail("c03conv-panic", "AtTimestamp slot %d on %s: %v", slot, clip(showList(l)), p)
			}
		}
	}()
	g, err := gens.AtTimestamp(fixedSlot(slot), 0)
	if err != nil || g == nil {
		return "error"
	}
	out = hx(g.Address()) + ":" + hx(g.GeneratorKey())
	if len(l) > 0 {
		want := l[slot%len(l)]
		if w := hx(want.addr) + ":" + hx(want.gkey); w != out {
			r.fail("c03conv-slot-owner-differs", "slot %d, list of %d entries %s: the application's owner is entry %d = %s (weight %d), the engine expects %s",
				slot, len(l), clip(showList(l)), slot%len(l), w, want.weight, out)
		}
	}
	return out
}

func (r *runner) back(l []entry) string {
	bft, gens := liskbft.GetBFTValidatorAndGenerators(toLabi(l))
	res := liskbft.GetLabiValidators(bft, gens)
	var got []entry
	for _, v := range res {
		got = append(got, entry{addr: v.Address, weight: v.BFTWeight, gkey: v.GeneratorKey, bls: v.BLSKey})
	}
	distinct := true
	seen := map[string]bool{}
	for _, e := range l {
		if seen[string(e.addr)] {
			distinct = false
		}
		seen[string(e.addr)] = true
	}
	if distinct {
		want := make([]entry, len(l))
		for i, e := range l {
			want[i] = e
			if e.weight == 0 {
				want[i].bls = nil
			}
		}
		if showList(want) != showList(got) {
			r.fail("c03conv-round-trip", "list %s comes back as %s", clip(showList(l)), clip(showList(got)))
		}
	}
	return showList(got)
}

func (r *runner) vhash(cert uint64, l []entry) string {
	in := toLabi(l)
	ref, amb := RefValidatorsHash(in, cert)
	if amb {
		return "amb"
	}
	bft, _ := liskbft.GetBFTValidatorAndGenerators(in)
	bft.Sort()
	hv := make(validator.HashValidators, len(bft))
	for i, v := range bft {
		hv[i] = v
	}
	h, err := validator.ComputeValidatorsHash(hv, cert)
	if err != nil {
		r.fail("c03conv-validators-hash", "ComputeValidatorsHash: %v", err)
		return "h=error"
	}
	if !bytes.Equal(h, ref) {
		r.fail("c03conv-validators-hash", "list %s threshold %d: hash %x, reference over the voting entries %x", clip(showList(l)), cert, h, ref)
	}
	return "h=" + hx(h)
}

func (r *runner) stored(pc, cert uint64, l []entry) string {
	n := r.n
	store := n.Store()
	if err := n.Exec.SetBFTParameters(store, pc, cert, toLabi(l)); err != nil {
		return "err"
	}
	h := n.Height() + 1
	gens, err := n.BFT().API().GetGeneratorKeys(store, h)
	if err != nil {
		return "h=" + fmt.Sprint(h) + " keys=none"
	}
	var ks, gk []string
	for _, g := range gens {
		ks = append(ks, hx(g.Address()))
		gk = append(gk, hx(g.Address())+":"+hx(g.GeneratorKey()))
	}
	if want := refGenerators(l); strings.Join(want, ",") != strings.Join(gk, ",") {
		r.fail("c03conv-stored-generators-differ", "list %s: the node reads back the generators %s for height %d", clip(showList(l)), clip(strings.Join(gk, ",")), h)
	}
	j := func(x []string) string {
		if len(x) == 0 {
			return "_"
		}
		return strings.Join(x, ",")
	}
	params, err := n.BFT().API().GetBFTParameters(store, h)
	if err != nil {
		return fmt.Sprintf("h=%d keys=%s vals=none", h, j(ks))
	}
	var vs []string
	got := map[string]bool{}
	for _, v := range params.Validators() {
		vs = append(vs, fmt.Sprintf("%s:%d", hx(v.Address()), v.BFTWeight()))
		got[fmt.Sprintf("%s:%d:%s", hx(v.Address()), v.BFTWeight(), hx(v.BLSKey()))] = true
	}
	want := map[string]bool{}
	for _, e := range refVoting(l) {
		want[fmt.Sprintf("%s:%d:%s", hx(e.addr), e.weight, hx(e.bls))] = true
	}
	same := len(got) == len(want) && len(params.Validators()) == len(refVoting(l))
	for k := range want {
		same = same && got[k]
	}
	if !same {
		r.fail("c03conv-stored-validators-differ", "list %s: the node reads back the BFT validators %s for height %d", clip(showList(l)), clip(strings.Join(vs, ",")), h)
	}
	if ref, amb := RefValidatorsHash(toLabi(l), cert); !amb && !bytes.Equal(ref, params.ValidatorsHash()) {
		r.fail("c03conv-validators-hash", "list %s threshold %d: stored validatorsHash %x, reference over the voting entries %x", clip(showList(l)), cert, []byte(params.ValidatorsHash()), ref)
	}
	return fmt.Sprintf("h=%d keys=%s vals=%s thr=%d/%d/%d", h, j(ks), j(vs), params.PrevoteThreshold(), params.PrecommitThreshold(), params.CertificateThreshold())
}

func (r *runner) step(w []string) string {
	u := func(s string) (uint64, bool) {
		x, err := strconv.ParseUint(s, 10, 64)
		return x, err == nil && strconv.FormatUint(x, 10) == s
	}
	switch {
	case len(w) == 6 && w[0] == "reset":
		r.close()
		bs, ok := u(w[1])
		p := strings.Split(w[5], ":")
		if !ok || len(p) != 2 || p[0] != "go" {
			return "bad-op"
		}
		seed, err := strconv.ParseInt(p[1], 10, 64)
		if err != nil {
			return "bad-op"
		}
		n, err := node.New(node.Config{NumValidators: 1, BatchSize: int(bs), Seed: seed})
		if err != nil {
			r.fail("c03conv-harness", "node: %v", err)
			return "err"
		}
		n.ABI.LogCalls = false
		r.n = n
		return "ok"
	case len(w) == 2 && w[0] == "conv":
		if l, ok := parseList(w[1]); ok {
			return r.conv(l)
		}
	case len(w) == 3 && w[0] == "owner":
		slot, ok := u(w[1])
		if l, ok2 := parseList(w[2]); ok && ok2 && slot < 1<<31 {
			return r.owner(int(slot), l)
		}
	case len(w) == 2 && w[0] == "back":
		if l, ok := parseList(w[1]); ok {
			return r.back(l)
		}
	case len(w) == 3 && w[0] == "vhash":
		cert, ok := u(w[1])
		if l, ok2 := parseList(w[2]); ok && ok2 {
			return r.vhash(cert, l)
		}
	case len(w) == 4 && w[0] == "stored" && r.n != nil:
		pc, ok := u(w[1])
		cert, ok1 := u(w[2])
		if l, ok2 := parseList(w[3]); ok && ok1 && ok2 {
			return r.stored(pc, cert, l)
		}
	}
	return "bad-op"
}

func (prop) RunImpl(c corr.Case) ([]string, []corr.Fail) {
	r := &runner{}
	defer r.close()
	out := make([]string, 0, len(c.Ops))
	for i, op := range c.Ops {
		r.op = i
		line := func() (res string) {
			defer func() {
				if p := recover(); p != nil {
					res = "panic"
					r.fail("c03conv-panic", "%s: %v", clip(op), p)
				}
			}()
			return r.step(strings.Fields(op))
		}()
		out = append(out, line)
	}
	return out, r.fails
}

func (prop) Classify(c corr.Case, out []string) string {
	standby, dup, big := false, false, false
	for _, op := range c.Ops {
		w := strings.Fields(op)
		if len(w) < 2 || w[0] == "reset" {
			continue
		}
		l, ok := parseList(w[len(w)-1])
		if !ok {
			continue
		}
		seen := map[string]bool{}
		for _, e := range l {
			standby = standby || e.weight == 0
			dup = dup || seen[string(e.addr)]
			seen[string(e.addr)] = true
		}
		big = big || len(l) >= 100
	}
	if !standby && !dup && !big {
		return ""
	}
	return fmt.Sprintf("%s:standby=%v,dup=%v,big=%v", c.Tag, standby, dup, big)
}

// ---- generator ----

func rbytes(rng *rand.Rand, n int) []byte {
	b := make([]byte, n)
	rng.Read(b)
	return b
}

// genList: n entries; standby = probability (in 1/8) of weight 0; dupAddr / dupKey allow repeated addresses / BLS keys.
func genList(rng *rand.Rand, n, standby8 int, dupAddr, dupKey bool, weights string) []entry {
	l := make([]entry, n)
	for i := range l {
		e := entry{addr: rbytes(rng, 20), gkey: rbytes(rng, 32), bls: rbytes(rng, 48), weight: 1}
		switch weights {
		case "small":
			e.weight = uint64(1 + rng.Intn(4))
		case "large":
			e.weight = 1<<40 + uint64(rng.Intn(1000))
		case "extreme":
			e.weight = []uint64{1, 1<<63 - 1, 1 << 62, 1<<64 - 1, 1 << 63}[rng.Intn(5)]
		}
		if rng.Intn(8) < standby8 {
			e.weight = 0
		}
		if i > 0 && dupAddr && rng.Intn(3) == 0 {
			src := l[rng.Intn(i)]
			e.addr = src.addr
			if rng.Intn(2) == 0 {
				e.gkey = src.gkey
			}
		}
		if i > 0 && dupKey && rng.Intn(3) == 0 {
			e.bls = l[rng.Intn(i)].bls
		}
		if rng.Intn(40) == 0 {
			e.addr = rbytes(rng, rng.Intn(3)) // short / empty fields are data for the conversion
		}
		if rng.Intn(40) == 0 {
			e.gkey = nil
		}
		l[i] = e
	}
	return l
}

func genesisOf(seed int64) (string, uint64) {
	v := node.NewValidator(seed, 0)
	return showList([]entry{{addr: v.Address, gkey: v.EdPub, bls: v.BLSPub, weight: 1}}), 1
}

func thresholds(rng *rand.Rand, l []entry) (pc, cert uint64) {
	tot := refSum(l)
	if !tot.IsUint64() {
		return 1 << 63, 1 << 63
	}
	w := tot.Uint64()
	pick := func() uint64 {
		switch rng.Intn(8) {
		case 0:
			return w/3 + 1
		case 1:
			return w
		case 2:
			return w / 3 // too low
		case 3:
			return w + 1 // too high
		}
		return w/3*2 + w%3*2/3 + 1
	}
	return pick(), pick()
}

func (prop) Generate(rng *rand.Rand, tier string) []corr.Case {
	rounds := 1
	if tier == "thorough" {
		rounds = 12
	}
	var cases []corr.Case
	for r := 0; r < rounds; r++ {
		type shape struct {
			n, standby8     int
			dupAddr, dupKey bool
			weights, tag    string
		}
		shapes := []shape{
			{0, 0, false, false, "one", "empty"}, {1, 0, false, false, "one", "single"}, {1, 8, false, false, "one", "single-standby"},
			{2, 4, false, false, "small", "pair"}, {4, 2, false, false, "one", "standby"}, {5, 3, false, false, "small", "standby"},
			{7, 2, false, false, "small", "standby"}, {9, 4, true, false, "small", "dup-address"}, {6, 2, false, true, "small", "dup-bls"},
			{8, 8, false, false, "one", "all-standby"}, {12, 0, false, false, "large", "no-standby"}, {13, 3, false, false, "extreme", "extreme-weights"},
			{103, 1, false, false, "small", "n103"}, {104, 1, false, false, "small", "n104"}, {104, 0, false, false, "one", "n104-all-voting"},
			{104, 3, true, true, "small", "n104-dups"}, {1 + rng.Intn(40), rng.Intn(6), rng.Intn(4) == 0, rng.Intn(4) == 0, "small", "random"},
		}
		for _, s := range shapes {
			seed := rng.Int63n(1 << 40)
			gl, gthr := genesisOf(seed)
			ops := []string{fmt.Sprintf("reset 128 %d %d %s go:%d", gthr, gthr, gl, seed)}
			l := genList(rng, s.n, s.standby8, s.dupAddr, s.dupKey, s.weights)
			ls := showList(l)
			ops = append(ops, "conv "+ls, "back "+ls)
			// slots: every position once, the positions of standby entries, a few large ones
			slots := map[int]bool{0: true, 1: true, s.n: true, s.n + 1: true, 2*s.n + 1: true, 1<<31 - 1: true, rng.Intn(1 << 30): true}
			for i, e := range l {
				if e.weight == 0 || i < 6 || rng.Intn(8) == 0 {
					slots[i+s.n*rng.Intn(3)] = true
				}
			}
			var sl []int
			for k := range slots {
				sl = append(sl, k)
			}
			sort.Ints(sl)
			for _, k := range sl {
				ops = append(ops, fmt.Sprintf("owner %d %s", k, ls))
			}
			cert := uint64(rng.Intn(5))
			if rng.Intn(2) == 0 {
				_, cert = thresholds(rng, l)
			}
			ops = append(ops, fmt.Sprintf("vhash %d %s", cert, ls))
			// what a real node stores: distinct addresses among the voting entries (BFTValidators.Sort is not stable)
			distinctVoting := true
			seen := map[string]bool{}
			for _, e := range refVoting(l) {
				if seen[string(e.addr)] {
					distinctVoting = false
				}
				seen[string(e.addr)] = true
			}
			if distinctVoting {
				pc, ct := thresholds(rng, l)
				ops = append(ops, fmt.Sprintf("stored %d %d %s", pc, ct, ls))
				// the same list with one more standby entry in front / a voting entry turned standby / reordered
				if len(l) > 0 {
					m := append([]entry{{addr: rbytes(rng, 20), gkey: rbytes(rng, 32), bls: rbytes(rng, 48)}}, l...)
					ops = append(ops, fmt.Sprintf("stored %d %d %s", pc, ct, showList(m)))
					rot := append(append([]entry{}, l[1:]...), l[0])
					ops = append(ops, fmt.Sprintf("stored %d %d %s", pc, ct, showList(rot)), "owner 0 "+showList(rot))
					off := append([]entry{}, l...)
					i := rng.Intn(len(off))
					off[i].weight = 0
					p2, c2 := thresholds(rng, off)
					ops = append(ops, fmt.Sprintf("stored %d %d %s", p2, c2, showList(off)), fmt.Sprintf("owner %d %s", i, showList(off)))
				}
			}
			cases = append(cases, corr.Case{Ops: ops, Tag: s.tag})
		}
	}
	// malformed ops: both sides answer bad-op
	gl, _ := genesisOf(1)
	cases = append(cases, corr.Case{Tag: "malformed", Ops: []string{"reset 128 1 1 " + gl + " go:1", "conv", "conv aa", "conv aa:1:bb", "conv aa:x:bb:cc",
		"conv aa:18446744073709551616:bb:cc", "owner x _", "owner 1", "back", "vhash x _", "stored 1 1", "conv aa:1:bb:cc,"}})
	return cases
}
