package c03conv

import (
	"bytes"
	"fmt"
	"math/rand"

	"github.com/LiskHQ/lisk-engine/pkg/blockchain"
	"github.com/LiskHQ/lisk-engine/pkg/labi"

	"verifharness/corr"
	"verifharness/node"
)

// Extra: directed scenarios on a real node in which the application answers with a list that differs from the
// current one in ONE column only. Whatever the application changes must arrive in what the engine uses:
//
//	bls-key        one voting validator gets another BLS key (same addresses, weights, thresholds, generator keys).
//	               validatorsHash commits to the BLS keys: the honest block carries the hash of the NEW list and
//	               must be accepted, the node must store the new key.        Sig c03conv-bls-key-change-ignored
//	generator-key  one validator gets another generator key: its next block verifies under the NEW key only.
//	                                                                         Sig c03conv-generator-key-change-ignored
//	order          the same entries in another order (BFT parameters unchanged): the slots move with the list.
//	                                                                         Sig c03conv-order-change-ignored
//	standby        a voting validator becomes a standby validator and back: it keeps its slot.
//	                                                                         Sig c03conv-standby-change-ignored
func (prop) Extra(rng *rand.Rand, tier string) corr.ExtraResult {
	res := corr.ExtraResult{Notes: map[string]any{}}
	rounds := 1
	if tier == "thorough" {
		rounds = 6
	}
	for r := 0; r < rounds; r++ {
		for _, sc := range []struct {
			name string
			f    func(*rand.Rand, *corr.ExtraResult) error
		}{{"bls-key", scenarioBLSKey}, {"generator-key", scenarioGeneratorKey}, {"order", scenarioOrder}, {"standby", scenarioStandby}} {
			res.Evaluations++
			if err := func() (err error) {
				defer func() {
					if p := recover(); p != nil {
						err = fmt.Errorf("panic: %v", p)
					}
				}()
				return sc.f(rng, &res)
			}(); err != nil {
				res.Fails = append(res.Fails, corr.Fail{Sig: "c03conv-extra-scenario", Detail: sc.name + ": " + err.Error(), Op: -1})
			}
		}
	}
	return res
}

type scenario struct {
	n    *node.Node
	nv   int
	seed int64
	vals []*labi.Validator // the application's current list
}

func newScenario(rng *rand.Rand, nv, extra int, weights []uint64) (*scenario, error) {
	seed := rng.Int63n(1 << 40)
	n, err := node.New(node.Config{NumValidators: nv, ExtraValidators: extra, BatchSize: nv + extra, Seed: seed, Weights: weights})
	if err != nil {
		return nil, err
	}
	n.ABI.LogCalls = false
	s := &scenario{n: n, nv: nv, seed: seed}
	for _, v := range n.Validators[:nv] {
		s.vals = append(s.vals, v.Labi(v.Weight))
	}
	if err := s.extend(1 + rng.Intn(3)); err != nil {
		n.Close()
		return nil, err
	}
	return s, nil
}

func (s *scenario) describe() string {
	return fmt.Sprintf("node.Config{NumValidators: %d, Seed: %d}, tip height %d", s.nv, s.seed, s.n.Height())
}

// owner is the key holder that owns the slot `ahead` slots after the tip's according to the application's list.
func (s *scenario) owner(ahead int) *node.Validator {
	tip := s.n.Tip().Header
	slot := uint64(tip.Timestamp-s.n.Cfg.GenesisTimestamp)/uint64(s.n.Cfg.BlockTime) + uint64(ahead)
	return s.n.ValidatorByAddress(s.vals[slot%uint64(len(s.vals))].Address)
}

// extend applies k honest blocks, each by the owner of the next slot according to the application's list.
func (s *scenario) extend(k int) error {
	for i := 0; i < k; i++ {
		b, err := s.n.BuildBlock(node.BlockOpts{SlotsAhead: 1, Generator: s.owner(1)})
		if err != nil {
			return err
		}
		if r := s.n.ProcessResult(b); r.Err != nil || !r.Applied {
			return fmt.Errorf("honest block of height %d refused: %v", b.Header.Height, r.Err)
		}
	}
	return nil
}

func (s *scenario) thresholds(vals []*labi.Validator) (uint64, uint64) {
	tot := uint64(0)
	for _, v := range vals {
		tot += v.BFTWeight
	}
	return node.DefaultThreshold(tot), node.DefaultThreshold(tot)
}

// change builds the honest block that executes the change of the list (validatorsHash = own reference over the new list).
func (s *scenario) change(vals []*labi.Validator) (*blockchain.Block, error) {
	pc, ct := s.thresholds(vals)
	ref, _ := RefValidatorsHash(vals, ct)
	return s.n.BuildBlock(node.BlockOpts{SlotsAhead: 1, Generator: s.owner(1),
		ValidatorChange: &node.ValidatorChange{Validators: vals, PrecommitThreshold: pc, CertificateThreshold: ct},
		Mutate:          func(b *blockchain.Block) { b.Header.ValidatorsHash = append([]byte{}, ref...) }})
}

func copyVals(vals []*labi.Validator) []*labi.Validator {
	res := make([]*labi.Validator, len(vals))
	for i, v := range vals {
		c := *v
		res[i] = &c
	}
	return res
}

func fail(res *corr.ExtraResult, sig, format string, a ...any) {
	res.Fails = append(res.Fails, corr.Fail{Sig: sig, Detail: fmt.Sprintf(format, a...), Op: -1})
}

func scenarioBLSKey(rng *rand.Rand, res *corr.ExtraResult) error {
	s, err := newScenario(rng, 4, 1, nil)
	if err != nil {
		return err
	}
	defer s.n.Close()
	i := rng.Intn(s.nv)
	next := copyVals(s.vals)
	next[i].BLSKey = append([]byte{}, s.n.Validators[s.nv].BLSPub...) // the key of a key holder outside the set
	b, err := s.change(next)
	if err != nil {
		return err
	}
	r := s.n.ProcessResult(b)
	if r.Err != nil || !r.Applied {
		fail(res, "c03conv-bls-key-change-ignored", "%s: the application answers AfterTransactionsExecute with its current list in which validator %d (%x) has another BLS key (weights, thresholds, generator keys unchanged); the block carrying the validatorsHash of the NEW list (%x) is refused: %v",
			s.describe(), i, []byte(next[i].Address), []byte(b.Header.ValidatorsHash), r.Err)
		return nil
	}
	s.vals = next
	params, err := s.n.BFTParams(s.n.Height() + 1)
	if err != nil {
		return err
	}
	for _, v := range params.Validators() {
		if bytes.Equal(v.Address(), next[i].Address) && !bytes.Equal(v.BLSKey(), next[i].BLSKey) {
			fail(res, "c03conv-bls-key-change-ignored", "%s: after the block that changes the BLS key of validator %d the node still stores the old key %x", s.describe(), i, []byte(v.BLSKey()))
		}
	}
	if ref, _ := RefValidatorsHash(next, params.CertificateThreshold()); !bytes.Equal(ref, params.ValidatorsHash()) {
		fail(res, "c03conv-bls-key-change-ignored", "%s: stored validatorsHash %x, the new list hashes to %x", s.describe(), []byte(params.ValidatorsHash()), ref)
	}
	return s.extend(2)
}

func scenarioGeneratorKey(rng *rand.Rand, res *corr.ExtraResult) error {
	s, err := newScenario(rng, 4, 1, nil)
	if err != nil {
		return err
	}
	defer s.n.Close()
	i := rng.Intn(s.nv)
	outsider := s.n.Validators[s.nv]
	next := copyVals(s.vals)
	next[i].GeneratorKey = append([]byte{}, outsider.EdPub...)
	b, err := s.change(next)
	if err != nil {
		return err
	}
	if r := s.n.ProcessResult(b); r.Err != nil || !r.Applied {
		fail(res, "c03conv-generator-key-change-ignored", "%s: the block that changes only the generator key of validator %d is refused: %v", s.describe(), i, r.Err)
		return nil
	}
	s.vals = next
	// walk to the next slot of validator i
	kh := s.n.ValidatorByAddress(next[i].Address)
	for d := 0; d < s.nv && s.owner(1) != kh; d++ {
		if err := s.extend(1); err != nil {
			// a block of ANOTHER validator in between can only fail if the change damaged the list
			fail(res, "c03conv-generator-key-change-ignored", "%s: after the generator-key change of validator %d: %v", s.describe(), i, err)
			return nil
		}
	}
	oldKey, err := s.n.BuildBlock(node.BlockOpts{SlotsAhead: 1, Generator: kh})
	if err != nil {
		return err
	}
	newKey, err := s.n.BuildBlock(node.BlockOpts{SlotsAhead: 1, Generator: kh, SignWith: outsider})
	if err != nil {
		return err
	}
	if r := s.n.ProcessResult(oldKey); r.Applied {
		fail(res, "c03conv-generator-key-change-ignored", "%s: the application replaced the generator key of validator %d; a block signed with the OLD key was appended at height %d", s.describe(), i, oldKey.Header.Height)
		return nil
	}
	if r := s.n.ProcessResult(newKey); r.Err != nil || !r.Applied {
		fail(res, "c03conv-generator-key-change-ignored", "%s: the application replaced the generator key of validator %d; its block signed with the NEW key is refused: %v", s.describe(), i, r.Err)
	}
	return nil
}

func scenarioOrder(rng *rand.Rand, res *corr.ExtraResult) error {
	s, err := newScenario(rng, 5, 0, nil)
	if err != nil {
		return err
	}
	defer s.n.Close()
	next := copyVals(s.vals)
	for same := true; same; {
		rng.Shuffle(len(next), func(a, b int) { next[a], next[b] = next[b], next[a] })
		for k := range next {
			same = same && bytes.Equal(next[k].Address, s.vals[k].Address)
		}
	}
	b, err := s.change(next)
	if err != nil {
		return err
	}
	if r := s.n.ProcessResult(b); r.Err != nil || !r.Applied {
		fail(res, "c03conv-order-change-ignored", "%s: the block that only reorders the list is refused: %v", s.describe(), r.Err)
		return nil
	}
	old := s.vals
	s.vals = next
	for d := 0; d < 2*s.nv; d++ {
		tip := s.n.Tip().Header
		slot := uint64(tip.Timestamp-s.n.Cfg.GenesisTimestamp)/uint64(s.n.Cfg.BlockTime) + 1
		was := s.n.ValidatorByAddress(old[slot%uint64(len(old))].Address)
		if now := s.owner(1); was != now {
			if bb, err := s.n.BuildBlock(node.BlockOpts{SlotsAhead: 1, Generator: was}); err == nil {
				if r := s.n.ProcessResult(bb); r.Applied {
					fail(res, "c03conv-order-change-ignored", "%s: slot %d belongs to %s in the new order; the block of its owner in the OLD order (%s) was appended", s.describe(), slot, now, was)
					return nil
				}
			}
		}
		if err := s.extend(1); err != nil {
			fail(res, "c03conv-order-change-ignored", "%s: after the reordering: %v", s.describe(), err)
			return nil
		}
	}
	return nil
}

func scenarioStandby(rng *rand.Rand, res *corr.ExtraResult) error {
	s, err := newScenario(rng, 5, 0, nil)
	if err != nil {
		return err
	}
	defer s.n.Close()
	i := rng.Intn(s.nv)
	for _, w := range []uint64{0, 2} {
		next := copyVals(s.vals)
		next[i].BFTWeight = w
		b, err := s.change(next)
		if err != nil {
			return err
		}
		if r := s.n.ProcessResult(b); r.Err != nil || !r.Applied {
			fail(res, "c03conv-standby-change-ignored", "%s: the block that sets the weight of validator %d to %d is refused: %v", s.describe(), i, w, r.Err)
			return nil
		}
		s.vals = next
		gens, err := s.n.Generators(s.n.Height() + 1)
		if err != nil || len(gens) != len(next) {
			fail(res, "c03conv-standby-change-ignored", "%s: weight of validator %d set to %d: the node stored %d generators for a list of %d (%v)", s.describe(), i, w, len(gens), len(next), err)
			return nil
		}
		// one full round: every entry generates in its slot, the standby validator too
		if err := s.extend(s.nv); err != nil {
			fail(res, "c03conv-standby-change-ignored", "%s: weight of validator %d set to %d: %v", s.describe(), i, w, err)
			return nil
		}
	}
	return nil
}
