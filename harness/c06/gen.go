package c06

import (
	"fmt"
	"math/rand"
	"sort"
	"strings"
	"sync"

	"verifharness/corr"
)

// planner generates a case by executing the ops on a real node while it emits them, so that the
// chain facts handed to the model (`params`, `state`) and the interesting heights are the real ones.
type planner struct {
	s     *session
	rng   *rand.Rand
	ops   []string
	outs  []string
	fails []corr.Fail
	known map[uint32]string
	nv    int
	extra int
	// readMhc: the call sets of the stale scenarios include GetAggregateCommit on an emptied pool (stale.go)
	readMhc bool
}

// do executes the op on the planner's node - this IS the implementation run of the case: output
// and oracle verdicts are recorded and handed to RunImpl (see planned), which saves a second node
// per case (every node leaks ~8 MB of pebble cache because db.Close fails on leaked iterators).
func (p *planner) do(op string) string {
	out, f := p.s.exec(op, len(p.ops))
	if out == "unsynced" {
		panic("c06 planner: op on a chain the model was not told about: " + op)
	}
	p.ops = append(p.ops, op)
	p.outs = append(p.outs, out)
	p.fails = append(p.fails, f...)
	return out
}

type plannedRun struct {
	outs  []string
	fails []corr.Fail
}

// planned: op sequence -> the recorded run of the planner (consumed by the first RunImpl of the case).
var planned sync.Map

func (p *planner) finish() []string {
	planned.Store(strings.Join(p.ops, "\n"), plannedRun{outs: p.outs, fails: p.fails})
	return p.ops
}

// sync emits the parameter store changes and the state line.
func (p *planner) sync() {
	keys := p.s.paramKeys()
	present := map[uint32]bool{}
	for _, k := range keys {
		present[k] = true
	}
	var gone []uint32
	for k := range p.known {
		if !present[k] {
			gone = append(gone, k)
		}
	}
	sort.Slice(gone, func(i, j int) bool { return gone[i] < gone[j] })
	for _, k := range gone {
		p.do(fmt.Sprintf("noparams %d", k))
		delete(p.known, k)
	}
	for _, k := range keys {
		line := p.s.paramsLine(k)
		if p.known[k] != line {
			p.do(line)
			p.known[k] = line
		}
	}
	p.do(p.s.stateLine())
}

func (p *planner) heights() (tip, mhpc, mhc uint32) {
	_, mhpc, mhc = p.s.n.BFTHeights()
	return p.s.n.Height(), mhpc, mhc
}

type config struct {
	nv, extra int
	weights   []int
	thr       int
	seed      int64
}

func randConfig(rng *rand.Rand, minNV, maxNV int) config {
	c := config{nv: minNV + rng.Intn(maxNV-minNV+1), extra: 1 + rng.Intn(2), seed: rng.Int63n(1 << 30)}
	total := 0
	heavy := rng.Intn(3) == 0
	for i := 0; i < c.nv; i++ {
		w := 1
		if heavy {
			w = 1 + rng.Intn(3)
		}
		c.weights = append(c.weights, w)
		total += w
	}
	switch rng.Intn(4) {
	case 0:
		c.thr = total/3 + 1 + rng.Intn(total-total/3)
	case 1:
		c.thr = total
	default:
		c.thr = total*2/3 + 1
	}
	return c
}

func newPlanner(rng *rand.Rand, c config) *planner {
	p := &planner{s: &session{}, rng: rng, known: map[uint32]string{}, nv: c.nv, extra: c.extra}
	_, rank := keyRanks(c.seed, c.nv+c.extra)
	out := p.do(fmt.Sprintf("reset nv=%d extra=%d seed=%d batch=%d w=%s thr=%d keys=%s", c.nv, c.extra, c.seed, c.nv+c.extra, joinInts(c.weights), c.thr, joinInts(rank)))
	if out != "ok" {
		panic("c06 planner: reset: " + out)
	}
	p.sync()
	return p
}

// grow extends the chain until at least `room` heights are certifiable (or 12 rounds passed).
func (p *planner) grow(room int) {
	for i := 0; i < 12; i++ {
		_, mhpc, mhc := p.heights()
		if int(mhpc)-int(mhc) >= room {
			return
		}
		p.do(fmt.Sprintf("extend %d", 3+p.rng.Intn(4)))
		p.sync()
	}
}

func (p *planner) extend(k int) {
	p.do(fmt.Sprintf("extend %d", k))
	p.sync()
}

// certifiableTop is min(nextChange-1, mhpc).
func (p *planner) certifiableTop() uint32 {
	_, mhpc, mhc := p.heights()
	top := mhpc
	if nc := p.s.nextChange(mhc + 1); nc != 0 && nc-1 < top {
		top = nc - 1
	}
	return top
}

// activeHolders lists the holders in the parameters valid at h (stored order).
func (p *planner) activeHolders(h uint32) []int {
	vs, _, _ := p.s.validatorsAt(h)
	res := make([]int, len(vs))
	for i, v := range vs {
		res[i] = v.holder
	}
	return res
}

// bitsFor computes the reference bitmap (ascending BLS key order) selecting the holders at h.
func (p *planner) bitsFor(h uint32, holders []int) []byte {
	vs, _, _ := p.s.sortedAt(h)
	bits := make([]byte, (len(vs)+7)/8)
	for i, v := range vs {
		for _, x := range holders {
			if x == v.holder {
				bits[i/8] |= 1 << (i % 8)
			}
		}
	}
	return bits
}

// quorum returns a random subset of the validators at h whose weight reaches the threshold
// (minimal = stop as soon as it is reached).
func (p *planner) quorum(h uint32, minimal bool) []int {
	vs, thr, _ := p.s.validatorsAt(h)
	perm := p.rng.Perm(len(vs))
	var res []int
	w := uint64(0)
	for _, i := range perm {
		if minimal && w >= thr {
			break
		}
		res = append(res, vs[i].holder)
		w += vs[i].weight
	}
	return res
}

func scOp(h uint32, holders []int, variant string) string {
	parts := make([]string, len(holders))
	for i, v := range holders {
		parts[i] = fmt.Sprintf("%d:%d:%s", v, h, variant)
	}
	return "sc " + strings.Join(parts, " ")
}

func sigOf(holders []int, msg string, h uint32) string {
	return fmt.Sprintf("S/%s/%s:%d", joinInts(holders), msg, h)
}

func (p *planner) shuffled(l []int) []int {
	r := append([]int{}, l...)
	p.rng.Shuffle(len(r), func(i, j int) { r[i], r[j] = r[j], r[i] })
	return r
}

// changeOp builds a validator change: replace / add / remove, new weights, new thresholds.
func (p *planner) changeOp() string { return p.changeOpKind(-1) }

// changeOpKind: kind 0 replace, 1 add, 2 remove, 3 weight change, -1 random.
func (p *planner) changeOpKind(kind int) string {
	tip, _, _ := p.heights()
	cur, _, _ := p.s.validatorsAt(tip + 1)
	type hw struct{ h, w int }
	var next []hw
	inSet := map[int]bool{}
	for _, v := range cur {
		next = append(next, hw{v.holder, int(v.weight)})
		inSet[v.holder] = true
	}
	var outside []int
	for i := 0; i < p.nv+p.extra; i++ {
		if !inSet[i] {
			outside = append(outside, i)
		}
	}
	k := kind
	if k < 0 {
		k = p.rng.Intn(4)
	}
	switch {
	case k == 0 && len(outside) > 0: // replace one
		next[p.rng.Intn(len(next))] = hw{outside[p.rng.Intn(len(outside))], 1}
	case k == 1 && len(outside) > 0: // add one
		next = append(next, hw{outside[p.rng.Intn(len(outside))], 1 + p.rng.Intn(2)})
	case k == 2 && len(next) > 3: // remove one
		i := p.rng.Intn(len(next))
		next = append(next[:i], next[i+1:]...)
	default: // change a weight
		next[p.rng.Intn(len(next))].w += 1
	}
	total := 0
	parts := make([]string, len(next))
	for i, x := range next {
		total += x.w
		parts[i] = fmt.Sprintf("%d:%d", x.h, x.w)
	}
	cert := total*2/3 + 1
	if p.rng.Intn(3) == 0 {
		cert = total/3 + 1 + p.rng.Intn(total-total/3)
	}
	return fmt.Sprintf("change %d %d %s", total*2/3+1, cert, strings.Join(parts, ","))
}

// change applies a validator change and returns the height of the block authenticating it.
func (p *planner) change() uint32 {
	if out := p.do(p.changeOp()); out != "ok" {
		panic("c06 planner: change: " + out)
	}
	p.sync()
	return p.s.n.Height()
}

// certifyRound: a quorum signs the highest certifiable height through the gossip validator, the
// next block carries the aggregate commit.
func (p *planner) certifyRound() bool {
	_, _, mhc := p.heights()
	top := p.certifiableTop()
	if top <= mhc {
		return false
	}
	p.do("clear")
	p.do(scOp(top, p.shuffled(p.quorum(top, p.rng.Intn(2) == 0)), "ok"))
	p.do("block")
	p.sync()
	return true
}

// ---------------------------------------------------------------------------------------------

// subsetsOf: every non-empty subset for up to 7 validators; for larger sets (8, 15, 16, 17 ..) all
// signers, all but one, minimal quorums, quorums minus one signer and random subsets.
func (p *planner) subsetsOf(h uint32, hs []int) [][]int {
	var res [][]int
	if len(hs) <= 7 {
		for mask := 1; mask < 1<<len(hs); mask++ {
			var sub []int
			for i, v := range hs {
				if mask>>i&1 == 1 {
					sub = append(sub, v)
				}
			}
			res = append(res, sub)
		}
		return res
	}
	res = append(res, append([]int{}, hs...))
	for i := range hs {
		if i < 8 || p.rng.Intn(3) == 0 {
			res = append(res, append(append([]int{}, hs[:i]...), hs[i+1:]...))
		}
	}
	for i := 0; i < 8; i++ {
		q := p.quorum(h, true)
		res = append(res, q)
		if len(q) > 1 {
			res = append(res, q[1:]) // usually just below the threshold
		}
	}
	for i := 0; i < 10; i++ {
		k := 1 + p.rng.Intn(len(hs))
		res = append(res, p.shuffled(hs)[:k])
	}
	return res
}

// genBoundary: the size of the validator set crosses a multiple of 8 through a validator change
// (7 -> 8, 9 -> 8, 8 -> 9, 15 -> 16 ..): the bitmap length ceil(n/8) changes with it.  Heights of the old
// and of the new set are certified by all signers and by minimal quorums, through the gossip
// validator and through Certify, and carried by blocks.
func genBoundary(rng *rand.Rand, c config, kind int) []string {
	p := newPlanner(rng, c)
	defer p.s.close()
	p.grow(2)
	p.certifyRound()
	p.extend(rng.Intn(3))
	if out := p.do(p.changeOpKind(kind)); out != "ok" {
		panic("c06 planner: change: " + out)
	}
	p.sync()
	H := p.s.n.Height()
	round := func(viaCertify, all bool) {
		_, _, mhc := p.heights()
		top := p.certifiableTop()
		if top <= mhc {
			return
		}
		p.do("clear")
		signers := p.quorum(top, !all)
		if viaCertify {
			for _, v := range p.shuffled(signers) {
				p.do(fmt.Sprintf("certify %d %d %d", v, top-1, top))
			}
		} else {
			p.do(scOp(top, p.shuffled(signers), "ok"))
		}
		p.do("getac")
		p.do("block")
		p.sync()
	}
	for i := 0; i < 40; i++ {
		_, mhpc, mhc := p.heights()
		if mhc >= H+2 && i > 6 {
			break
		}
		if mhpc > mhc {
			round(rng.Intn(2) == 0, rng.Intn(2) == 0)
		} else {
			p.extend(1 + rng.Intn(3))
		}
	}
	// both kinds of aggregates for the new set explicitly
	p.grow(1)
	round(false, true)
	p.grow(1)
	round(true, false)
	if _, mhpc, _ := p.heights(); mhpc >= H+3 {
		p.do(fmt.Sprintf("liveness %d", H))
	}
	// a tampered and a valid explicit aggregate for the new set
	p.grow(1)
	_, _, mhc := p.heights()
	if top := p.certifiableTop(); top > mhc {
		q := p.quorum(top, true)
		bits := p.bitsFor(top, q)
		p.do(fmt.Sprintf("verify %d %s00 %s", top, corr.Hex(bits), sigOf(q, "own", top)))
		if len(bits) > 1 {
			p.do(fmt.Sprintf("verify %d %s %s", top, corr.Hex(bits[:len(bits)-1]), sigOf(q, "own", top)))
		}
		p.do(fmt.Sprintf("vblock %d %s %s", top, corr.Hex(bits), sigOf(p.shuffled(q), "own", top)))
		p.sync()
	}
	return p.finish()
}

func fixedConfig(rng *rand.Rand, nv int) config {
	c := randConfig(rng, nv, nv)
	c.extra = 2
	return c
}

// genSubsets: every non-empty subset of the validators signs a certifiable height.
func genSubsets(rng *rand.Rand, c config) []string {
	p := newPlanner(rng, c)
	defer p.s.close()
	p.grow(2 + rng.Intn(3))
	if rng.Intn(3) == 0 { // start from a chain that already has a certified height
		p.certifyRound()
		p.grow(2)
	}
	_, _, mhc := p.heights()
	top := p.certifiableTop()
	if top <= mhc {
		return p.finish()
	}
	h := mhc + 1 + uint32(rng.Intn(int(top-mhc)))
	if rng.Intn(2) == 0 {
		h = top
	}
	hs := p.activeHolders(h)
	for _, sub := range p.subsetsOf(h, hs) {
		p.do("clear")
		if h-1 > mhc && rng.Intn(4) == 0 { // a lower height with a full quorum: the fallback candidate
			p.do(scOp(h-1, p.shuffled(p.activeHolders(h-1)), "ok"))
		}
		p.do(scOp(h, p.shuffled(sub), "ok"))
		p.do("getac")
	}
	p.do("clear")
	p.do(scOp(h, p.shuffled(p.quorum(h, true)), "ok"))
	p.do("block")
	p.sync()
	p.extend(2 + rng.Intn(4))
	p.certifyRound()
	return p.finish()
}

// genTamper: valid and tampered aggregate commits around maxHeightCertified, maxHeightPrecommitted
// and a validator change.
func genTamper(rng *rand.Rand, c config) []string {
	p := newPlanner(rng, c)
	defer p.s.close()
	p.grow(2)
	if rng.Intn(2) == 0 {
		p.certifyRound()
	}
	H := uint32(0)
	if rng.Intn(4) != 0 {
		p.extend(rng.Intn(3))
		H = p.change()
		// finality must pass the change so that heights at/after it are below maxHeightPrecommitted
		for i := 0; i < 14; i++ {
			if _, mhpc, _ := p.heights(); mhpc >= H+2 {
				break
			}
			p.extend(3)
		}
	} else {
		p.grow(4)
	}
	probe := func(op string) { p.do(op) }
	for round := 0; round < 2; round++ {
		tip, mhpc, mhc := p.heights()
		top := p.certifiableTop()
		if top <= mhc {
			break
		}
		t := mhc + 1 + uint32(rng.Intn(int(top-mhc)))
		q := p.quorum(t, rng.Intn(2) == 0)
		base := p.bitsFor(t, q)
		all := p.activeHolders(t)
		hexb := corr.Hex(base)
		probe(fmt.Sprintf("verify %d %s %s", t, hexb, sigOf(p.shuffled(q), "own", t)))
		// every single bit flip (including the padding bits)
		for i := 0; i < 8*len(base); i++ {
			b := append([]byte{}, base...)
			b[i/8] ^= 1 << (i % 8)
			probe(fmt.Sprintf("verify %d %s %s", t, corr.Hex(b), sigOf(q, "own", t)))
		}
		// heights around the bounds, each correctly signed by a quorum of its own validator set
		cand := []uint32{mhc, mhc + 1, mhpc, mhpc + 1, tip, tip + 1, top, top + 1}
		if mhpc > 0 {
			cand = append(cand, mhpc-1)
		}
		if mhc > 0 {
			cand = append(cand, mhc-1)
		}
		if H > 0 {
			cand = append(cand, H-1, H, H+1, H+2)
		}
		sort.Slice(cand, func(i, j int) bool { return cand[i] < cand[j] })
		for i, h := range cand {
			if i > 0 && cand[i-1] == h {
				continue
			}
			hh := h
			if hh > tip {
				hh = tip
			}
			qs := p.quorum(hh, false)
			if len(qs) == 0 {
				probe(fmt.Sprintf("verify %d 01 garbage", h))
				continue
			}
			probe(fmt.Sprintf("verify %d %s %s", h, corr.Hex(p.bitsFor(hh, qs)), sigOf(qs, "own", h)))
		}
		// signature variations
		probe(fmt.Sprintf("verify %d %s garbage", t, hexb))
		probe(fmt.Sprintf("verify %d %s inf", t, hexb))
		for i := 0; i < 3; i++ {
			probe(fmt.Sprintf("verify %d %s X/%s/own:%d", t, hexb, joinInts(p.shuffled(q)), t))
		}
		probe(fmt.Sprintf("verify %d %s -", t, hexb))
		probe(fmt.Sprintf("verify %d - %s", t, sigOf(q, "own", t)))
		probe(fmt.Sprintf("verify %d - -", t))
		probe(fmt.Sprintf("verify %d - -", mhc))
		probe(fmt.Sprintf("verify %d %s -", mhc, hexb))
		probe(fmt.Sprintf("verify %d %s %s", t, hexb, sigOf(q, "fork", t)))
		probe(fmt.Sprintf("verify %d %s %s", t, hexb, sigOf(q, "chain2", t)))
		if t > 1 {
			probe(fmt.Sprintf("verify %d %s %s", t, hexb, sigOf(q, "own", t-1)))
		}
		probe(fmt.Sprintf("verify %d %s %s", t+1, hexb, sigOf(q, "own", t)))
		if len(q) > 1 {
			probe(fmt.Sprintf("verify %d %s %s", t, hexb, sigOf(q[1:], "own", t)))
		}
		probe(fmt.Sprintf("verify %d %s %s", t, hexb, sigOf(append(append([]int{}, q...), q[0]), "own", t)))
		for _, v := range all {
			in := false
			for _, x := range q {
				in = in || x == v
			}
			if !in {
				probe(fmt.Sprintf("verify %d %s %s", t, hexb, sigOf(append(append([]int{}, q...), v), "own", t)))
				break
			}
		}
		// signers outside of the validator set of t (holders of another set)
		for v := 0; v < p.nv+p.extra; v++ {
			in := false
			for _, x := range all {
				in = in || x == v
			}
			if !in {
				probe(fmt.Sprintf("verify %d %s %s", t, hexb, sigOf(append(append([]int{}, q[1:]...), v), "own", t)))
				probe(fmt.Sprintf("verify %d %s %s", t, corr.Hex(p.bitsFor(t, all)), sigOf(append(append([]int{}, all...), v), "own", t)))
				break
			}
		}
		// bitmap length
		probe(fmt.Sprintf("verify %d %s00 %s", t, hexb, sigOf(q, "own", t)))
		probe(fmt.Sprintf("verify %d %sff %s", t, hexb, sigOf(q, "own", t)))
		if len(base) > 1 {
			probe(fmt.Sprintf("verify %d %s %s", t, corr.Hex(base[:len(base)-1]), sigOf(q, "own", t)))
			probe(fmt.Sprintf("vblock %d %s %s", t, corr.Hex(base[:len(base)-1]), sigOf(q, "own", t)))
		}
		// blocks: an invalid one is rejected, a valid one advances maxHeightCertified
		switch rng.Intn(4) {
		case 0:
			probe(fmt.Sprintf("vblock %d %s %s", t, hexb, sigOf(q, "chain2", t)))
		case 1:
			probe(fmt.Sprintf("vblock %d %sff %s", t, hexb, sigOf(q, "own", t)))
		case 2:
			if top+1 <= mhpc {
				qs := p.quorum(top+1, false)
				probe(fmt.Sprintf("vblock %d %s %s", top+1, corr.Hex(p.bitsFor(top+1, qs)), sigOf(qs, "own", top+1)))
			}
		default:
			probe(fmt.Sprintf("vblock %d - -", t))
		}
		probe(fmt.Sprintf("vblock %d %s %s", t, hexb, sigOf(p.shuffled(q), "own", t)))
		p.sync()
		probe(fmt.Sprintf("verify %d %s %s", t, hexb, sigOf(q, "own", t)))
		if rng.Intn(2) == 0 {
			probe(fmt.Sprintf("vblock %d - -", t))
			p.sync()
		}
		p.extend(1 + rng.Intn(3))
	}
	return p.finish()
}

var badVariants = []string{"fork", "wrongid", "chain2", "garbage", "inf", "short"}

// genCommits: single commits through the gossip validator.
func genCommits(rng *rand.Rand, c config, long bool) []string {
	var p *planner
	if long {
		p = newPlanner(rng, c)
	} else {
		p = newPlannerTwin(rng, c) // with the history-independence oracle (twin.go)
	}
	defer p.s.close()
	H := uint32(0)
	if long {
		p.extend(60 + rng.Intn(30))
		if rng.Intn(2) == 0 {
			H = p.change()
		}
		p.extend(45 + rng.Intn(20))
	} else {
		p.grow(2)
		if rng.Intn(2) == 0 {
			p.certifyRound()
			p.extend(6 + rng.Intn(6)) // finality passes the block carrying the commit: removal height > 0
		}
		if rng.Intn(2) == 0 {
			H = p.change()
			p.extend(rng.Intn(2*c.nv + 4))
		}
	}
	total := p.nv + p.extra
	rounds := 2
	for round := 0; round < rounds; round++ {
		tip, mhpc, mhc := p.heights()
		rh := p.s.removalHeight()
		cand := []uint32{rh, rh + 1, mhc, mhc + 1, mhpc, mhpc, mhpc, mhpc + 1, tip, tip + 1, tip + 2, 4294967295}
		if mhpc > 0 {
			cand = append(cand, mhpc-1, mhpc-1)
		}
		if rh > 0 {
			cand = append(cand, rh-1)
		}
		if mhpc > 101 {
			cand = append(cand, mhpc-101, mhpc-100, mhpc-99)
		}
		if H > 0 {
			cand = append(cand, H-1, H, H+1, H+2)
		}
		for _, k := range p.s.paramKeys() {
			cand = append(cand, k)
		}
		nops := 14 + rng.Intn(10)
		for i := 0; i < nops; i++ {
			switch x := rng.Intn(20); {
			case x == 0:
				p.do("pool")
			case x == 1:
				p.do("getac")
			case x == 2:
				if rng.Intn(2) == 0 {
					p.do("raw ff")
				} else {
					p.do("raw -")
				}
			case x == 3: // a whole quorum at once
				h := mhpc
				if rng.Intn(2) == 0 {
					h = cand[rng.Intn(len(cand))]
				}
				hs := p.activeHolders(h)
				if len(hs) > 0 {
					p.do(scOp(h, p.shuffled(hs), "ok"))
				}
			default:
				k := 1
				if rng.Intn(4) == 0 {
					k = 2 + rng.Intn(3)
				}
				parts := make([]string, k)
				for j := range parts {
					h := cand[rng.Intn(len(cand))]
					v := rng.Intn(total)
					if hs := p.activeHolders(h); len(hs) > 0 && rng.Intn(4) != 0 {
						v = hs[rng.Intn(len(hs))]
					}
					variant := "ok"
					switch y := rng.Intn(10); {
					case y < 2:
						variant = badVariants[rng.Intn(len(badVariants))]
					case y == 2:
						variant = fmt.Sprintf("sigby=%d", rng.Intn(total))
					case y == 3 && tip > 0:
						// a genuine commit for another own block (inside the accepted window when possible)
						h2 := cand[rng.Intn(len(cand))]
						if h2 == 0 || h2 > tip || rng.Intn(3) == 0 {
							h2 = 1 + uint32(rng.Intn(int(tip)))
						}
						variant = fmt.Sprintf("relabel=%d", h2)
					}
					parts[j] = fmt.Sprintf("%d:%d:%s", v, h, variant)
				}
				p.do("sc " + strings.Join(parts, " "))
			}
		}
		p.do("pool")
		p.do("getac")
		p.do("block")
		p.sync()
		if round+1 < rounds {
			p.extend(1 + rng.Intn(5))
		}
	}
	p.do("cleanup")
	return p.finish()
}

// genCertify: Executer.Certify over ranges, across validator changes, repeated, with a foreign key.
func genCertify(rng *rand.Rand, c config) []string {
	p := newPlannerTwin(rng, c) // with the history-independence oracle (twin.go)
	defer p.s.close()
	p.grow(2)
	H := uint32(0)
	if rng.Intn(3) != 0 {
		H = p.change()
		p.extend(2*c.nv + rng.Intn(6))
	}
	total := p.nv + p.extra
	for round := 0; round < 2; round++ {
		tip, mhpc, mhc := p.heights()
		pts := []uint32{0, mhc, mhc + 1, mhpc, mhpc + 1, tip, tip + 1}
		if mhpc > 0 {
			pts = append(pts, mhpc-1)
		}
		if H > 0 {
			pts = append(pts, H-1, H, H+1)
		}
		pick := func() uint32 { return pts[rng.Intn(len(pts))] }
		nops := 8 + rng.Intn(8)
		for i := 0; i < nops; i++ {
			switch x := rng.Intn(12); {
			case x == 0:
				p.do("pool")
			case x == 1:
				p.do("getac")
			case x == 2: // everybody certifies the finalized range, as the generator does
				for _, v := range p.shuffled(p.activeHolders(mhpc)) {
					p.do(fmt.Sprintf("certify %d %d %d", v, mhc, mhpc))
				}
			case x == 3:
				a := pick()
				p.do(fmt.Sprintf("certify %d %d %d key=%d", rng.Intn(total), a, a+uint32(rng.Intn(3)), rng.Intn(total)))
			default:
				a, b := pick(), pick()
				if a > b && rng.Intn(5) != 0 {
					a, b = b, a
				}
				p.do(fmt.Sprintf("certify %d %d %d", rng.Intn(total), a, b))
			}
		}
		p.do("pool")
		p.do("getac")
		p.do("block")
		p.sync()
		p.extend(1 + rng.Intn(4))
	}
	return p.finish()
}

// genLifecycle: the behaviour of honest generators - whenever the finalized height moves, every
// active validator certifies the range, the next block carries GetAggregateCommit() - across
// validator changes.  maxHeightCertified has to pass every change.
func genLifecycle(rng *rand.Rand, c config) []string {
	p := newPlannerTwin(rng, c) // with the history-independence oracle (twin.go)
	defer p.s.close()
	lastFin := uint32(0)
	changes := []uint32{}
	steps := 26 + rng.Intn(12)
	for i := 0; i < steps; i++ {
		if (i == 6 || (i == 14 && rng.Intn(2) == 0)) && len(changes) < 2 {
			changes = append(changes, p.change())
		} else {
			p.do("block")
			p.sync()
		}
		_, mhpc, _ := p.heights()
		if mhpc != lastFin {
			signers := map[int]bool{}
			for h := lastFin + 1; h <= mhpc; h++ {
				for _, v := range p.activeHolders(h) {
					signers[v] = true
				}
			}
			var vs []int
			for v := range signers {
				vs = append(vs, v)
			}
			sort.Ints(vs)
			absent := -1
			if rng.Intn(3) == 0 {
				absent = vs[rng.Intn(len(vs))]
				for h := lastFin + 1; h <= mhpc; h++ {
					hv, thr, _ := p.s.validatorsAt(h)
					rest := uint64(0)
					for _, v := range hv {
						if v.holder != absent {
							rest += v.weight
						}
					}
					if rest < thr {
						absent = -1 // every height must stay certifiable
					}
				}
			}
			for _, v := range vs {
				if v != absent {
					p.do(fmt.Sprintf("certify %d %d %d", v, lastFin, mhpc))
				}
			}
			lastFin = mhpc
		}
		if rng.Intn(6) == 0 {
			p.do("cleanup")
		}
	}
	_, mhpc, _ := p.heights()
	for _, H := range changes {
		if mhpc >= H+4 {
			p.do(fmt.Sprintf("liveness %d", H))
		}
	}
	p.do("pool")
	return p.finish()
}

// genReorg: single commits for a not yet finalized block that authenticates a validator change
// enter the pool (LIP-0061: parameters stored for height+1); the block is then replaced in a
// reorganisation. The stale entries must not spoil the certificate of the replacing block.
func genReorg(rng *rand.Rand, c config) []string {
	p := newPlannerTwin(rng, c) // with the history-independence oracle (twin.go)
	defer p.s.close()
	p.grow(2)
	if rng.Intn(2) == 0 {
		p.certifyRound()
	}
	p.extend(1 + rng.Intn(3))
	chg := p.changeOp()
	if out := p.do(chg); out != "ok" {
		panic("c06 planner: change: " + out)
	}
	p.sync()
	T := p.s.n.Height()
	// eager (or Byzantine) validators sign the fresh block
	signers := p.shuffled(p.activeHolders(T))
	k := 1 + rng.Intn(len(signers))
	for _, v := range signers[:k] {
		p.do(fmt.Sprintf("sc %d:%d:ok", v, T))
	}
	p.do("pool")
	if rng.Intn(4) == 0 {
		p.do("reorg") // the replacement does not change the validators
	} else {
		p.do("reorg" + strings.TrimPrefix(chg, "change"))
	}
	p.sync()
	p.do("pool")
	p.do("getac")
	// the chain goes on; everything that gets finalized is certified by all validators via gossip
	last := uint32(0)
	for i := 0; i < 30; i++ {
		p.do("block")
		p.sync()
		_, mhpc, mhc := p.heights()
		if last < mhc {
			last = mhc
		}
		for h := last + 1; h <= mhpc; h++ {
			p.do(scOp(h, p.shuffled(p.activeHolders(h)), "ok"))
		}
		last = mhpc
		if mhc >= T+2 {
			break
		}
	}
	if _, mhpc, _ := p.heights(); mhpc >= T+3 {
		p.do(fmt.Sprintf("liveness %d", T))
	}
	p.do("pool")
	p.do("cleanup")
	return p.finish()
}

// genPoolOps: Select / Upgrade / Cleanup on small pools (the Go sort is stable up to 12 entries).
func genPoolOps(rng *rand.Rand, c config, long bool) []string {
	p := newPlanner(rng, c)
	defer p.s.close()
	if long {
		p.extend(108 + rng.Intn(15))
	} else {
		p.grow(3)
		if rng.Intn(2) == 0 {
			p.certifyRound()
			p.extend(5 + rng.Intn(5))
		}
	}
	tip, mhpc, mhc := p.heights()
	total := p.nv + p.extra
	cand := []uint32{mhc + 1, mhpc, mhpc, tip}
	if mhpc > 1 {
		cand = append(cand, mhpc-1, mhpc-2)
	}
	if mhpc > 104 {
		cand = append(cand, mhpc-101, mhpc-100, mhpc-102, mhpc-104)
	}
	// the Go sort is stable only up to 12 entries per list
	room := func() bool {
		ng, g := p.s.n.CertPool().VerifAll()
		return len(ng) < 10 && len(g) < 10
	}
	nops := 16 + rng.Intn(10)
	for i := 0; i < nops; i++ {
		switch x := rng.Intn(10); {
		case x < 4 && room():
			h := cand[rng.Intn(len(cand))]
			variant := "ok"
			if rng.Intn(5) == 0 {
				variant = "fork"
			}
			p.do(fmt.Sprintf("inject %d:%d:%s %d", rng.Intn(total), h, variant, rng.Intn(2)))
		case x == 4 && room():
			h := cand[rng.Intn(len(cand))]
			if hs := p.activeHolders(h); len(hs) > 0 {
				p.do(fmt.Sprintf("sc %d:%d:ok", hs[rng.Intn(len(hs))], h))
			}
		case x == 5 && room():
			p.do(fmt.Sprintf("certify %d %d %d", rng.Intn(total), mhpc, mhpc))
		case x == 6:
			p.do(fmt.Sprintf("select %d", 1+rng.Intn(6)))
			if rng.Intn(3) != 0 {
				p.do("upgrade")
			}
		case x == 7:
			p.do("cleanup")
		case x == 8:
			p.do("pool")
		default:
			p.do("getac")
		}
	}
	p.do(fmt.Sprintf("select %d", 2+rng.Intn(5)))
	p.do("upgrade")
	p.do("cleanup")
	p.do("getac")
	return p.finish()
}

type job struct {
	tag  string
	seed int64
	run  func(rng *rand.Rand) []string
}

// Generate plans the cases (in parallel; every case has its own PRNG derived from rng).
func (prop) Generate(rng *rand.Rand, tier string) []corr.Case {
	thorough := tier == "thorough"
	var jobs []job
	add := func(tag string, count int, f func(rng *rand.Rand) []string) {
		for i := 0; i < count; i++ {
			jobs = append(jobs, job{tag: tag, seed: rng.Int63(), run: f})
		}
	}
	mul := 3
	maxSub := 5
	if thorough {
		mul = 30
		maxSub = 7
	}
	add("subsets", 3*mul, func(r *rand.Rand) []string { return genSubsets(r, randConfig(r, 4, 5)) })
	if thorough {
		add("subsets", 8, func(r *rand.Rand) []string { return genSubsets(r, randConfig(r, 6, maxSub)) })
	}
	add("tamper", 5*mul, func(r *rand.Rand) []string { return genTamper(r, randConfig(r, 4, 7)) })
	add("tamper-wide", 1*mul, func(r *rand.Rand) []string { return genTamper(r, randConfig(r, 9, 10)) })
	add("commits", 6*mul, func(r *rand.Rand) []string { return genCommits(r, randConfig(r, 4, 7), false) })
	add("commits-long", 1+mul/3, func(r *rand.Rand) []string { return genCommits(r, randConfig(r, 4, 5), true) })
	add("certify", 5*mul, func(r *rand.Rand) []string { return genCertify(r, randConfig(r, 4, 7)) })
	add("reorg", 2*mul, func(r *rand.Rand) []string { return genReorg(r, randConfig(r, 4, 6)) })
	add("lifecycle", 3*mul, func(r *rand.Rand) []string { return genLifecycle(r, randConfig(r, 4, 6)) })
	add("poolops", 5*mul, func(r *rand.Rand) []string { return genPoolOps(r, randConfig(r, 4, 6), false) })
	add("poolops-long", 1+mul/3, func(r *rand.Rand) []string { return genPoolOps(r, randConfig(r, 4, 4), true) })
	// validator sets whose size is a multiple of 8 (bitmap of exactly n/8 bytes) and their neighbours
	sizes := []int{8}
	rep := 1
	if thorough {
		sizes = []int{8, 8, 15, 16, 16, 17, 24}
		rep = 2
	}
	for _, nv := range sizes {
		nv := nv
		add(fmt.Sprintf("subsets-%d", nv), 2*rep, func(r *rand.Rand) []string { return genSubsets(r, fixedConfig(r, nv)) })
		add(fmt.Sprintf("tamper-%d", nv), rep, func(r *rand.Rand) []string { return genTamper(r, fixedConfig(r, nv)) })
		add(fmt.Sprintf("certify-%d", nv), rep, func(r *rand.Rand) []string { return genCertify(r, fixedConfig(r, nv)) })
		add(fmt.Sprintf("lifecycle-%d", nv), rep, func(r *rand.Rand) []string { return genLifecycle(r, fixedConfig(r, nv)) })
		add(fmt.Sprintf("commits-%d", nv), rep, func(r *rand.Rand) []string { return genCommits(r, fixedConfig(r, nv), false) })
	}
	type cross struct{ nv, kind int }
	crossings := []cross{{7, 1}, {9, 2}, {8, 1}, {8, 2}}
	if thorough {
		crossings = append(crossings, cross{15, 1}, cross{17, 2}, cross{16, 1}, cross{16, 2}, cross{8, 0}, cross{16, 3}, cross{23, 1})
	}
	for _, x := range crossings {
		x := x
		add(fmt.Sprintf("boundary-%d", x.nv), rep, func(r *rand.Rand) []string { return genBoundary(r, fixedConfig(r, x.nv), x.kind) })
	}
	// call -> own-chain change -> call for every entry point, kind of change and kind of difference (stale.go);
	// added last: the cases above keep their seeds
	staleJobs(rng, thorough, add)
	// aggregate commits carried by blocks that imply no BFT votes (standby generators, validators removed from
	// the BFT set, maxHeightGenerated >= height) with replays / lower / same heights (nonvoting.go); added last
	nonVotingJobs(rng, thorough, add)
	// self-sufficient validators x pool shapes, messages of several commits across a validator change (single.go); added last
	singleJobs(rng, thorough, add)

	cases := make([]corr.Case, len(jobs))
	var wg sync.WaitGroup
	sem := make(chan struct{}, 12)
	for i := range jobs {
		wg.Add(1)
		sem <- struct{}{}
		go func(i int) {
			defer wg.Done()
			defer func() { <-sem }()
			defer func() {
				if r := recover(); r != nil {
					cases[i] = corr.Case{Ops: []string{"reset nv=0 planner-panic"}, Tag: jobs[i].tag + "-planner-panic:" + fmt.Sprint(r)}
				}
			}()
			cases[i] = corr.Case{Ops: jobs[i].run(rand.New(rand.NewSource(jobs[i].seed))), Tag: jobs[i].tag}
		}(i)
	}
	wg.Wait()
	return cases
}
