package c06

// History independence of the certificate protocol (model-free oracle, signature SigHistory).
//
// Clause: what the gossip validator, Certify, the broadcast tick, GetAggregateCommit and
// verifyAggregateCommit answer is a function of the persistent state (chain + consensus store) and of
// the certificate pool - not of the calls and chain changes that came before.  A node that keeps a view
// of the consensus state across calls (a memoized diff store, cached BFT heights or parameters ..)
// violates it as soon as the chain changes in a way its renewal rule does not notice: a tip replaced
// by another block of the same height, a reorganisation that ends at a height seen before, a deleted
// block.
//
// Check: with `twin=1` in the reset op every certificate-protocol op is first run on a TWIN: a node
// freshly started (Chain.Init + Executer.Init, exactly a restart) on the same database handle whose pool
// is filled with the commits of the real pool.  The twin has no history.  Its answer (result and pool
// afterwards) has to equal the answer of the long-running node.

import (
	"fmt"
	"sort"
	"strings"

	"github.com/LiskHQ/lisk-engine/pkg/blockchain"
	"github.com/LiskHQ/lisk-engine/pkg/consensus/certificate"
	"github.com/LiskHQ/lisk-engine/pkg/labi"

	"verifharness/corr"
	"verifharness/node"
)

// newTwin starts the twin and copies the pool (both lists, in pool order).
func (s *session) newTwin() (*node.Node, error) {
	t, err := s.n.Twin()
	if err != nil {
		return nil, err
	}
	ng, g := s.n.CertPool().VerifAll()
	for _, c := range g {
		t.CertPool().Add(c)
	}
	t.CertPool().Upgrade(g)
	for _, c := range ng {
		t.CertPool().Add(c)
	}
	return t, nil
}

// poolExact lists the pool content exactly (block id, signature), sorted.
func poolExact(n *node.Node) string {
	ng, g := n.CertPool().VerifAll()
	var l []string
	for _, c := range ng {
		l = append(l, fmt.Sprintf("ng/%d/%x/%x/%x", c.Height(), []byte(c.BlockID()), []byte(c.ValidatorAddress()), []byte(c.CertificateSignature())))
	}
	for _, c := range g {
		l = append(l, fmt.Sprintf("g/%d/%x/%x/%x", c.Height(), []byte(c.BlockID()), []byte(c.ValidatorAddress()), []byte(c.CertificateSignature())))
	}
	sort.Strings(l)
	return strings.Join(l, ",")
}

// poolBrief renders a pool for failure details: height:holder per list.
func (s *session) poolBrief(n *node.Node) string {
	ng, g := n.CertPool().VerifAll()
	f := func(l certificate.SingleCommits) string {
		p := make([]string, len(l))
		for i, c := range l {
			p[i] = fmt.Sprintf("%d:%d", c.Height(), s.holderOf(c.ValidatorAddress()))
		}
		sort.Strings(p)
		return "[" + strings.Join(p, " ") + "]"
	}
	return "ng=" + f(ng) + " g=" + f(g)
}

func errStr(err error) string {
	switch {
	case err == nil:
		return "nil"
	case isPanic(err):
		return "panic"
	}
	return "err(" + err.Error() + ")"
}

// errClass is the result vocabulary of the `certify` op.
func errClass(err error) string {
	switch {
	case err == nil:
		return "ok"
	case isPanic(err):
		return "panic"
	}
	return "err"
}

func acAnswer(n *node.Node) string {
	ac, err := n.GetAggregateCommit()
	if err != nil {
		return errStr(err)
	}
	return fmt.Sprintf("height=%d bits=%x sig=%x", ac.Height, []byte(ac.AggregationBits), []byte(ac.CertificateSignature))
}

// twinRun is the part of an op that touches the certificate protocol, run on node x (the real node or
// its twin).  It returns the answer: result plus pool content.
type twinRun func(x *node.Node) string

// certCall returns the certificate-protocol part of the op (nil: the op has none).
// pre: the part can be run on the real node BEFORE the op itself without changing what the op does
// (read-only entry points); otherwise the op's own run on the real node is taken (post).
func (s *session) certCall(w []string, op string) (run twinRun, pre bool) {
	switch w[0] {
	case "getac", "block":
		return acAnswer, true
	case "alt":
		if len(w) > 2 && w[2] == "own" {
			return acAnswer, true
		}
	case "verify", "vblock":
		h := uint32(atoi(w[1]))
		ac := &blockchain.AggregateCommit{Height: h, AggregationBits: corr.UnHex(w[2]), CertificateSignature: s.buildSig(parseSigSpec(w[3]), op)}
		return func(x *node.Node) string { return errStr(x.VerifyAggregateCommit(ac)) }, true
	case "nv":
		return s.nvCertCall(w, op)
	case "sc":
		scs := make([]*certificate.SingleCommit, len(w)-1)
		for i, sp := range w[1:] {
			scs[i], _, _, _ = s.commit(sp)
		}
		return func(x *node.Node) string { return vresStr(x.SubmitSingleCommits(scs...)) + " pool " + poolExact(x) }, false
	case "raw":
		data := corr.UnHex(w[1])
		return func(x *node.Node) string { return vresStr(x.SubmitSingleCommitsRaw(data)) + " pool " + poolExact(x) }, false
	case "certify":
		v := s.n.Validators[atoi(w[1])]
		signer := *v
		if len(w) > 4 {
			k := s.n.Validators[atoi(kvArgs(w[4:])["key"])]
			signer.BLSPriv, signer.BLSPub = k.BLSPriv, k.BLSPub
		}
		from, to := uint32(atoi(w[2])), uint32(atoi(w[3]))
		return func(x *node.Node) string { return errClass(x.Certify(&signer, from, to)) + " pool " + poolExact(x) }, false
	case "cleanup":
		_, mhpc, _ := s.n.BFTHeights()
		if _, err := s.n.HeaderAt(mhpc); err != nil {
			return nil, false
		}
		// only the pool is compared: the op restores the pool as the tick left it (and probes retention
		// in between, which must see the pool of before the tick - so the tick is not run twice here)
		return func(x *node.Node) string {
			if err := x.BroadcastCertificates(); isPanic(err) {
				return "panic"
			}
			return "tick pool " + poolExact(x)
		}, false
	}
	return nil, false
}

// exec executes one op: execTwin, judged afterwards by the certified height of the chain (certified.go).
func (s *session) exec(op string, idx int) (out string, fails []corr.Fail) {
	return s.execCertified(op, idx, s.execTwin)
}

// execTwin executes one op; with the twin oracle switched on, the certificate-protocol part of the op is
// run on a fresh twin first and compared with the real node.
func (s *session) execTwin(op string, idx int) (out string, fails []corr.Fail) {
	w := strings.Fields(op)
	if !s.twin || s.n == nil || len(w) == 0 || w[0] == "reset" || s.dirty {
		return s.exec0(op, idx)
	}
	var want, got, twinPool string
	var run twinRun
	var pre bool
	func() {
		defer func() {
			if r := recover(); r != nil {
				run = nil // malformed op: exec0 reports it
			}
		}()
		run, pre = s.certCall(w, op)
		if run == nil {
			return
		}
		t, err := s.newTwin()
		if err != nil {
			fails = append(fails, corr.Fail{Sig: SigDiverged, Op: idx, Detail: fmt.Sprintf("%s: the twin node does not start on the database: %v", op, err)})
			run = nil
			return
		}
		defer t.Release()
		want = run(t)
		twinPool = s.poolBrief(t)
	}()
	if run == nil {
		o, f := s.exec0(op, idx)
		return o, append(fails, f...)
	}
	if pre {
		got = run(s.n)
	}
	out, f := s.exec0(op, idx)
	fails = append(fails, f...)
	if !pre {
		// the op ran the entry point on the real node: its answer is the result line plus the pool
		switch {
		case w[0] == "cleanup" && out == "panic":
			got = "panic"
		case w[0] == "cleanup":
			got = "tick pool " + poolExact(s.n)
		default:
			got = out + " pool " + poolExact(s.n)
		}
	}
	if got != want {
		_, mhpc, mhc := s.n.BFTHeights()
		fails = append(fails, corr.Fail{Sig: SigHistory, Op: idx, Detail: fmt.Sprintf(
			"%s: the node answers %s; a node freshly restarted on the same database (tip %d, maxHeightPrecommitted %d, maxHeightCertified %d) with the same pool answers %s (pool there %s, here %s)",
			op, brief(got), s.n.Height(), mhpc, mhc, brief(want), twinPool, s.poolBrief(s.n))})
	}
	return out, fails
}

// brief shortens an answer for the failure detail.
func brief(a string) string {
	if i := strings.Index(a, " pool "); i >= 0 {
		a = a[:i]
	}
	if len(a) > 160 {
		a = a[:160] + ".."
	}
	return a
}

// syncRule implements the sync rule of the line protocol (see the package comment); true: the op
// is answered with `unsynced`.
func (s *session) syncRule(w []string) bool {
	switch w[0] {
	case "params", "noparams":
		s.np++
	case "extend", "change", "reorg", "rewind":
		s.dirty = true
	case "alt":
		if len(w) > 2 && (w[2] == "own" || w[2] == "agg") {
			return s.dirty
		}
		s.dirty = true
	case "sc", "certify", "inject", "pool", "cleanup", "select", "upgrade", "getac", "block", "verify", "vblock", "nv":
		return s.dirty
	}
	return false
}

// fixGenerated recomputes the validators' maxHeightGenerated from the current chain (after blocks
// were deleted the generators of the deleted blocks may sign these heights again).
func (s *session) fixGenerated() {
	n := s.n
	for _, v := range n.Validators {
		v.MaxHeightGenerated = 0
	}
	for h := uint32(1); h <= n.Height(); h++ {
		if hd, err := n.HeaderAt(h); err == nil {
			if v := n.ValidatorByAddress(hd.GeneratorAddress); v != nil {
				v.MaxHeightGenerated = h
			}
		}
	}
}

// execChain: own-chain changes other than plain growth.
func (s *session) execChain(w []string, op string, idx int) (out string, fails []corr.Fail) {
	n := s.n
	fail := func(sig, format string, a ...interface{}) {
		fails = append(fails, corr.Fail{Sig: sig, Detail: op + ": " + fmt.Sprintf(format, a...), Op: idx})
	}
	apply := func(opts node.BlockOpts) error {
		b, err := n.BuildBlock(opts)
		if err == nil {
			r := n.ProcessResult(b)
			err = r.Err
			if err == nil && !r.Applied {
				err = node.ErrNotApplied
			}
		}
		n.DrainEvents()
		return err
	}
	switch w[0] {
	case "rewind":
		for i := 0; i < atoi(w[1]); i++ {
			if err := n.DeleteTip(false); err != nil {
				fail(SigDiverged, "DeleteTip: %v", err)
				return "fail", fails
			}
		}
		n.DrainEvents()
		s.fixGenerated()
		return "ok", nil
	case "restart":
		if err := n.Restart(); err != nil {
			fail(SigDiverged, "Restart: %v", err)
			return "fail", fails
		}
		n.DrainEvents()
		s.lastSel = nil
		s.tainted = false
		return "ok", nil
	case "alt":
		slots := atoi(w[1])
		_, _, mhc := n.BFTHeights()
		switch w[2] {
		case "empty":
			if err := apply(node.BlockOpts{SlotsAhead: slots, AggregateCommit: emptyCommit(mhc)}); err != nil {
				fail(SigDiverged, "alt: %v", err)
				return "fail", fails
			}
			return "ok", nil
		case "change":
			var vals []*labi.Validator
			for _, p := range strings.Split(w[5], ",") {
				hw := strings.Split(p, ":")
				vals = append(vals, n.Validators[atoi(hw[0])].Labi(uint64(atoi(hw[1]))))
			}
			vc := &node.ValidatorChange{Validators: vals, PrecommitThreshold: uint64(atoi(w[3])), CertificateThreshold: uint64(atoi(w[4]))}
			if err := apply(node.BlockOpts{SlotsAhead: slots, ValidatorChange: vc, AggregateCommit: emptyCommit(mhc)}); err != nil {
				fail(SigDiverged, "alt: %v", err)
				return "fail", fails
			}
			return "ok", nil
		case "agg":
			// an explicit aggregate commit (as `vblock`), so that the replacing block can certify a height
			// without any call of the node's certificate protocol between the deletion and the block
			h := uint32(atoi(w[3]))
			bits := corr.UnHex(w[4])
			sp := parseSigSpec(w[5])
			ac := &blockchain.AggregateCommit{Height: h, AggregationBits: bits, CertificateSignature: s.buildSig(sp, op)}
			want := s.specAccepts(h, bits, sp)
			_, mhpc, _ := n.BFTHeights()
			b, err := n.BuildBlock(node.BlockOpts{SlotsAhead: slots, AggregateCommit: ac})
			if err != nil {
				panic("BuildBlock: " + err.Error())
			}
			r := n.ProcessResult(b)
			n.DrainEvents()
			switch {
			case isPanic(r.Err):
				fail(SigPanic, "block verification: %v", r.Err)
				return "panic", fails
			case r.Applied && !want:
				fail(SigUnsound, "block applied (mhc %d mhpc %d next change %d)", mhc, mhpc, s.nextChange(mhc+1))
			case !r.Applied && want:
				fail(SigValidRejected, "block rejected: %v", r.Err)
			}
			if r.Applied && !ac.Empty() {
				if _, _, c := n.BFTHeights(); c != h {
					fail(SigValidRejected, "maxHeightCertified %d after the block carrying the commit for %d", c, h)
				}
			}
			if r.Applied {
				return "applied", fails
			}
			return "rejected", fails
		case "own":
			ac, err := n.GetAggregateCommit()
			if isPanic(err) {
				if !s.tainted {
					fail(SigPanic, "GetAggregateCommit: %v", err)
				}
				return "panic", fails
			}
			if err != nil {
				return "err", nil
			}
			verr := n.VerifyAggregateCommit(ac)
			fails = append(fails, s.checkOwn(ac, verr, op, idx)...)
			b, err := n.BuildBlock(node.BlockOpts{SlotsAhead: slots, AggregateCommit: ac})
			if err != nil {
				panic("BuildBlock: " + err.Error())
			}
			r := n.ProcessResult(b)
			n.DrainEvents()
			if isPanic(r.Err) {
				fail(SigPanic, "block with own aggregate: %v", r.Err)
				return "panic", fails
			}
			if verr == nil && !r.Applied {
				fail(SigOwnBlockRejected, "aggregate for %d accepted by verifyAggregateCommit but the block was not applied: %v", ac.Height, r.Err)
			}
			if r.Applied {
				if _, _, c := n.BFTHeights(); !ac.Empty() && c != ac.Height {
					fail(SigOwnBlockRejected, "maxHeightCertified %d after a block with the aggregate commit for %d", c, ac.Height)
				}
				return "applied", fails
			}
			return "rejected", fails
		}
	}
	return "bad-op", nil
}
