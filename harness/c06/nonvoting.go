package c06

// Scenario family "nonvoting": aggregate commits carried by blocks that imply no BFT votes.
//
// liskbft counts votes only for headers of generators with BFT weight that declare
// maxHeightGenerated < height.  The certified height, however, moves with EVERY block that carries a
// non-empty aggregate commit.  The op `nv` builds the next block for a chosen generator:
//
//	standby     a generator that never had BFT weight (weight 0 in the genesis validator list or added
//	            with weight 0 by a validator change)
//	removed     a validator whose weight was set to 0 by a validator change: out of the BFT set, still
//	            in the generator list
//	mhg         a BFT validator whose header declares maxHeightGenerated = height (a generator that lost
//	            its "previously generated" record declares this; the header implies no votes)
//	first       the first block of a validator that has just been added with weight (control: votes)
//	regular     a BFT validator with a truthful header (control)
//
// carrying the node's own aggregate commit (`own`), an explicit aggregate commit (`agg`: valid, replayed,
// for a lower height, for the same height) or the empty commit at the height the CHAIN has certified
// (`empty`).  The model (Driver/Cert.lean) treats `nv` exactly as `block` / `vblock`: what a block does to
// the certified height does not depend on its generator.  The model-free oracle is certified.go.

import (
	"fmt"
	"math/rand"
	"sort"
	"strings"

	"github.com/LiskHQ/lisk-engine/pkg/blockchain"

	"verifharness/corr"
	"verifharness/node"
)

// nvOpts resolves generator and maxHeightGenerated of an `nv` op. A holder that is not a generator at the
// next height falls back to the generator of the next slot (the op then is an ordinary block).
func (s *session) nvOpts(w []string) node.BlockOpts {
	n := s.n
	opts := node.BlockOpts{}
	if w[1] != "-" {
		if i := atoi(w[1]); i >= 0 && i < len(n.Validators) && n.SlotOf(n.Validators[i]) > 0 {
			opts.Generator = n.Validators[i]
		}
	}
	if w[2] == "h" {
		opts.MaxHeightGenerated = node.U32(n.Height() + 1)
	}
	return opts
}

// nvCarrier names the kind of generator the op selects in the current state (failure details, Classify).
func (s *session) nvCarrier(w []string) string {
	n := s.n
	opts := s.nvOpts(w)
	g := opts.Generator
	if g == nil {
		var err error
		if g, err = n.GeneratorAt(1); err != nil {
			return "unknown"
		}
	}
	weight := false
	if vs, _, ok := s.validatorsAt(n.Height() + 1); ok {
		for _, v := range vs {
			if v.holder == g.Index {
				weight = true
			}
		}
	}
	switch {
	case !weight:
		return "no-weight"
	case w[2] == "h":
		return "mhg>=height"
	}
	return "voting"
}

func (s *session) execNV(w []string, op string, idx int) (out string, fails []corr.Fail) {
	n := s.n
	fail := func(sig, format string, a ...interface{}) {
		fails = append(fails, corr.Fail{Sig: sig, Detail: op + ": " + fmt.Sprintf(format, a...), Op: idx})
	}
	if len(w) < 4 || (w[2] != "t" && w[2] != "h") {
		return "bad-op", nil
	}
	carrier := s.nvCarrier(w)
	opts := s.nvOpts(w)
	_, mhpc, mhc := n.BFTHeights()
	process := func(ac *blockchain.AggregateCommit) (res string, applied bool, err error) {
		opts.AggregateCommit = ac
		b, berr := n.BuildBlock(opts)
		if berr != nil {
			panic("BuildBlock: " + berr.Error())
		}
		r := n.ProcessResult(b)
		n.DrainEvents()
		switch {
		case isPanic(r.Err):
			return "panic", false, r.Err
		case r.Applied:
			return "applied", true, nil
		}
		return "rejected", false, r.Err
	}
	switch {
	case w[3] == "empty" && len(w) == 4:
		// the empty commit at the height the CHAIN has certified: what a generator that reads the chain puts
		// into its block
		cert := s.certifiedOfChain().certified
		res, applied, err := process(emptyCommit(cert))
		if res == "panic" {
			fail(SigPanic, "block verification: %v", err)
		} else if !applied {
			fail(SigCertifiedNotOfChain, "a block of a %s generator carrying the empty aggregate commit at the height %d certified by the chain was rejected (node: maxHeightCertified %d): %v", carrier, cert, mhc, err)
		}
		return res, fails
	case w[3] == "own" && len(w) == 4:
		ac, err := n.GetAggregateCommit()
		if isPanic(err) {
			if !s.tainted {
				fail(SigPanic, "GetAggregateCommit: %v", err)
			}
			return "panic", fails
		}
		if err != nil {
			return "err", nil
		}
		verr := n.VerifyAggregateCommit(ac)
		fails = append(fails, s.checkOwn(ac, verr, op, idx)...)
		res, applied, perr := process(ac)
		if res == "panic" {
			fail(SigPanic, "block with own aggregate: %v", perr)
			return res, fails
		}
		if verr == nil && !applied {
			fail(SigOwnBlockRejected, "aggregate for %d accepted by verifyAggregateCommit but the block of a %s generator carrying it was not applied: %v", ac.Height, carrier, perr)
		}
		if applied {
			if _, _, c := n.BFTHeights(); !ac.Empty() && c != ac.Height {
				fail(SigCertifiedNotOfChain, "maxHeightCertified is %d after block %d of a %s generator carrying the aggregate commit for height %d", c, n.Height(), carrier, ac.Height)
			}
		}
		return res, fails
	case w[3] == "agg" && len(w) == 7:
		h := uint32(atoi(w[4]))
		bits := corr.UnHex(w[5])
		sp := parseSigSpec(w[6])
		ac := &blockchain.AggregateCommit{Height: h, AggregationBits: bits, CertificateSignature: s.buildSig(sp, op)}
		want := s.specAccepts(h, bits, sp)
		res, applied, perr := process(ac)
		switch {
		case res == "panic":
			fail(SigPanic, "block verification: %v", perr)
			return res, fails
		case applied && !want:
			fail(SigUnsound, "block of a %s generator applied (mhc %d mhpc %d next change %d)", carrier, mhc, mhpc, s.nextChange(mhc+1))
		case !applied && want:
			fail(SigValidRejected, "block of a %s generator rejected: %v", carrier, perr)
		}
		if applied && !ac.Empty() {
			if _, _, c := n.BFTHeights(); c != h {
				fail(SigCertifiedNotOfChain, "maxHeightCertified is %d after block %d of a %s generator carrying the aggregate commit for height %d", c, n.Height(), carrier, h)
			}
		}
		return res, fails
	}
	return "bad-op", nil
}

// nvCertCall: the certificate-protocol part of an `nv` op for the history-independence oracle (twin.go).
func (s *session) nvCertCall(w []string, op string) (twinRun, bool) {
	switch {
	case len(w) == 4 && w[3] == "own":
		return acAnswer, true
	case len(w) == 7 && w[3] == "agg":
		ac := &blockchain.AggregateCommit{Height: uint32(atoi(w[4])), AggregationBits: corr.UnHex(w[5]), CertificateSignature: s.buildSig(parseSigSpec(w[6]), op)}
		return func(x *node.Node) string { return errStr(x.VerifyAggregateCommit(ac)) }, true
	}
	return nil, false
}

// nvClass names an `nv` op for Classify (the generator kind is part of the planner's tag).
func nvClass(w []string, out string) string {
	if len(w) < 4 {
		return "nv"
	}
	d := "t"
	if w[2] == "h" {
		d = "mhg"
	}
	return "nv-" + d + "-" + w[3] + "-" + out
}

// ---------------------------------------------------------------------------------------------

// standbyConfig: a configuration whose genesis validator list ends with `standby` generators of weight 0.
func standbyConfig(rng *rand.Rand, minNV, maxNV, standby int) config {
	c := randConfig(rng, minNV, maxNV)
	for i := 0; i < standby; i++ {
		c.weights = append(c.weights, 0)
		c.nv++
	}
	return c
}

// generatorsOnly lists the holders that generate at the next height without BFT weight.
func (p *planner) generatorsOnly() []int {
	n := p.s.n
	gens, err := n.Generators(n.Height() + 1)
	if err != nil {
		return nil
	}
	active := map[int]bool{}
	for _, v := range p.activeHolders(n.Height() + 1) {
		active[v] = true
	}
	var res []int
	for _, g := range gens {
		if v := n.ValidatorByAddress(g.Address()); v != nil && !active[v.Index] {
			res = append(res, v.Index)
		}
	}
	sort.Ints(res)
	return res
}

// nvChange builds a validator change that keeps the generators without weight in the list.
// kind "remove": a BFT validator keeps generating with weight 0; "add": a holder from outside joins with
// weight 1; "standby": a holder from outside joins with weight 0.  Returns the op and the holder concerned.
func (p *planner) nvChange(kind string) (string, int) {
	tip, _, _ := p.heights()
	cur, _, _ := p.s.validatorsAt(tip + 1)
	type hw struct{ h, w int }
	var next []hw
	in := map[int]bool{}
	for _, v := range cur {
		next = append(next, hw{v.holder, int(v.weight)})
		in[v.holder] = true
	}
	for _, g := range p.generatorsOnly() {
		next = append(next, hw{g, 0})
		in[g] = true
	}
	var outside []int
	for i := 0; i < p.nv+p.extra; i++ {
		if !in[i] {
			outside = append(outside, i)
		}
	}
	who := -1
	switch {
	case kind == "remove" && len(cur) > 3:
		i := p.rng.Intn(len(cur))
		next[i].w = 0
		who = next[i].h
	case kind == "add" && len(outside) > 0:
		who = outside[p.rng.Intn(len(outside))]
		next = append(next, hw{who, 1})
	case kind == "standby" && len(outside) > 0:
		who = outside[p.rng.Intn(len(outside))]
		next = append(next, hw{who, 0})
	default:
		return "", -1
	}
	total := 0
	parts := make([]string, len(next))
	for i, x := range next {
		total += x.w
		parts[i] = fmt.Sprintf("%d:%d", x.h, x.w)
	}
	cert := total*2/3 + 1
	if p.rng.Intn(3) == 0 {
		cert = total/3 + 1 + p.rng.Intn(total-total/3)
	}
	return fmt.Sprintf("change %d %d %s", total*2/3+1, cert, strings.Join(parts, ",")), who
}

// carrierFor picks holder and maxHeightGenerated flag of the requested kind ("" when the state has none).
func (p *planner) carrierFor(kind string, removed, added int) (holder, flag string) {
	pick := func(l []int) string {
		if len(l) == 0 {
			return ""
		}
		return fmt.Sprint(l[p.rng.Intn(len(l))])
	}
	only := p.generatorsOnly()
	switch kind {
	case "standby":
		var l []int
		for _, g := range only {
			if g != removed {
				l = append(l, g)
			}
		}
		return pick(l), "t"
	case "removed":
		for _, g := range only {
			if g == removed {
				return fmt.Sprint(g), "t"
			}
		}
		return "", "t"
	case "mhg":
		return pick(p.activeHolders(p.s.n.Height() + 1)), "h"
	case "first":
		for _, g := range p.activeHolders(p.s.n.Height() + 1) {
			if g == added {
				return fmt.Sprint(g), "t"
			}
		}
		return "", "t"
	}
	return pick(p.activeHolders(p.s.n.Height() + 1)), "t"
}

var nvKinds = []string{"standby", "removed", "mhg", "first", "regular"}

// genNonVoting: certification rounds whose aggregate commits are carried by blocks of the generator kind
// `kind` (the other kinds rotate in for the replays), each followed by the replay / lower-height / same-height
// probes through verifyAggregateCommit, through voting and non-voting blocks, and through GetAggregateCommit
// on a pool that still holds the quorum of the certified height.
func genNonVoting(rng *rand.Rand, c config, kind string, twin bool) []string {
	var p *planner
	if twin {
		p = newPlannerTwin(rng, c)
	} else {
		p = newPlanner(rng, c)
	}
	defer p.s.close()
	ok := func(out string) bool { return out != "fail" && out != "bad-op" && out != "panic" && out != "err" }
	p.grow(2)
	if rng.Intn(3) == 0 {
		p.certifyRound()
		p.grow(2)
	}
	removed, added := -1, -1
	var H uint32
	switch kind {
	case "removed":
		if chg, who := p.nvChange("remove"); chg != "" {
			if !ok(p.do(chg)) {
				return p.finish()
			}
			p.sync()
			removed, H = who, p.s.n.Height()
		}
	case "first":
		if chg, who := p.nvChange("add"); chg != "" {
			if !ok(p.do(chg)) {
				return p.finish()
			}
			p.sync()
			added, H = who, p.s.n.Height()
		}
	case "standby":
		if rng.Intn(2) == 0 { // a second standby generator joins by a validator change
			if chg, _ := p.nvChange("standby"); chg != "" {
				if !ok(p.do(chg)) {
					return p.finish()
				}
				p.sync()
				H = p.s.n.Height()
			}
		}
	}
	other := func(not string) string {
		for i := 0; i < 8; i++ {
			if k := nvKinds[rng.Intn(3)]; k != not { // standby / removed / mhg
				if h, _ := p.carrierFor(k, removed, added); h != "" {
					return k
				}
			}
		}
		return "mhg"
	}
	rounds := 0
	for i := 0; i < 40 && rounds < 3; i++ {
		_, mhpc, mhc := p.heights()
		top := p.certifiableTop()
		if top <= mhc || mhpc <= mhc {
			p.extend(1 + rng.Intn(3))
			continue
		}
		// the height to certify: the top, or (when there is room) one below, so that "lower" and "same"
		// heights exist inside the certifiable range
		x := top
		if top-mhc >= 2 && rng.Intn(3) == 0 {
			x = top - 1
		}
		holder, flag := p.carrierFor(kind, removed, added)
		if holder == "" {
			holder, flag = p.carrierFor("mhg", removed, added)
		}
		q := p.quorum(x, rng.Intn(2) == 0)
		bits := corr.Hex(p.bitsFor(x, q))
		sig := sigOf(p.shuffled(q), "own", x)
		p.do("clear")
		p.do(scOp(x, p.shuffled(q), "ok"))
		var lower string
		if x-1 > mhc {
			ql := p.quorum(x-1, false)
			lower = fmt.Sprintf("%d %s %s", x-1, corr.Hex(p.bitsFor(x-1, ql)), sigOf(ql, "own", x-1))
		}
		// the carrying block
		var out string
		if rng.Intn(2) == 0 {
			out = p.do(fmt.Sprintf("nv %s %s own", holder, flag))
		} else {
			out = p.do(fmt.Sprintf("nv %s %s agg %d %s %s", holder, flag, x, bits, sig))
		}
		p.sync()
		if out != "applied" {
			break
		}
		rounds++
		// height x is certified by the chain now; the pool still holds the quorum for x
		p.do("getac")
		p.do(fmt.Sprintf("verify %d %s %s", x, bits, sig)) // replay of the included commit
		if lower != "" {
			p.do("verify " + lower) // a correct aggregate for a lower height
		}
		p.do(fmt.Sprintf("verify %d - -", x))
		if mhc != x {
			p.do(fmt.Sprintf("verify %d - -", mhc)) // the empty commit at the previous certified height
		}
		// the same aggregate, and one for a lower height, inside blocks of non-voting and voting generators
		k2 := other(kind)
		h2, f2 := p.carrierFor(k2, removed, added)
		if h2 == "" {
			h2, f2 = "-", "h"
		}
		p.do(fmt.Sprintf("nv %s %s agg %d %s %s", h2, f2, x, bits, sig))
		if lower != "" && rng.Intn(2) == 0 {
			p.do(fmt.Sprintf("nv %s %s agg %s", h2, f2, lower))
		}
		p.do(fmt.Sprintf("vblock %d %s %s", x, bits, sig))
		p.sync()
		// the chain goes on with the empty commit at the certified height, in a block that implies no votes
		h3, f3 := p.carrierFor(other(""), removed, added)
		if h3 == "" {
			h3, f3 = "-", "h"
		}
		p.do(fmt.Sprintf("nv %s %s empty", h3, f3))
		p.sync()
		p.do("getac")
		if rng.Intn(2) == 0 {
			p.do("cleanup")
		}
		p.extend(1 + rng.Intn(3))
	}
	if H > 0 {
		if _, mhpc, _ := p.heights(); mhpc >= H+3 && rounds >= 3 {
			_, _, mhc := p.heights()
			if mhc >= H {
				p.do(fmt.Sprintf("liveness %d", H))
			}
		}
	}
	// an ordinary certification round at the end: the node's own aggregate in an ordinary block
	p.certifyRound()
	p.do("pool")
	return p.finish()
}

// nonVotingJobs: quick - every generator kind once plus one twin run; thorough - every kind four times.
func nonVotingJobs(rng *rand.Rand, thorough bool, add func(tag string, count int, f func(rng *rand.Rand) []string)) {
	off := rng.Intn(len(nvKinds))
	for i, kind := range nvKinds {
		kind := kind
		rep := 1
		if thorough {
			rep = 4
		}
		twin := (i+off)%len(nvKinds) < 2
		add("nonvoting-"+kind, rep, func(r *rand.Rand) []string {
			return genNonVoting(r, standbyConfig(r, 4, 6, 1+r.Intn(2)), kind, twin || (thorough && r.Intn(2) == 0))
		})
	}
	// the honest life cycle (every `block` carries the node's own aggregate) with standby generators in the
	// round robin: whichever generator the slot falls on carries the certificate
	rep := 2
	if thorough {
		rep = 8
	}
	add("lifecycle-standby", rep, func(r *rand.Rand) []string { return genLifecycle(r, standbyConfig(r, 4, 5, 1+r.Intn(2))) })
}
