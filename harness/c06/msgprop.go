package c06

// msgprop.go: pseudo-property "C06MSG" (model-free, for the `also` list of C09): only the families of single.go
// that drive the gossip validator of postSingleCommits with messages of several commits across a change of the
// validator set, plus one self-sufficient-validator pool family; the oracles are those of C06 (among them
// c06-commit-of-non-validator-pooled, c09-own-aggregate-panics, c06-message-verdict, c06-panic).  C06 itself runs
// the same families against the Lean model.

import (
	"math/rand"
	"sync"

	"verifharness/corr"
)

type msgProp struct{ prop }

func init() { corr.Register(msgProp{}) }

func (msgProp) ID() string    { return "C06MSG" }
func (msgProp) NoModel() bool { return true }

func (msgProp) Generate(rng *rand.Rand, tier string) []corr.Case {
	n := 3
	if tier == "thorough" {
		n = 16
	}
	type jb struct {
		tag  string
		seed int64
		run  func(r *rand.Rand) []string
	}
	var jobs []jb
	for i := 0; i < n; i++ {
		jobs = append(jobs, jb{"msg-before-cert", rng.Int63(), func(r *rand.Rand) []string {
			c := randConfig(r, 4, 5)
			c.extra = 2
			return genMessages(r, c, false)
		}})
		jobs = append(jobs, jb{"msg-after-cert", rng.Int63(), func(r *rand.Rand) []string {
			c := randConfig(r, 4, 5)
			c.extra = 2
			return genMessages(r, c, true)
		}})
	}
	pr := heavyProfiles[rng.Intn(len(heavyProfiles))]
	cfg, _ := heavyConfig(rand.New(rand.NewSource(rng.Int63())), pr, true)
	jobs = append(jobs, jb{"pools-" + pr.name, rng.Int63(), func(r *rand.Rand) []string { return genPools(r, cfg) }})
	cases := make([]corr.Case, len(jobs))
	var wg sync.WaitGroup
	sem := make(chan struct{}, 12)
	for i := range jobs {
		wg.Add(1)
		sem <- struct{}{}
		go func(i int) {
			defer wg.Done()
			defer func() { <-sem }()
			defer func() {
				if r := recover(); r != nil {
					cases[i] = corr.Case{Ops: []string{"reset nv=0 planner-panic"}, Tag: jobs[i].tag + "-planner-panic"}
				}
			}()
			cases[i] = corr.Case{Ops: jobs[i].run(rand.New(rand.NewSource(jobs[i].seed))), Tag: jobs[i].tag}
		}(i)
	}
	wg.Wait()
	return cases
}
