package c06

// The last certified height is a function of the CHAIN (model-free oracle).
//
// Clause of C06: an aggregate commit is accepted only "with a height strictly above the last certified
// height".  The last certified height is information carried by the chain itself: it is the height of the
// newest non-empty aggregate commit included in a block of the chain (the genesis height when there is
// none) - whatever kind of block carried the commit: a block of a BFT validator, of a standby generator
// without BFT weight, of a validator that was removed from the BFT set but still generates, or a block
// whose header declares maxHeightGenerated >= height and therefore implies no votes.  Everything the
// certificate protocol reads through GetBFTHeights().MaxHeightCertified (verifyAggregateCommit,
// GetAggregateCommit, the value handed to the application) must equal that function of the chain.
//
// The oracle does not use the model and does not trust the node's own maxHeightCertified: after every op
// it walks the headers of the node's current chain (DataAccess, genesis+1 .. tip) and computes
//
//	certified(chain) = max height of the non-empty aggregate commits included so far (genesis height otherwise)
//
// and requires
//
//	(1) GetBFTHeights().MaxHeightCertified == certified(chain)                  SigCertifiedNotOfChain
//	(2) along the chain every block's aggregate commit is either the empty commit AT certified(prefix)
//	    or a non-empty commit STRICTLY ABOVE certified(prefix): no aggregate commit is accepted twice, none
//	    for a height at or below a certified one                               SigReplayAccepted / SigCertifiedNotOfChain
//	(3) verifyAggregateCommit rejects, in the state after the op, every non-empty aggregate commit that the
//	    chain already contains (byte-exact replay of the newest two)           SigReplayAccepted
//	(4) the node's own GetAggregateCommit returns the empty commit exactly at certified(chain) or a
//	    non-empty one strictly above it                                        SigOwnNotAboveCertified
//	(5) an op whose answer says that a non-empty aggregate commit was accepted (`verify` -> accept, `vblock`
//	    / `alt agg` / `nv agg` -> applied) had a height strictly above certified(chain before the op)
//	                                                                            SigReplayAccepted

import (
	"bytes"
	"fmt"
	"strings"
	"sync"

	"github.com/LiskHQ/lisk-engine/pkg/blockchain"

	"verifharness/corr"
	"verifharness/node"
)

const (
	// SigCertifiedNotOfChain: maxHeightCertified of the consensus store differs from the certified height
	// that follows from the aggregate commits included in the chain.
	SigCertifiedNotOfChain = "c06-certified-height-not-of-chain"
	// SigReplayAccepted: an aggregate commit whose height is not strictly above the height certified by the
	// chain (a replay of an included commit, or a commit for a lower height) was accepted.
	SigReplayAccepted = "c06-replayed-aggregate-commit-accepted"
	// SigOwnNotAboveCertified: the node's own GetAggregateCommit certifies a height at or below the height
	// the chain has certified already (or hands out the empty commit at another height).
	SigOwnNotAboveCertified = "c06-own-aggregate-not-above-certified"
)

// includedCommit is a non-empty aggregate commit found in a block of the chain.
type includedCommit struct {
	block uint32 // height of the carrying block
	kind  string // kind of the carrying block (carrierKind)
	ac    *blockchain.AggregateCommit
}

// certView is what the chain says about certification.
type certView struct {
	tipID     []byte
	tip       uint32
	certified uint32
	included  []includedCommit
	// first violation of clause (2) along the chain ("" = none)
	chainSig, chainDetail string
}

// carrierKind classifies the generator of a block of the chain from the chain and the stored BFT parameters:
// "voting" (BFT validator at that height declaring maxHeightGenerated < height), "no-weight" (generator
// that is not a BFT validator at that height: standby / removed from the BFT set), "mhg>=height".
func (s *session) carrierKind(height, maxHeightGenerated uint32, generator []byte) string {
	if maxHeightGenerated >= height {
		return "mhg>=height"
	}
	if vs, _, ok := s.validatorsAt(height); ok {
		for _, v := range vs {
			if bytes.Equal(v.addr, generator) {
				return "voting"
			}
		}
	}
	return "no-weight"
}

// certViews caches, per session, what the current chain says about certification (one small entry per session).
var certViews sync.Map // *session -> *certView

// certifiedOfChain walks the current chain. The result is cached per session and tip id.
func (s *session) certifiedOfChain() *certView {
	n := s.n
	tipB := n.Tip()
	if tipB == nil {
		return &certView{}
	}
	tip := tipB.Header
	if c, ok := certViews.Load(s); ok {
		if cv := c.(*certView); cv.tip == tip.Height && bytes.Equal(cv.tipID, tip.ID) {
			return cv
		}
	}
	v := &certView{tipID: append([]byte{}, tip.ID...), tip: tip.Height}
	// the walk over the headers of the chain is node.CertifiedOfChain (harness/node/cert.go)
	certified, included, violation, replay := n.CertifiedOfChain()
	v.certified = certified
	for _, c := range included {
		kind := s.carrierKind(c.BlockHeight, c.MaxHeightGenerated, c.Generator)
		v.included = append(v.included, includedCommit{block: c.BlockHeight, kind: kind, ac: c.Commit})
	}
	if violation != "" {
		v.chainSig, v.chainDetail = SigCertifiedNotOfChain, violation
		if replay {
			v.chainSig = SigReplayAccepted
		}
	}
	certViews.Store(s, v)
	return v
}

func (v *certView) lastCarrier() string {
	if len(v.included) == 0 {
		return "no block of the chain carries a non-empty aggregate commit"
	}
	c := v.included[len(v.included)-1]
	return fmt.Sprintf("the newest non-empty aggregate commit (height %d) is carried by block %d, a block of a %s generator", c.ac.Height, c.block, c.kind)
}

// execCertified executes one op through inner (session.execTwin: the op itself with the history-independence
// oracle of twin.go) and then judges the node by the certified height of its chain. session.exec (twin.go) is
// execCertified over execTwin.
func (s *session) execCertified(op string, idx int, inner func(op string, idx int) (string, []corr.Fail)) (out string, fails []corr.Fail) {
	w := strings.Fields(op)
	var before *certView
	if len(w) > 0 && w[0] == "reset" {
		certViews.Delete(s)
	}
	if s.n != nil && len(w) > 0 && w[0] != "reset" {
		func() {
			defer func() { _ = recover() }()
			before = s.certifiedOfChain()
		}()
	}
	out, fails = inner(op, idx)
	if s.n == nil || len(w) == 0 || out == "unsynced" || out == "no-node" || strings.HasPrefix(out, "fail") {
		return out, fails
	}
	func() {
		defer func() {
			if r := recover(); r != nil {
				fails = append(fails, corr.Fail{Sig: SigPanic, Op: idx, Detail: fmt.Sprintf("%s: certified-height oracle: %v", op, r)})
			}
		}()
		fails = append(fails, s.certifiedOracle(w, op, idx, out, before)...)
	}()
	return out, fails
}

func (s *session) certifiedOracle(w []string, op string, idx int, out string, before *certView) []corr.Fail {
	n := s.n
	if n.Tip() == nil {
		return nil
	}
	var fails []corr.Fail
	fail := func(sig, format string, a ...interface{}) {
		fails = append(fails, corr.Fail{Sig: sig, Op: idx, Detail: op + ": " + fmt.Sprintf(format, a...)})
	}
	after := s.certifiedOfChain()
	changed := before == nil || before.tip != after.tip || !bytes.Equal(before.tipID, after.tipID) || w[0] == "restart" || w[0] == "reset"
	_, mhpc, mhc := n.BFTHeights()

	// (5) the answer of the op itself, judged by the chain before the op
	if before != nil {
		h, nonEmpty, accepted := uint32(0), false, false
		switch {
		case (w[0] == "verify" || w[0] == "vblock") && len(w) == 4:
			h, nonEmpty = uint32(atoi(w[1])), w[2] != "-"
			accepted = out == "accept" || out == "applied"
		case w[0] == "alt" && len(w) == 6 && w[2] == "agg":
			h, nonEmpty, accepted = uint32(atoi(w[3])), w[4] != "-", out == "applied"
		case w[0] == "nv" && len(w) == 7 && w[3] == "agg":
			h, nonEmpty, accepted = uint32(atoi(w[4])), w[5] != "-", out == "applied"
		}
		if accepted && nonEmpty && h <= before.certified {
			fail(SigReplayAccepted, "a non-empty aggregate commit for height %d was accepted (%s) although the chain has certified height %d already: %s (node: maxHeightCertified %d, maxHeightPrecommitted %d)",
				h, out, before.certified, before.lastCarrier(), mhc, mhpc)
		}
		if w[0] == "getac" {
			if f := strings.Fields(out); len(f) == 3 && f[1] != "-" && uint32(atoi(f[0])) <= before.certified {
				fail(SigOwnNotAboveCertified, "GetAggregateCommit assembled a non-empty aggregate commit for height %s although the chain has certified height %d already: %s (node: maxHeightCertified %d)",
					f[0], before.certified, before.lastCarrier(), mhc)
			}
		}
	}

	// (1) the stored value is the function of the chain
	if mhc != after.certified {
		fail(SigCertifiedNotOfChain, "GetBFTHeights().MaxHeightCertified = %d, but the chain (tip %d) has certified height %d: %s",
			mhc, after.tip, after.certified, after.lastCarrier())
	}
	if !changed {
		return fails
	}
	// (2) the chain itself
	if after.chainSig != "" {
		fail(after.chainSig, "%s", after.chainDetail)
	}
	// (3) byte-exact replays of the newest included commits
	for i := len(after.included) - 1; i >= 0 && i >= len(after.included)-2; i-- {
		c := after.included[i]
		if err := n.VerifyAggregateCommit(c.ac); err == nil {
			fail(SigReplayAccepted, "verifyAggregateCommit accepts the aggregate commit for height %d a second time: it is included in block %d (a block of a %s generator) of the chain, whose certified height is %d (node: maxHeightCertified %d, maxHeightPrecommitted %d, tip %d)",
				c.ac.Height, c.block, c.kind, after.certified, mhc, mhpc, after.tip)
			break
		}
	}
	// (4) the node's own proposal
	if ac, err := n.GetAggregateCommit(); err == nil && ac != nil {
		switch {
		case !ac.Empty() && ac.Height <= after.certified:
			fail(SigOwnNotAboveCertified, "GetAggregateCommit assembles a non-empty aggregate commit for height %d although the chain (tip %d) has certified height %d already: %s (node: maxHeightCertified %d)",
				ac.Height, after.tip, after.certified, after.lastCarrier(), mhc)
		case ac.Empty() && ac.Height != after.certified:
			fail(SigOwnNotAboveCertified, "GetAggregateCommit returns the empty commit at height %d, the chain (tip %d) has certified height %d: %s",
				ac.Height, after.tip, after.certified, after.lastCarrier())
		}
	}
	return fails
}

var _ = node.ErrNotApplied
