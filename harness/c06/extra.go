package c06

import (
	"fmt"
	"math/rand"
	"strings"
	"sync"

	"verifharness/corr"
)

type extraCfg struct {
	nv      int
	weights []int
	thr     int
	seed    int64
	chain   int  // minimal chain length before certification starts
	change  bool // a validator change precedes the certified heights
	rounds  int  // certification rounds (default 3)
	single  bool // only the highest certifiable height per round
}

// exhaustiveSubsets runs, without the model, every non-empty signer subset for several certifiable
// heights of one chain: the subset's commits go through the gossip validator, GetAggregateCommit
// assembles, the node verifies its own aggregate.  Expected: a non-empty aggregate for the height
// with exactly the reference bitmap (ascending BLS key order), accepted, iff the subset's weight
// reaches the threshold; otherwise the empty commit at maxHeightCertified.  A block carrying the
// aggregate of a minimal quorum must be applied and advance maxHeightCertified.
func exhaustiveSubsets(c extraCfg) (evals int, fails []corr.Fail, note string) {
	rng := rand.New(rand.NewSource(c.seed))
	p := newPlanner(rng, config{nv: c.nv, extra: 1, weights: c.weights, thr: c.thr, seed: c.seed})
	defer p.s.close()
	add := func(sig, format string, a ...interface{}) {
		fails = append(fails, corr.Fail{Sig: sig, Detail: fmt.Sprintf("extra nv=%d w=%v thr=%d seed=%d: ", c.nv, c.weights, c.thr, c.seed) + fmt.Sprintf(format, a...), Op: -1})
	}
	run := func(op string) string {
		out, f := p.s.exec(op, -1)
		fails = append(fails, f...)
		// sync rule of the line protocol: after a chain change the certificate ops answer `unsynced` until the
		// parameter / state lines were emitted (planner.sync does that for the model-compared cases)
		switch strings.Fields(op)[0] {
		case "extend", "change", "reorg", "block":
			p.sync()
		}
		return out
	}
	if c.chain > 0 {
		run(fmt.Sprintf("extend %d", c.chain))
	}
	if c.change {
		run(p.changeOp())
		run(fmt.Sprintf("extend %d", 3*c.nv))
	}
	p.grow(3)
	rounds := c.rounds
	if rounds == 0 {
		rounds = 3
	}
	for round := 0; round < rounds; round++ {
		_, mhpc, mhc := p.heights()
		top := p.certifiableTop()
		if top <= mhc {
			run("extend 3")
			continue
		}
		targets := []uint32{top}
		low := mhc + 1
		if mhpc > 100 && low < mhpc-100 {
			low = mhpc - 100 // older commits are not accepted by the gossip validator (COMMIT_RANGE_STORED)
		}
		if low < top && !c.single {
			targets = append(targets, low)
		}
		for _, h := range targets {
			vs, thr, _ := p.s.validatorsAt(h)
			for mask := 1; mask < 1<<len(vs); mask++ {
				var sub []int
				w := uint64(0)
				for i, v := range vs {
					if mask>>i&1 == 1 {
						sub = append(sub, v.holder)
						w += v.weight
					}
				}
				run("clear")
				if res := run(scOp(h, sub, "ok")); res != "ignore" {
					add(SigDropped, "gossip validator returned %s for valid commits of %v at height %d", res, sub, h)
				}
				out := run("getac")
				evals++
				want := fmt.Sprintf("%d - accept", mhc)
				if w >= thr {
					want = fmt.Sprintf("%d %s accept", h, corr.Hex(p.bitsFor(h, sub)))
				}
				if out != want {
					sig := SigOwnRejected
					if !strings.HasSuffix(out, "reject") {
						sig = SigWrongHeight
					}
					add(sig, "signers %v (weight %d, threshold %d) at height %d (mhc %d, mhpc %d): GetAggregateCommit/verify gave %q, expected %q", sub, w, thr, h, mhc, mhpc, out, want)
				}
			}
		}
		// a block carrying the aggregate of a minimal quorum
		run("clear")
		run(scOp(top, p.quorum(top, true), "ok"))
		if out := run("block"); out != "applied" {
			add(SigOwnBlockRejected, "block with the aggregate of a quorum for height %d: %s", top, out)
		}
		if _, _, c2 := p.heights(); c2 != top {
			add(SigOwnBlockRejected, "maxHeightCertified %d after certifying %d", c2, top)
		}
		run(fmt.Sprintf("extend %d", 2+rng.Intn(3)))
	}
	_, mhpc, mhc := p.heights()
	return evals, fails, fmt.Sprintf("nv=%d w=%v thr=%d: tip %d mhpc %d mhc %d", c.nv, c.weights, c.thr, p.s.n.Height(), mhpc, mhc)
}

// Extra: exhaustive signer subsets (n <= 5 quick, n <= 7 thorough) on short chains, on a chain
// beyond 100 blocks and after a validator change.
func (prop) Extra(rng *rand.Rand, tier string) corr.ExtraResult {
	res := corr.ExtraResult{Exhaustive: true, Notes: map[string]any{}}
	maxN := 5
	if tier == "thorough" {
		maxN = 7
	}
	var cfgs []extraCfg
	for n := 4; n <= maxN; n++ {
		ones := make([]int, n)
		mixed := make([]int, n)
		tot := 0
		for i := range ones {
			ones[i] = 1
			mixed[i] = 1 + (i*7+int(rng.Int63n(3)))%3
			tot += mixed[i]
		}
		cfgs = append(cfgs,
			extraCfg{nv: n, weights: ones, thr: n*2/3 + 1, seed: rng.Int63n(1 << 30)},
			extraCfg{nv: n, weights: mixed, thr: tot*2/3 + 1, seed: rng.Int63n(1 << 30), change: true},
		)
		if tier == "thorough" {
			cfgs = append(cfgs,
				extraCfg{nv: n, weights: ones, thr: n/3 + 1, seed: rng.Int63n(1 << 30)},
				extraCfg{nv: n, weights: mixed, thr: tot, seed: rng.Int63n(1 << 30)},
				extraCfg{nv: n, weights: mixed, thr: tot/3 + 1 + int(rng.Int63n(int64(tot-tot/3))), seed: rng.Int63n(1 << 30), change: true},
			)
		}
	}
	cfgs = append(cfgs, extraCfg{nv: 4, weights: []int{1, 1, 1, 1}, thr: 3, seed: rng.Int63n(1 << 30), chain: 104})
	// 8 validators: the bitmap is exactly one full byte (all 255 subsets)
	eight := extraCfg{nv: 8, weights: []int{1, 1, 1, 1, 1, 1, 1, 1}, thr: 6, seed: rng.Int63n(1 << 30), rounds: 1, single: true}
	if tier == "thorough" {
		eight.rounds, eight.single = 2, false
		cfgs = append(cfgs, extraCfg{nv: 8, weights: []int{2, 1, 3, 1, 1, 2, 1, 1}, thr: 9, seed: rng.Int63n(1 << 30), rounds: 1, change: true})
	}
	cfgs = append(cfgs, eight)
	if tier == "thorough" {
		cfgs = append(cfgs, extraCfg{nv: 5, weights: []int{2, 1, 1, 3, 1}, thr: 6, seed: rng.Int63n(1 << 30), chain: 120, change: true})
	}
	var mu sync.Mutex
	var wg sync.WaitGroup
	sem := make(chan struct{}, 12)
	notes := make([]string, len(cfgs))
	for i, c := range cfgs {
		wg.Add(1)
		sem <- struct{}{}
		go func(i int, c extraCfg) {
			defer wg.Done()
			defer func() { <-sem }()
			defer func() {
				if r := recover(); r != nil {
					mu.Lock()
					res.Fails = append(res.Fails, corr.Fail{Sig: SigPanic, Detail: fmt.Sprintf("extra %+v: %v", c, r), Op: -1})
					mu.Unlock()
				}
			}()
			n, f, note := exhaustiveSubsets(c)
			mu.Lock()
			res.Evaluations += n
			res.Fails = append(res.Fails, f...)
			notes[i] = note
			mu.Unlock()
		}(i, c)
	}
	wg.Wait()
	// concurrent delivery of the same valid commits (gossip validators run concurrently)
	for k := 0; k < 3; k++ {
		res.Evaluations++
		res.Fails = append(res.Fails, concurrentGossip(rng.Int63n(1<<30), []int{2, 4, 8}[k])...)
	}
	res.Notes["configs"] = notes
	res.Samples = notes
	return res
}
