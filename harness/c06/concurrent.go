package c06

import (
	"fmt"
	"sync"

	"github.com/LiskHQ/lisk-engine/pkg/consensus"
	"github.com/LiskHQ/lisk-engine/pkg/consensus/certificate"

	"verifharness/corr"
	"verifharness/node"
)

// libp2p runs the gossip validator of different messages concurrently, and the generator's Certify runs in its
// own goroutine: the same valid single commit can be handed to the pool from several goroutines at once (the
// commit arrives from several peers; the node's own commit is echoed back). "Only verified single commits by
// active validators enter the pool" and "every aggregate the node assembles is accepted by its own verification"
// must also hold then: the pool must end up with ONE entry per (block, validator), otherwise weights are counted
// twice and a signature is aggregated twice under one bit.
func concurrentGossip(seed int64, workers int) []corr.Fail {
	n, err := node.New(node.Config{NumValidators: 4, Seed: seed})
	if err != nil {
		return []corr.Fail{{Sig: "c06-harness", Detail: err.Error(), Op: -1}}
	}
	defer n.Close()
	if _, err := n.Extend(12); err != nil {
		return []corr.Fail{{Sig: "c06-harness", Detail: err.Error(), Op: -1}}
	}
	_, mhpc, mhc := n.BFTHeights()
	if mhpc <= mhc {
		return []corr.Fail{{Sig: "c06-harness", Detail: fmt.Sprintf("nothing to certify (mhpc %d, mhc %d)", mhpc, mhc), Op: -1}}
	}
	h := mhpc
	var fails []corr.Fail
	for _, v := range n.Validators[:3] {
		sc := n.SingleCommit(v, h)
		data := consensus.VerifEncodeSingleCommits([]*certificate.SingleCommit{sc})
		var wg sync.WaitGroup
		start := make(chan struct{})
		for w := 0; w < workers; w++ {
			wg.Add(1)
			go func() {
				defer wg.Done()
				defer func() { _ = recover() }()
				<-start
				n.SubmitSingleCommitsRaw(data)
			}()
		}
		close(start)
		wg.Wait()
	}
	got := n.CertPool().Get(h)
	seen := map[string]int{}
	for _, c := range got {
		seen[string(c.ValidatorAddress())]++
	}
	for a, k := range seen {
		if k > 1 {
			fails = append(fails, corr.Fail{Sig: "c06-pool-duplicate-commit-concurrent", Detail: fmt.Sprintf("the same valid single commit of validator %x for height %d was delivered by %d concurrent gossip validations: the pool holds it %d times", a[:4], h, workers, k), Op: -1})
			break
		}
	}
	ac, err := n.GetAggregateCommit()
	if err != nil {
		fails = append(fails, corr.Fail{Sig: "c06-assembled-rejected-concurrent", Detail: "GetAggregateCommit: " + err.Error(), Op: -1})
	} else if ac != nil && ac.Height > mhc {
		if err := n.VerifyAggregateCommit(ac); err != nil {
			fails = append(fails, corr.Fail{Sig: "c06-assembled-rejected-concurrent", Detail: fmt.Sprintf("after concurrent delivery of 3 valid single commits for height %d the node's own aggregate commit (height %d) is rejected by its own verification: %v", h, ac.Height, err), Op: -1})
		}
	}
	return fails
}
