package c06

// single.go: two scenario classes of C06 that the planner did not reach (closure of the misses C06-17, C09-17).
//
// A. Aggregate assembly over every pool shape ("heavy-*" / "pools-*"): validator weight profiles in which ONE
//    validator alone reaches the certificate threshold, in which TWO validators each alone reach it, thresholds
//    at the minimum (W/3+1) and the maximum (W) SetBFTParameters accepts, with pools holding exactly 1, 2, n-1, n
//    commits for the certifiable height in every arrival order (own Certify first / gossip first / one message /
//    one message per commit).  The node seeds are chosen so that the rank of a heavy validator in the stored
//    (address) order differs from its rank in verification (ascending BLS key) order in about three of four
//    cases (tag suffix -mis / -same).  Oracles: the existing ones of `getac` / `block` (own aggregate accepted by
//    the node's own verification, block carrying it applied, highest certifiable height), now reached with
//    signer subsets of size 1 whenever the threshold allows it.
//
// B. Gossip messages with SEVERAL single commits spanning a change of the validator set ("msg-*"): around a
//    parameter change stored at H+1 (replace one validator: a kept, a dropped, an added and a never-validator
//    holder exist), messages of 1..4 correctly self-signed commits over the heights H-1, H, H+1, H+2 in every
//    order (all 16 single commits, all 240 ordered pairs, every order of sampled triples and quadruples), before
//    and after the chain certified H.  Oracles, after EVERY `sc` op of every family (afterMessage, called by
//    opSC):
//      c06-message-verdict                    the verdict and the pool content are those of a reference that
//                                             judges every commit under the parameters of ITS OWN height
//                                             (looked up per commit from the chain)
//      c06-commit-of-non-validator-pooled     no pooled commit is signed by a holder that is not in the BFT
//                                             parameters of the commit's height
//      c09-own-aggregate-panics               GetAggregateCommit (the generator's path) returns without panic

import (
	"bytes"
	"fmt"
	"math/rand"
	"sort"
	"strings"

	"github.com/LiskHQ/lisk-engine/pkg/consensus/certificate"

	"verifharness/corr"
)

const (
	SigNonValidatorPooled = "c06-commit-of-non-validator-pooled"
	SigOwnPanics          = "c09-own-aggregate-panics"
	SigMessageVerdict     = "c06-message-verdict"
)

// ---- oracles -------------------------------------------------------------------------------------------------

// refMessage: reference evaluation of one postSingleCommits message, every commit judged under the BFT
// parameters of its own height read from the chain.  Returns the verdict and the commits that enter the pool.
// ok=false: the message holds a variant the reference does not describe.
func (s *session) refMessage(specs []string) (verdict string, added []*certificate.SingleCommit, ok bool) {
	n := s.n
	_, mhpc, _ := n.BFTHeights()
	rh := s.removalHeight()
	lo := uint32(0)
	if mhpc > certificate.CommitRangeStored {
		lo = mhpc - certificate.CommitRangeStored
	}
	inAdded := func(sc *certificate.SingleCommit) bool {
		for _, c := range added {
			if c.Height() == sc.Height() && bytes.Equal(c.BlockID(), sc.BlockID()) && bytes.Equal(c.ValidatorAddress(), sc.ValidatorAddress()) {
				return true
			}
		}
		return false
	}
	for _, sp := range specs {
		p := strings.Split(sp, ":")
		variant := p[2]
		if variant != "ok" && variant != "garbage" && variant != "chain2" && !strings.HasPrefix(variant, "sigby=") {
			return "", nil, false
		}
		sc, v, h, valid := s.commit(sp)
		if n.CertPool().Has(sc) || inAdded(sc) {
			continue // 1. known
		}
		if h <= rh {
			continue // 2. at or below the removal height
		}
		if (h < lo || h > mhpc) && !s.existParams(h+1) {
			continue // 3. outside of the stored range, not authenticating a change
		}
		if _, err := n.HeaderAt(h); err != nil || h > n.Height() {
			return "ignore", added, true // 4. no block at the height
		}
		// 5. signer must be a validator of the commit's OWN height
		active := false
		if vs, _, found := s.validatorsAt(h); found {
			for _, x := range vs {
				if x.holder == v {
					active = true
				}
			}
		}
		if !active || !valid {
			return "reject", added, true
		}
		added = append(added, sc)
	}
	return "ignore", added, true
}

// afterMessage runs after every `sc` op: pool invariant, generator path, verdict reference.
func (s *session) afterMessage(specs []string, before map[string]bool, verdict string, ref string, refAdded []*certificate.SingleCommit, refOK bool, op string, idx int) []corr.Fail {
	var fails []corr.Fail
	n := s.n
	if refOK && !s.tainted {
		if verdict != ref {
			fails = append(fails, corr.Fail{Sig: SigMessageVerdict, Op: idx, Detail: fmt.Sprintf("%s: verdict %s, every commit judged under the parameters of its own height gives %s", op, verdict, ref)})
		} else {
			// pool = pool before + the commits the reference admits
			want := map[string]bool{}
			for k := range before {
				want[k] = true
			}
			for _, c := range refAdded {
				want[poolKey(c)] = true
			}
			ng, g := n.CertPool().VerifAll()
			have := map[string]bool{}
			for _, c := range append(ng, g...) {
				have[poolKey(c)] = true
			}
			for k := range have {
				if !want[k] {
					fails = append(fails, corr.Fail{Sig: SigMessageVerdict, Op: idx, Detail: fmt.Sprintf("%s: commit %s entered the pool, the reference does not admit it", op, k)})
					break
				}
			}
			for k := range want {
				if !have[k] {
					fails = append(fails, corr.Fail{Sig: SigMessageVerdict, Op: idx, Detail: fmt.Sprintf("%s: commit %s admitted by the reference is not in the pool", op, k)})
					break
				}
			}
		}
	}
	if s.tainted {
		return fails
	}
	// every pooled commit is signed by a validator of the commit's height
	ng, g := n.CertPool().VerifAll()
	for _, c := range append(ng, g...) {
		vs, _, found := s.validatorsAt(c.Height())
		if !found {
			continue
		}
		in := false
		for _, x := range vs {
			in = in || bytes.Equal(x.addr, c.ValidatorAddress())
		}
		if !in {
			fails = append(fails, corr.Fail{Sig: SigNonValidatorPooled, Op: idx, Detail: fmt.Sprintf("%s: the pool holds a commit of holder %d for height %d, which is not in the BFT parameters of that height (validators %v)", op, s.holderOf(c.ValidatorAddress()), c.Height(), holdersOf(vs))})
			break
		}
	}
	// the generator assembles its next aggregate commit from this pool
	if _, err := n.GetAggregateCommit(); isPanic(err) {
		_, mhpc, mhc := n.BFTHeights()
		fails = append(fails, corr.Fail{Sig: SigOwnPanics, Op: idx, Detail: fmt.Sprintf("%s: GetAggregateCommit panics after the message (mhc %d mhpc %d pool %s): %v", op, mhc, mhpc, s.poolStr(), err)})
	}
	return fails
}

func poolKey(c *certificate.SingleCommit) string {
	return fmt.Sprintf("%d/%x/%x", c.Height(), []byte(c.BlockID()), []byte(c.ValidatorAddress()))
}

func (s *session) poolKeys() map[string]bool {
	ng, g := s.n.CertPool().VerifAll()
	res := map[string]bool{}
	for _, c := range append(ng, g...) {
		res[poolKey(c)] = true
	}
	return res
}

func holdersOf(vs []valInfo) []int {
	res := make([]int, len(vs))
	for i, v := range vs {
		res[i] = v.holder
	}
	return res
}

// ---- A: weight profiles with self-sufficient validators ------------------------------------------------------

type profile struct {
	name    string
	weights []int
	thr     int
}

// thresholds: SetBFTParameters accepts W/3+1 <= thr <= W
var heavyProfiles = []profile{
	{"one-7-1-1-thr7", []int{7, 1, 1}, 7},           // one validator alone reaches the threshold
	{"one-7-1-1-min", []int{7, 1, 1}, 4},            // minimum threshold 9/3+1
	{"one-7-1-1-max", []int{7, 1, 1}, 9},            // maximum threshold: only all signers
	{"two-5-5-thr5", []int{5, 5}, 5},                // two validators, each alone
	{"two-5-5-min", []int{5, 5}, 4},                 // minimum 10/3+1
	{"two-5-5-max", []int{5, 5}, 10},                // maximum
	{"two-7-7-1-thr7", []int{7, 7, 1}, 7},           // two of three each alone
	{"two-7-7-1-min", []int{7, 7, 1}, 6},            // minimum 15/3+1
	{"one-3-1-1-1-min", []int{3, 1, 1, 1}, 3},       // n = 4, heavy alone at the minimum 6/3+1
	{"one-4-1-1-1-1-thr4", []int{4, 1, 1, 1, 1}, 4}, // n = 5
	{"two-3-3-1-1-thr3", []int{3, 3, 1, 1}, 3},      // minimum 8/3+1 = 3
	{"equal-1-1-1-max", []int{1, 1, 1}, 3},          // no single signer ever suffices
	{"equal-1-1-min", []int{1, 1}, 1},               // minimum 2/3+1 = 1: both alone
}

// heavyConfig places the profile's weights on the holders in a random order and picks node keys: with
// mismatch the rank of a self-sufficient validator in descending address order (the order in which the BFT
// parameters list the validators) differs from its rank in ascending BLS key order.
func heavyConfig(rng *rand.Rand, pr profile, mismatch bool) (config, bool) {
	c := config{nv: len(pr.weights), extra: 1 + rng.Intn(2), thr: pr.thr}
	c.weights = append([]int{}, pr.weights...)
	rng.Shuffle(len(c.weights), func(i, j int) { c.weights[i], c.weights[j] = c.weights[j], c.weights[i] })
	got := false
	for try := 0; try < 64; try++ {
		c.seed = rng.Int63n(1 << 30)
		got = heavyMismatch(c)
		if got == mismatch {
			break
		}
	}
	return c, got
}

// heavyMismatch: some validator whose weight alone reaches the threshold has different ranks in descending
// address order and ascending BLS key order (any validator when no single one reaches the threshold).
func heavyMismatch(c config) bool {
	vs, _ := keyRanks(c.seed, c.nv+c.extra)
	byAddr := make([]int, c.nv)
	byKey := make([]int, c.nv)
	for i := range byAddr {
		byAddr[i], byKey[i] = i, i
	}
	sort.Slice(byAddr, func(a, b int) bool { return bytes.Compare(vs[byAddr[a]].Address, vs[byAddr[b]].Address) > 0 })
	sort.Slice(byKey, func(a, b int) bool { return bytes.Compare(vs[byKey[a]].BLSPub, vs[byKey[b]].BLSPub) < 0 })
	pos := func(l []int, x int) int {
		for i, v := range l {
			if v == x {
				return i
			}
		}
		return -1
	}
	anyHeavy := false
	for i, w := range c.weights {
		if w >= c.thr {
			anyHeavy = true
			if pos(byAddr, i) != pos(byKey, i) {
				return true
			}
		}
	}
	if anyHeavy {
		return false
	}
	for i := range c.weights {
		if pos(byAddr, i) != pos(byKey, i) {
			return true
		}
	}
	return false
}

func permutations(l []int) [][]int {
	if len(l) <= 1 {
		return [][]int{append([]int{}, l...)}
	}
	var res [][]int
	for i := range l {
		rest := append(append([]int{}, l[:i]...), l[i+1:]...)
		for _, p := range permutations(rest) {
			res = append(res, append([]int{l[i]}, p...))
		}
	}
	return res
}

// genPools: pools of exactly 1, 2, n-1, n commits for a certifiable height in every arrival order.
func genPools(rng *rand.Rand, c config) []string {
	p := newPlanner(rng, c)
	defer p.s.close()
	p.grow(2 + rng.Intn(2))
	if rng.Intn(3) == 0 {
		p.certifyRound()
		p.grow(2)
	}
	_, _, mhc := p.heights()
	top := p.certifiableTop()
	if top <= mhc {
		return p.finish()
	}
	h := top
	if rng.Intn(3) == 0 {
		h = mhc + 1 + uint32(rng.Intn(int(top-mhc)))
	}
	hs := p.activeHolders(h)
	n := len(hs)
	sizes := map[int]bool{1: true, 2: true, n - 1: true, n: true}
	arrive := func(order []int, mode int) {
		p.do("clear")
		switch mode {
		case 0: // one gossip message
			p.do(scOp(h, order, "ok"))
		case 1: // one gossip message per commit
			for _, v := range order {
				p.do(scOp(h, []int{v}, "ok"))
			}
		case 2: // own Certify first, the others by gossip
			p.do(fmt.Sprintf("certify %d %d %d", order[0], h-1, h))
			if len(order) > 1 {
				p.do(scOp(h, order[1:], "ok"))
			}
		case 3: // gossip first, own Certify last
			if len(order) > 1 {
				p.do(scOp(h, order[:len(order)-1], "ok"))
			}
			p.do(fmt.Sprintf("certify %d %d %d", order[len(order)-1], h-1, h))
		default: // everything through Certify
			for _, v := range order {
				p.do(fmt.Sprintf("certify %d %d %d", v, h-1, h))
			}
		}
		p.do("getac")
	}
	for mask := 1; mask < 1<<n; mask++ {
		var sub []int
		for i, v := range hs {
			if mask>>i&1 == 1 {
				sub = append(sub, v)
			}
		}
		if !sizes[len(sub)] {
			continue
		}
		var orders [][]int
		if len(sub) <= 2 {
			orders = permutations(sub)
		} else {
			orders = [][]int{p.shuffled(sub), p.shuffled(sub)}
		}
		for _, o := range orders {
			modes := []int{0, 2} // gossip / own Certify for a single commit
			if len(o) > 1 {
				modes = []int{rng.Intn(2), 2, 3}
				if rng.Intn(3) == 0 {
					modes = append(modes, 4)
				}
			}
			for _, m := range modes {
				arrive(o, m)
			}
		}
	}
	// blocks carrying the aggregate of a minimal pool: one commit of each self-sufficient validator in turn
	vs, thr, _ := p.s.validatorsAt(h)
	var alone []int
	for _, v := range vs {
		if v.weight >= thr {
			alone = append(alone, v.holder)
		}
	}
	for i := 0; i < 3; i++ {
		_, _, mhc := p.heights()
		top := p.certifiableTop()
		if top <= mhc {
			p.extend(2 + rng.Intn(3))
			continue
		}
		p.do("clear")
		signers := p.quorum(top, true)
		if len(alone) > 0 {
			signers = []int{alone[(i+rng.Intn(len(alone)))%len(alone)]}
			// the validator set did not change: the same holders are self-sufficient at top
		}
		if rng.Intn(2) == 0 {
			p.do(fmt.Sprintf("certify %d %d %d", signers[0], top-1, top))
			if len(signers) > 1 {
				p.do(scOp(top, signers[1:], "ok"))
			}
		} else {
			p.do(scOp(top, signers, "ok"))
		}
		p.do("getac")
		p.do("block")
		p.sync()
		p.extend(1 + rng.Intn(3))
	}
	return p.finish()
}

// genHeavyLife: honest life cycle on a heavy profile - as soon as a height is finalized only ONE validator
// (a self-sufficient one when there is one) certifies it and the next block carries GetAggregateCommit().
func genHeavyLife(rng *rand.Rand, c config) []string {
	p := newPlanner(rng, c)
	defer p.s.close()
	last := uint32(0)
	for i := 0; i < 14; i++ {
		p.do("block")
		p.sync()
		_, mhpc, _ := p.heights()
		if mhpc == last {
			continue
		}
		vs, thr, _ := p.s.validatorsAt(mhpc)
		first := vs[rng.Intn(len(vs))].holder
		for _, v := range vs {
			if v.weight >= thr && rng.Intn(2) == 0 {
				first = v.holder
			}
		}
		if rng.Intn(2) == 0 {
			p.do(fmt.Sprintf("certify %d %d %d", first, last, mhpc))
		} else {
			p.do(scOp(mhpc, []int{first}, "ok"))
		}
		p.do("getac")
		if rng.Intn(3) == 0 { // a second commit arrives before the block
			p.do(scOp(mhpc, []int{vs[rng.Intn(len(vs))].holder}, "ok"))
			p.do("getac")
		}
		last = mhpc
	}
	p.do("pool")
	return p.finish()
}

// ---- B: messages spanning a validator change -----------------------------------------------------------------

// genMessages: afterCert = the chain has certified the block H that authenticates the change (GetAggregateCommit
// looks at heights above H).
func genMessages(rng *rand.Rand, c config, afterCert bool) []string {
	p := newPlanner(rng, c)
	defer p.s.close()
	p.grow(2)
	if rng.Intn(2) == 0 {
		p.certifyRound()
	}
	p.extend(1 + rng.Intn(3))
	if out := p.do(p.changeOpKind(0)); out != "ok" { // replace one validator by an outside holder
		panic("c06 planner: change: " + out)
	}
	p.sync()
	H := p.s.n.Height()
	total := p.nv + p.extra
	oldSet, newSet := map[int]bool{}, map[int]bool{}
	for _, v := range p.activeHolders(H) {
		oldSet[v] = true
	}
	for _, v := range p.activeHolders(H + 1) {
		newSet[v] = true
	}
	var kept, dropped, added, never []int
	for v := 0; v < total; v++ {
		switch {
		case oldSet[v] && newSet[v]:
			kept = append(kept, v)
		case oldSet[v]:
			dropped = append(dropped, v)
		case newSet[v]:
			added = append(added, v)
		default:
			never = append(never, v)
		}
	}
	if len(kept) == 0 || len(dropped) == 0 || len(added) == 0 || len(never) == 0 {
		return p.finish()
	}
	pick := func(l []int) int { return l[rng.Intn(len(l))] }
	// messages while H is the tip (H+1, H+2 not on the chain yet)
	for _, hh := range []uint32{H - 1, H, H + 1} {
		p.do("clear")
		p.do(fmt.Sprintf("sc %d:%d:ok %d:%d:ok", pick(kept), H, pick(dropped), hh))
		p.do(fmt.Sprintf("sc %d:%d:ok %d:%d:ok", pick(dropped), H, pick(added), hh))
	}
	// finality passes H+2
	for i := 0; i < 16; i++ {
		if _, mhpc, _ := p.heights(); mhpc >= H+2 {
			break
		}
		p.extend(3)
	}
	if _, mhpc, _ := p.heights(); mhpc < H+2 {
		return p.finish()
	}
	if afterCert {
		// certify heights up to H; the commits for H must stay acceptable (removal height below H)
		for i := 0; i < 4; i++ {
			_, _, mhc := p.heights()
			if mhc >= H {
				break
			}
			if !p.certifyRound() {
				break
			}
		}
		if _, _, mhc := p.heights(); mhc < H {
			return p.finish()
		}
	}
	signers := []int{pick(kept), pick(dropped), pick(added), pick(never)}
	heights := []uint32{H - 1, H, H + 1, H + 2}
	type kind struct {
		v int
		h uint32
	}
	var kinds []kind
	for _, v := range signers {
		for _, h := range heights {
			kinds = append(kinds, kind{v, h})
		}
	}
	msg := func(ks []kind) {
		if rng.Intn(5) != 0 {
			p.do("clear")
		}
		parts := make([]string, len(ks))
		for i, k := range ks {
			parts[i] = fmt.Sprintf("%d:%d:ok", k.v, k.h)
		}
		p.do("sc " + strings.Join(parts, " "))
	}
	// all single commits, all ordered pairs
	for _, k := range kinds {
		msg([]kind{k})
	}
	for i, a := range kinds {
		for j, b := range kinds {
			if i != j {
				msg([]kind{a, b})
			}
		}
	}
	p.do("getac")
	// triples and quadruples in every order
	idx := make([]int, len(kinds))
	for i := range idx {
		idx[i] = i
	}
	sets := [][]int{}
	for i := 0; i < 5; i++ {
		sets = append(sets, p.shuffled(idx)[:3])
	}
	sets = append(sets, p.shuffled(idx)[:4])
	// the structured quadruple: kept H-1, kept H, dropped H+1, added H+1
	sets = append(sets, []int{0*4 + 0, 0*4 + 1, 1*4 + 2, 2*4 + 2})
	for _, set := range sets {
		for _, perm := range permutations(set) {
			ks := make([]kind, len(perm))
			for i, x := range perm {
				ks[i] = kinds[x]
			}
			msg(ks)
		}
	}
	// one wrongly signed commit anywhere in an otherwise valid message
	for i := 0; i < 6; i++ {
		k1, k2 := kind{pick(kept), heights[rng.Intn(4)]}, kind{pick(kept), heights[rng.Intn(4)]}
		p.do("clear")
		bad := []string{"garbage", "chain2", fmt.Sprintf("sigby=%d", pick(dropped))}[rng.Intn(3)]
		if rng.Intn(2) == 0 {
			p.do(fmt.Sprintf("sc %d:%d:ok %d:%d:%s", k1.v, k1.h, k2.v, k2.h, bad))
		} else {
			p.do(fmt.Sprintf("sc %d:%d:%s %d:%d:ok", k1.v, k1.h, bad, k2.v, k2.h))
		}
	}
	p.do("pool")
	p.do("getac")
	p.do("clear")
	// honest end: the heights above the change are certified by their own validators
	for i := 0; i < 3; i++ {
		if !p.certifyRound() {
			p.extend(2)
		}
	}
	return p.finish()
}

// singleJobs registers the families of this file (called last by Generate: earlier cases keep their seeds).
func singleJobs(rng *rand.Rand, thorough bool, add func(tag string, count int, f func(rng *rand.Rand) []string)) {
	rep := 1
	if thorough {
		rep = 6
	}
	off := rng.Intn(4)
	for i, pr := range heavyProfiles {
		pr := pr
		mismatch := (i+off)%4 != 0 // three of four cases
		for k := 0; k < rep; k++ {
			mm := mismatch
			if k%4 == 3 {
				mm = !mm
			}
			// the tag carries what the chosen keys achieved
			cfg, got := heavyConfig(rand.New(rand.NewSource(rng.Int63())), pr, mm)
			suffix := "-same"
			if got {
				suffix = "-mis"
			}
			add("pools-"+pr.name+suffix, 1, func(r *rand.Rand) []string { return genPools(r, cfg) })
			if thorough || (i+off)%3 == 0 {
				add("heavylife-"+pr.name+suffix, 1, func(r *rand.Rand) []string { return genHeavyLife(r, cfg) })
			}
			if thorough && k < 2 {
				add("subsets-"+pr.name+suffix, 1, func(r *rand.Rand) []string { return genSubsets(r, cfg) })
			}
		}
	}
	nmsg := 2
	if thorough {
		nmsg = 12
	}
	add("msg-before-cert", nmsg, func(r *rand.Rand) []string {
		c := randConfig(r, 4, 5)
		c.extra = 2
		return genMessages(r, c, false)
	})
	add("msg-after-cert", nmsg, func(r *rand.Rand) []string {
		c := randConfig(r, 4, 5)
		c.extra = 2
		return genMessages(r, c, true)
	})
}
