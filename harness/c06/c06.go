// Package c06: correspondence and model-free oracles for block certificates (property C06):
// Executer.verifyAggregateCommit, GetAggregateCommit, singleCommitValidator, Certify and the
// certificate pool, run on node-harness chains (real consensus.Executer, real BLS keys) and compared
// line by line with the Lean model LiskVerif.Model.Cert (driver Driver/Cert.lean).
//
// # Line protocol
//
// The chain (blocks, finality, validator changes) is produced by the real node; the ops `params`,
// `noparams` and `state` hand the abstract chain state to the model, and the Go runner checks that
// they describe the real node (output `ok`, otherwise `diverged ...`).  Validators ("holders") are
// numbered as node.Validators; the abstract BLS key of a holder is the rank of its public key among
// all holders in byte order (`keys=` of the reset op), its abstract address the holder index.
//
//	reset nv=<n> extra=<e> seed=<s> batch=<b> w=<w0,..> thr=<certThreshold> keys=<rank0,..> [twin=1]   -> ok
//	   twin=1: history-independence oracle (twin.go) - every certificate-protocol call is repeated on a
//	   twin node freshly started on the same database with a copy of the pool and must give the same answer
//	params <key> <certThreshold> <addr:key:weight,...>   BFT parameters stored under <key>          -> ok
//	noparams <key>                                       the entry was pruned                        -> ok
//	extend <k>                                           k honest blocks with the empty commit      -> ok
//	change <pre> <cert> <holder:weight,...>              block carrying a validator change          -> ok
//	reorg [<pre> <cert> <holder:weight,...>]             the tip is deleted and replaced by a block of
//	                                                     the next slot (carrying that validator change)    -> ok
//	rewind <k>                                           the k tip blocks are deleted (Executer.deleteBlock)  -> ok
//	alt <s> empty | own | agg <h> <bits> <sig> | change <pre> <cert> <holder:weight,...>
//	                                                     one block s >= 2 slots after the tip (so that it differs
//	                                                     from a block deleted before): with the empty commit, with
//	                                                     GetAggregateCommit() (as `block`), with the given aggregate
//	                                                     commit (as `vblock`), or carrying a validator
//	                                                     change                                      -> ok | applied|rejected|err|panic
//	restart                                              the node is restarted on its database (the pool is
//	                                                     memory only and starts empty)               -> ok
//	state <tip> <mhpc> <mhc> <rh> <np>                   rh = aggregateCommit.height of block mhpc, np = number
//	                                                     of params/noparams ops since the reset      -> ok
//	   Sync rule (both sides, purely syntactic): after extend / change / reorg / rewind / alt empty|change the
//	   model does not know the chain until the next matching `state` op; pool and certificate ops in between
//	   print `unsynced` and do nothing.  No generator emits such a sequence - the rule (with np) keeps the
//	   shrinking of a disagreement from drifting to sequences in which the model was never told the chain.
//	sc <v>:<h>:<variant> ...                             one postSingleCommits gossip message        -> ignore|reject|accept|panic
//	   variants: ok | sigby=<w> | fork | wrongid | chain2 | garbage | inf | short | relabel=<h2>
//	raw <hex>                                            undecodable / empty message                 -> reject|ignore
//	certify <v> <from> <to> [key=<w>]                    Executer.Certify (key of holder w)          -> ok|err|panic
//	inject <v>:<h>:<variant> <internal>                  Pool.Add without validation                 -> ok
//	pool                                                 -> ng=<h:v:o|f:internal,..> g=<..> (each list sorted)
//	clear                                                empties the pool                            -> ok
//	cleanup                                              step 1 of broadcastCertificate              -> pool dump | err
//	select <limit>                                       Pool.Select(mhpc, limit)                    -> selected commits in order
//	upgrade                                              Pool.Upgrade(last selection)                -> pool dump
//	getac                                                GetAggregateCommit + own verification       -> <h> <bits> accept|reject | err | panic
//	block                                                block carrying GetAggregateCommit()         -> applied|rejected|err|panic
//	liveness <H>                                         maxHeightCertified passed the change block  -> ok
//	verify <h> <bits> <sig>                              verifyAggregateCommit                       -> accept|reject|panic
//	vblock <h> <bits> <sig>                              block carrying that aggregate commit        -> applied|rejected|panic
//	nv <holder|-> <t|h> own | empty | agg <h> <bits> <sig>
//	                                                     block of the next slot of that holder (- : the generator of the
//	                                                     next slot) declaring maxHeightGenerated truthfully (t) or
//	                                                     = its height (h: the header implies no votes), carrying
//	                                                     GetAggregateCommit() (as `block`), the empty commit at the height
//	                                                     certified by the chain, or the given aggregate commit (as
//	                                                     `vblock`); holders without BFT weight (standby generators,
//	                                                     validators removed from the BFT set) imply no votes either
//	                                                     (nonvoting.go)                              -> applied|rejected|err|panic
//	   sig: - | garbage | inf | S/<holders>/<own|fork|chain2>:<h'> (aggregate of the holders' signatures
//	        over the certificate of the own / a foreign block at h' or for another chain id) |
//	        X/<holders>/<msg>:<h'> (the same with one flipped bit)
package c06

import (
	"bytes"
	"crypto/sha256"
	"fmt"
	"math/rand"
	"sort"
	"strconv"
	"strings"
	"time"

	"github.com/LiskHQ/lisk-engine/pkg/blockchain"
	"github.com/LiskHQ/lisk-engine/pkg/consensus/certificate"
	"github.com/LiskHQ/lisk-engine/pkg/crypto"
	"github.com/LiskHQ/lisk-engine/pkg/labi"
	"github.com/LiskHQ/lisk-engine/pkg/p2p"

	"verifharness/corr"
	"verifharness/node"
)

type prop struct{}

func init() { corr.Register(prop{}) }

func (prop) ID() string                 { return "C06" }
func (prop) Parallel() int              { return 12 }
func (prop) CaseTimeout() time.Duration { return 5 * time.Minute }

// Stable failure signatures of the model-free oracles.
const (
	SigOwnRejected      = "c06-own-aggregate-rejected"
	SigOwnBlockRejected = "c06-block-with-own-aggregate-rejected"
	SigWrongHeight      = "c06-getac-wrong-height"
	SigUnsound          = "c06-unsound-accept"
	SigValidRejected    = "c06-valid-aggregate-rejected"
	SigDroppedEarly     = "c06-single-commit-dropped-early-chain"
	SigDropped          = "c06-single-commit-dropped"
	SigInvalidInPool    = "c06-invalid-single-commit-in-pool"
	SigAccepted         = "c06-single-commit-republished"
	SigPanic            = "c06-panic"
	SigDuplicate        = "c06-certify-duplicate-commit"
	SigStall            = "c06-certification-stalls-after-validator-change"
	SigRetention        = "c06-cleanup-removes-acceptable-commit"
	SigDiverged         = "c06-harness-state-diverged"
	// SigHistory: a certificate-protocol entry point answered differently from a node freshly
	// restarted on the same database with the same pool (twin.go): the answer depends on something
	// the executer remembered across chain changes.
	SigHistory = "c06-history-dependent"
)

var otherChainID = []byte{4, 0, 0, 0x77}

// session is one node plus the bookkeeping of a case.
type session struct {
	n       *node.Node
	rank    []int // abstract key of each holder
	lastSel certificate.SingleCommits
	// tainted: the pool received entries that bypass validation (inject, Certify with a foreign key);
	// the "own aggregate is accepted" oracle does not apply any more.
	tainted bool
	// twin: the history-independence oracle is active (reset ... twin=1)
	twin bool
	// sync rule: dirty = the chain changed and no `state` op followed yet; np = params/noparams ops so far
	dirty bool
	np    int
}

func (s *session) close() {
	if s.n != nil {
		s.n.Close()
		s.n = nil
	}
}

func keyRanks(seed int64, total int) ([]*node.Validator, []int) {
	vs := make([]*node.Validator, total)
	for i := range vs {
		vs[i] = node.NewValidator(seed, i)
	}
	idx := make([]int, total)
	for i := range idx {
		idx[i] = i
	}
	sort.Slice(idx, func(a, b int) bool { return bytes.Compare(vs[idx[a]].BLSPub, vs[idx[b]].BLSPub) < 0 })
	rank := make([]int, total)
	for r, i := range idx {
		rank[i] = r
	}
	return vs, rank
}

func kvArgs(words []string) map[string]string {
	m := map[string]string{}
	for _, w := range words {
		if i := strings.IndexByte(w, '='); i > 0 {
			m[w[:i]] = w[i+1:]
		}
	}
	return m
}

func atoi(s string) int {
	v, err := strconv.Atoi(s)
	if err != nil {
		panic("bad number " + s)
	}
	return v
}

func ints(s string) []int {
	if s == "-" || s == "" {
		return nil
	}
	var r []int
	for _, p := range strings.Split(s, ",") {
		r = append(r, atoi(p))
	}
	return r
}

func joinInts(l []int) string {
	if len(l) == 0 {
		return "-"
	}
	p := make([]string, len(l))
	for i, v := range l {
		p[i] = strconv.Itoa(v)
	}
	return strings.Join(p, ",")
}

func (s *session) reset(words []string) string {
	s.close()
	a := kvArgs(words)
	nv, extra := atoi(a["nv"]), atoi(a["extra"])
	seed, _ := strconv.ParseInt(a["seed"], 10, 64)
	var weights []uint64
	for _, w := range ints(a["w"]) {
		weights = append(weights, uint64(w))
	}
	n, err := node.New(node.Config{NumValidators: nv, ExtraValidators: extra, Seed: seed, BatchSize: atoi(a["batch"]),
		Weights: weights, CertificateThreshold: uint64(atoi(a["thr"]))})
	if err != nil {
		return "fail " + err.Error()
	}
	s.n = n
	s.lastSel = nil
	s.tainted = false
	s.twin = a["twin"] == "1"
	s.dirty, s.np = false, 0
	_, s.rank = keyRanks(seed, nv+extra)
	if joinInts(s.rank) != a["keys"] {
		return "diverged keys=" + joinInts(s.rank)
	}
	return "ok"
}

// ---- facts about the real node (reference side of the oracles) ----

type valInfo struct {
	holder int
	addr   []byte
	bls    []byte
	weight uint64
}

func (s *session) holderOf(addr []byte) int {
	for i, v := range s.n.Validators {
		if bytes.Equal(v.Address, addr) {
			return i
		}
	}
	return 99
}

// validatorsAt returns the validators of the BFT parameters valid at the height in stored order.
func (s *session) validatorsAt(h uint32) ([]valInfo, uint64, bool) {
	p, err := s.n.BFTParams(h)
	if err != nil {
		return nil, 0, false
	}
	var res []valInfo
	for _, v := range p.Validators() {
		res = append(res, valInfo{holder: s.holderOf(v.Address()), addr: v.Address(), bls: v.BLSKey(), weight: v.BFTWeight()})
	}
	return res, p.CertificateThreshold(), true
}

// sortedAt returns the validators at the height in ascending BLS key order (verification order).
func (s *session) sortedAt(h uint32) ([]valInfo, uint64, bool) {
	vs, thr, ok := s.validatorsAt(h)
	if !ok {
		return nil, 0, false
	}
	sort.SliceStable(vs, func(i, j int) bool { return bytes.Compare(vs[i].bls, vs[j].bls) < 0 })
	return vs, thr, true
}

func (s *session) existParams(h uint32) bool {
	ok, err := s.n.BFT().API().ExistBFTParameters(s.n.Store(), h)
	return err == nil && ok
}

// paramKeys lists the keys of the BFT parameter store.
func (s *session) paramKeys() []uint32 {
	var res []uint32
	for h := uint32(0); h <= s.n.Height()+1; h++ {
		if s.existParams(h) {
			res = append(res, h)
		}
	}
	return res
}

// nextChange returns the smallest parameter key > x (0 = none).
func (s *session) nextChange(x uint32) uint32 {
	for _, k := range s.paramKeys() {
		if k > x {
			return k
		}
	}
	return 0
}

func (s *session) removalHeight() uint32 {
	_, mhpc, _ := s.n.BFTHeights()
	h, err := s.n.HeaderAt(mhpc)
	if err != nil {
		return 0
	}
	return h.AggregateCommit.Height
}

func (s *session) paramsLine(k uint32) string {
	vs, thr, _ := s.validatorsAt(k)
	parts := make([]string, len(vs))
	for i, v := range vs {
		parts[i] = fmt.Sprintf("%d:%d:%d", v.holder, s.rankOf(v.holder), v.weight)
	}
	return fmt.Sprintf("params %d %d %s", k, thr, strings.Join(parts, ","))
}

func (s *session) rankOf(holder int) int {
	if holder < len(s.rank) {
		return s.rank[holder]
	}
	return 999999
}

func (s *session) stateLine() string {
	_, mhpc, mhc := s.n.BFTHeights()
	return fmt.Sprintf("state %d %d %d %d %d", s.n.Height(), mhpc, mhc, s.removalHeight(), s.np)
}

// ---- construction of commits and signatures ----

func forkHeader(h *blockchain.BlockHeader) *blockchain.BlockHeader {
	id := sha256.Sum256(append(append([]byte{}, h.ID...), []byte("fork")...))
	return &blockchain.BlockHeader{ID: id[:], Height: h.Height, Timestamp: h.Timestamp, StateRoot: h.StateRoot, ValidatorsHash: h.ValidatorsHash}
}

func pseudoBytes(tag string, n int) []byte {
	var res []byte
	for i := 0; len(res) < n; i++ {
		x := sha256.Sum256([]byte(fmt.Sprintf("%s-%d", tag, i)))
		res = append(res, x[:]...)
	}
	return res[:n]
}

// commit builds the single commit described by "v:h:variant". valid reports whether it is a
// correct commit of holder v for the own block at h (signature, block id, encoding).
func (s *session) commit(spec string) (sc *certificate.SingleCommit, v int, h uint32, valid bool) {
	p := strings.Split(spec, ":")
	if len(p) != 3 {
		panic("bad commit spec " + spec)
	}
	v = atoi(p[0])
	h = uint32(atoi(p[1]))
	variant := p[2]
	holder := s.n.Validators[v]
	hdr, err := s.n.HeaderAt(h)
	if err != nil || h > s.n.Height() {
		// no block at the height: nothing can be signed; any well-formed commit will do
		tip := s.n.Tip().Header
		sig := certificate.NewSingleCommit(tip, holder.Address, s.n.Cfg.ChainID, holder.BLSPriv).CertificateSignature()
		if variant == "short" {
			sig = sig[:95]
		}
		return node.RawSingleCommit(pseudoBytes(fmt.Sprintf("noblock-%d", h), 32), h, holder.Address, sig), v, h, false
	}
	own := certificate.NewSingleCommit(hdr, holder.Address, s.n.Cfg.ChainID, holder.BLSPriv)
	switch {
	case variant == "ok":
		return node.RawSingleCommit(own.BlockID(), h, holder.Address, own.CertificateSignature()), v, h, true
	case strings.HasPrefix(variant, "sigby="):
		w := s.n.Validators[atoi(variant[6:])]
		sig := certificate.NewSingleCommit(hdr, w.Address, s.n.Cfg.ChainID, w.BLSPriv).CertificateSignature()
		return node.RawSingleCommit(own.BlockID(), h, holder.Address, sig), v, h, atoi(variant[6:]) == v
	case variant == "fork":
		f := certificate.NewSingleCommit(forkHeader(hdr), holder.Address, s.n.Cfg.ChainID, holder.BLSPriv)
		return node.RawSingleCommit(f.BlockID(), h, holder.Address, f.CertificateSignature()), v, h, false
	case variant == "wrongid":
		return node.RawSingleCommit(forkHeader(hdr).ID, h, holder.Address, own.CertificateSignature()), v, h, false
	case variant == "chain2":
		c := certificate.NewSingleCommit(hdr, holder.Address, otherChainID, holder.BLSPriv)
		return node.RawSingleCommit(own.BlockID(), h, holder.Address, c.CertificateSignature()), v, h, false
	case variant == "garbage":
		return node.RawSingleCommit(own.BlockID(), h, holder.Address, pseudoBytes(spec, 96)), v, h, false
	case variant == "inf": // compressed point at infinity
		return node.RawSingleCommit(own.BlockID(), h, holder.Address, append([]byte{0xc0}, make([]byte, 95)...)), v, h, false
	case variant == "short":
		return node.RawSingleCommit(own.BlockID(), h, holder.Address, own.CertificateSignature()[:95]), v, h, false
	case strings.HasPrefix(variant, "relabel="):
		// the holder's genuine commit for the own block at h2, relayed with the height field set to h
		h2 := uint32(atoi(variant[8:]))
		hdr2, err := s.n.HeaderAt(h2)
		if err != nil || h2 > s.n.Height() {
			return node.RawSingleCommit(forkHeader(hdr).ID, h, holder.Address, own.CertificateSignature()), v, h, false
		}
		o2 := certificate.NewSingleCommit(hdr2, holder.Address, s.n.Cfg.ChainID, holder.BLSPriv)
		return node.RawSingleCommit(o2.BlockID(), h, holder.Address, o2.CertificateSignature()), v, h, h2 == h
	}
	panic("bad commit variant " + spec)
}

// sigSpec describes the signature of an aggregate commit built for verify/vblock.
type sigSpec struct {
	kind    string // "-", "garbage", "S"
	holders []int
	msg     string // own | fork | chain2
	height  uint32
}

func parseSigSpec(sp string) sigSpec {
	if sp == "-" || sp == "garbage" || sp == "inf" {
		return sigSpec{kind: sp}
	}
	p := strings.Split(sp, "/")
	if len(p) != 3 || (p[0] != "S" && p[0] != "X") {
		panic("bad signature spec " + sp)
	}
	m := strings.Split(p[2], ":")
	return sigSpec{kind: p[0], holders: ints(p[1]), msg: m[0], height: uint32(atoi(m[1]))}
}

func (s *session) buildSig(sp sigSpec, tag string) []byte {
	switch sp.kind {
	case "-":
		return []byte{}
	case "garbage":
		return pseudoBytes(tag, 96)
	case "inf": // compressed point at infinity
		return append([]byte{0xc0}, make([]byte, 95)...)
	}
	hdr, err := s.n.HeaderAt(sp.height)
	if err != nil {
		hdr = s.n.Tip().Header
	}
	chainID := s.n.Cfg.ChainID
	switch sp.msg {
	case "fork":
		hdr = forkHeader(hdr)
	case "chain2":
		chainID = otherChainID
	}
	pairs := make([]*crypto.BLSPublicKeySignaturePair, len(sp.holders))
	for i, w := range sp.holders {
		v := s.n.Validators[w]
		sc := certificate.NewSingleCommit(hdr, v.Address, chainID, v.BLSPriv)
		pairs[i] = &crypto.BLSPublicKeySignaturePair{PublicKey: v.BLSPub, Signature: sc.CertificateSignature()}
	}
	_, sig := crypto.BLSCreateAggSig(nil, pairs)
	if sp.kind == "X" { // a valid aggregate with one flipped bit
		i := int(pseudoBytes(tag, 2)[0])<<8 | int(pseudoBytes(tag, 2)[1])
		i %= 8 * len(sig)
		sig = append([]byte{}, sig...)
		sig[i/8] ^= 1 << (i % 8)
	}
	return sig
}

// ---- canonical output ----

func (s *session) commitStr(c *certificate.SingleCommit) string {
	tag := "f"
	if hdr, err := s.n.HeaderAt(c.Height()); err == nil && bytes.Equal(hdr.ID, c.BlockID()) {
		tag = "o"
	}
	in := "0"
	if c.VerifInternal() {
		in = "1"
	}
	return fmt.Sprintf("%d:%d:%s:%s", c.Height(), s.holderOf(c.ValidatorAddress()), tag, in)
}

func (s *session) listStr(l certificate.SingleCommits, sorted bool) string {
	if len(l) == 0 {
		return "-"
	}
	type ent struct {
		h, v int
		f    string
		in   string
		str  string
	}
	es := make([]ent, len(l))
	for i, c := range l {
		str := s.commitStr(c)
		p := strings.Split(str, ":")
		es[i] = ent{atoi(p[0]), atoi(p[1]), p[2], p[3], str}
	}
	if sorted {
		sort.SliceStable(es, func(i, j int) bool {
			a, b := es[i], es[j]
			if a.h != b.h {
				return a.h < b.h
			}
			if a.v != b.v {
				return a.v < b.v
			}
			if a.f != b.f {
				return a.f == "o" // own block ids (= height) sort before foreign ones
			}
			return a.in < b.in
		})
	}
	parts := make([]string, len(es))
	for i, e := range es {
		parts[i] = e.str
	}
	return strings.Join(parts, ",")
}

func (s *session) poolStr() string {
	ng, g := s.n.CertPool().VerifAll()
	return "ng=" + s.listStr(ng, true) + " g=" + s.listStr(g, true)
}

func vresStr(r p2p.ValidationResult) string {
	switch r {
	case p2p.ValidationAccept:
		return "accept"
	case p2p.ValidationReject:
		return "reject"
	case p2p.ValidationIgnore:
		return "ignore"
	}
	return "panic"
}

func isPanic(err error) bool {
	_, ok := err.(*node.PanicError)
	return ok
}

func emptyCommit(h uint32) *blockchain.AggregateCommit {
	return &blockchain.AggregateCommit{Height: h, AggregationBits: []byte{}, CertificateSignature: []byte{}}
}

// ---- reference evaluations (model-free) ----

// poolWeightAt: weight of the distinct active signers that have a commit for the own block at h.
func (s *session) poolWeightAt(h uint32) (uint64, uint64, bool) {
	vs, thr, ok := s.validatorsAt(h)
	if !ok {
		return 0, 0, false
	}
	seen := map[int]bool{}
	w := uint64(0)
	hdr, err := s.n.HeaderAt(h)
	if err != nil {
		return 0, 0, false
	}
	for _, c := range s.n.CertPool().Get(h) {
		if !bytes.Equal(c.BlockID(), hdr.ID) {
			continue // commit for a block that is not on the current chain
		}
		for _, v := range vs {
			if bytes.Equal(v.addr, c.ValidatorAddress()) && !seen[v.holder] {
				seen[v.holder] = true
				w += v.weight
			}
		}
	}
	return w, thr, true
}

// expectedCertifiable: the height GetAggregateCommit has to return for an untainted pool
// (highest height in (mhc, min(nextChange-1, mhpc)] whose commits reach the threshold; mhc if none).
func (s *session) expectedCertifiable() uint32 {
	_, mhpc, mhc := s.n.BFTHeights()
	top := mhpc
	if nc := s.nextChange(mhc + 1); nc != 0 && nc-1 < top {
		top = nc - 1
	}
	for h := top; h > mhc; h-- {
		if w, thr, ok := s.poolWeightAt(h); ok && w >= thr && w > 0 {
			return h
		}
	}
	return mhc
}

// specAccepts evaluates the property's acceptance condition for an aggregate commit described
// abstractly (which holders signed which message).
func (s *session) specAccepts(h uint32, bits []byte, sp sigSpec) bool {
	_, mhpc, mhc := s.n.BFTHeights()
	if len(bits) == 0 && sp.kind == "-" {
		return h == mhc
	}
	if len(bits) == 0 || sp.kind != "S" {
		return false
	}
	if h <= mhc || h > mhpc {
		return false
	}
	if nc := s.nextChange(mhc + 1); nc != 0 && h > nc-1 {
		return false
	}
	if sp.msg != "own" || sp.height != h {
		return false
	}
	vs, thr, ok := s.sortedAt(h)
	if !ok || len(bits) != (len(vs)+7)/8 {
		return false
	}
	w := uint64(0)
	var sel []int
	for i, v := range vs {
		if bits[i/8]>>(i%8)&1 == 1 {
			sel = append(sel, v.holder)
			w += v.weight
		}
	}
	if w < thr {
		return false
	}
	signers := append([]int{}, sp.holders...)
	sort.Ints(signers)
	sort.Ints(sel)
	return joinInts(signers) == joinInts(sel)
}

// ---- ops ----

// exec0 executes one op; exec (twin.go) wraps it with the history-independence oracle.
func (s *session) exec0(op string, idx int) (out string, fails []corr.Fail) {
	defer func() {
		if r := recover(); r != nil {
			out = "panic"
			fails = append(fails, corr.Fail{Sig: SigPanic, Detail: fmt.Sprintf("%s: %v", op, r), Op: idx})
		}
	}()
	fail := func(sig, format string, a ...interface{}) {
		fails = append(fails, corr.Fail{Sig: sig, Detail: op + ": " + fmt.Sprintf(format, a...), Op: idx})
	}
	w := strings.Fields(op)
	if w[0] == "reset" {
		return s.reset(w[1:]), nil
	}
	if s.n == nil {
		return "no-node", nil
	}
	n := s.n
	if s.syncRule(w) {
		return "unsynced", nil
	}
	_, mhpc, mhc := n.BFTHeights()
	switch w[0] {
	case "rewind", "alt", "restart":
		return s.execChain(w, op, idx)
	case "nv":
		return s.execNV(w, op, idx) // block of a chosen (non-voting) generator, nonvoting.go
	case "params":
		k := uint32(atoi(w[1]))
		if !s.existParams(k) || s.paramsLine(k) != op {
			fail(SigDiverged, "real parameters: %v %s", s.existParams(k), s.paramsLine(k))
			return "diverged", fails
		}
		return "ok", nil
	case "noparams":
		if s.existParams(uint32(atoi(w[1]))) {
			fail(SigDiverged, "parameters still stored")
			return "diverged", fails
		}
		return "ok", nil
	case "extend":
		_, err := n.Extend(atoi(w[1]), func(i int, o *node.BlockOpts) {
			_, _, c := n.BFTHeights()
			o.AggregateCommit = emptyCommit(c)
		})
		n.DrainEvents()
		if err != nil {
			fail(SigDiverged, "extend: %v", err)
			return "fail", fails
		}
		return "ok", nil
	case "change":
		var vals []*labi.Validator
		for _, p := range strings.Split(w[3], ",") {
			hw := strings.Split(p, ":")
			vals = append(vals, n.Validators[atoi(hw[0])].Labi(uint64(atoi(hw[1]))))
		}
		vc := &node.ValidatorChange{Validators: vals, PrecommitThreshold: uint64(atoi(w[1])), CertificateThreshold: uint64(atoi(w[2]))}
		b, err := n.BuildBlock(node.BlockOpts{ValidatorChange: vc, AggregateCommit: emptyCommit(mhc)})
		if err == nil {
			r := n.ProcessResult(b)
			err = r.Err
			if err == nil && !r.Applied {
				err = node.ErrNotApplied
			}
		}
		n.DrainEvents()
		if err != nil {
			fail(SigDiverged, "change: %v", err)
			return "fail", fails
		}
		return "ok", nil
	case "reorg":
		// replace the tip by a block of the next slot (optionally carrying a validator change)
		T := n.Height()
		if err := n.DeleteTip(false); err != nil {
			fail(SigDiverged, "DeleteTip: %v", err)
			return "fail", fails
		}
		for _, v := range n.Validators {
			v.MaxHeightGenerated = 0
		}
		for h := uint32(1); h < T; h++ {
			if hd, err := n.HeaderAt(h); err == nil {
				if v := n.ValidatorByAddress(hd.GeneratorAddress); v != nil {
					v.MaxHeightGenerated = h
				}
			}
		}
		_, _, c := n.BFTHeights()
		opts := node.BlockOpts{SlotsAhead: 2, AggregateCommit: emptyCommit(c)}
		if len(w) == 4 {
			var vals []*labi.Validator
			for _, p := range strings.Split(w[3], ",") {
				hw := strings.Split(p, ":")
				vals = append(vals, n.Validators[atoi(hw[0])].Labi(uint64(atoi(hw[1]))))
			}
			opts.ValidatorChange = &node.ValidatorChange{Validators: vals, PrecommitThreshold: uint64(atoi(w[1])), CertificateThreshold: uint64(atoi(w[2]))}
		}
		b, err := n.BuildBlock(opts)
		if err == nil {
			r := n.ProcessResult(b)
			err = r.Err
			if err == nil && !r.Applied {
				err = node.ErrNotApplied
			}
		}
		n.DrainEvents()
		if err != nil {
			fail(SigDiverged, "reorg: %v", err)
			return "fail", fails
		}
		return "ok", nil
	case "state":
		if s.stateLine() != op {
			fail(SigDiverged, "real %s", s.stateLine())
			return "diverged " + s.stateLine(), fails
		}
		s.dirty = false
		return "ok", nil
	case "liveness":
		if H := uint32(atoi(w[1])); mhc < H {
			fail(SigStall, "maxHeightCertified %d never passed the block %d authenticating a validator change (maxHeightPrecommitted %d, tip %d)", mhc, H, mhpc, n.Height())
		}
		return "ok", fails
	case "sc":
		return s.opSC(w[1:], op, idx)
	case "raw":
		return vresStr(n.SubmitSingleCommitsRaw(corr.UnHex(w[1]))), nil
	case "certify":
		v := n.Validators[atoi(w[1])]
		signer := *v
		if len(w) > 4 {
			k := n.Validators[atoi(kvArgs(w[4:])["key"])]
			signer.BLSPriv, signer.BLSPub = k.BLSPriv, k.BLSPub
			if k.Index != v.Index {
				s.tainted = true
			}
		}
		err := n.Certify(&signer, uint32(atoi(w[2])), uint32(atoi(w[3])))
		if isPanic(err) {
			fail(SigPanic, "%v", err)
			return "panic", fails
		}
		// no (block, signer) pair twice
		ng, g := n.CertPool().VerifAll()
		seen := map[string]bool{}
		for _, c := range append(ng, g...) {
			k := fmt.Sprintf("%x/%x", []byte(c.BlockID()), []byte(c.ValidatorAddress()))
			if seen[k] && !s.tainted {
				fail(SigDuplicate, "pool holds two commits of holder %d for height %d", s.holderOf(c.ValidatorAddress()), c.Height())
				break
			}
			seen[k] = true
		}
		if err != nil {
			return "err", fails
		}
		return "ok", fails
	case "inject":
		sc, _, _, _ := s.commit(w[1])
		c := certificate.VerifNewSingleCommit(sc.BlockID(), sc.Height(), sc.ValidatorAddress(), sc.CertificateSignature(), w[2] == "1")
		n.CertPool().Add(c)
		s.tainted = true
		return "ok", nil
	case "pool":
		return s.poolStr(), nil
	case "clear":
		n.CertPool().Cleanup(func(uint32) bool { return false })
		s.tainted = false
		return "ok", nil
	case "cleanup":
		if _, err := n.HeaderAt(mhpc); err != nil {
			return "err", nil
		}
		ngBefore, gBefore := n.CertPool().VerifAll()
		err := n.BroadcastCertificates() // the publish step fails on the unstarted connection: expected
		if isPanic(err) {
			fail(SigPanic, "%v", err)
			return "panic", fails
		}
		res := s.poolStr()
		// retention: a commit that the gossip validator would accept again in this state must not
		// have been removed
		ngAfter, gAfter := n.CertPool().VerifAll()
		for _, c := range append(ngBefore, gBefore...) {
			if s.poolHasExact(c) {
				continue
			}
			n.SubmitSingleCommits(node.RawSingleCommit(c.BlockID(), c.Height(), c.ValidatorAddress(), c.CertificateSignature()))
			if s.poolHasExact(c) {
				fail(SigRetention, "commit of holder %d for height %d (mhpc %d, removal height %d) was removed by the cleanup although the gossip validator accepts it in the same state", s.holderOf(c.ValidatorAddress()), c.Height(), mhpc, s.removalHeight())
			}
		}
		// restore the pool as the cleanup left it
		n.CertPool().Cleanup(func(uint32) bool { return false })
		for _, c := range gAfter {
			n.CertPool().Add(c)
		}
		n.CertPool().Upgrade(gAfter)
		for _, c := range ngAfter {
			n.CertPool().Add(c)
		}
		return res, fails
	case "select":
		s.lastSel = n.CertPool().Select(mhpc, atoi(w[1]))
		return s.listStr(s.lastSel, false), nil
	case "upgrade":
		n.CertPool().Upgrade(s.lastSel)
		return s.poolStr(), nil
	case "getac":
		ac, err := n.GetAggregateCommit()
		if isPanic(err) {
			if !s.tainted {
				fail(SigPanic, "GetAggregateCommit: %v", err)
			}
			return "panic", fails
		}
		if err != nil {
			return "err", nil
		}
		verr := n.VerifyAggregateCommit(ac)
		fails = append(fails, s.checkOwn(ac, verr, op, idx)...)
		verdict := "accept"
		if isPanic(verr) {
			verdict = "panic"
		} else if verr != nil {
			verdict = "reject"
		}
		return fmt.Sprintf("%d %s %s", ac.Height, corr.Hex(ac.AggregationBits), verdict), fails
	case "block":
		ac, err := n.GetAggregateCommit()
		if isPanic(err) {
			if !s.tainted {
				fail(SigPanic, "GetAggregateCommit: %v", err)
			}
			return "panic", fails
		}
		if err != nil {
			return "err", nil
		}
		verr := n.VerifyAggregateCommit(ac)
		fails = append(fails, s.checkOwn(ac, verr, op, idx)...)
		res, applied := s.carry(ac)
		if res == "panic" {
			fail(SigPanic, "block with own aggregate: %v", n.LastResult.Err)
		}
		if verr == nil && !applied {
			fail(SigOwnBlockRejected, "aggregate for %d accepted by verifyAggregateCommit but the block was not applied: %v", ac.Height, n.LastResult.Err)
		}
		if applied {
			if _, _, c := n.BFTHeights(); !ac.Empty() && c != ac.Height {
				fail(SigOwnBlockRejected, "maxHeightCertified %d after a block with the aggregate commit for %d", c, ac.Height)
			}
		}
		return res, fails
	case "verify", "vblock":
		h := uint32(atoi(w[1]))
		bits := corr.UnHex(w[2])
		sp := parseSigSpec(w[3])
		ac := &blockchain.AggregateCommit{Height: h, AggregationBits: bits, CertificateSignature: s.buildSig(sp, op)}
		want := s.specAccepts(h, bits, sp)
		if w[0] == "verify" {
			err := n.VerifyAggregateCommit(ac)
			switch {
			case isPanic(err):
				fail(SigPanic, "verifyAggregateCommit: %v", err)
				return "panic", fails
			case err == nil && !want:
				fail(SigUnsound, "accepted (mhc %d mhpc %d next change %d)", mhc, mhpc, s.nextChange(mhc+1))
			case err != nil && want:
				fail(SigValidRejected, "rejected: %v", err)
			}
			if err != nil {
				return "reject", fails
			}
			return "accept", fails
		}
		res, applied := s.carry(ac)
		switch {
		case res == "panic":
			fail(SigPanic, "block verification: %v", n.LastResult.Err)
		case applied && !want:
			fail(SigUnsound, "block applied (mhc %d mhpc %d next change %d)", mhc, mhpc, s.nextChange(mhc+1))
		case !applied && want:
			fail(SigValidRejected, "block rejected: %v", n.LastResult.Err)
		}
		if applied && !ac.Empty() {
			if _, _, c := n.BFTHeights(); c != h {
				fail(SigValidRejected, "maxHeightCertified %d after the block carrying the commit for %d", c, h)
			}
		}
		return res, fails
	}
	return "bad-op", nil
}

// carry builds the next block with the aggregate commit and processes it.
func (s *session) carry(ac *blockchain.AggregateCommit) (string, bool) {
	n := s.n
	b, err := n.BuildBlock(node.BlockOpts{AggregateCommit: ac})
	if err != nil {
		panic("BuildBlock: " + err.Error())
	}
	r := n.ProcessResult(b)
	n.DrainEvents()
	if isPanic(r.Err) {
		return "panic", false
	}
	if r.Applied {
		return "applied", true
	}
	return "rejected", false
}

// checkOwn: an aggregate commit assembled from an untainted pool is accepted by the node itself
// and certifies the highest certifiable height.
func (s *session) checkOwn(ac *blockchain.AggregateCommit, verr error, op string, idx int) []corr.Fail {
	if s.tainted {
		return nil
	}
	var fails []corr.Fail
	if verr != nil {
		_, thr, _ := s.validatorsAt(ac.Height)
		w, _, _ := s.poolWeightAt(ac.Height)
		fails = append(fails, corr.Fail{Sig: SigOwnRejected, Op: idx, Detail: fmt.Sprintf("%s: own aggregate for height %d (bits %x, signer weight %d, threshold %d) rejected: %v", op, ac.Height, []byte(ac.AggregationBits), w, thr, verr)})
	}
	_, _, mhc := s.n.BFTHeights()
	if want := s.expectedCertifiable(); want != ac.Height || ac.Empty() != (want == mhc) {
		fails = append(fails, corr.Fail{Sig: SigWrongHeight, Op: idx, Detail: fmt.Sprintf("%s: GetAggregateCommit returned height %d (empty=%v), highest certifiable height is %d", op, ac.Height, ac.Empty(), want)})
	}
	return fails
}

func (s *session) opSC(specs []string, op string, idx int) (string, []corr.Fail) {
	n := s.n
	var fails []corr.Fail
	_, mhpc, _ := n.BFTHeights()
	rh := s.removalHeight()
	type item struct {
		sc      *certificate.SingleCommit
		v       int
		h       uint32
		valid   bool
		active  bool
		inRange bool
		before  bool
	}
	items := make([]item, len(specs))
	scs := make([]*certificate.SingleCommit, len(specs))
	allValid := true
	for i, sp := range specs {
		sc, v, h, valid := s.commit(sp)
		it := item{sc: sc, v: v, h: h, valid: valid}
		if vs, _, ok := s.validatorsAt(h); ok {
			for _, x := range vs {
				if x.holder == v {
					it.active = true
				}
			}
		}
		lo := uint32(0)
		if mhpc > certificate.CommitRangeStored {
			lo = mhpc - certificate.CommitRangeStored
		}
		it.inRange = h > rh && h >= lo && h <= mhpc
		it.before = s.poolHasExact(sc)
		if !valid || !it.active {
			allValid = false
		}
		items[i] = it
		scs[i] = sc
	}
	poolBefore := s.poolKeys()
	refVerdict, refAdded, refOK := s.refMessage(specs) // single.go: every commit under the parameters of its own height
	res := n.SubmitSingleCommits(scs...)
	fails = append(fails, s.afterMessage(specs, poolBefore, vresStr(res), refVerdict, refAdded, refOK, op, idx)...)
	if res == p2p.ValidationAccept {
		fails = append(fails, corr.Fail{Sig: SigAccepted, Op: idx, Detail: op + ": ValidationAccept (the message would be republished)"})
	}
	if res != p2p.ValidationAccept && res != p2p.ValidationIgnore && res != p2p.ValidationReject {
		fails = append(fails, corr.Fail{Sig: SigPanic, Op: idx, Detail: fmt.Sprintf("%s: %v", op, n.LastResult.Err)})
	}
	for i, it := range items {
		in := s.poolHasExact(it.sc)
		if (!it.valid || !it.active) && in && !it.before {
			fails = append(fails, corr.Fail{Sig: SigInvalidInPool, Op: idx, Detail: fmt.Sprintf("%s: commit %s (valid=%v active=%v) entered the pool", op, specs[i], it.valid, it.active)})
		}
		if allValid && it.inRange && !n.CertPool().Has(it.sc) {
			sig := SigDropped
			if mhpc < certificate.CommitRangeStored {
				sig = SigDroppedEarly
			}
			fails = append(fails, corr.Fail{Sig: sig, Op: idx, Detail: fmt.Sprintf("%s: valid commit %s of an active validator (mhpc %d, removal height %d) is not in the pool (result %s)", op, specs[i], mhpc, rh, vresStr(res))})
		}
	}
	return vresStr(res), fails
}

func (s *session) poolHasExact(sc *certificate.SingleCommit) bool {
	ng, g := s.n.CertPool().VerifAll()
	for _, c := range append(ng, g...) {
		if c.Height() == sc.Height() && bytes.Equal(c.BlockID(), sc.BlockID()) && bytes.Equal(c.ValidatorAddress(), sc.ValidatorAddress()) &&
			bytes.Equal(c.CertificateSignature(), sc.CertificateSignature()) {
			return true
		}
	}
	return false
}

// RunImpl replays a case on a fresh node.
func (prop) RunImpl(c corr.Case) ([]string, []corr.Fail) {
	if r, ok := planned.LoadAndDelete(strings.Join(c.Ops, "\n")); ok {
		// the case was executed on a real node while it was generated (gen.go, planner.do)
		pr := r.(plannedRun)
		return pr.outs, firstPerSig(pr.fails)
	}
	s := &session{}
	defer s.close()
	out := make([]string, 0, len(c.Ops))
	var fails []corr.Fail
	for i, op := range c.Ops {
		o, f := s.exec(op, i)
		out = append(out, o)
		fails = append(fails, f...)
	}
	return out, firstPerSig(fails)
}

// firstPerSig keeps the first failure of every signature: a defect that shows at one op usually shows at
// every later op of the case as well, and each reported failure is minimised separately.
func firstPerSig(fails []corr.Fail) []corr.Fail {
	seen := map[string]bool{}
	var res []corr.Fail
	for _, f := range fails {
		if !seen[f.Sig] {
			seen[f.Sig] = true
			res = append(res, f)
		}
	}
	return res
}

// Classify names the behaviour a case exercised.
func (prop) Classify(c corr.Case, out []string) string {
	set := map[string]bool{}
	for i, op := range c.Ops {
		if i >= len(out) {
			break
		}
		w := strings.Fields(op)
		o := out[i]
		switch w[0] {
		case "getac":
			f := strings.Fields(o)
			if len(f) == 3 && f[1] != "-" {
				set["assembled-"+f[2]] = true
			}
		case "block", "vblock":
			set[w[0]+"-"+o] = true
		case "verify":
			set["verify-"+o] = true
		case "sc":
			set["sc-"+o] = true
		case "certify":
			set["certify"] = true
		case "select", "upgrade", "cleanup":
			set["poolops"] = true
		case "change":
			set["change"] = true
		case "reorg":
			set["reorg"] = true
		case "rewind", "restart":
			set[w[0]] = true
		case "nv":
			set[nvClass(w, o)] = true
		case "alt":
			if len(w) > 2 && (w[2] == "own" || w[2] == "agg") {
				set["alt-"+w[2]+"-"+o] = true
			} else if len(w) > 2 {
				set["alt-"+w[2]] = true
			}
		}
	}
	if len(set) == 0 {
		return ""
	}
	keys := make([]string, 0, len(set))
	for k := range set {
		keys = append(keys, k)
	}
	sort.Strings(keys)
	return c.Tag + ":" + strings.Join(keys, "+")
}

var _ = rand.Int
