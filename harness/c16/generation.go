package c16

import (
	"bytes"
	"fmt"
	"math/rand"
	"strings"

	"github.com/LiskHQ/lisk-engine/pkg/blockchain"
	"github.com/LiskHQ/lisk-engine/pkg/codec"
	"github.com/LiskHQ/lisk-engine/pkg/framework"
	"github.com/LiskHQ/lisk-engine/pkg/generator"
	"github.com/LiskHQ/lisk-engine/pkg/labi"

	"verifharness/corr"
)

// Block generation over the REAL application (framework.ABIHandler + statemachine.Executer with the
// scripted module): the REAL selection loop of the generator (generator.selectTransactionsByFee
// through VerifSelectTransactions) runs against the handler with the ABI call sequence of
// Generator.forge - InitStateMachine, BeforeTransactionsExecute, per transaction VerifyTransaction +
// ExecuteTransaction, AfterTransactionsExecute, Commit with DryRun for the state root of the header,
// Clear - and the block of the selected transactions is then executed with the call sequence of
// consensus' stateExecuter.Execute + Commit(expected root).
//
// Model-free oracle (properties C15 "every block the generator produces is accepted by the same
// node, including its roots" and C16): the state root the generator obtained must be the root the
// execution of the generated block yields - the verifying Commit must accept it.
//
// Finding `generated-block-state-root-rejected`: selectTransactionsByFee goes on after
// ExecuteTransaction answered Invalid (a BeforeCommandExecute / AfterCommandExecute hook failed),
// but Executer.ExecuteTransaction takes no snapshot around the whole transaction, so the writes of
// the hooks (and of the command) of the dropped transaction stay in the staged store of the
// generation context: the dry-run state root contains effects of a transaction that is not in the
// block, and every node - the generator included - rejects the block (Lean:
// C16_generation_after_invalid_tx_breaks_root).

// genClient is the application as the generator's selection sees it: InitStateMachine also runs
// the before-hook (as forge does before it selects), Clear is postponed (forge clears at its very
// end; VerifSelectTransactions right after the selection).
type genClient struct {
	*framework.ABIHandler
	before []*blockchain.BlockAsset
	ctxID  codec.Hex
	err    error
}

func (c *genClient) InitStateMachine(req *labi.InitStateMachineRequest) (*labi.InitStateMachineResponse, error) {
	res, err := c.ABIHandler.InitStateMachine(req)
	if err != nil {
		return nil, err
	}
	c.ctxID = res.ContextID
	if _, err := c.ABIHandler.BeforeTransactionsExecute(&labi.BeforeTransactionsExecuteRequest{ContextID: c.ctxID, Assets: c.before, Consensus: consensus()}); err != nil {
		c.err = err
		return nil, err
	}
	return res, nil
}

// forge passes the consensus parameters its BeforeTransactionsExecute obtained; the selection
// export has none
func (c *genClient) ExecuteTransaction(req *labi.ExecuteTransactionRequest) (*labi.ExecuteTransactionResponse, error) {
	if req.Consensus == nil {
		cp := *req
		cp.Consensus = consensus()
		req = &cp
	}
	return c.ABIHandler.ExecuteTransaction(req)
}

func (c *genClient) Clear(req *labi.ClearRequest) (*labi.ClearResponse, error) {
	return &labi.ClearResponse{}, nil
}

// genTxSpec is one pool transaction: script `V/P/C/A` of the scripted module, own sender.
type genTxSpec struct {
	script string
}

type genOutcome struct {
	generated bool   // a block was sealed (all block-level calls succeeded)
	selected  []int  // indices of the pool transactions in the block
	accepted  bool   // the execution of the generated block reproduced the state root
	detail    string // why not
}

// generateAndVerify runs one generation + verification at height `height` on the runner's
// application (context must be closed). The pool is given in fee order (highest first).
func (r *runner) generateAndVerify(height uint32, before, after string, pool []genTxSpec) genOutcome {
	out := genOutcome{}
	asset := func(sec string) []*blockchain.BlockAsset {
		return []*blockchain.BlockAsset{{Module: modName, Data: []byte(sec)}}
	}
	txs := make([]*blockchain.Transaction, len(pool))
	for i, p := range pool {
		tx := &blockchain.Transaction{
			Module:          modName,
			Command:         cmdName,
			Nonce:           0,
			Fee:             uint64(1000000 * (len(pool) - i)), // distinct fee priorities, pool order
			SenderPublicKey: bytes.Repeat([]byte{byte(0x20 + i)}, 32),
			Params:          []byte(p.script),
			Signatures:      []codec.Hex{bytes.Repeat([]byte{9}, 64)},
		}
		tx.Init()
		txs[i] = tx
	}
	// --- generation (Generator.forge) ---
	gc := &genClient{ABIHandler: r.handler, before: asset(before)}
	sel, err := generator.VerifSelectTransactions(gc, header(height), txs, 15*1024)
	defer r.handler.Clear(&labi.ClearRequest{}) //nolint:errcheck
	if err != nil || gc.err != nil {
		out.detail = fmt.Sprintf("no block: %v %v", err, gc.err)
		r.handler.Clear(&labi.ClearRequest{}) //nolint:errcheck
		return out
	}
	for _, tx := range sel {
		for i, p := range txs {
			if bytes.Equal(p.ID, tx.ID) {
				out.selected = append(out.selected, i)
			}
		}
	}
	if _, err := r.handler.AfterTransactionsExecute(&labi.AfterTransactionsExecuteRequest{ContextID: gc.ctxID, Assets: asset(after), Consensus: consensus(), Transactions: sel}); err != nil {
		out.detail = fmt.Sprintf("no block: after-hook: %v", err)
		return out
	}
	cres, err := r.handler.Commit(&labi.CommitRequest{ContextID: gc.ctxID, StateRoot: r.curRoot, DryRun: true})
	if err != nil {
		out.detail = fmt.Sprintf("no block: dry-run commit: %v", err)
		return out
	}
	root := cres.StateRoot
	if _, err := r.handler.Clear(&labi.ClearRequest{}); err != nil {
		out.detail = fmt.Sprintf("clear: %v", err)
		return out
	}
	out.generated = true
	// --- execution of the generated block (consensus stateExecuter.Execute + Commit) ---
	ires, err := r.handler.InitStateMachine(&labi.InitStateMachineRequest{Header: header(height)})
	if err != nil {
		out.detail = fmt.Sprintf("verify: init: %v", err)
		return out
	}
	if _, err := r.handler.BeforeTransactionsExecute(&labi.BeforeTransactionsExecuteRequest{ContextID: ires.ContextID, Assets: asset(before), Consensus: consensus()}); err != nil {
		out.detail = fmt.Sprintf("verify: before-hook: %v", err)
		return out
	}
	for _, tx := range sel {
		vres, err := r.handler.VerifyTransaction(&labi.VerifyTransactionRequest{ContextID: ires.ContextID, Transaction: tx})
		if err != nil || vres.Result != labi.TxVerifyResultOk {
			out.detail = fmt.Sprintf("verify: transaction does not verify: %v", err)
			return out
		}
		eres, err := r.handler.ExecuteTransaction(&labi.ExecuteTransactionRequest{ContextID: ires.ContextID, Transaction: tx, Assets: asset(before), Header: header(height), Consensus: consensus()})
		if err != nil || eres.Result == labi.TxExecuteResultInvalid {
			out.detail = fmt.Sprintf("verify: transaction invalid: %v", err)
			return out
		}
	}
	if _, err := r.handler.AfterTransactionsExecute(&labi.AfterTransactionsExecuteRequest{ContextID: ires.ContextID, Assets: asset(after), Consensus: consensus(), Transactions: sel}); err != nil {
		out.detail = fmt.Sprintf("verify: after-hook: %v", err)
		return out
	}
	res, err := r.handler.Commit(&labi.CommitRequest{ContextID: ires.ContextID, StateRoot: r.curRoot, ExpectedStateRoot: root, DryRun: false})
	if err != nil {
		out.detail = fmt.Sprintf("commit with the generator's state root %x: %v", []byte(root), err)
		return out
	}
	out.accepted = true
	r.curRoot = res.StateRoot
	return out
}

// random pool scripts: plain writes, failing commands (Fail: kept in the block) and transactions
// whose before- / after-hook fails after writes (Invalid: dropped by the generator)
func genGenSection(rng *rand.Rand, fail bool) string {
	var items []string
	for i, n := 0, rng.Intn(3); i < n; i++ {
		items = append(items, fmt.Sprintf("s:%d:%02x:%02x", rng.Intn(3), rng.Intn(4), 1+rng.Intn(250)))
	}
	if rng.Intn(6) == 0 {
		items = append(items, fmt.Sprintf("d:%d:%02x", rng.Intn(3), rng.Intn(4)))
	}
	if fail {
		items = append(items, "x")
	}
	return strings.Join(items, ",")
}

func genGenPool(rng *rand.Rand) []genTxSpec {
	n := 1 + rng.Intn(5)
	pool := make([]genTxSpec, n)
	for i := range pool {
		pre, cmd, post := genGenSection(rng, false), genGenSection(rng, false), ""
		switch rng.Intn(10) {
		case 0:
			pre = genGenSection(rng, true) // BeforeCommandExecute fails: Invalid
		case 1:
			post = genGenSection(rng, true) // AfterCommandExecute fails: Invalid
		case 2:
			cmd = genGenSection(rng, true) // command fails: Fail, stays in the block
		case 3:
			post = genGenSection(rng, false)
		}
		pool[i] = genTxSpec{script: "/" + pre + "/" + cmd + "/" + post}
	}
	return pool
}

func showPool(pool []genTxSpec) string {
	s := make([]string, len(pool))
	for i, p := range pool {
		s[i] = p.script
	}
	return strings.Join(s, " ; ")
}

// genProp is the pseudo-property "C15GEN": it has no cases of its own and only runs the generation oracle
// below. It is run as part of property C15 ("every block the generator produces is accepted by the same
// node, including its roots"); it lives in this package because it needs the real application rig of C16.
type genProp struct{}

func init() { corr.Register(genProp{}) }

func (genProp) ID() string    { return "C15GEN" }
func (genProp) NoModel() bool { return true }
func (genProp) Generate(rng *rand.Rand, tier string) []corr.Case {
	return []corr.Case{{Ops: []string{"reset"}, Tag: "generation-oracle"}}
}
func (genProp) RunImpl(c corr.Case) ([]string, []corr.Fail) { return []string{"ok"}, nil }
func (genProp) Classify(c corr.Case, out []string) string   { return "generation-oracle" }

// Extra: generated chains of 1..4 blocks per scenario, every block generated from a random pool and
// then executed; plus the directed input of the finding.
func (genProp) Extra(rng *rand.Rand, tier string) corr.ExtraResult {
	res := corr.ExtraResult{Notes: map[string]any{}}
	n := 400
	if tier == "thorough" {
		n = 8000
	}
	blocks, withInvalid, withTxs, rejected := 0, 0, 0, 0
	scenario := func(pools [][]genTxSpec, before, after string) {
		r := &runner{}
		r.reset()
		defer r.close()
		for h, pool := range pools {
			o := r.generateAndVerify(uint32(h+1), before, after, pool)
			res.Evaluations++
			if !o.generated {
				return
			}
			blocks++
			if len(o.selected) > 0 {
				withTxs++
			}
			if len(o.selected) < len(pool) {
				withInvalid++
			}
			if !o.accepted {
				rejected++
				if rejected > 25 { // the report keeps the first ones; the count is in the notes
					return
				}
				res.Fails = append(res.Fails, corr.Fail{Sig: "generated-block-state-root-rejected",
					Detail: fmt.Sprintf("height %d, pool (fee order) [%s], block holds transactions %v: the block generated over the application is not accepted when executed: %s", h+1, showPool(pool), o.selected, o.detail)})
				return
			}
		}
	}
	// the finding: the fee transaction's after-hook fails after the hooks and the command wrote
	scenario([][]genTxSpec{{{script: "/s:0:01:63/s:0:02:0b/x"}, {script: "//s:0:03:0c/"}}}, "", "")
	for i := 0; i < n; i++ {
		nb := 1 + rng.Intn(4)
		pools := make([][]genTxSpec, nb)
		for j := range pools {
			pools[j] = genGenPool(rng)
		}
		before, after := "", ""
		if rng.Intn(3) == 0 {
			before = genGenSection(rng, false)
		}
		if rng.Intn(3) == 0 {
			after = genGenSection(rng, false)
		}
		scenario(pools, before, after)
	}
	res.Notes["generated_blocks"] = map[string]int{"blocks": blocks, "with_transactions": withTxs, "with_dropped_transactions": withInvalid, "rejected_when_executed": rejected}
	return res
}
