// Crash-point enumeration of the application commit / revert (model-free, C16 clause "restart recovery
// rolls the application state back to the engine's tip").
//
// The real framework.ABIHandler runs over a pebble database on a strict in-memory file system that
// counts file syncs (harness/c13 FS, opened through db.NewDBWithFS). A scenario executes blocks 1..n with
// scripted transactions; for the last block the process "dies" after the k-th sync issued inside
// ABIHandler.Commit, for every k from 0 to the number of syncs an undisturbed Commit issues: later syncs
// are lost, everything unsynced is dropped (power loss), the database is reopened and a fresh handler
// recovers. The same is done for ABIHandler.Revert of the last block. Oracle, per crash point:
//
//   - the database found — state entries, stored diffs, tree nodes and the record "application state is
//     at (height, root)" — is byte for byte the database before the step or the one after it (taken
//     from an undisturbed run), never a mixture; the recorded root is the root of a fresh sparse Merkle
//     trie over the stored state;
//   - the engine did not store a block whose commit did not return: Init at the engine's tip (n-1 after a
//     crash in Commit; also n when the commit turned out durable) succeeds and leaves exactly the
//     reference state of that height under the record (tip, root of that state); executing block n again
//     on the recovered state yields the reference root and state of block n.
//
// Anything else is reported as c16-crash-commit-not-atomic / c16-crash-revert-not-atomic.
package c16

import (
	"bytes"
	"fmt"
	"math/rand"
	"sort"
	"strings"

	"github.com/LiskHQ/lisk-engine/pkg/blockchain"
	"github.com/LiskHQ/lisk-engine/pkg/db"
	"github.com/LiskHQ/lisk-engine/pkg/db/diffdb"
	"github.com/LiskHQ/lisk-engine/pkg/framework"
	"github.com/LiskHQ/lisk-engine/pkg/labi"

	"verifharness/c13"
	"verifharness/corr"
)

const (
	sigCrashCommit = "c16-crash-commit-not-atomic"
	sigCrashRevert = "c16-crash-revert-not-atomic"
	crashDir       = "" // the root of the file system (pebble does not sync the parent of its directory)
)

// crashNode is an application (handler + state database) on a counting strict file system.
type crashNode struct {
	fs *c13.FS
	r  *runner
}

func newCrashNode() *crashNode {
	n := &crashNode{fs: c13.NewFS(), r: &runner{}}
	n.r.reset() // scripted module, in-memory module database, bookkeeping
	n.r.stateDB.Close()
	n.open()
	return n
}

// open (re)opens the state database on the node's file system and creates a fresh handler.
func (n *crashNode) open() {
	sdb, err := db.NewDBWithFS(n.fs, crashDir)
	if err != nil {
		panic(err)
	}
	n.r.stateDB = sdb
	n.r.dbsToClose = []*db.DB{n.r.moduleDB}
	n.r.newHandler()
}

func (n *crashNode) close() {
	n.r.stateDB.Close()
	n.r.close()
}

// powerLoss drops everything that is not durable and restarts the application.
func (n *crashNode) powerLoss() {
	n.fs.PowerLoss(func() { n.r.stateDB.Close() })
	n.open()
}

// fullDump is the whole state database: state entries, tree nodes, diffs and the record.
func (n *crashNode) fullDump() string {
	var sb strings.Builder
	for _, kv := range n.r.stateDB.Iterate([]byte{}, -1, false) {
		key, v := kv.Key(), kv.Value()
		if bytes.HasPrefix(key, framework.StateDBPrefixDiff) {
			// a stored diff lists its keys in the iteration order of a Go map (cacheDB.commit): two
			// executions of the same block give differently ordered, equivalent diffs
			d := &diffdb.Diff{}
			if err := d.Decode(v); err == nil {
				sort.Slice(d.Added, func(a, b int) bool { return bytes.Compare(d.Added[a], d.Added[b]) < 0 })
				sort.Slice(d.Updated, func(a, b int) bool { return bytes.Compare(d.Updated[a].Key, d.Updated[b].Key) < 0 })
				sort.Slice(d.Deleted, func(a, b int) bool { return bytes.Compare(d.Deleted[a].Key, d.Deleted[b].Key) < 0 })
				v = d.Encode()
			}
		}
		fmt.Fprintf(&sb, "%x=%x;", key, v)
	}
	return sb.String()
}

type appState struct {
	height uint32
	root   []byte
	state  string // dump of the state entries
	full   string // dump of the whole database
}

func (n *crashNode) snapshot() appState {
	h, root, ok := n.r.treeState()
	if !ok {
		h, root = 0, emptyRoot
	}
	return appState{h, append([]byte{}, root...), dumpMap(n.r.dbState()), n.fullDump()}
}

// execute runs the transactions of block h up to (excluding) Commit and returns the context id.
func (n *crashNode) execute(h uint32, scripts []string) ([]byte, error) {
	res, err := n.r.handler.InitStateMachine(&labi.InitStateMachineRequest{Header: header(h)})
	if err != nil {
		return nil, err
	}
	for _, s := range scripts {
		tx := n.r.newTx(cmdName, s)
		if _, err := n.r.handler.ExecuteTransaction(&labi.ExecuteTransactionRequest{ContextID: res.ContextID, Transaction: tx,
			Assets: []*blockchain.BlockAsset{}, Header: header(h), Consensus: consensus()}); err != nil {
			return nil, err
		}
	}
	return res.ContextID, nil
}

// block executes and commits block h on top of prevRoot.
func (n *crashNode) block(h uint32, scripts []string, prevRoot []byte) ([]byte, error) {
	ctx, err := n.execute(h, scripts)
	if err != nil {
		return nil, err
	}
	res, err := n.r.handler.Commit(&labi.CommitRequest{ContextID: ctx, StateRoot: prevRoot})
	if err != nil {
		return nil, err
	}
	_, _ = n.r.handler.Clear(&labi.ClearRequest{})
	return res.StateRoot, nil
}

// genCrashBlocks returns the scripts of n blocks; every block changes the state for certain.
func genCrashBlocks(rng *rand.Rand, n int) [][]string {
	blocks := make([][]string, n)
	for b := range blocks {
		// one transaction that certainly writes and (from the second block on) deletes / overwrites
		items := []string{fmt.Sprintf("s:%d:%s:%s", rng.Intn(len(storeTable)), pick(rng, genKeys), pick(rng, genVals)),
			fmt.Sprintf("s:%d:%s:%s", rng.Intn(len(storeTable)), genKeys[b%len(genKeys)], genVals[(b+1)%len(genVals)])}
		if b > 0 {
			items = append(items, fmt.Sprintf("d:%d:%s", rng.Intn(len(storeTable)), pick(rng, genKeys)),
				fmt.Sprintf("d:%d:%s", rng.Intn(len(storeTable)), genKeys[(b-1)%len(genKeys)]))
		}
		blocks[b] = []string{"//" + strings.Join(items, ",") + "/"}
		for i := rng.Intn(3); i > 0; i-- {
			blocks[b] = append(blocks[b], genScript(rng))
		}
	}
	return blocks
}

type crashRef struct {
	after       []appState // after[h]: undisturbed application after block h (after[0]: empty database)
	commitSyncs int        // file syncs issued by the Commit of the last block
	revertSyncs int        // ... by the Revert of the last block
	afterRevert appState
}

// reference runs the scenario undisturbed (same file system type, same call sequence).
func crashReference(blocks [][]string) (*crashRef, error) {
	n := newCrashNode()
	defer n.close()
	ref := &crashRef{after: []appState{n.snapshot()}}
	root := emptyRoot
	last := len(blocks)
	for h := 1; h <= last; h++ {
		ctx, err := n.execute(uint32(h), blocks[h-1])
		if err != nil {
			return nil, err
		}
		n.fs.Arm(1 << 30)
		res, err := n.r.handler.Commit(&labi.CommitRequest{ContextID: ctx, StateRoot: root})
		if err != nil {
			return nil, err
		}
		ref.commitSyncs, _ = n.fs.SinceArm()
		_, _ = n.r.handler.Clear(&labi.ClearRequest{})
		root = res.StateRoot
		ref.after = append(ref.after, n.snapshot())
	}
	// revert of the last block
	ism, err := n.r.handler.InitStateMachine(&labi.InitStateMachineRequest{Header: header(uint32(last))})
	if err != nil {
		return nil, err
	}
	n.fs.Arm(1 << 30)
	if _, err := n.r.handler.Revert(&labi.RevertRequest{ContextID: ism.ContextID, StateRoot: root}); err != nil {
		return nil, err
	}
	ref.revertSyncs, _ = n.fs.SinceArm()
	ref.afterRevert = n.snapshot()
	return ref, nil
}

func short(s string) string {
	if len(s) > 300 {
		return s[:300] + "..."
	}
	return s
}

// checkRecovered: Init at engine tip e must succeed and leave exactly the reference state of height e.
func (n *crashNode) checkRecovered(what string, e int, ref *crashRef) string {
	want := ref.after[e]
	if _, err := n.r.handler.Init(&labi.InitRequest{ChainID: []byte{0, 0, 0, 1}, LastBlockHeight: uint32(e), LastStateRoot: want.root}); err != nil {
		return fmt.Sprintf("%s: Init at engine tip %d (root %x) failed: %v", what, e, want.root, err)
	}
	got := n.snapshot()
	if got.state != want.state {
		return fmt.Sprintf("%s: Init at engine tip %d succeeded but the application state is not the state of block %d: state %s, reference %s",
			what, e, e, short(got.state), short(want.state))
	}
	if got.height != uint32(e) || !bytes.Equal(got.root, want.root) {
		return fmt.Sprintf("%s: after Init at engine tip %d the record says (%d, %x), reference (%d, %x)", what, e, got.height, got.root, e, want.root)
	}
	if fresh := freshRootOfState(n.r.dbState()); !bytes.Equal(fresh, got.root) {
		return fmt.Sprintf("%s: after Init at engine tip %d the recorded root %x is not the root %x of a fresh trie over the stored state", what, e, got.root, fresh)
	}
	return ""
}

// crashScenario enumerates the crash points of Commit and Revert of the last block.
func crashScenario(rng *rand.Rand, idx int) (fails []corr.Fail, evals int, notes map[string]int) {
	notes = map[string]int{}
	nb := 2 + rng.Intn(2)
	blocks := genCrashBlocks(rng, nb)
	desc := fmt.Sprintf("scenario %d: %d blocks %v", idx, nb, blocks)
	ref, err := crashReference(blocks)
	if err != nil {
		return []corr.Fail{{Sig: "c16-crash-reference-failed", Detail: desc + ": " + err.Error(), Op: -1}}, 0, notes
	}
	if ref.after[nb].state == ref.after[nb-1].state {
		notes["last_block_without_effect"]++
	}
	notes["commit_syncs"] = ref.commitSyncs
	notes["revert_syncs"] = ref.revertSyncs
	pre, post := ref.after[nb-1], ref.after[nb]
	prepare := func() (*crashNode, []byte, string) {
		n := newCrashNode()
		root := emptyRoot
		for h := 1; h < nb; h++ {
			r, err := n.block(uint32(h), blocks[h-1], root)
			if err != nil {
				n.close()
				return nil, nil, err.Error()
			}
			root = r
		}
		return n, root, ""
	}
	// ---- crash inside Commit of block nb
	for k := 0; k <= ref.commitSyncs; k++ {
		evals++
		what := fmt.Sprintf("%s; power loss after sync %d of %d inside Commit of block %d", desc, k, ref.commitSyncs, nb)
		n, root, perr := prepare()
		if n == nil {
			fails = append(fails, corr.Fail{Sig: "c16-crash-reference-failed", Detail: what + ": " + perr, Op: -1})
			break
		}
		ctx, err := n.execute(uint32(nb), blocks[nb-1])
		if err == nil {
			n.fs.Arm(k)
			_, err = n.r.handler.Commit(&labi.CommitRequest{ContextID: ctx, StateRoot: root})
		}
		if err != nil {
			fails = append(fails, corr.Fail{Sig: "c16-crash-reference-failed", Detail: what + ": " + err.Error(), Op: -1})
			n.close()
			continue
		}
		n.powerLoss()
		got := n.snapshot()
		bad := ""
		durable := -1
		switch got.full {
		case pre.full:
			durable = nb - 1
			notes["commit_crash_found_old"]++
		case post.full:
			durable = nb
			notes["commit_crash_found_new"]++
		default:
			bad = fmt.Sprintf("%s: the database found at restart is neither the one before the commit nor the one after it: record (%d, %x), state %s; before: record (%d, %x), state %s; after: record (%d, %x), state %s",
				what, got.height, got.root, short(got.state), pre.height, pre.root, short(pre.state), post.height, post.root, short(post.state))
		}
		if bad == "" && k == ref.commitSyncs && durable != nb {
			bad = fmt.Sprintf("%s: every sync of the commit was honoured but the commit is not durable", what)
		}
		if bad == "" {
			if fresh := freshRootOfState(n.r.dbState()); !bytes.Equal(fresh, got.root) {
				bad = fmt.Sprintf("%s: recorded root %x is not the root %x of the stored state", what, got.root, fresh)
			}
		}
		// recovery: the engine's tip is nb-1 (it stores a block after Commit returned); when the commit
		// is durable the engine may also have stored block nb
		if bad == "" && durable == nb {
			bad = n.checkRecovered(what, nb, ref)
		}
		if bad == "" || durable == -1 {
			if m := n.checkRecovered(what, nb-1, ref); m != "" {
				if bad == "" {
					bad = m
				} else {
					bad += " | " + m
				}
			} else if bad == "" {
				// the block is executed again on the recovered state
				r2, err := n.block(uint32(nb), blocks[nb-1], pre.root)
				if err != nil {
					bad = fmt.Sprintf("%s: executing block %d again after recovery failed: %v", what, nb, err)
				} else if again := n.snapshot(); !bytes.Equal(r2, post.root) || again.state != post.state {
					bad = fmt.Sprintf("%s: executing block %d again after recovery gives root %x state %s, reference root %x state %s",
						what, nb, r2, short(again.state), post.root, short(post.state))
				}
			}
		}
		if bad != "" {
			fails = append(fails, corr.Fail{Sig: sigCrashCommit, Detail: bad, Op: -1})
		}
		n.close()
	}
	// ---- crash inside Revert of block nb
	for k := 0; k <= ref.revertSyncs; k++ {
		evals++
		what := fmt.Sprintf("%s; power loss after sync %d of %d inside Revert of block %d", desc, k, ref.revertSyncs, nb)
		n, root, perr := prepare()
		if n == nil {
			fails = append(fails, corr.Fail{Sig: "c16-crash-reference-failed", Detail: what + ": " + perr, Op: -1})
			break
		}
		root, err := n.block(uint32(nb), blocks[nb-1], root)
		var ism *labi.InitStateMachineResponse
		if err == nil {
			ism, err = n.r.handler.InitStateMachine(&labi.InitStateMachineRequest{Header: header(uint32(nb))})
		}
		if err == nil {
			n.fs.Arm(k)
			_, err = n.r.handler.Revert(&labi.RevertRequest{ContextID: ism.ContextID, StateRoot: root})
		}
		if err != nil {
			fails = append(fails, corr.Fail{Sig: "c16-crash-reference-failed", Detail: what + ": " + err.Error(), Op: -1})
			n.close()
			continue
		}
		n.powerLoss()
		got := n.snapshot()
		bad := ""
		switch got.full {
		case post.full:
			// not reverted: the engine still has block nb
			notes["revert_crash_found_old"]++
			bad = n.checkRecovered(what, nb, ref)
			if bad == "" {
				bad = n.checkRecovered(what, nb-1, ref) // and can still be rolled back
			}
		case ref.afterRevert.full:
			// reverted: an engine that already removed block nb finds its tip (an engine that did not is
			// ahead of the application: Init refuses, nothing is silently wrong)
			notes["revert_crash_found_new"]++
			bad = n.checkRecovered(what, nb-1, ref)
		default:
			bad = fmt.Sprintf("%s: the database found at restart is neither the one before the revert nor the one after it: record (%d, %x), state %s; before: record (%d, %x), state %s; after: record (%d, %x), state %s",
				what, got.height, got.root, short(got.state), post.height, post.root, short(post.state),
				ref.afterRevert.height, ref.afterRevert.root, short(ref.afterRevert.state))
			// what recovery makes of it
			if m := n.checkRecovered(what, nb, ref); m != "" {
				bad += " | " + m
			}
		}
		if bad == "" && k == ref.revertSyncs && got.full != ref.afterRevert.full {
			bad = fmt.Sprintf("%s: every sync of the revert was honoured but the revert is not durable", what)
		}
		if bad != "" {
			fails = append(fails, corr.Fail{Sig: sigCrashRevert, Detail: bad, Op: -1})
		}
		n.close()
	}
	return fails, evals, notes
}

// Extra: crash-point enumeration scenarios.
func (prop) Extra(rng *rand.Rand, tier string) corr.ExtraResult {
	res := corr.ExtraResult{Notes: map[string]any{}}
	scenarios := 4
	if tier == "thorough" {
		scenarios = 60
	}
	total := map[string]int{}
	bad := 0
	for i := 0; i < scenarios && bad < 4; i++ {
		fails, evals, notes := crashScenario(rng, i)
		res.Evaluations += evals
		for k, v := range notes {
			if strings.HasSuffix(k, "_syncs") {
				if v > total[k] {
					total[k] = v
				}
			} else {
				total[k] += v
			}
		}
		if len(fails) > 0 {
			bad++
			res.Fails = append(res.Fails, fails...)
		}
	}
	res.Notes["crash_scenarios"] = scenarios
	for k, v := range total {
		res.Notes["crash_"+k] = v
	}
	return res
}
