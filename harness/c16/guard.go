package c16

import (
	"bytes"
	"fmt"
	"sync"

	"verifharness/corr"
)

// Input purity of the application framework (sig `c16-argument-modified`): every byte string the harness
// hands INTO the framework - the keys and values of Store.Set / Del / Get, the data and the topics of
// EventQueue().Add / AddUnrevertible, the transaction parameters, asset data, state roots of the ABI requests -
// is handed over as a private copy with sentinel-filled spare capacity behind it (corr.Spare: what a caller
// holds who passes a sub-slice of a larger buffer) and is remembered together with an image of it. After
// every operation of the case all remembered slices are compared with their images: the framework may keep a
// slice it was given, but neither it nor anything it hands the slice to may write to it - not to its bytes
// and not, by an `append(arg, ...)`, to the memory behind it.

type guardEntry struct {
	what string
	buf  []byte // the slice handed over, extended to its capacity
	n    int    // its length
	img  []byte // copy of buf taken before the call
	op   int
	bad  bool
}

type argGuard struct {
	mu      sync.Mutex
	entries []*guardEntry
	op      int
}

// give returns the copy of b that is handed to the framework.
func (g *argGuard) give(what string, b []byte) []byte {
	if g == nil {
		return b
	}
	if b == nil {
		return nil
	}
	s := corr.Spare(b)
	full := s[:cap(s)]
	g.mu.Lock()
	g.entries = append(g.entries, &guardEntry{what: what, buf: full, n: len(b), img: append([]byte{}, full...), op: g.op})
	g.mu.Unlock()
	return s
}

func (g *argGuard) giveList(what string, l [][]byte) [][]byte {
	if g == nil || l == nil {
		return l
	}
	res := make([][]byte, len(l))
	for i, b := range l {
		res[i] = g.give(fmt.Sprintf("%s[%d]", what, i), b)
	}
	return res
}

// check reports every remembered slice that no longer equals its image (once).
func (g *argGuard) check() []string {
	if g == nil {
		return nil
	}
	g.mu.Lock()
	defer g.mu.Unlock()
	var out []string
	for _, e := range g.entries {
		if e.bad || bytes.Equal(e.buf, e.img) {
			continue
		}
		e.bad = true
		where := "its bytes"
		if bytes.Equal(e.buf[:e.n], e.img[:e.n]) {
			where = "the memory behind it (spare capacity of the caller's slice)"
		}
		out = append(out, fmt.Sprintf("%s handed over at op %d: %s changed: %x (+%x) became %x (+%x)", e.what, e.op, where,
			e.img[:e.n], trimSpare(e.img[e.n:]), e.buf[:e.n], trimSpare(e.buf[e.n:])))
	}
	return out
}

func (g *argGuard) reset() {
	if g == nil {
		return
	}
	g.mu.Lock()
	g.entries = nil
	g.mu.Unlock()
}

// trimSpare shortens the untouched tail of the sentinel area.
func trimSpare(b []byte) []byte {
	n := len(b)
	for n > 0 && b[n-1] == 0xA5 {
		n--
	}
	if n+2 < len(b) {
		return b[:n+2]
	}
	return b
}
