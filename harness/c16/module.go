package c16

import (
	"errors"
	"fmt"
	"strconv"
	"strings"

	"github.com/LiskHQ/lisk-engine/pkg/blockchain"
	"github.com/LiskHQ/lisk-engine/pkg/codec"
	"github.com/LiskHQ/lisk-engine/pkg/framework/blueprint"
	"github.com/LiskHQ/lisk-engine/pkg/log"
	"github.com/LiskHQ/lisk-engine/pkg/statemachine"

	"verifharness/corr"
)

// The scripted test module. A transaction's params are the text `V/P/C/A`: four sections run by
// Command.Verify, Module.BeforeCommandExecute, Command.Execute and Module.AfterCommandExecute. The
// block-level hooks run the section found in the block asset of the module. A section is a comma
// separated list of items:
//
//	s:<store>:<key>:<val>   Set in sub-store <store>
//	d:<store>:<key>         Del
//	g:<store>:<key>         Get, then a revertible event "read" (data = value) or "miss"
//	c:<store>:<key>:<val>   Get, fail unless the value is <val>
//	e:<n>:<data>            revertible event "rev" with n extra topics
//	u:<n>:<data>            unrevertible event "unr" with n extra topics
//	E:<topics>:<data>       revertible event "rev" with the given caller topics: `.` for none, else hex strings
//	                        joined by `+` (`-` is the empty topic)
//	U:<topics>:<data>       unrevertible event "unr" with the given caller topics
//	b                       revertible event with an invalid name (Add fails)
//	p / q                   take a store snapshot / restore the latest one taken by this section
//	x                       fail
//
// The section fails (returns an error) at `x`, at a failing `c` and when adding an event fails.

const (
	modName = "scr"
	cmdName = "run"
)

var (
	modA = []byte{0x00, 0x00, 0x00, 0x01}
	modB = []byte{0x00, 0x00, 0x00, 0x02}
	// (store prefix, sub-store prefix) of the scripted sub-stores
	storeTable = [][2][]byte{
		{modA, {0x00, 0x00}},
		{modA, {0x80, 0x00}},
		{modB, {0x00, 0x00}},
		{modA, {0x00, 0x01}},
	}
	errScript = errors.New("scripted failure")
)

func storeFullPrefix(i int) []byte {
	return append(append([]byte{}, storeTable[i][0]...), storeTable[i][1]...)
}

type item struct {
	kind   byte
	st     int
	key    []byte
	val    []byte
	nt     int
	topics [][]byte // caller topics of an E / U item
}

// parseTopics reads the topic list of an E / U item.
func parseTopics(s string) ([][]byte, error) {
	if s == "." {
		return [][]byte{}, nil
	}
	var res [][]byte
	for _, t := range strings.Split(s, "+") {
		b, err := unhex(t)
		if err != nil {
			return nil, err
		}
		res = append(res, b)
	}
	if len(res) > 8 {
		return nil, fmt.Errorf("bad topics %s", s)
	}
	return res, nil
}

// callerTopics are the topics the scripted module passes to Add / AddUnrevertible for an event item.
func callerTopics(it item) [][]byte {
	if it.kind == 'E' || it.kind == 'U' {
		return it.topics
	}
	t := make([][]byte, it.nt)
	for i := range t {
		t[i] = []byte{byte(i + 1)}
	}
	return t
}

func parseData(s string) ([]byte, error) {
	if strings.HasPrefix(s, "z") {
		n, err := strconv.Atoi(s[1:])
		if err != nil || n < 0 || n > 4096 {
			return nil, fmt.Errorf("bad data %s", s)
		}
		return make([]byte, n), nil
	}
	return unhex(s)
}

func unhex(s string) (b []byte, err error) {
	defer func() {
		if r := recover(); r != nil {
			err = fmt.Errorf("bad hex %s", s)
		}
	}()
	if s != "-" && (len(s)%2 != 0 || len(s) == 0) {
		return nil, fmt.Errorf("bad hex %s", s)
	}
	return corr.UnHex(s), nil
}

func parseStore(s string) (int, error) {
	n, err := strconv.Atoi(s)
	if err != nil || n < 0 || n >= len(storeTable) {
		return 0, fmt.Errorf("bad store %s", s)
	}
	return n, nil
}

func parseSection(sec string) ([]item, error) {
	if sec == "" || sec == "-" {
		return nil, nil
	}
	var items []item
	for _, txt := range strings.Split(sec, ",") {
		f := strings.Split(txt, ":")
		it := item{}
		var err error
		switch {
		case len(f) == 4 && (f[0] == "s" || f[0] == "c"):
			it.kind = f[0][0]
			if it.st, err = parseStore(f[1]); err != nil {
				return nil, err
			}
			if it.key, err = unhex(f[2]); err != nil {
				return nil, err
			}
			if it.val, err = unhex(f[3]); err != nil {
				return nil, err
			}
		case len(f) == 3 && (f[0] == "d" || f[0] == "g"):
			it.kind = f[0][0]
			if it.st, err = parseStore(f[1]); err != nil {
				return nil, err
			}
			if it.key, err = unhex(f[2]); err != nil {
				return nil, err
			}
		case len(f) == 3 && (f[0] == "e" || f[0] == "u"):
			it.kind = f[0][0]
			if it.nt, err = strconv.Atoi(f[1]); err != nil || it.nt < 0 || it.nt > 8 {
				return nil, fmt.Errorf("bad topics %s", f[1])
			}
			if it.val, err = parseData(f[2]); err != nil {
				return nil, err
			}
		case len(f) == 3 && (f[0] == "E" || f[0] == "U"):
			it.kind = f[0][0]
			if it.topics, err = parseTopics(f[1]); err != nil {
				return nil, err
			}
			it.nt = len(it.topics)
			if it.val, err = parseData(f[2]); err != nil {
				return nil, err
			}
		case len(f) == 1 && (f[0] == "b" || f[0] == "p" || f[0] == "q" || f[0] == "x"):
			it.kind = f[0][0]
		default:
			return nil, fmt.Errorf("bad item %s", txt)
		}
		items = append(items, it)
	}
	return items, nil
}

// splitScript returns the four sections of a transaction script.
func splitScript(s string) ([4]string, error) {
	var r [4]string
	f := strings.Split(s, "/")
	if len(f) != 4 {
		return r, fmt.Errorf("bad script %s", s)
	}
	copy(r[:], f)
	return r, nil
}

type changeCtx interface {
	GetStore(storePrefix, substorePrefix []byte) statemachine.Store
	EventQueue() statemachine.EventAdder
	Snapshot() int
	RestoreSnapshot(id int) error
}

// topicsArg builds the topics argument of Add / AddUnrevertible (every topic a guarded private copy).
func topicsArg(g *argGuard, it item) []codec.Hex {
	ct := callerTopics(it)
	t := make([]codec.Hex, len(ct), len(ct)+4)
	for i := range t {
		t[i] = g.give(fmt.Sprintf("event topic %d", i), ct[i])
	}
	return t
}

func runSection(g *argGuard, ctx changeCtx, sec string) error {
	items, err := parseSection(sec)
	if err != nil {
		panic(err) // harness error, not a scripted one
	}
	stack := []int{}
	for _, it := range items {
		switch it.kind {
		case 's':
			ctx.GetStore(storeTable[it.st][0], storeTable[it.st][1]).Set(g.give("Set key", it.key), g.give("Set value", it.val))
		case 'd':
			ctx.GetStore(storeTable[it.st][0], storeTable[it.st][1]).Del(g.give("Del key", it.key))
		case 'g':
			v, ok := ctx.GetStore(storeTable[it.st][0], storeTable[it.st][1]).Get(g.give("Get key", it.key))
			name := "read"
			if !ok {
				name = "miss"
			}
			if err := ctx.EventQueue().Add(modName, name, v, nil); err != nil {
				return err
			}
		case 'c':
			v, ok := ctx.GetStore(storeTable[it.st][0], storeTable[it.st][1]).Get(g.give("Get key", it.key))
			if !ok || string(v) != string(it.val) {
				return errScript
			}
		case 'e', 'E':
			if err := ctx.EventQueue().Add(modName, "rev", g.give("event data", it.val), topicsArg(g, it)); err != nil {
				return err
			}
		case 'u', 'U':
			if err := ctx.EventQueue().AddUnrevertible(modName, "unr", g.give("event data", it.val), topicsArg(g, it)); err != nil {
				return err
			}
		case 'b':
			if err := ctx.EventQueue().Add(modName, "bad_name", nil, nil); err != nil {
				return err
			}
		case 'p':
			stack = append(stack, ctx.Snapshot())
		case 'q':
			if len(stack) > 0 {
				id := stack[len(stack)-1]
				stack = stack[:len(stack)-1]
				if err := ctx.RestoreSnapshot(id); err != nil {
					return err
				}
			}
		case 'x':
			return errScript
		}
	}
	return nil
}

type scrModule struct {
	blueprint.Module
	g *argGuard
}

func (m *scrModule) Name() string { return modName }

func (m *scrModule) GetCommand(name string) (statemachine.Command, bool) {
	if name == cmdName {
		return &runCmd{g: m.g}, true
	}
	return nil, false
}

func txSections(params []byte) [4]string {
	s, err := splitScript(string(params))
	if err != nil {
		panic(err)
	}
	return s
}

func (m *scrModule) BeforeCommandExecute(ctx *statemachine.TransactionExecuteContext) error {
	return runSection(m.g, ctx, txSections(ctx.Transaction().Params())[1])
}

func (m *scrModule) AfterCommandExecute(ctx *statemachine.TransactionExecuteContext) error {
	return runSection(m.g, ctx, txSections(ctx.Transaction().Params())[3])
}

func assetSection(assets blockchain.ReadableBlockAssets) string {
	data, ok := assets.GetAsset(modName)
	if !ok {
		return ""
	}
	return string(data)
}

func (m *scrModule) BeforeTransactionsExecute(ctx *statemachine.BeforeTransactionsExecuteContext) error {
	return runSection(m.g, ctx, assetSection(ctx.BlockAssets()))
}

func (m *scrModule) AfterTransactionsExecute(ctx *statemachine.AfterTransactionsExecuteContext) error {
	return runSection(m.g, ctx, assetSection(ctx.BlockAssets()))
}

type runCmd struct{ g *argGuard }

func (c *runCmd) ID() uint32   { return 0 }
func (c *runCmd) Name() string { return cmdName }

// Verify runs the `c` and `x` items of the first section on the read-only store.
func (c *runCmd) Verify(ctx *statemachine.TransactionVerifyContext) statemachine.VerifyResult {
	items, err := parseSection(txSections(ctx.Transaction().Params())[0])
	if err != nil {
		panic(err)
	}
	for _, it := range items {
		switch it.kind {
		case 'c':
			v, ok := ctx.GetStore(storeTable[it.st][0], storeTable[it.st][1]).Get(it.key)
			if !ok || string(v) != string(it.val) {
				return statemachine.NewVerifyResultError(errScript)
			}
		case 'x':
			return statemachine.NewVerifyResultError(errScript)
		}
	}
	return statemachine.NewVerifyResultOK()
}

func (c *runCmd) Execute(ctx *statemachine.TransactionExecuteContext) error {
	return runSection(c.g, ctx, txSections(ctx.Transaction().Params())[2])
}

// nopLogger discards everything.
type nopLogger struct{}

func (nopLogger) Debug(string, ...interface{})     {}
func (nopLogger) Info(string, ...interface{})      {}
func (nopLogger) Error(string, ...interface{})     {}
func (nopLogger) Debugf(string, ...interface{})    {}
func (nopLogger) Infof(string, ...interface{})     {}
func (nopLogger) Errorf(string, ...interface{})    {}
func (nopLogger) Warning(string, ...interface{})   {}
func (nopLogger) Warningf(string, ...interface{})  {}
func (l nopLogger) With(...interface{}) log.Logger { return l }
