package c16

import (
	"fmt"
	"math/rand"
	"strings"

	"verifharness/corr"
)

// Pseudo-property C16WIDE (run as part of C16; model: Driver/ExecEvents.lean over Model/ExecEvents.lean +
// Model/Exec.lean): the scenarios of C16 - block execution, revert of the tip, restart recovery, malformed call
// sequences - over a WIDE script vocabulary:
//
//	events  0-4 events per command / hook, each with 0-3 caller topics (explicit `E:` / `U:` items) of different
//	        lengths (0..40 bytes) and contents that differ at every position, event data of every length up to
//	        the limit, revertible and unrevertible mixed, in successful and failing commands and in the hooks.
//	        EVERY field of EVERY event - module, name, index, height, the full topic list, the full data - is
//	        printed on both sides and compared by the model-free oracle (sameEvents) with the script.
//	keys    module store keys of every length 0..70 (boundaries 25/26: the state db key reaches 32/33 bytes,
//	        31/32/33, 63/64/65), keys that are prefixes of each other and keys that share a long prefix and
//	        differ in the last byte, values of 0..40 bytes. After every Commit the diff record STORED for the
//	        block is read back from the application database, decoded and printed (`diff <h>`, compared with
//	        the model's diff) and checked against the dumps and the scripts (storeddiff.go,
//	        `c16-stored-diff-keys`); reverts and restart recoveries across these blocks must restore the
//	        previous dump and root byte for byte (oracles of c16.go).
//
// Every byte string handed into the framework is guarded (guard.go, `c16-argument-modified`).

type wideProp struct{}

func init() { corr.Register(wideProp{}) }

func (wideProp) ID() string                                  { return "C16WIDE" }
func (wideProp) Parallel() int                               { return 8 }
func (wideProp) CanonModel(op, line string) string           { return prop{}.CanonModel(op, line) }
func (wideProp) RunImpl(c corr.Case) ([]string, []corr.Fail) { return runCase(c, true) }

// key lengths at which something changes: the 6-byte store prefix and the db prefix byte come in front, so
// 25/26 are the state db key lengths 32/33 (allocation size classes), 32 the hash length, 64 two hashes
var wideKeyLens = []int{0, 1, 2, 7, 8, 9, 19, 20, 24, 25, 26, 27, 31, 32, 33, 34, 38, 39, 40, 41, 57, 58, 63, 64, 65, 69, 70}
var wideTopicLens = []int{0, 1, 2, 8, 20, 32, 33, 40}
var wideDataLens = []int{0, 1, 2, 9, 32, 33, 100}

type vocab struct {
	keys  []string
	vals  []string
	evPct int // share of event items (percent)
}

func randHex(rng *rand.Rand, n int) string {
	if n == 0 {
		return "-"
	}
	b := make([]byte, n)
	for i := range b {
		b[i] = byte(rng.Intn(256))
	}
	return fmt.Sprintf("%x", b)
}

func hexOf(b []byte) string {
	if len(b) == 0 {
		return "-"
	}
	return fmt.Sprintf("%x", b)
}

func wideLen(rng *rand.Rand) int {
	if rng.Intn(2) == 0 {
		return wideKeyLens[rng.Intn(len(wideKeyLens))]
	}
	return rng.Intn(71)
}

// newVocab draws the key pool of one case: keys cut from ONE 70-byte string (every key a prefix of the longer
// ones), such keys with the last byte changed, and unrelated keys.
func newVocab(rng *rand.Rand, evPct int) *vocab {
	v := &vocab{evPct: evPct}
	base := make([]byte, 70)
	for i := range base {
		base[i] = byte(rng.Intn(256))
	}
	seen := map[string]bool{}
	for n := 5 + rng.Intn(4); len(v.keys) < n; {
		l := wideLen(rng)
		k := append([]byte{}, base[:l]...)
		switch rng.Intn(5) {
		case 0, 1:
		case 2, 3:
			if l > 0 {
				k[l-1] ^= byte(1 + rng.Intn(255))
			}
		default:
			for i := range k {
				k[i] = byte(rng.Intn(256))
			}
		}
		if h := hexOf(k); !seen[h] {
			seen[h] = true
			v.keys = append(v.keys, h)
		}
	}
	v.vals = []string{"-", "00", randHex(rng, 1), randHex(rng, 2), randHex(rng, 32), randHex(rng, rng.Intn(41))}
	return v
}

func (v *vocab) topics(rng *rand.Rand, n int) string {
	if n == 0 {
		return "."
	}
	t := make([]string, n)
	for i := range t {
		t[i] = randHex(rng, wideTopicLens[rng.Intn(len(wideTopicLens))])
	}
	return strings.Join(t, "+")
}

func (v *vocab) data(rng *rand.Rand) string {
	switch rng.Intn(40) {
	case 0:
		return "z1024" // largest event data accepted
	case 1:
		return randHex(rng, 1024)
	default:
		return randHex(rng, wideDataLens[rng.Intn(len(wideDataLens))])
	}
}

func (v *vocab) event(rng *rand.Rand) string {
	kind := "E"
	if rng.Intn(5) < 2 {
		kind = "U"
	}
	return fmt.Sprintf("%s:%s:%s", kind, v.topics(rng, rng.Intn(4)), v.data(rng))
}

// item returns one item that cannot fail by itself.
func (v *vocab) item(rng *rand.Rand) string {
	if rng.Intn(100) < v.evPct {
		if rng.Intn(12) == 0 {
			return fmt.Sprintf("%s:%d:%s", []string{"e", "u"}[rng.Intn(2)], rng.Intn(4), v.data(rng)) // the fixed topics 01, 02, 03
		}
		return v.event(rng)
	}
	st := rng.Intn(len(storeTable))
	switch r := rng.Intn(100); {
	case r < 50:
		return fmt.Sprintf("s:%d:%s:%s", st, pick(rng, v.keys), pick(rng, v.vals))
	case r < 76:
		return fmt.Sprintf("d:%d:%s", st, pick(rng, v.keys))
	case r < 88:
		return fmt.Sprintf("g:%d:%s", st, pick(rng, v.keys))
	case r < 95:
		return "p"
	default:
		return "q"
	}
}

func (v *vocab) failure(rng *rand.Rand) string {
	switch rng.Intn(10) {
	case 0:
		return "b" // invalid event name
	case 1:
		return "E:" + v.topics(rng, rng.Intn(3)) + ":z1025" // event data too large
	case 2:
		return "U:" + v.topics(rng, 4+rng.Intn(2)) + ":" + v.data(rng) // too many topics
	case 3, 4:
		return fmt.Sprintf("c:%d:%s:%s", rng.Intn(len(storeTable)), pick(rng, v.keys), pick(rng, v.vals))
	default:
		return "x"
	}
}

func (v *vocab) section(rng *rand.Rand, maxItems int, failPct int) string {
	n := rng.Intn(maxItems + 1)
	items := make([]string, 0, n+1)
	for i := 0; i < n; i++ {
		items = append(items, v.item(rng))
	}
	if rng.Intn(100) < failPct {
		pos := len(items)
		if len(items) > 0 && rng.Intn(4) == 0 {
			pos = rng.Intn(len(items) + 1)
		}
		items = append(items[:pos], append([]string{v.failure(rng)}, items[pos:]...)...)
	}
	return strings.Join(items, ",")
}

func (v *vocab) script(rng *rand.Rand) string {
	ver, p, a := "", "", ""
	if rng.Intn(8) == 0 {
		ver = v.failure(rng)
		if !strings.HasPrefix(ver, "c:") && ver != "x" {
			ver = fmt.Sprintf("c:%d:%s:%s", rng.Intn(len(storeTable)), pick(rng, v.keys), pick(rng, v.vals))
		}
	}
	if rng.Intn(3) == 0 {
		p = v.section(rng, 3, 6)
	}
	if rng.Intn(3) == 0 {
		a = v.section(rng, 3, 6)
	}
	c := v.section(rng, 7, 40)
	return ver + "/" + p + "/" + c + "/" + a
}

// sweepKey is the key of length l of the directed length sweep: 00 01 02 ... (every key a prefix of the next).
func sweepKey(l int) string {
	b := make([]byte, l)
	for i := range b {
		b[i] = byte(i)
	}
	return hexOf(b)
}

// wideSweep: keys of the lengths ls are written in block 1; block 2 overwrites, deletes and adds keys of these
// lengths; then the diff of block 2 is read, block 2 is reverted, executed again, and the application is rolled
// back by restart recovery to block 1 and to the empty state.
func wideSweep(ls []int) []string {
	var b1, b2 []string
	for i, l := range ls {
		st := i % len(storeTable)
		b1 = append(b1, fmt.Sprintf("s:%d:%s:%02x", st, sweepKey(l), 0x10+i))
		switch i % 3 {
		case 0:
			b2 = append(b2, fmt.Sprintf("s:%d:%s:%02x%02x", st, sweepKey(l), 0x80+i, l))
		case 1:
			b2 = append(b2, fmt.Sprintf("d:%d:%s", st, sweepKey(l)))
		default:
			b2 = append(b2, fmt.Sprintf("s:%d:%s:%02x", (st+1)%len(storeTable), sweepKey(l), 0xc0+i))
		}
	}
	blk2 := "etx run //" + strings.Join(b2, ",") + "/"
	return []string{"reset",
		"ism 1", "etx run //" + strings.Join(b1, ",") + "/", "dump", "commit ok", "clear", "dump", "diff 1",
		"ism 2", blk2, "dump", "commit ok", "clear", "dump", "diff 2",
		"ism 2", "revert ok", "clear", "dump",
		"ism 2", blk2, "commit ok", "clear", "dump", "diff 2",
		"restart", "init 1 ok", "dump",
		"ism 2", blk2, "commit none", "clear", "dump", "diff 2",
		"restart", "init 0 ok", "dump"}
}

func (wideProp) Generate(rng *rand.Rand, tier string) []corr.Case {
	n := 330
	if tier == "thorough" {
		n = 9000
	}
	var cases []corr.Case
	directed := [][]string{
		// an unrevertible event with its own topic, then a revertible one with other topics, then the failure:
		// the kept event carries the topics it was logged with
		{"reset", "ism 7", "etx run //U:aa01:01,E:bb02+cc03:02,x/", "etx run //U:aa01:01,E:bb02+cc03:02/", "commit ok", "clear", "dump"},
		// four events in one command, topics of different lengths, every position differs; success and failure
		{"reset", "ism 1", "etx run //E:01+0202+030303:0a,U:f1f1f1+f2f2+f3:0b,E:.:0c,U:-+e1:0d/", "dump",
			"etx run //E:01+0202+030303:0a,U:f1f1f1+f2f2+f3:0b,E:.:0c,U:-+e1:0d,x/", "dump",
			"etx run //U:11+12+13:-,U:21+22+23:-,U:31+32+33:-,x/", "commit ok", "clear", "dump"},
		// hooks: before-command, command (failing, nested store snapshot), after-command, block hooks
		{"reset", "ism 3", "bte U:a1+a2:01,E:b1:02,s:0:00:01,E:c1+c2+c3:03",
			"etx run /U:d1:04,E:d2+d3:05/E:e1+e2:06,p,s:1:00:02,U:e3+e4+e5:07,q,E:e6:08,x/U:f1:09,E:f2+f3+f4:0a", "dump",
			"ate E:a1:0b,U:a2+a3:0c,U:.:0d", "commit ok", "clear", "dump", "diff 3"},
		// dry run: events of a transaction executed outside of the block
		{"reset", "ism 1", "etx run //s:0:00:01/", "commit ok", "clear", "etx run //U:aa:01,E:bb+cc:02,g:0:00,x/ dry 9", "etx run //U:aa:01,E:bb+cc:02,g:0:00/ dry 9", "dump"},
	}
	for _, ops := range directed {
		cases = append(cases, corr.Case{Ops: ops, Tag: "directed-events"})
	}
	// every key length 0..70, ten lengths per case (consecutive lengths: the boundaries fall inside a case)
	for l := 0; l <= 70; l += 8 {
		var ls []int
		for k := l; k < l+10 && k <= 70; k++ {
			ls = append(ls, k)
		}
		cases = append(cases, corr.Case{Ops: wideSweep(ls), Tag: "directed-keys"})
	}
	for i := 0; i < n; i++ {
		tag, evPct := "mixed", 30
		switch i % 3 {
		case 0:
			tag, evPct = "events", 65
		case 1:
			tag, evPct = "keys", 6
		}
		g := &gen{rng: rng, voc: newVocab(rng, evPct)}
		g.scenario(2 + rng.Intn(7))
		cases = append(cases, corr.Case{Ops: g.ops, Tag: tag})
	}
	return cases
}

// Classify: what of the wide vocabulary a case exercised (a case is non-trivial when it is for C16 itself):
// `topics` = one call returned at least two events with caller topics, `longkeys` = a stored diff named a module
// store key of at least 26 bytes, `undo` = such a block was reverted or rolled back by a recovery.
func (wideProp) Classify(c corr.Case, out []string) string {
	base := prop{}.Classify(c, out)
	if base == "" {
		return ""
	}
	multi, long, undo := false, false, false
	for i, op := range c.Ops {
		if i >= len(out) {
			break
		}
		w := strings.Fields(op)
		switch w[0] {
		case "etx", "bte", "ate":
			if strings.Count(out[i], "+") >= 2 && strings.Count(out[i], ";") >= 1 {
				multi = true
			}
		case "diff":
			for _, f := range strings.FieldsFunc(out[i], func(r rune) bool { return r == ' ' || r == ',' || r == '=' }) {
				if len(f) >= 2*(6+26) {
					long = true
				}
			}
		case "revert", "init":
			if long && strings.HasPrefix(out[i], "ok") {
				undo = true
			}
		}
	}
	var ks []string
	if multi {
		ks = append(ks, "topics")
	}
	if long {
		ks = append(ks, "longkeys")
	}
	if undo {
		ks = append(ks, "undo")
	}
	if len(ks) == 0 {
		return "plain"
	}
	return strings.Join(ks, "+")
}
