package c16

import (
	"fmt"
	"math/rand"
	"sort"
	"strings"

	"verifharness/corr"
)

var genKeys = []string{"-", "00", "01", "ff", "0000", "0001"}
var genVals = []string{"-", "00", "01", "0102", "ff"}

func pick(rng *rand.Rand, l []string) string { return l[rng.Intn(len(l))] }

func genData(rng *rand.Rand) string {
	switch rng.Intn(12) {
	case 0:
		return "z1024" // largest event data accepted
	case 1:
		return "-"
	case 2:
		return "z9"
	default:
		return pick(rng, genVals)
	}
}

// genItem returns one item that cannot fail by itself.
func genItem(rng *rand.Rand) string {
	st := rng.Intn(len(storeTable))
	switch r := rng.Intn(100); {
	case r < 38:
		return fmt.Sprintf("s:%d:%s:%s", st, pick(rng, genKeys), pick(rng, genVals))
	case r < 58:
		return fmt.Sprintf("d:%d:%s", st, pick(rng, genKeys))
	case r < 68:
		return fmt.Sprintf("g:%d:%s", st, pick(rng, genKeys))
	case r < 80:
		return fmt.Sprintf("e:%d:%s", rng.Intn(4), genData(rng))
	case r < 90:
		return fmt.Sprintf("u:%d:%s", rng.Intn(4), genData(rng))
	case r < 95:
		return "p"
	default:
		return "q"
	}
}

// genFailure returns an item that makes the section fail (always, or depending on the state).
func genFailure(rng *rand.Rand) string {
	switch rng.Intn(10) {
	case 0:
		return "b" // invalid event name
	case 1:
		return "e:0:z1025" // event data too large
	case 2:
		return fmt.Sprintf("u:%d:00", 4+rng.Intn(2)) // too many topics
	case 3, 4:
		return fmt.Sprintf("c:%d:%s:%s", rng.Intn(len(storeTable)), pick(rng, genKeys), pick(rng, genVals))
	default:
		return "x"
	}
}

func genSection(rng *rand.Rand, maxItems int, failPct int) string {
	n := rng.Intn(maxItems + 1)
	items := make([]string, 0, n+1)
	for i := 0; i < n; i++ {
		items = append(items, genItem(rng))
	}
	if rng.Intn(100) < failPct {
		// the failure comes after some work was staged; sometimes more items follow it
		pos := len(items)
		if len(items) > 0 && rng.Intn(4) == 0 {
			pos = rng.Intn(len(items) + 1)
		}
		items = append(items[:pos], append([]string{genFailure(rng)}, items[pos:]...)...)
	}
	return strings.Join(items, ",")
}

func genScript(rng *rand.Rand) string {
	v, p, a := "", "", ""
	if rng.Intn(5) == 0 {
		v = genFailure(rng)
		if rng.Intn(2) == 0 {
			v = fmt.Sprintf("c:%d:%s:%s", rng.Intn(len(storeTable)), pick(rng, genKeys), pick(rng, genVals))
		}
	}
	if rng.Intn(4) == 0 {
		p = genSection(rng, 2, 8)
	}
	if rng.Intn(4) == 0 {
		a = genSection(rng, 2, 8)
	}
	c := genSection(rng, 7, 40)
	return v + "/" + p + "/" + c + "/" + a
}

func sectionOrDash(s string) string {
	if s == "" {
		return "-"
	}
	return s
}

type gen struct {
	rng *rand.Rand
	ops []string
	tip int // height of the engine's tip; the application is at the same height
	// voc, when set, replaces the script vocabulary (wide.go: keys of every length, events with explicit topics)
	voc *vocab
}

func (g *gen) add(op string) { g.ops = append(g.ops, op) }

func (g *gen) script() string {
	if g.voc != nil {
		return g.voc.script(g.rng)
	}
	return genScript(g.rng)
}

func (g *gen) section(maxItems, failPct int) string {
	if g.voc != nil {
		return g.voc.section(g.rng, maxItems, failPct)
	}
	return genSection(g.rng, maxItems, failPct)
}

func (g *gen) txs(n int) {
	for i := 0; i < n; i++ {
		cmd := cmdName
		if g.rng.Intn(25) == 0 {
			cmd = "nope"
		}
		script := g.script()
		if g.rng.Intn(3) == 0 {
			g.add(fmt.Sprintf("vtx %s %s", cmd, script))
		}
		if g.rng.Intn(4) > 0 {
			g.add("dump")
		}
		g.add(fmt.Sprintf("etx %s %s", cmd, script))
		g.add("dump")
	}
}

// block executes and commits one block at tip+1, as consensus.Executer.processValidated does.
func (g *gen) block() {
	h := g.tip + 1
	g.add(fmt.Sprintf("ism %d", h))
	if g.rng.Intn(3) == 0 {
		g.add("bte " + sectionOrDash(g.section(3, 5)))
	}
	g.txs(g.rng.Intn(4))
	if g.rng.Intn(3) == 0 {
		g.add("ate " + sectionOrDash(g.section(3, 5)))
	}
	if g.rng.Intn(4) == 0 {
		g.add("commit none dry") // the generator asks for the root first
	}
	switch r := g.rng.Intn(20); {
	case r == 0:
		g.add("commit bad")
		g.add("commit ok")
	case r < 4:
		g.add("commit none")
	default:
		g.add("commit ok")
	}
	g.add("clear")
	g.add("dump")
	if g.voc != nil {
		g.add(fmt.Sprintf("diff %d", h)) // the diff record stored for the block, read back and decoded
	}
	g.tip = h
}

// revert deletes the tip block, as consensus.Executer.deleteBlock does.
func (g *gen) revert() {
	g.add(fmt.Sprintf("ism %d", g.tip))
	switch r := g.rng.Intn(10); {
	case r == 0:
		g.add("revert bad")
		g.add("revert ok")
	case r < 3:
		g.add("revert none")
	default:
		g.add("revert ok")
	}
	g.add("clear")
	g.add("dump")
	g.tip--
}

// restart: the process stops (possibly in the middle of a block) and the engine comes back with
// a tip 0-3 blocks behind the application.
func (g *gen) restart() {
	if g.rng.Intn(2) == 0 {
		g.add(fmt.Sprintf("ism %d", g.tip+1))
		g.txs(1 + g.rng.Intn(2))
	}
	g.add("restart")
	back := g.rng.Intn(4)
	if back > g.tip {
		back = g.tip
	}
	e := g.tip - back
	if g.rng.Intn(15) == 0 {
		g.add(fmt.Sprintf("init %d bad", e))
	} else {
		g.add(fmt.Sprintf("init %d ok", e))
	}
	g.add("dump")
	g.tip = e
}

func (g *gen) malformed() {
	switch g.rng.Intn(9) {
	case 0: // calls without an execution context
		g.add("etx run " + g.script())
		g.add("commit none")
		g.add("revert none")
		g.add("bte -")
	case 1: // a second context
		g.add(fmt.Sprintf("ism %d", g.tip+1))
		g.add(fmt.Sprintf("ism %d", g.tip+2))
		g.add("clear")
	case 2: // the engine is ahead of the application
		g.add("restart")
		g.add(fmt.Sprintf("init %d ok", g.tip+1+g.rng.Intn(2)))
	case 3: // revert of a height that was never committed
		g.add(fmt.Sprintf("ism %d", g.tip+5))
		g.add("revert none")
		g.add("clear")
	case 4: // dry run of a transaction outside of / inside a block
		if g.rng.Intn(2) == 0 {
			g.add(fmt.Sprintf("ism %d", g.tip+1))
			g.txs(1)
			g.add(fmt.Sprintf("etx run %s dry %d", g.script(), g.tip+7))
			g.add("dump")
			g.add("clear")
		} else {
			g.add(fmt.Sprintf("etx run %s dry %d", g.script(), g.tip+7))
			g.add("dump")
		}
	case 5: // a request without the consensus parameters
		g.add(fmt.Sprintf("ism %d", g.tip+1))
		g.add("etx run " + g.script() + " nc")
		g.add("dump")
		g.add("clear")
	case 6: // the context is used again after the commit
		g.add(fmt.Sprintf("ism %d", g.tip+1))
		g.txs(1)
		g.add("commit ok")
		g.txs(1)
		g.add("commit none")
		g.add("clear")
		g.add("dump")
		g.tip++
	case 7: // finalize drops the diffs a later recovery needs
		g.add(fmt.Sprintf("fin %d", g.rng.Intn(g.tip+2)))
	case 8: // transaction verified outside of a block
		g.add(fmt.Sprintf("vtx run %s", g.script()))
	}
}

func (g *gen) scenario(steps int) {
	g.add("reset")
	for i := 0; i < steps; i++ {
		switch r := g.rng.Intn(100); {
		case r < 62 || g.tip == 0 && r < 85:
			g.block()
		case r < 76:
			g.revert()
		case r < 90:
			g.restart()
		default:
			g.malformed()
		}
	}
}

func (prop) Generate(rng *rand.Rand, tier string) []corr.Case {
	n := 1500
	if tier == "thorough" {
		n = 36000
	}
	cases := make([]corr.Case, 0, n+8)
	// directed cases: the boundary behaviours named in the property
	directed := [][]string{
		// a failing command after sets, deletes and both kinds of events
		{"reset", "ism 1", "etx run //s:0:00:01,s:1:-:0102/", "commit ok", "clear", "ism 2", "dump",
			"etx run //s:0:00:ff,d:1:-,s:2:01:00,e:1:01,u:2:02,g:0:00,x/", "dump", "commit ok", "clear", "dump"},
		// deletion of a committed key: the root must be the root of the state without the key
		{"reset", "ism 1", "etx run //s:0:00:01,s:0:01:02,s:2:-:-/", "commit ok", "clear", "ism 2", "etx run //d:0:00/", "dump", "commit ok", "clear", "dump",
			"ism 2", "revert ok", "clear", "dump"},
		// restart with the application 1, 2 and 3 blocks ahead
		{"reset", "ism 1", "etx run //s:0:00:01/", "commit ok", "clear", "ism 2", "etx run //s:0:01:02,d:0:00/", "commit ok", "clear",
			"ism 3", "etx run //s:1:ff:00/", "commit ok", "clear", "ism 4", "etx run //d:0:01,s:3:-:01/", "commit ok", "clear", "dump",
			"restart", "init 3 ok", "dump", "restart", "init 1 ok", "dump", "restart", "init 1 ok", "dump",
			"ism 2", "etx run //s:0:00:05/", "commit ok", "clear", "dump"},
		{"reset", "ism 1", "etx run //s:0:00:01/", "commit ok", "clear", "ism 2", "etx run //s:0:01:02/", "commit ok", "clear",
			"ism 3", "etx run //s:0:ff:03/", "commit ok", "clear", "restart", "init 0 ok", "dump"},
		// the second transaction of a block is verified against the state left by the first
		{"reset", "ism 1", "vtx run c:0:00:01///", "etx run //s:0:00:01/", "vtx run c:0:00:01///", "etx run c:0:00:01//c:0:00:01,d:0:00/", "dump", "commit ok", "clear", "dump"},
		// hooks around a failing command are kept
		{"reset", "ism 1", "bte s:0:00:01,e:0:01", "etx run /s:1:00:01,e:0:aa/s:1:00:02,e:1:bb,u:0:cc,x/s:1:01:03,u:0:dd", "dump", "ate d:0:00,u:3:01", "commit ok", "clear", "dump"},
	}
	for _, ops := range directed {
		cases = append(cases, corr.Case{Ops: ops, Tag: "directed"})
	}
	for i := 0; i < n; i++ {
		g := &gen{rng: rng}
		g.scenario(2 + rng.Intn(7))
		cases = append(cases, corr.Case{Ops: g.ops, Tag: "random"})
	}
	return cases
}

// Classify names the behaviours a case exercised; trivial cases (nothing staged survives or is
// rolled back) get no class.
func (prop) Classify(c corr.Case, out []string) string {
	kinds := map[string]bool{}
	for i, op := range c.Ops {
		if i >= len(out) {
			break
		}
		w := strings.Fields(op)
		switch w[0] {
		case "etx":
			sec := strings.Split(w[2], "/")
			staged := len(sec) == 4 && (strings.Contains(sec[2], "s:") || strings.Contains(sec[2], "d:"))
			switch {
			case strings.HasPrefix(out[i], "res=0") && staged:
				kinds["rollback"] = true
			case strings.HasPrefix(out[i], "res=0"):
				kinds["fail"] = true
			case strings.HasPrefix(out[i], "res=1") && staged:
				kinds["success"] = true
			case strings.HasPrefix(out[i], "res=-1"):
				kinds["invalid"] = true
			}
		case "commit":
			if strings.HasPrefix(out[i], "ok") && len(w) == 2 {
				kinds["commit"] = true
			}
		case "revert":
			if strings.HasPrefix(out[i], "ok") {
				kinds["revert"] = true
			}
		case "init":
			if strings.HasPrefix(out[i], "ok") && i > 0 {
				kinds["recover"] = true
			}
		}
	}
	if !kinds["rollback"] && !kinds["commit"] && !kinds["revert"] && !kinds["recover"] {
		return ""
	}
	ks := []string{}
	for k := range kinds {
		ks = append(ks, k)
	}
	sort.Strings(ks)
	return strings.Join(ks, "+")
}
