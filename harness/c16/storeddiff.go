package c16

import (
	"bytes"
	"fmt"
	"sort"
	"strings"

	"github.com/LiskHQ/lisk-engine/pkg/db/diffdb"
	"github.com/LiskHQ/lisk-engine/pkg/framework"

	"verifharness/corr"
)

// The diff record the application stores for every committed block (state db, prefix StateDBPrefixDiff, key =
// height) is what Revert and the restart recovery (ABIHandler.Init) undo the block with. Oracle (model-free,
// after every Commit of a block whose execution the specification interpreter followed; sig
// `c16-stored-diff-keys`): the record read back from the database and decoded names
//
//   - as Added exactly the state keys present after the block and absent before it,
//   - as Deleted exactly the keys present before and absent after, each with the value it had before,
//   - as Updated every key present before and after whose value changed (with the previous value), and nothing
//     but keys the scripts of the block set or deleted that were present before and after,
//
// no key twice. `before` is the database dump taken before the block, `after` the one taken after the commit,
// the touched keys come from the scripts of the op lines.

// storedDiff reads the diff of a height back from the application database.
func (r *runner) storedDiff(h uint32) (*diffdb.Diff, bool) {
	key := append(append([]byte{}, framework.StateDBPrefixDiff...), byte(h>>24), byte(h>>16), byte(h>>8), byte(h))
	v, ok := r.stateDB.Get(key)
	if !ok {
		return nil, false
	}
	d := &diffdb.Diff{}
	if err := d.Decode(v); err != nil {
		return nil, false
	}
	return d, true
}

func stripDBPrefix(k []byte) string {
	if len(k) == 0 {
		return "!"
	}
	if k[0] != framework.StateDBPrefixState[0] {
		return "!" + corr.Hex(k)
	}
	return corr.Hex(k[1:])
}

// showDiff: `a=<key>,.. u=<key>=<previous value>,.. d=<key>=<previous value>,..`, each list sorted (the
// stored order is the iteration order of a Go map).
func showDiff(d *diffdb.Diff) string {
	list := func(l []string) string {
		if len(l) == 0 {
			return "-"
		}
		sort.Strings(l)
		return strings.Join(l, ",")
	}
	var a, u, del []string
	for _, k := range d.Added {
		a = append(a, stripDBPrefix(k))
	}
	for _, kv := range d.Updated {
		u = append(u, stripDBPrefix(kv.Key)+"="+corr.Hex(kv.Value))
	}
	for _, kv := range d.Deleted {
		del = append(del, stripDBPrefix(kv.Key)+"="+corr.Hex(kv.Value))
	}
	return "a=" + list(a) + " u=" + list(u) + " d=" + list(del)
}

func (r *runner) checkStoredDiff(h uint32, before, after map[string][]byte) {
	d, ok := r.storedDiff(h)
	if !ok {
		r.fail("c16-stored-diff-keys", fmt.Sprintf("no decodable diff is stored for the block committed at height %d", h))
		return
	}
	var bad []string
	seen := map[string]bool{}
	key := func(kind string, k []byte) (string, bool) {
		if len(k) == 0 || k[0] != framework.StateDBPrefixState[0] {
			bad = append(bad, fmt.Sprintf("%s key %x does not carry the state prefix", kind, k))
			return "", false
		}
		s := string(k[1:])
		if seen[s] {
			bad = append(bad, fmt.Sprintf("key %x is named twice", k[1:]))
			return "", false
		}
		seen[s] = true
		return s, true
	}
	added, deleted, updated := map[string]bool{}, map[string]bool{}, map[string]bool{}
	for _, k := range d.Added {
		s, ok := key("added", k)
		if !ok {
			continue
		}
		added[s] = true
		_, inB := before[s]
		_, inA := after[s]
		if inB || !inA {
			bad = append(bad, fmt.Sprintf("added key %x: present before the block %v, present after it %v (the block did not add this key)", s, inB, inA))
		}
	}
	for _, kv := range d.Deleted {
		s, ok := key("deleted", kv.Key)
		if !ok {
			continue
		}
		deleted[s] = true
		vB, inB := before[s]
		_, inA := after[s]
		if !inB || inA {
			bad = append(bad, fmt.Sprintf("deleted key %x: present before the block %v, present after it %v (the block did not delete this key)", s, inB, inA))
		} else if !bytes.Equal(vB, kv.Value) {
			bad = append(bad, fmt.Sprintf("deleted key %x: recorded previous value %x, the value before the block was %x", s, []byte(kv.Value), vB))
		}
	}
	for _, kv := range d.Updated {
		s, ok := key("updated", kv.Key)
		if !ok {
			continue
		}
		updated[s] = true
		vB, inB := before[s]
		_, inA := after[s]
		if !inB || !inA {
			bad = append(bad, fmt.Sprintf("updated key %x: present before the block %v, present after it %v", s, inB, inA))
		} else if !bytes.Equal(vB, kv.Value) {
			bad = append(bad, fmt.Sprintf("updated key %x: recorded previous value %x, the value before the block was %x", s, []byte(kv.Value), vB))
		}
		if !r.touched[s] {
			bad = append(bad, fmt.Sprintf("updated key %x was neither set nor deleted by the scripts of the block", s))
		}
	}
	for _, k := range sortedKeys(after) {
		vB, inB := before[k]
		switch {
		case !inB && !added[k]:
			bad = append(bad, fmt.Sprintf("key %x (%d bytes) was added by the block and is not among the added keys", k, len(k)))
		case inB && !bytes.Equal(vB, after[k]) && !updated[k]:
			bad = append(bad, fmt.Sprintf("key %x (%d bytes) was changed by the block and is not among the updated keys", k, len(k)))
		}
	}
	for _, k := range sortedKeys(before) {
		if _, inA := after[k]; !inA && !deleted[k] {
			bad = append(bad, fmt.Sprintf("key %x (%d bytes) was deleted by the block and is not among the deleted keys", k, len(k)))
		}
	}
	if len(bad) > 0 {
		if len(bad) > 4 {
			bad = append(bad[:4], fmt.Sprintf("... %d more", len(bad)-4))
		}
		r.fail("c16-stored-diff-keys", fmt.Sprintf("diff stored for height %d: %s: %s", h, showDiff(d), strings.Join(bad, "; ")))
	}
}
