// Package c16: correspondence and model-free oracle for transaction execution atomicity
// (pkg/statemachine ExecuteTransaction + EventLogger) and for the application state root
// (pkg/framework ABIHandler Commit / Revert / Init recovery over diffdb and the sparse Merkle trie).
//
// The real framework.ABIHandler + statemachine.Executer are driven in-process, with the ABI call
// sequence of the consensus engine, over in-memory pebble databases and a scripted module
// (module.go). See DESIGN.md "C16".
package c16

import (
	"bytes"
	"context"
	"crypto/sha256"
	"fmt"
	"regexp"
	"sort"
	"strconv"
	"strings"
	"sync"

	"github.com/LiskHQ/lisk-engine/pkg/blockchain"
	"github.com/LiskHQ/lisk-engine/pkg/codec"
	"github.com/LiskHQ/lisk-engine/pkg/db"
	"github.com/LiskHQ/lisk-engine/pkg/framework"
	"github.com/LiskHQ/lisk-engine/pkg/framework/config"
	"github.com/LiskHQ/lisk-engine/pkg/labi"
	"github.com/LiskHQ/lisk-engine/pkg/statemachine"
	"github.com/LiskHQ/lisk-engine/pkg/trie/smt"

	"verifharness/corr"
)

type prop struct{}

func init() { corr.Register(prop{}) }

func (prop) ID() string    { return "C16" }
func (prop) Parallel() int { return 8 }

const (
	treeKeyLen = 38
	hashLen    = 32
)

var (
	bogusRoot = bytes.Repeat([]byte{0xbb}, hashLen)
	emptyRoot = sha256Sum(nil)
)

func sha256Sum(b []byte) []byte {
	h := sha256.Sum256(b)
	return h[:]
}

// memKV is the node store of the reference trie.
type memKV struct {
	mu sync.Mutex
	m  map[string][]byte
}

func (d *memKV) Get(k []byte) ([]byte, bool) {
	d.mu.Lock()
	defer d.mu.Unlock()
	v, ok := d.m[string(k)]
	return v, ok
}
func (d *memKV) Set(k, v []byte) {
	d.mu.Lock()
	defer d.mu.Unlock()
	d.m[string(k)] = append([]byte{}, v...)
}
func (d *memKV) Del(k []byte) {
	d.mu.Lock()
	defer d.mu.Unlock()
	delete(d.m, string(k))
}

// freshRootOfLeaves builds a new sparse Merkle trie holding exactly the given leaves.
func freshRootOfLeaves(keys, values [][]byte) []byte {
	if len(keys) == 0 {
		return emptyRoot
	}
	tree := smt.NewTrie(nil, treeKeyLen)
	root, err := tree.Update(&memKV{m: map[string][]byte{}}, keys, values)
	if err != nil {
		panic(err)
	}
	return root
}

// treeKey is the specification of the SMT key of a state key (without the state-db prefix byte):
// the 6-byte module store prefix followed by the hash of the rest.
func treeKey(k []byte) []byte {
	return append(append([]byte{}, k[:6]...), sha256Sum(k[6:])...)
}

// freshRootOfState is the reference state root: a fresh trie over exactly the given state.
func freshRootOfState(m map[string][]byte) []byte {
	ks := sortedKeys(m)
	keys := make([][]byte, len(ks))
	values := make([][]byte, len(ks))
	for i, k := range ks {
		keys[i] = treeKey([]byte(k))
		values[i] = sha256Sum(m[k])
	}
	return freshRootOfLeaves(keys, values)
}

func sortedKeys(m map[string][]byte) []string {
	ks := make([]string, 0, len(m))
	for k := range m {
		ks = append(ks, k)
	}
	sort.Strings(ks)
	return ks
}

func copyMap(m map[string][]byte) map[string][]byte {
	r := make(map[string][]byte, len(m))
	for k, v := range m {
		r[k] = v
	}
	return r
}

func dumpMap(m map[string][]byte) string {
	ks := sortedKeys(m)
	if len(ks) == 0 {
		return "-"
	}
	parts := make([]string, len(ks))
	for i, k := range ks {
		parts[i] = corr.Hex([]byte(k)) + "=" + corr.Hex(m[k])
	}
	return strings.Join(parts, ",")
}

func kvsToMap(kvs []db.KeyValue, strip int) map[string][]byte {
	m := map[string][]byte{}
	for _, kv := range kvs {
		m[string(kv.Key()[strip:])] = append([]byte{}, kv.Value()...)
	}
	return m
}

var leavesRe = regexp.MustCompile(`@([0-9a-f]+|-)`)
var rootCache sync.Map

// CanonModel replaces every abstract root of the model (`@` + the sorted leaves of the state tree,
// 38-byte key and 32-byte value each) by the root of a fresh sparse Merkle trie over these leaves.
func (prop) CanonModel(op, line string) string {
	if !strings.Contains(line, "@") {
		return line
	}
	return leavesRe.ReplaceAllStringFunc(line, func(tok string) string {
		if r, ok := rootCache.Load(tok); ok {
			return r.(string)
		}
		raw := corr.UnHex(tok[1:])
		res := "badleaves"
		if len(raw)%(treeKeyLen+hashLen) == 0 {
			var keys, values [][]byte
			for i := 0; i < len(raw); i += treeKeyLen + hashLen {
				keys = append(keys, raw[i:i+treeKeyLen])
				values = append(values, raw[i+treeKeyLen:i+treeKeyLen+hashLen])
			}
			res = corr.Hex(freshRootOfLeaves(keys, values))
		}
		rootCache.Store(tok, res)
		return res
	})
}

// ---------------------------------------------------------------------------------------------
// runner

type specEvent struct {
	name   string
	data   []byte
	nt     int      // topics including the default topic
	topics [][]byte // the topics the caller gave for THIS event (the default topic comes before them)
}

type runner struct {
	stateDB  *db.DB
	moduleDB *db.DB
	handler  *framework.ABIHandler

	// what the engine remembers
	ctxID     []byte
	ctxHeight uint32
	txs       []*blockchain.Transaction
	nonce     uint64
	roots     map[uint32][]byte
	curRoot   []byte

	// reference (oracle) state
	refDB       map[string][]byte
	refDBKnown  bool
	refStaged   map[string][]byte // nil: no context or unknown
	refHeight   uint32
	before      map[uint32]map[string][]byte // committed state before the commit at height h
	prevHeight  map[uint32]uint32            // application height before the commit at height h
	diffAt      map[uint32]bool
	committed   bool // the current context was committed already
	lastTxFail  bool
	lastOpDump  bool   // the previous op was a dump
	lastDumpSt  string // the staged state it showed
	atomicCheck bool   // a command without hooks failed right after that dump
	fails       []corr.Fail
	opIdx       int
	dbsToClose  []*db.DB
	treeStateOK bool

	full    bool            // print every field of every event (the wide pseudo-property C16WIDE)
	guard   *argGuard       // the byte strings handed into the framework (guard.go)
	touched map[string]bool // state keys (without the db prefix) the scripts of the current context set or deleted
}

func (r *runner) fail(sig, detail string) {
	r.fails = append(r.fails, corr.Fail{Sig: sig, Detail: detail, Op: r.opIdx})
}

func (r *runner) newHandler() {
	exec := statemachine.NewExecuter()
	exec.Init(nopLogger{})
	mod := &scrModule{g: r.guard}
	if err := exec.AddModule(mod); err != nil {
		panic(err)
	}
	r.handler = framework.NewABIHandler(context.Background(), &config.ApplicationConfig{}, nopLogger{}, exec, nil,
		r.stateDB, r.moduleDB, []framework.Module{mod})
	r.ctxID = nil
	r.txs = nil
	r.refStaged = nil
}

func (r *runner) reset() {
	r.close()
	var err error
	if r.stateDB, err = db.NewInMemoryDB(); err != nil {
		panic(err)
	}
	if r.moduleDB, err = db.NewInMemoryDB(); err != nil {
		panic(err)
	}
	r.dbsToClose = []*db.DB{r.stateDB, r.moduleDB}
	r.roots = map[uint32][]byte{}
	r.curRoot = emptyRoot
	r.refDB = map[string][]byte{}
	r.refDBKnown = true
	r.refHeight = 0
	r.before = map[uint32]map[string][]byte{}
	r.prevHeight = map[uint32]uint32{}
	r.diffAt = map[uint32]bool{}
	r.nonce = 0
	r.guard = &argGuard{}
	r.touched = map[string]bool{}
	r.newHandler()
}

func (r *runner) close() {
	for _, d := range r.dbsToClose {
		d.Close()
	}
	r.dbsToClose = nil
}

func (r *runner) dbState() map[string][]byte {
	return kvsToMap(r.stateDB.Iterate(framework.StateDBPrefixState, -1, false), 1)
}

func (r *runner) treeState() (uint32, []byte, bool) {
	v, ok := r.stateDB.Get(framework.StateDBPrefixTreeState)
	if !ok || len(v) < 4 {
		return 0, nil, false
	}
	return uint32(v[0])<<24 | uint32(v[1])<<16 | uint32(v[2])<<8 | uint32(v[3]), v[4:], true
}

func (r *runner) showTreeState() string {
	h, root, ok := r.treeState()
	if !ok {
		return "ts=none"
	}
	return fmt.Sprintf("ts=%d:%s", h, corr.Hex(root))
}

func header(height uint32) *blockchain.BlockHeader {
	return &blockchain.BlockHeader{
		Version:          2,
		Timestamp:        height * 10,
		Height:           height,
		PreviousBlockID:  bytes.Repeat([]byte{1}, 32),
		GeneratorAddress: bytes.Repeat([]byte{2}, 20),
		TransactionRoot:  emptyRoot,
		AssetRoot:        emptyRoot,
		EventRoot:        emptyRoot,
		StateRoot:        emptyRoot,
		ValidatorsHash:   emptyRoot,
		AggregateCommit:  &blockchain.AggregateCommit{AggregationBits: []byte{}, CertificateSignature: []byte{}},
		Signature:        bytes.Repeat([]byte{3}, 64),
	}
}

func consensus() *labi.Consensus {
	return &labi.Consensus{CurrentValidators: []*labi.Validator{}}
}

func (r *runner) newTx(cmd, script string) *blockchain.Transaction {
	r.nonce++
	tx := &blockchain.Transaction{
		Module:          modName,
		Command:         cmd,
		Nonce:           r.nonce,
		SenderPublicKey: bytes.Repeat([]byte{7}, 32),
		Params:          r.guard.give("transaction params", []byte(script)),
		Signatures:      []codec.Hex{bytes.Repeat([]byte{9}, 64)},
	}
	tx.Init()
	return tx
}

func showData(d []byte) string {
	if len(d) > 8 {
		return "len" + strconv.Itoa(len(d))
	}
	return corr.Hex(d)
}

func showEvents(evs []*blockchain.Event) string {
	if len(evs) == 0 {
		return "-"
	}
	parts := make([]string, len(evs))
	for i, e := range evs {
		parts[i] = fmt.Sprintf("%s.%s.%d.%d.%d.%s", e.Module, e.Name, e.Index, e.Height, len(e.Topics), showData(e.Data))
	}
	return strings.Join(parts, ";")
}

// showTopics renders a topic list: `T` stands for the default topic of the call (the transaction id / the
// constant of the block hook) in first position, every other topic is printed in full.
func showTopics(topics []codec.Hex, def []byte) string {
	if len(topics) == 0 {
		return "none"
	}
	parts := make([]string, len(topics))
	for i, t := range topics {
		if i == 0 && bytes.Equal(t, def) {
			parts[i] = "T"
		} else {
			parts[i] = corr.Hex(t)
		}
	}
	return strings.Join(parts, "+")
}

// showEventsFull prints EVERY field of every event: module, name, index, height, the whole topic list, the data.
func showEventsFull(evs []*blockchain.Event, def []byte) string {
	if len(evs) == 0 {
		return "-"
	}
	parts := make([]string, len(evs))
	for i, e := range evs {
		parts[i] = fmt.Sprintf("%s.%s.%d.%d.%s.%s", e.Module, e.Name, e.Index, e.Height, showTopics(e.Topics, def), corr.Hex(e.Data))
	}
	return strings.Join(parts, ";")
}

func (r *runner) showEv(evs []*blockchain.Event, def []byte) string {
	if r.full {
		return showEventsFull(evs, def)
	}
	return showEvents(evs)
}

// touch records the state keys the items of a section set or delete.
func (r *runner) touch(sec string) {
	items, err := parseSection(sec)
	if err != nil || r.touched == nil {
		return
	}
	for _, it := range items {
		if it.kind == 's' || it.kind == 'd' {
			r.touched[string(append(storeFullPrefix(it.st), it.key...))] = true
		}
	}
}

// ---------------------------------------------------------------------------------------------
// specification of a script section on a plain map

// specSection applies the items to m (in place); it returns false when the section fails.
func specSection(m map[string][]byte, sec string, evs *[]specEvent, revertible *[]bool) bool {
	items, err := parseSection(sec)
	if err != nil {
		panic(err)
	}
	var stack []map[string][]byte
	restore := func(s map[string][]byte) {
		for k := range m {
			delete(m, k)
		}
		for k, v := range s {
			m[k] = v
		}
	}
	add := func(name string, data []byte, topics [][]byte, rev bool) bool {
		nt := len(topics)
		if nt+1 > 4 || len(data) > 1024 || strings.Contains(name, "_") {
			return false
		}
		*evs = append(*evs, specEvent{name: name, data: data, nt: nt + 1, topics: topics})
		*revertible = append(*revertible, rev)
		return true
	}
	for _, it := range items {
		full := string(append(storeFullPrefix(it.st), it.key...))
		switch it.kind {
		case 's':
			m[full] = it.val
		case 'd':
			delete(m, full)
		case 'g':
			v, ok := m[full]
			name := "read"
			if !ok {
				name = "miss"
			}
			if !add(name, v, nil, true) {
				return false
			}
		case 'c':
			v, ok := m[full]
			if !ok || string(v) != string(it.val) {
				return false
			}
		case 'e', 'E':
			if !add("rev", it.val, callerTopics(it), true) {
				return false
			}
		case 'u', 'U':
			if !add("unr", it.val, callerTopics(it), false) {
				return false
			}
		case 'b':
			return false
		case 'p':
			stack = append(stack, copyMap(m))
		case 'q':
			if len(stack) > 0 {
				restore(stack[len(stack)-1])
				stack = stack[:len(stack)-1]
			}
		case 'x':
			return false
		}
	}
	return true
}

// specTx is the specification of ExecuteTransaction: result code, the events and the new state.
// known is false when the property says nothing about the resulting state (invalid transactions).
func specTx(state map[string][]byte, cmd, script string) (code int32, evs []specEvent, next map[string][]byte, known bool, cmdFailed bool) {
	sec, err := splitScript(script)
	if err != nil {
		panic(err)
	}
	next = copyMap(state)
	var rev []bool
	if !specSection(next, sec[1], &evs, &rev) {
		return labi.TxExecuteResultInvalid, nil, nil, false, false
	}
	if cmd != cmdName {
		return labi.TxExecuteResultInvalid, nil, nil, false, false
	}
	// the command runs on a copy: a failure leaves the state as it was before the command
	work := copyMap(next)
	var cevs []specEvent
	var crev []bool
	ok := specSection(work, sec[2], &cevs, &crev)
	if ok {
		next = work
		evs = append(evs, cevs...)
	} else {
		for i, e := range cevs {
			if !crev[i] {
				evs = append(evs, e)
			}
		}
	}
	if !specSection(next, sec[3], &evs, &rev) {
		return labi.TxExecuteResultInvalid, nil, nil, false, !ok
	}
	evs = append(evs, specEvent{name: blockchain.EventNameDefault, data: blockchain.NewStandardTransactionEventData(ok), nt: 1})
	if ok {
		return labi.TxExecuteResultSuccess, evs, next, true, false
	}
	return labi.TxExecuteResultFail, evs, next, true, true
}

func (r *runner) checkEventShape(evs []*blockchain.Event, height uint32, topic []byte) {
	for i, e := range evs {
		if e.Index != uint32(i) {
			r.fail("event-index-not-consecutive", fmt.Sprintf("event %d has index %d: %s", i, e.Index, showEvents(evs)))
			break
		}
	}
	for _, e := range evs {
		if e.Height != height {
			r.fail("event-height", fmt.Sprintf("event height %d, block height %d", e.Height, height))
			break
		}
		if len(e.Topics) == 0 || !bytes.Equal(e.Topics[0], topic) {
			r.fail("event-default-topic", fmt.Sprintf("first topic of %s.%s is not the default topic", e.Module, e.Name))
			break
		}
	}
}

// sameEvents compares EVERY field of EVERY event with the specification: module, name, data, the whole topic
// list (the default topic of the call followed by the topics the script gave for THIS event), height and index.
func sameEvents(evs []*blockchain.Event, want []specEvent, def []byte, height uint32) bool {
	if len(evs) != len(want) {
		return false
	}
	for i, e := range evs {
		if e.Module != modName || e.Name != want[i].name || !bytes.Equal(e.Data, want[i].data) || len(e.Topics) != want[i].nt {
			return false
		}
		if e.Index != uint32(i) || e.Height != height {
			return false
		}
		if len(e.Topics) != 1+len(want[i].topics) || !bytes.Equal(e.Topics[0], def) {
			return false
		}
		for j, t := range want[i].topics {
			if !bytes.Equal(e.Topics[1+j], t) {
				return false
			}
		}
	}
	return true
}

func showSpecEvents(evs []specEvent) string {
	parts := make([]string, len(evs))
	for i, e := range evs {
		ts := []string{"T"}
		for _, t := range e.topics {
			ts = append(ts, corr.Hex(t))
		}
		parts[i] = fmt.Sprintf("%s.%s.%d.%s.%s", modName, e.name, i, strings.Join(ts, "+"), showData(e.data))
	}
	return strings.Join(parts, ";")
}

// showGot renders events for the details of oracle failures (all topics).
func showGot(evs []*blockchain.Event, def []byte) string {
	if len(evs) == 0 {
		return "-"
	}
	parts := make([]string, len(evs))
	for i, e := range evs {
		parts[i] = fmt.Sprintf("%s.%s.%d.%s.%s", e.Module, e.Name, e.Index, showTopics(e.Topics, def), showData(e.Data))
	}
	return strings.Join(parts, ";")
}

// ---------------------------------------------------------------------------------------------

func (r *runner) step(op string) string {
	w := strings.Fields(op)
	wasDump := r.lastOpDump
	r.lastOpDump = w[0] == "dump"
	if w[0] != "dump" && w[0] != "etx" {
		r.atomicCheck = false
	}
	switch w[0] {
	case "reset":
		r.reset()
		return "ok"

	case "restart":
		r.newHandler()
		return "ok"

	case "ism":
		h := uint32(atoi(w[1]))
		res, err := r.handler.InitStateMachine(&labi.InitStateMachineRequest{Header: header(h)})
		if err != nil {
			return "err"
		}
		r.ctxID, r.ctxHeight, r.txs = res.ContextID, h, nil
		r.committed = false
		r.touched = map[string]bool{}
		r.refStaged = nil
		if r.refDBKnown {
			r.refStaged = copyMap(r.refDB)
		}
		return "ok"

	case "clear":
		if _, err := r.handler.Clear(&labi.ClearRequest{}); err != nil {
			return "err"
		}
		r.ctxID, r.txs, r.refStaged = nil, nil, nil
		return "ok"

	case "bte", "ate":
		sec := w[1]
		assets := []*blockchain.BlockAsset{{Module: modName, Data: r.guard.give("asset data", []byte(sec))}}
		var evs []*blockchain.Event
		var err error
		r.touch(sec)
		topic := statemachine.EventTopicBeforeTransactionsExecute
		if w[0] == "bte" {
			var res *labi.BeforeTransactionsExecuteResponse
			res, err = r.handler.BeforeTransactionsExecute(&labi.BeforeTransactionsExecuteRequest{ContextID: r.ctxID, Assets: assets, Consensus: consensus()})
			if err == nil {
				evs = res.Events
			}
		} else {
			topic = statemachine.EventTopicAfterTransactionsExecute
			var res *labi.AfterTransactionsExecuteResponse
			res, err = r.handler.AfterTransactionsExecute(&labi.AfterTransactionsExecuteRequest{ContextID: r.ctxID, Assets: assets, Consensus: consensus(), Transactions: r.txs})
			if err == nil {
				evs = res.Events
			}
		}
		r.lastTxFail = false
		if err != nil {
			r.refStaged = nil // a failed block hook: the engine drops the block
			return "err"
		}
		r.checkEventShape(evs, r.ctxHeight, topic)
		if r.refStaged != nil {
			var want []specEvent
			var rev []bool
			if !specSection(r.refStaged, sec, &want, &rev) {
				r.fail("block-hook-verdict", op+": hook succeeded, the script fails")
				r.refStaged = nil
			} else if !sameEvents(evs, want, topic, r.ctxHeight) {
				r.fail("block-hook-events", fmt.Sprintf("%s: got %s want %s", op, showGot(evs, topic), showSpecEvents(want)))
			}
		}
		return "ok ev=" + r.showEv(evs, topic)

	case "vtx":
		tx := r.newTx(w[1], w[2])
		res, err := r.handler.VerifyTransaction(&labi.VerifyTransactionRequest{ContextID: r.ctxID, Transaction: tx})
		if err != nil {
			return "err"
		}
		// specification: inside a block the transaction is verified against the state of the block so far
		var view map[string][]byte
		if r.ctxID != nil {
			view = r.refStaged
		} else if r.refDBKnown {
			view = r.refDB
		}
		if view != nil {
			sec, _ := splitScript(w[2])
			var evs []specEvent
			var rev []bool
			want := labi.TxVerifyResultInvalid
			if w[1] == cmdName && specSection(copyMap(view), verifyOnly(sec[0]), &evs, &rev) {
				want = labi.TxVerifyResultOk
			}
			if res.Result != want {
				r.fail("verify-tx-not-on-block-state", fmt.Sprintf("%s: result %d want %d", op, res.Result, want))
			}
		}
		return fmt.Sprintf("res=%d", res.Result)

	case "etx":
		// etx <cmd> <script> [dry <height>] [nc]
		tx := r.newTx(w[1], w[2])
		req := &labi.ExecuteTransactionRequest{ContextID: r.ctxID, Transaction: tx, Assets: []*blockchain.BlockAsset{}, Header: header(r.ctxHeight), Consensus: consensus()}
		dry := false
		evHeight := r.ctxHeight
		for i := 3; i < len(w); i++ {
			switch w[i] {
			case "dry":
				dry = true
				evHeight = uint32(atoi(w[i+1]))
				req.DryRun, req.Header = true, header(evHeight)
				i++
			case "nc":
				req.Consensus = nil
			}
		}
		res, err := r.handler.ExecuteTransaction(req)
		if err != nil {
			return "err"
		}
		r.checkEventShape(res.Events, evHeight, tx.ID)
		// a failed command of a transaction without command hooks, framed by two dumps
		if sec, err := splitScript(w[2]); err == nil {
			r.atomicCheck = wasDump && !dry && res.Result == labi.TxExecuteResultFail && sec[1] == "" && sec[3] == ""
		}
		var view map[string][]byte
		if dry {
			if r.refDBKnown {
				view = r.refDB
			}
		} else {
			view = r.refStaged
			r.txs = append(r.txs, tx)
			if sec, err := splitScript(w[2]); err == nil {
				r.touch(sec[1])
				r.touch(sec[2])
				r.touch(sec[3])
			}
		}
		r.lastTxFail = false
		if view != nil {
			code, evs, next, known, cmdFailed := specTx(view, w[1], w[2])
			if res.Result != code {
				r.fail("exec-result-code", fmt.Sprintf("%s: result %d want %d", op, res.Result, code))
			}
			if known && !sameEvents(res.Events, evs, tx.ID, evHeight) {
				sig := "success-events-differ"
				if cmdFailed {
					sig = "failed-command-events"
				}
				r.fail(sig, fmt.Sprintf("%s: got %s want %s", op, showGot(res.Events, tx.ID), showSpecEvents(evs)))
			}
			if !dry {
				r.lastTxFail = cmdFailed
				if known {
					r.refStaged = next
				} else {
					r.refStaged = nil
				}
			}
		}
		return fmt.Sprintf("res=%d ev=%s", res.Result, r.showEv(res.Events, tx.ID))

	case "dump":
		st := "none"
		if kvs, ok := r.handler.VerifStagedState(); ok {
			got := kvsToMap(kvs, 0)
			st = dumpMap(got)
			if r.atomicCheck && st != r.lastDumpSt {
				r.fail("failed-command-state-changed", fmt.Sprintf("staged state before the failed command %s, after it %s", r.lastDumpSt, st))
			}
			if r.refStaged != nil && st != dumpMap(r.refStaged) {
				sig := "staged-state-differs"
				if r.lastTxFail {
					sig = "failed-command-state-changed"
				}
				r.fail(sig, fmt.Sprintf("staged state %s want %s", st, dumpMap(r.refStaged)))
				r.refStaged = got
			}
		}
		r.atomicCheck = false
		r.lastDumpSt = st
		dbm := r.dbState()
		if r.refDBKnown && dumpMap(dbm) != dumpMap(r.refDB) {
			r.fail("committed-state-differs", fmt.Sprintf("db %s want %s", dumpMap(dbm), dumpMap(r.refDB)))
		}
		r.refDB, r.refDBKnown = dbm, true
		// the stored root is the root of the stored state
		if _, root, ok := r.treeState(); ok && r.treeStateOK {
			if want := freshRootOfState(dbm); !bytes.Equal(root, want) {
				r.fail("stored-root-not-root-of-state", fmt.Sprintf("tree state root %x, fresh trie over the state %x", root, want))
			}
		}
		return "st=" + st + " db=" + dumpMap(dbm) + " " + r.showTreeState()

	case "commit":
		// commit <none|ok|bad> [dry]
		dry := len(w) > 2 && w[2] == "dry"
		req := &labi.CommitRequest{ContextID: r.ctxID, StateRoot: r.guard.give("Commit.StateRoot", r.curRoot), DryRun: dry}
		switch w[1] {
		case "ok":
			if r.refStaged != nil {
				req.ExpectedStateRoot = r.guard.give("Commit.ExpectedStateRoot", freshRootOfState(r.refStaged))
			}
		case "bad":
			req.ExpectedStateRoot = r.guard.give("Commit.ExpectedStateRoot", bogusRoot)
		}
		hadCtx := r.ctxID != nil
		res, err := r.handler.Commit(req)
		if err != nil {
			if w[1] != "bad" && hadCtx {
				sig := "commit-rejected"
				// which root would have been committed?
				if probe, perr := r.handler.Commit(&labi.CommitRequest{ContextID: r.ctxID, StateRoot: r.curRoot, DryRun: true}); perr == nil &&
					r.refStaged != nil && !bytes.Equal(probe.StateRoot, freshRootOfState(r.refStaged)) {
					sig = "state-root-not-root-of-state"
				}
				r.fail(sig, fmt.Sprintf("%s at height %d: %v", op, r.ctxHeight, err))
				r.refDBKnown = false
			}
			return "err"
		}
		if r.refStaged != nil {
			if want := freshRootOfState(r.refStaged); !bytes.Equal(res.StateRoot, want) {
				r.fail("state-root-not-root-of-state", fmt.Sprintf("%s: root %x, fresh trie over the resulting state %x (%s)", op, []byte(res.StateRoot), want, dumpMap(r.refStaged)))
			}
		}
		if dry {
			return "ok root=" + corr.Hex(res.StateRoot)
		}
		dbm := r.dbState()
		if want := freshRootOfState(dbm); !bytes.Equal(res.StateRoot, want) {
			r.fail("state-root-not-root-of-state", fmt.Sprintf("%s: root %x, fresh trie over the stored state %x (%s)", op, []byte(res.StateRoot), want, dumpMap(dbm)))
		}
		if r.refStaged != nil && dumpMap(dbm) != dumpMap(r.refStaged) {
			r.fail("commit-not-staged-state", fmt.Sprintf("db %s want %s", dumpMap(dbm), dumpMap(r.refStaged)))
		}
		if h, root, ok := r.treeState(); !ok || h != r.ctxHeight || !bytes.Equal(root, res.StateRoot) {
			r.fail("commit-tree-state", fmt.Sprintf("tree state %s after commit at %d root %x", r.showTreeState(), r.ctxHeight, []byte(res.StateRoot)))
		}
		// the diff STORED for the block names exactly the keys the block changed, with their previous values
		if !r.committed && r.refDBKnown && r.refStaged != nil {
			r.checkStoredDiff(r.ctxHeight, r.refDB, dbm)
		}
		if r.committed {
			// a context committed twice (the engine never does this): its second diff is relative to a
			// stale overlay, nothing is claimed about reverting to earlier states any more
			r.before = map[uint32]map[string][]byte{}
			r.prevHeight = map[uint32]uint32{}
		} else if r.refDBKnown {
			r.before[r.ctxHeight] = r.refDB
			r.prevHeight[r.ctxHeight] = r.refHeight
		} else {
			delete(r.before, r.ctxHeight)
		}
		r.committed = true
		r.diffAt[r.ctxHeight] = true
		r.refDB, r.refDBKnown = dbm, true
		r.refHeight = r.ctxHeight
		r.roots[r.ctxHeight] = res.StateRoot
		r.curRoot = res.StateRoot
		r.treeStateOK = true
		// the engine clears the context after a commit; nothing is claimed about a staged store that
		// is used again (its overlay no longer matches the database)
		r.refStaged = nil
		return "ok root=" + corr.Hex(res.StateRoot)

	case "revert":
		// revert <none|ok|bad>
		req := &labi.RevertRequest{ContextID: r.ctxID, StateRoot: r.guard.give("Revert.StateRoot", r.curRoot)}
		h := r.ctxHeight
		switch w[1] {
		case "ok":
			if root, ok := r.roots[h-1]; ok {
				req.ExpectedStateRoot = root
			}
		case "bad":
			req.ExpectedStateRoot = bogusRoot
		}
		wellFormed := r.ctxID != nil && r.refDBKnown && r.refHeight == h && r.diffAt[h] && r.before[h] != nil && r.prevHeight[h] == h-1 && h > 0
		res, err := r.handler.Revert(req)
		if err != nil {
			if wellFormed && w[1] != "bad" {
				r.fail("revert-rejected", fmt.Sprintf("%s at height %d: %v", op, h, err))
				r.refDBKnown = false
			}
			return "err"
		}
		dbm := r.dbState()
		if want := freshRootOfState(dbm); !bytes.Equal(res.StateRoot, want) {
			r.fail("revert-root-not-root-of-state", fmt.Sprintf("%s: root %x, fresh trie over the stored state %x", op, []byte(res.StateRoot), want))
		}
		if wellFormed {
			if dumpMap(dbm) != dumpMap(r.before[h]) {
				r.fail("revert-not-previous-state", fmt.Sprintf("db %s want %s", dumpMap(dbm), dumpMap(r.before[h])))
			}
			if prev, ok := r.roots[h-1]; ok && !bytes.Equal(prev, res.StateRoot) {
				r.fail("revert-not-previous-root", fmt.Sprintf("root %x, root committed at height %d was %x", []byte(res.StateRoot), h-1, prev))
			}
			if th, root, ok := r.treeState(); !ok || th != h-1 || !bytes.Equal(root, res.StateRoot) {
				r.fail("revert-tree-state", fmt.Sprintf("tree state %s after reverting %d", r.showTreeState(), h))
			}
		}
		r.refDB, r.refDBKnown = dbm, true
		r.refHeight = h - 1
		r.curRoot = res.StateRoot
		r.refStaged = nil // the context is not used after a revert
		return "ok root=" + corr.Hex(res.StateRoot)

	case "diff":
		// diff <height>: the diff stored for the block of that height, decoded, keys without the db prefix
		d, ok := r.storedDiff(uint32(atoi(w[1])))
		if !ok {
			return "none"
		}
		return showDiff(d)

	case "fin":
		f := uint32(atoi(w[1]))
		if _, err := r.handler.Finalize(&labi.FinalizeRequest{FinalizedHeight: f}); err != nil {
			return "err"
		}
		for h := range r.diffAt {
			if h < f {
				delete(r.diffAt, h)
			}
		}
		return "ok"

	case "init":
		// init <engine height> <ok|bad>
		e := uint32(atoi(w[1]))
		lastRoot, known := r.roots[e]
		if !known {
			lastRoot = emptyRoot
		}
		if w[2] == "bad" {
			lastRoot = bogusRoot
		}
		// well formed: the application is 0..n blocks ahead and every diff is still there
		wellFormed := r.refDBKnown && e <= r.refHeight && (known || e == 0)
		want := r.refDB
		for h := r.refHeight; wellFormed && h > e; h-- {
			if !r.diffAt[h] || r.before[h] == nil || r.prevHeight[h] != h-1 {
				wellFormed = false
			}
			want = r.before[h]
		}
		if !known && len(want) != 0 {
			// the engine has no root for this height (nothing was committed at it in this run) and the
			// state there is not the empty initial state: nothing to compare with
			wellFormed = false
		}
		_, err := r.handler.Init(&labi.InitRequest{ChainID: []byte{0, 0, 0, 1}, LastBlockHeight: e, LastStateRoot: lastRoot})
		dbm := r.dbState()
		if wellFormed {
			if err != nil && w[2] != "bad" {
				r.fail("init-recovery-rejected", fmt.Sprintf("%s with application at %d: %v", op, r.refHeight, err))
			}
			if dumpMap(dbm) != dumpMap(want) {
				r.fail("init-recovery-state", fmt.Sprintf("%s: db %s want %s", op, dumpMap(dbm), dumpMap(want)))
			}
			th, root, ok := r.treeState()
			if e < r.refHeight || ok {
				if !ok || th != e || (known && !bytes.Equal(root, r.roots[e])) || !bytes.Equal(root, freshRootOfState(dbm)) {
					r.fail("init-recovery-tip", fmt.Sprintf("%s: tree state %s, engine tip %d root %x", op, r.showTreeState(), e, r.roots[e]))
				}
			}
		}
		r.refDB, r.refDBKnown = dbm, true
		if th, root, ok := r.treeState(); ok {
			r.refHeight = th
			r.curRoot = root
		}
		res := "ok"
		if err != nil {
			res = "err"
		}
		return res + " " + r.showTreeState()
	}
	return "bad-op"
}

// verifyOnly keeps the items Command.Verify looks at.
func verifyOnly(sec string) string {
	if sec == "" {
		return ""
	}
	var keep []string
	for _, it := range strings.Split(sec, ",") {
		if strings.HasPrefix(it, "c:") || it == "x" {
			keep = append(keep, it)
		}
	}
	return strings.Join(keep, ",")
}

func atoi(s string) int {
	n, err := strconv.Atoi(s)
	if err != nil {
		panic(err)
	}
	return n
}

func (prop) RunImpl(c corr.Case) ([]string, []corr.Fail) { return runCase(c, false) }

// runCase runs one case; full: every field of every event is printed (the wide pseudo-property C16WIDE, wide.go).
func runCase(c corr.Case, full bool) ([]string, []corr.Fail) {
	r := &runner{full: full}
	out := make([]string, 0, len(c.Ops))
	for i, op := range c.Ops {
		r.opIdx = i
		func() {
			defer func() {
				if e := recover(); e != nil {
					out = append(out, "panic")
					r.fail(strings.Fields(op)[0]+"-panic", fmt.Sprintf("%s: %v", op, e))
					r.refStaged = nil
				}
			}()
			if r.guard != nil {
				r.guard.op = i
			}
			out = append(out, r.step(op))
		}()
		for _, m := range r.guard.check() {
			r.fail("c16-argument-modified", fmt.Sprintf("after %s: %s", op, m))
		}
	}
	r.close()
	return out, r.fails
}
