package c09

// Pseudo-property C09TEXT (run with C09 through `also`): TEXT-typed inputs with arbitrary bytes.
//
// Every text that reaches the node from an RPC client or a peer is a byte string: nothing guarantees UTF-8, and a
// "character" may be 1..4 bytes. The texts the engine interprets itself are the Lisk32 addresses (codec.Lisk32 is
// the JSON type of every address parameter), hex fields (codec.Hex), decimal strings (codec.UInt64Str) and the
// module / command names of a transaction. This property substitutes, into valid texts of the right length,
//   * every byte value 0x00–0xFF at every position (exhaustive: 41 × 256 per address),
//   * multi-byte UTF-8 characters keeping the BYTE length (2-, 3-, 4-byte characters over 2, 3, 4 bytes) and
//     keeping the RUNE length (one character replaced, the text grows), the boundary code points of every width,
//   * invalid UTF-8 (lone continuation bytes, truncated sequences, overlong forms, CESU surrogates, 0xF5..0xFF),
//   * JSON escapes (é, lone and paired surrogates, \u0000, escaped quotes),
// and feeds them to codec.ValidateLisk32, codec.Lisk32ToBytes, (*codec.Lisk32).UnmarshalJSON, json.Unmarshal of a
// parameter struct, codec.Hex / UInt64Str, the transaction constructors, and — inside a world — to every JSON-RPC
// endpoint with an address / id / text parameter and to every string of a postBlock / postTransaction request.
//
// The Lisk32 operations are compared line by line with the text-level Lean model with explicit panics
// (Model/Lisk32Text.lean through Driver/Text.lean; Props/C09_Lisk32.lean proves that model total and equal to the
// byte-level model on all byte strings). Model-free oracle: no panic (the failing text is reported quoted and in
// hex), ValidateLisk32 / Lisk32ToBytes / UnmarshalJSON agree with each other, an accepted text consists of 41
// alphabet bytes, accepted hex / names consist of the allowed ASCII characters only.
//
// The file also adds the scenario "address-text" to the RPC transport scenarios of C09 (child process, HTTP + WS):
// there the handler runs in router.Invoke's goroutine without recover, as in the node.

import (
	"bytes"
	"encoding/hex"
	"encoding/json"
	"fmt"
	"math/rand"
	"os"
	"runtime/debug"
	"strconv"
	"strings"
	"sync"
	"time"
	"unicode/utf8"

	"github.com/LiskHQ/lisk-engine/pkg/blockchain"
	"github.com/LiskHQ/lisk-engine/pkg/codec"

	"verifharness/c08"
	"verifharness/corr"
)

type textProp struct{}

func init() { corr.Register(textProp{}) }

func (textProp) ID() string                 { return "C09TEXT" }
func (textProp) Parallel() int              { return 6 }
func (textProp) CaseTimeout() time.Duration { return 10 * time.Minute }

// NoModel: `C09_NOMODEL=1 vh C09TEXT ...` runs the oracle without the Lean driver.
func (textProp) NoModel() bool { return os.Getenv("C09_NOMODEL") != "" }

const lisk32Alphabet = "zxvcpmbn3465o978uyrtkqew2adsjhfg"

// ---------------------------------------------------------------------------------------------
// text variants

// multi-byte characters: common ones and the first / last code point of every encoded width
var utf8Chars = []string{
	"\u00e9", "\u0080", "\u07ff", // 2 bytes
	"\u20ac", "\u0800", "\ufffd", "\uffff", "\ud7ff", "\ue000", // 3 bytes
	"\U0001f600", "\U00010000", "\U0010ffff", // 4 bytes
}

// invalid UTF-8
var badUTF8 = []string{
	"\x80", "\xbf", "\xc0", "\xc1", "\xc2", "\xc3", "\xe0", "\xed", "\xf0", "\xf4", "\xf5", "\xff", // lone lead / continuation bytes
	"\xc3\x28", "\xe2\x82", "\xe2\x28\xa1", "\xf0\x9f\x98", "\xf0\x28\x8c\xbc", // truncated / broken sequences
	"\xc0\x80", "\xc1\xbf", "\xe0\x80\x80", "\xe0\x9f\xbf", "\xf0\x80\x80\x80", "\xf0\x8f\xbf\xbf", // overlong forms
	"\xed\xa0\x80", "\xed\xbf\xbf", "\xed\xa0\xbd\xed\xb8\x80", // CESU-8 surrogates
	"\xf4\x90\x80\x80", "\xf7\xbf\xbf\xbf", "\xf8\x88\x80\x80\x80", // beyond U+10FFFF
}

// JSON escape forms (spliced into the raw JSON token, not into the Go string)
var jsonEscapes = []string{
	`\u00e9`, `\u00E9`, `\u0000`, `\u007f`, `\u0080`, `\ud800`, `\udc00`, `\udfff`, `\ud83d\ude00`, `\ud83dA`, `\ude00\ud83d`, `\uffff`, `\"`, `\\`, `\/`, `\n`, `\u`, `\u12`, `\x41`, `\u006c`, `\u007a`,
}

type textVariant struct {
	s    string // the Go string (for the direct calls); "" with raw set = JSON-only variant
	raw  []byte // raw JSON token (with quotes) if it is not simply the quoted string
	kind string
}

// rawJSONString: the bytes of s between quotes, unescaped (what a client can put on the wire).
func rawJSONString(s string) []byte { return append(append([]byte{'"'}, s...), '"') }

// escapedJSONString: s as a JSON string in which quote, backslash and control bytes are escaped and every other byte is
// sent as it is (invalid UTF-8 stays invalid).
func escapedJSONString(s string) []byte {
	b := []byte{'"'}
	for i := 0; i < len(s); i++ {
		c := s[i]
		switch {
		case c == '"' || c == '\\':
			b = append(b, '\\', c)
		case c < 0x20:
			b = append(b, []byte(fmt.Sprintf(`\u%04x`, c))...)
		default:
			b = append(b, c)
		}
	}
	return append(b, '"')
}

// substitutions of a valid text: replace `over` bytes at `pos` by `ins`.
func subst(valid string, pos, over int, ins string) string {
	if pos+over > len(valid) {
		over = len(valid) - pos
	}
	return valid[:pos] + ins + valid[pos+over:]
}

// structuredVariants: everything except the exhaustive single-byte sweep. positions: nil = every position.
func structuredVariants(valid string, positions []int) []textVariant {
	var vs []textVariant
	if positions == nil {
		for p := 0; p <= len(valid); p++ {
			positions = append(positions, p)
		}
	}
	for _, p := range positions {
		if p > len(valid) {
			continue
		}
		for _, ch := range utf8Chars {
			if p+len(ch) <= len(valid) {
				vs = append(vs, textVariant{s: subst(valid, p, len(ch), ch), kind: "utf8-same-bytes"})
			}
			if p < len(valid) {
				vs = append(vs, textVariant{s: subst(valid, p, 1, ch), kind: "utf8-same-runes"})
			}
			vs = append(vs, textVariant{s: subst(valid, p, 0, ch), kind: "utf8-inserted"})
		}
		for _, bad := range badUTF8 {
			if p+len(bad) <= len(valid) {
				vs = append(vs, textVariant{s: subst(valid, p, len(bad), bad), kind: "bad-utf8-same-bytes"})
			}
			if p < len(valid) {
				vs = append(vs, textVariant{s: subst(valid, p, 1, bad), kind: "bad-utf8"})
			}
		}
		for _, esc := range jsonEscapes {
			for _, over := range []int{1, 2, len(esc)} {
				if p+over <= len(valid) {
					raw := append(append(append([]byte{'"'}, valid[:p]...), esc...), valid[p+over:]...)
					vs = append(vs, textVariant{raw: append(raw, '"'), kind: "json-escape"})
				}
			}
		}
	}
	// lengths around the expected one, pure ASCII and with multi-byte characters
	for n := 0; n <= len(valid)+4; n++ {
		if n <= len(valid) {
			vs = append(vs, textVariant{s: valid[:n], kind: "length"})
		} else {
			vs = append(vs, textVariant{s: valid + strings.Repeat(valid[len(valid)-1:], n-len(valid)), kind: "length"})
		}
	}
	if len(valid) > 3 {
		runes41 := valid[:3] + strings.Repeat("é", len(valid)-3)     // right RUNE count, twice the bytes
		bytes41 := valid[:3] + strings.Repeat("é", (len(valid)-3)/2) // right BYTE count (for odd rest), half the runes
		vs = append(vs, textVariant{s: runes41, kind: "length"}, textVariant{s: bytes41, kind: "length"},
			textVariant{s: valid[:3] + strings.Repeat("\xff", len(valid)-3), kind: "bad-utf8-same-bytes"},
			textVariant{s: strings.Repeat("€", len(valid)/3) + valid[:len(valid)%3], kind: "utf8-same-bytes"})
	}
	return vs
}

// jsonToken of a variant
func (v textVariant) token() []byte {
	if v.raw != nil {
		return v.raw
	}
	return rawJSONString(v.s)
}

// decodedOf: what encoding/json makes of a JSON token as a string ("!" = not a string / malformed).
func decodedOf(js []byte) string {
	var str string
	if err := json.Unmarshal(js, &str); err != nil {
		return "!"
	}
	return corr.Hex([]byte(str))
}

func unjsonOp(js []byte) string { return "unjson " + corr.Hex(js) + " " + decodedOf(js) }

// ---------------------------------------------------------------------------------------------
// generation

func randomAddress(rng *rand.Rand) string {
	b := make([]byte, 20)
	rng.Read(b)
	s, err := codec.BytesToLisk32(b)
	if err != nil {
		panic(err)
	}
	return s
}

func chunk(cases *[]corr.Case, reset string, ops []string, per int, tag string) {
	for i := 0; i < len(ops); i += per {
		j := i + per
		if j > len(ops) {
			j = len(ops)
		}
		*cases = append(*cases, corr.Case{Ops: append([]string{reset}, ops[i:j]...), Tag: tag})
	}
}

// handTx: a transaction encoding with the given raw module / command bytes
func handTx(module, command []byte) []byte {
	var b []byte
	put := func(num int, p []byte) {
		b = append(append(append(b, byte(num<<3|2)), uvarint(uint64(len(p)))...), p...)
	}
	put(1, module)
	put(2, command)
	b = append(b, 0x18, 0x05, 0x20, 0xe8, 0x07)
	put(5, bytes.Repeat([]byte{7}, 32))
	put(6, []byte{1, 2, 3})
	put(7, bytes.Repeat([]byte{9}, 64))
	return b
}

// addressEndpoints: the JSON-RPC endpoints with an address parameter, the key it is read from, and the other members
// of a well-formed request
var addressEndpoints = []struct{ name, key, rest string }{
	{"generator_updateStatus", "address", `,"height":3,"maxHeightPrevoted":1,"maxHeightGenerated":2`},
	{"generator_setStatus", "address", `,"height":3,"maxHeightPrevoted":1,"maxHeightGenerated":2`},
	{"generator_setStatus", "generatorAddress", `,"enable":true,"password":"x","height":3,"maxHeightPrevoted":1,"maxHeightGenerated":2`},
	{"generator_updateStatus", "generatorAddress", `,"enable":true,"password":"x","height":3,"maxHeightPrevoted":1,"maxHeightGenerated":2`},
	{"generator_hasKeys", "address", ``},
	{"generator_setKeys", "address", `,"type":"plain","data":{}`},
	{"generator_estimateSafeStatus", "address", `,"timeShutdown":5`},
	{"generator_getStatus", "address", ``},
	{"generator_getAllKeys", "address", ``},
}

func (textProp) Generate(rng *rand.Rand, tier string) []corr.Case {
	c08.LoadSchemas() // not safe for concurrent first use: load before the parallel RunImpl calls (world cases need it)
	thorough := tier == "thorough"
	var cases []corr.Case
	naddr := 2
	if thorough {
		naddr = 6
	}
	addrs := make([]string, naddr)
	for i := range addrs {
		addrs[i] = randomAddress(rng)
	}
	// (1) exhaustive: every byte value at every position of a valid address, through the three decoding paths
	for ai, a := range addrs {
		for p := 0; p < len(a); p++ {
			var ops []string
			for v := 0; v < 256; v++ {
				s := subst(a, p, 1, string([]byte{byte(v)}))
				h := corr.Hex([]byte(s))
				ops = append(ops, "validate "+h, "tobytes "+h)
				if ai == 0 || thorough {
					ops = append(ops, unjsonOp(rawJSONString(s)))
				}
			}
			cases = append(cases, corr.Case{Ops: append([]string{"reset 0"}, ops...), Tag: "lisk32-every-byte"})
		}
	}
	// (2) multi-byte characters, invalid UTF-8, JSON escapes, lengths
	for ai, a := range addrs {
		var positions []int // every position for the first address, sampled for the others
		if ai > 0 && !thorough {
			positions = []int{0, 2, 3, 4, 3 + rng.Intn(38), 3 + rng.Intn(38), 34, 35, 38, 39, 40, 41}
		}
		var ops []string
		for _, v := range structuredVariants(a, positions) {
			if v.raw == nil {
				h := corr.Hex([]byte(v.s))
				ops = append(ops, "validate "+h, "tobytes "+h, unjsonOp(rawJSONString(v.s)))
				if esc := escapedJSONString(v.s); !bytes.Equal(esc, rawJSONString(v.s)) {
					ops = append(ops, unjsonOp(esc))
				}
			} else {
				ops = append(ops, unjsonOp(v.raw))
			}
		}
		chunk(&cases, "reset 0", ops, 400, "lisk32-utf8")
	}
	// JSON texts that are not strings, and texts of other alphabets
	var misc []string
	for _, js := range []string{``, `null`, `5`, `true`, `{}`, `[]`, `""`, `"`, `"lsk`, `"\`, `"\u`, `["lsk"]`, `{"a":"b"}`, `"lsk" `, ` "lsk"`, `"lsk""`, `'lsk'`,
		`"` + strings.Repeat("z", 41) + `"`, `"` + strings.Repeat("é", 41) + `"`, `"LSK` + strings.ToUpper(addrs[0][3:]) + `"`, `"` + strings.ToUpper(addrs[0]) + `"`} {
		misc = append(misc, unjsonOp([]byte(js)))
	}
	for n := 0; n <= 22; n++ {
		b := make([]byte, n)
		rng.Read(b)
		misc = append(misc, "tolisk "+corr.Hex(b))
	}
	chunk(&cases, "reset 0", misc, 400, "lisk32-misc")
	// (3) model-free: hex fields, decimal strings, module / command names
	var xs []string
	hexValid := hex.EncodeToString(h32("text-hex", int(rng.Int63n(1000))))
	for p := 0; p < len(hexValid); p++ {
		for v := 0; v < 256; v++ {
			if !thorough && p >= 6 && p < len(hexValid)-4 && v%8 != p%8 && v < 0x80 && v >= 0x20 {
				continue // quick: all non-printable / non-ASCII values everywhere, every value near both ends
			}
			xs = append(xs, "x hexjson "+corr.Hex(rawJSONString(subst(hexValid, p, 1, string([]byte{byte(v)})))))
		}
	}
	for _, v := range structuredVariants(hexValid, []int{0, 1, 2, 31, 62, 63, 64}) {
		xs = append(xs, "x hexjson "+corr.Hex(v.token()))
	}
	decValid := strconv.FormatUint(1<<40+uint64(rng.Int63n(1<<30)), 10)
	for p := 0; p < len(decValid); p++ {
		for v := 0; v < 256; v++ {
			xs = append(xs, "x u64json "+corr.Hex(rawJSONString(subst(decValid, p, 1, string([]byte{byte(v)})))))
		}
	}
	for _, v := range structuredVariants(decValid, []int{0, 1, len(decValid) - 1, len(decValid)}) {
		xs = append(xs, "x u64json "+corr.Hex(v.token()))
	}
	for _, name := range []string{"token", "pos"} {
		for p := 0; p < len(name); p++ {
			for v := 0; v < 256; v++ {
				m := subst(name, p, 1, string([]byte{byte(v)}))
				xs = append(xs, "x txname "+corr.Hex([]byte(m))+" "+corr.Hex([]byte("transfer")), "x txname "+corr.Hex([]byte("token"))+" "+corr.Hex([]byte(m)))
			}
		}
		for _, v := range structuredVariants(name, nil) {
			if v.raw == nil {
				xs = append(xs, "x txname "+corr.Hex([]byte(v.s))+" "+corr.Hex([]byte("transfer")), "x txname "+corr.Hex([]byte("token"))+" "+corr.Hex([]byte(v.s)))
			}
		}
	}
	chunk(&cases, "reset 0", xs, 600, "text-fields")
	// (4) inside a world: every JSON-RPC endpoint with an address / text parameter, every string of postBlock / postTransaction
	seed := int64(1 + rng.Int63n(3))
	if t, err := templatesFor(seed); err == nil {
		var eps []string
		add := func(name string, js []byte) { eps = append(eps, "x ep "+name+" "+corr.Hex(js)) }
		valid := string(mustJSON(codec.Lisk32(t.validatorAdr[0])))
		valid = valid[1 : len(valid)-1]
		// the variants an endpoint sees: non-ASCII single bytes at every position, the structured ones at sampled positions
		var toks [][]byte
		for p := 0; p < len(valid); p++ {
			for _, v := range []byte{0x00, 0x7f, 0x80, 0xc3, 0xe2, 0xff, byte(0x80 + rng.Intn(0x80))} {
				toks = append(toks, rawJSONString(subst(valid, p, 1, string([]byte{v}))))
			}
		}
		pos := []int{0, 3, 4, 3 + rng.Intn(38), 3 + rng.Intn(38), 35, 39, 40}
		if thorough {
			pos = nil
		}
		for _, v := range structuredVariants(valid, pos) {
			toks = append(toks, v.token())
			if v.raw == nil {
				toks = append(toks, escapedJSONString(v.s))
			}
		}
		per := 120
		if thorough {
			per = len(toks)
		}
		for _, e := range addressEndpoints {
			add(e.name, []byte(`{"`+e.key+`":"`+valid+`"`+e.rest+`}`))
			for _, tok := range sampleBytes(rng, toks, per) {
				add(e.name, append(append([]byte(`{"`+e.key+`":`), tok...), []byte(e.rest+`}`)...))
			}
		}
		// id / type / password parameters of the other endpoints
		idValid := hex.EncodeToString(t.ids[1])
		var idToks [][]byte
		for _, v := range structuredVariants(idValid, []int{0, 1, 31, 32, 62, 63, 64}) {
			idToks = append(idToks, v.token())
		}
		for _, e := range []struct{ name, key string }{{"chain_getGetBlockByID", "id"}, {"chain_getTransactionByID", "id"},
			{"txpool_getTransactionsFromPool", "transactionID"}, {"network_getConnectedPeers", "id"}} {
			for _, tok := range sampleBytes(rng, idToks, per) {
				add(e.name, append(append([]byte(`{"`+e.key+`":`), tok...), '}'))
			}
		}
		for _, v := range structuredVariants("plain", nil) {
			add("generator_setKeys", append(append([]byte(`{"address":"`+valid+`","type":`), v.token()...), []byte(`,"data":{}}`)...))
		}
		// every string leaf of a valid postBlock / postTransaction request
		for _, tpl := range []struct {
			name string
			js   []byte
		}{{"chain_postBlock", t.postBlockJSON}, {"txpool_postTransaction", t.postTxJSON}} {
			leaves := stringLeaves(tpl.js)
			nper := 10
			if thorough {
				nper = 60
			}
			for _, lf := range leaves {
				vs := structuredVariants(lf.val, []int{0, len(lf.val) / 2, len(lf.val) - 1, len(lf.val)})
				for _, i := range rng.Perm(len(vs)) {
					if nper--; nper < 0 && !thorough {
						break
					}
					add(tpl.name, spliceToken(tpl.js, lf, vs[i].token()))
				}
				nper = 10
				// a non-ASCII byte at a random position of the leaf
				if len(lf.val) > 0 {
					add(tpl.name, spliceToken(tpl.js, lf, rawJSONString(subst(lf.val, rng.Intn(len(lf.val)), 1, "\xc3"))))
					add(tpl.name, spliceToken(tpl.js, lf, rawJSONString(subst(lf.val, rng.Intn(len(lf.val)), 2, "é"))))
				}
			}
		}
		chunk(&cases, "reset "+strconv.FormatInt(seed, 10), eps, 150, "ep-text")
	} else {
		cases = append(cases, corr.Case{Ops: []string{"reset 0", "x world-error " + corr.Hex([]byte(err.Error()))}, Tag: "world-error"})
	}
	return cases
}

// stringLeaves: the string values of a JSON text with their byte ranges (token including quotes).
type jsonLeaf struct {
	from, to int
	val      string
}

func stringLeaves(js []byte) []jsonLeaf {
	var res []jsonLeaf
	dec := json.NewDecoder(bytes.NewReader(js))
	var stack []byte // '{' or '['
	expectKey := false
	for {
		start := int(dec.InputOffset())
		tok, err := dec.Token()
		if err != nil {
			return res
		}
		end := int(dec.InputOffset())
		switch v := tok.(type) {
		case json.Delim:
			switch v {
			case '{':
				stack = append(stack, '{')
				expectKey = true
			case '[':
				stack = append(stack, '[')
				expectKey = false
			default:
				stack = stack[:len(stack)-1]
				expectKey = len(stack) > 0 && stack[len(stack)-1] == '{'
			}
			continue
		case string:
			if expectKey {
				expectKey = false
				continue
			}
			// the token starts at the first quote after `start`
			q := bytes.IndexByte(js[start:end], '"')
			if q >= 0 {
				res = append(res, jsonLeaf{from: start + q, to: end, val: v})
			}
		}
		expectKey = len(stack) > 0 && stack[len(stack)-1] == '{'
	}
}

func spliceToken(js []byte, lf jsonLeaf, tok []byte) []byte {
	return append(append(append([]byte{}, js[:lf.from]...), tok...), js[lf.to:]...)
}

// ---------------------------------------------------------------------------------------------
// execution

func quoted(s string) string {
	return fmt.Sprintf("%q [% x] (%d bytes, %d runes)", s, s, len(s), utf8.RuneCountInString(s))
}

// caught runs f under recover; a panic is returned as (site, value).
func caught(f func()) (pv string, site string) {
	defer func() {
		if r := recover(); r != nil {
			pv, site = fmt.Sprint(r), panicSite(string(debug.Stack()))
		}
	}()
	f()
	return "", ""
}

func alphabetText(s string) bool {
	if len(s) != 41 {
		return false
	}
	for i := 3; i < len(s); i++ {
		if strings.IndexByte(lisk32Alphabet, s[i]) < 0 {
			return false
		}
	}
	return true
}

var (
	textFailMu    sync.Mutex
	textFailCount = map[string]int{}
)

func textFailBudget(sig string) bool {
	textFailMu.Lock()
	defer textFailMu.Unlock()
	textFailCount[sig]++
	return textFailCount[sig] <= 24
}

type addressParams struct {
	Address codec.Lisk32 `json:"address"`
}

func (textProp) RunImpl(c corr.Case) ([]string, []corr.Fail) {
	if strings.HasPrefix(c.Tag, "ep-") || (len(c.Ops) > 0 && c.Ops[0] != "reset 0" && strings.HasPrefix(c.Ops[0], "reset ")) {
		// world operations: the C09 runner (recover, watchdog, allocation bound)
		return prop{}.RunImpl(c)
	}
	out := make([]string, 0, len(c.Ops))
	var fails []corr.Fail
	perCase := map[string]int{}
	fail := func(i int, sig, format string, a ...any) {
		// a broken lookup fails on thousands of inputs: keep the first two per case and 24 per run of each signature
		if perCase[sig]++; perCase[sig] > 2 || !textFailBudget(sig) {
			return
		}
		fails = append(fails, corr.Fail{Sig: sig, Detail: fmt.Sprintf(format, a...), Op: i})
	}
	for i, op := range c.Ops {
		f := strings.Fields(op)
		switch {
		case f[0] == "reset":
			out = append(out, "ok")
		case f[0] == "validate" && len(f) == 2:
			s := string(corr.UnHex(f[1]))
			var err error
			if pv, site := caught(func() { err = codec.ValidateLisk32(s) }); pv != "" {
				fail(i, "c09-panic:lisk32-validate", "codec.ValidateLisk32(%s): panic %q at %s", quoted(s), pv, site)
				out = append(out, "panic")
				break
			}
			out = append(out, fmt.Sprint(err == nil))
			if err == nil && !alphabetText(s) {
				fail(i, "c09-lisk32-accepted-non-alphabet", "codec.ValidateLisk32 accepts %s", quoted(s))
			}
		case f[0] == "tobytes" && len(f) == 2:
			s := string(corr.UnHex(f[1]))
			var b []byte
			var err, verr error
			if pv, site := caught(func() { b, err = codec.Lisk32ToBytes(s) }); pv != "" {
				fail(i, "c09-panic:lisk32-tobytes", "codec.Lisk32ToBytes(%s): panic %q at %s", quoted(s), pv, site)
				out = append(out, "panic")
				break
			}
			if err != nil {
				out = append(out, "err")
			} else {
				out = append(out, "ok "+corr.Hex(b))
			}
			if s != "" {
				if pv, _ := caught(func() { verr = codec.ValidateLisk32(s) }); pv == "" && (verr == nil) != (err == nil) {
					fail(i, "c09-lisk32-validate-tobytes-disagree", "%s: ValidateLisk32 error %v, Lisk32ToBytes error %v", quoted(s), verr, err)
				}
				if err == nil && (len(b) != 20 || !alphabetText(s)) {
					fail(i, "c09-lisk32-accepted-non-alphabet", "codec.Lisk32ToBytes(%s) = %x", quoted(s), b)
				}
			}
		case f[0] == "tolisk" && len(f) == 2:
			b := corr.UnHex(f[1])
			var s string
			var err error
			if pv, site := caught(func() { s, err = codec.BytesToLisk32(b) }); pv != "" {
				fail(i, "c09-panic:lisk32-frombytes", "codec.BytesToLisk32(%x): panic %q at %s", b, pv, site)
				out = append(out, "panic")
				break
			}
			if err != nil {
				out = append(out, "err")
			} else {
				out = append(out, "ok "+corr.Hex([]byte(s)))
			}
		case f[0] == "unjson" && len(f) == 3:
			js := corr.UnHex(f[1])
			var a codec.Lisk32
			var err error
			if pv, site := caught(func() { err = (&a).UnmarshalJSON(js) }); pv != "" {
				fail(i, "c09-panic:lisk32-unmarshal-json", "(*codec.Lisk32).UnmarshalJSON(%s): panic %q at %s; decoded string %s", quoted(string(js)), pv, site, decodedText(f[2]))
				out = append(out, "panic")
				break
			}
			if err != nil {
				out = append(out, "err")
			} else {
				out = append(out, "ok "+corr.Hex(a))
			}
			// the same text as a request parameter, the way the endpoints read it
			var ps addressParams
			var perr error
			body := append(append([]byte(`{"address":`), js...), '}')
			if pv, site := caught(func() { perr = json.Unmarshal(body, &ps) }); pv != "" {
				fail(i, "c09-panic:lisk32-json-params", "json.Unmarshal(%s) into a struct with a codec.Lisk32 member: panic %q at %s", quoted(string(body)), pv, site)
				break
			}
			// consistency with the direct decoding of the string encoding/json produces
			if f[2] != "!" {
				str := string(corr.UnHex(f[2]))
				var db []byte
				var derr error
				if pv, _ := caught(func() { db, derr = codec.Lisk32ToBytes(str) }); pv == "" {
					if (derr == nil) != (err == nil) || (err == nil && !bytes.Equal(db, a)) {
						fail(i, "c09-lisk32-json-differs", "JSON %s: UnmarshalJSON gives (%x, %v), Lisk32ToBytes(%s) gives (%x, %v)", quoted(string(js)), []byte(a), err, quoted(str), db, derr)
					}
					if perr == nil && derr != nil && json.Valid(body) {
						fail(i, "c09-lisk32-json-differs", "JSON parameters %s accepted although the address text %s is rejected", quoted(string(body)), quoted(str))
					}
				}
			} else if err == nil {
				fail(i, "c09-lisk32-json-differs", "JSON %s is not a string but UnmarshalJSON accepts it as %x", quoted(string(js)), []byte(a))
			}
		case f[0] == "x" && len(f) >= 3:
			out = append(out, "-")
			switch f[1] {
			case "world-error":
				fail(i, "c09-world", "%s", string(corr.UnHex(f[2])))
			case "hexjson":
				js := corr.UnHex(f[2])
				var h codec.Hex
				var err error
				if pv, site := caught(func() { err = (&h).UnmarshalJSON(js) }); pv != "" {
					fail(i, "c09-panic:hex-unmarshal-json", "(*codec.Hex).UnmarshalJSON(%s): panic %q at %s", quoted(string(js)), pv, site)
					break
				}
				if d := decodedOf(js); err == nil && d != "!" {
					str := string(corr.UnHex(d))
					ref, rerr := refHex(str)
					if rerr || !bytes.Equal(ref, h) {
						fail(i, "c09-hex-accepted-non-hex", "(*codec.Hex).UnmarshalJSON(%s) = %x", quoted(string(js)), []byte(h))
					}
				}
			case "u64json":
				js := corr.UnHex(f[2])
				var u codec.UInt64Str
				if pv, site := caught(func() { _ = (&u).UnmarshalJSON(js) }); pv != "" {
					fail(i, "c09-panic:uint64str-unmarshal-json", "(*codec.UInt64Str).UnmarshalJSON(%s): panic %q at %s", quoted(string(js)), pv, site)
				}
			case "txname":
				if len(f) != 4 {
					break
				}
				m, cm := corr.UnHex(f[2]), corr.UnHex(f[3])
				raw := handTx(m, cm)
				var verr error
				decoded := false
				if pv, site := caught(func() {
					t, err := blockchain.NewTransaction(raw)
					if err != nil {
						verr = err
						return
					}
					decoded = true
					_ = t.SigningBytes()
					_, _ = json.Marshal(t)
					verr = t.Validate()
				}); pv != "" {
					fail(i, "c09-panic:tx-names", "transaction with module %s command %s: panic %q at %s", quoted(string(m)), quoted(string(cm)), pv, site)
					break
				}
				if decoded && verr == nil && !(asciiAlnum(m) && asciiAlnum(cm)) {
					fail(i, "c09-tx-name-accepted-non-alphanumeric", "transaction with module %s command %s passes Validate", quoted(string(m)), quoted(string(cm)))
				}
			}
		default:
			out = append(out, "bad-op")
		}
	}
	return out, fails
}

func decodedText(h string) string {
	if h == "!" {
		return "(none)"
	}
	return quoted(string(corr.UnHex(h)))
}

func refHex(s string) ([]byte, bool) {
	if len(s)%2 != 0 {
		return nil, true
	}
	res := make([]byte, 0, len(s)/2)
	val := func(c byte) int {
		switch {
		case c >= '0' && c <= '9':
			return int(c - '0')
		case c >= 'a' && c <= 'f':
			return int(c-'a') + 10
		case c >= 'A' && c <= 'F':
			return int(c-'A') + 10
		}
		return -1
	}
	for i := 0; i < len(s); i += 2 {
		a, b := val(s[i]), val(s[i+1])
		if a < 0 || b < 0 {
			return nil, true
		}
		res = append(res, byte(a<<4|b))
	}
	return res, false
}

func asciiAlnum(b []byte) bool {
	for _, c := range b {
		if !(c >= '0' && c <= '9' || c >= 'a' && c <= 'z' || c >= 'A' && c <= 'Z') {
			return false
		}
	}
	return true
}

func (textProp) Classify(c corr.Case, out []string) string {
	kinds := map[string]bool{}
	for i, op := range c.Ops {
		if i == 0 || i >= len(out) {
			continue
		}
		f := strings.Fields(op)
		k := f[0]
		if k == "x" && len(f) > 1 {
			k = "x-" + f[1]
		}
		o := out[i]
		if j := strings.IndexByte(o, ' '); j > 0 {
			o = o[:j]
		}
		kinds[k+":"+o] = true
	}
	if len(kinds) < 2 && !strings.HasPrefix(c.Tag, "ep-") && c.Tag != "text-fields" {
		return ""
	}
	l := make([]string, 0, len(kinds))
	for k := range kinds {
		l = append(l, k)
	}
	sortStrings(l)
	if len(l) > 6 {
		l = append(l[:6], "…")
	}
	return c.Tag + "[" + strings.Join(l, ",") + "]"
}

func sortStrings(l []string) {
	for i := 1; i < len(l); i++ {
		for j := i; j > 0 && l[j] < l[j-1]; j-- {
			l[j], l[j-1] = l[j-1], l[j]
		}
	}
}

// ---------------------------------------------------------------------------------------------
// RPC transport scenario (child process, see rpcchild.go): address texts with non-ASCII characters over HTTP and WS.
// In the node the handler runs in a goroutine of router.Invoke without recover: a panic ends the process.

var _ = func() bool {
	rpcScenarios = append(rpcScenarios, rpcScenario{"address-text", func(c *rpcClient) error {
		const valid = "lskgr5tu9283t77x8d27g8e95zwqgkc3sogx4zazd"
		var texts []string
		for _, p := range []int{3, 4, 20, 33, 34, 35, 38, 39} {
			texts = append(texts, string(rawJSONString(subst(valid, p, 2, "é"))), string(rawJSONString(subst(valid, p, 1, "\xff"))))
			if p+3 <= len(valid) {
				texts = append(texts, string(rawJSONString(subst(valid, p, 3, "€"))))
			}
			if p+4 <= len(valid) {
				texts = append(texts, string(rawJSONString(subst(valid, p, 4, "\U0001f600"))))
			}
			texts = append(texts, `"`+valid[:p]+`\u00e9`+valid[p+2:]+`"`, `"`+subst(valid, p, 3, `\ud800`)+`"`)
		}
		for _, e := range addressEndpoints {
			for i, tx := range texts {
				body := rpcReq(e.name, `{"`+e.key+`":`+tx+e.rest+`}`)
				if i%2 == 0 {
					if _, _, err := c.post(body); err != nil {
						return err
					}
				} else if _, err := c.ws(body); err != nil {
					return err
				}
			}
		}
		for _, tx := range texts[:8] {
			if _, _, err := c.post(rpcReq("chain_postBlock", `{"block":{"header":{"generatorAddress":`+tx+`},"transactions":[],"assets":[]}}`)); err != nil {
				return err
			}
		}
		return nil
	}})
	return true
}()
