// Package c09: untrusted input never crashes or hangs the node. Every network-facing decoder,
// validator, handler and verifier of lisk-engine is driven with hostile input under recover, a
// wall-clock watchdog and an allocation bound; the stateless verdicts (gossip validators, request
// dispatch, codec) are compared line by line with the Lean model (Driver.Validators).
package c09

import (
	"fmt"
	"math/rand"
	"os"
	"sort"
	"strconv"
	"strings"
	"sync"
	"time"

	"verifharness/c08"
	"verifharness/corr"
)

type prop struct{}

func init() { corr.Register(prop{}) }

func (prop) ID() string                 { return "C09" }
func (prop) Parallel() int              { return 6 }
func (prop) CaseTimeout() time.Duration { return 10 * time.Minute }

const opTimeout = 20 * time.Second

// allocation bound of one call: allocC * |input| + allocK. The counter is process wide and cases run
// in parallel, so inside RunImpl the constant is generous; Extra repeats the measurement single
// threaded with the tight bound.
const (
	allocC      = 512
	allocKLoose = 96 << 20
	allocKTight = 8 << 20
)

// network-facing structs (decoded from peer supplied bytes)
var networkSchemas = []string{
	"blockchain.RawBlock", "blockchain.Block", "blockchain.BlockHeader", "blockchain.AggregateCommit", "blockchain.BlockAsset",
	"blockchain.Transaction", "certificate.SingleCommit", "consensus.EventPostSingleCommits", "consensus.EventPostBlock",
	"p2p.Request", "p2p.responseMsg", "p2p.Message",
	"sync.GetHighestCommonBlockRequest", "sync.GetHighestCommonBlockResponse", "sync.GetBlocksFromIDRequest", "sync.GetBlocksFromIDResponse",
	"sync.getHighestCommonBlockRequest", "sync.getHighestCommonBlockResponse", "sync.getBlocksFromIDRequest", "sync.getBlocksFromIDResponse",
	"sync.NodeInfo", "txpool.GetTransactionsResponse", "rmt.Proof", "smt.Proof", "smt.QueryProof", "certificate.Certificate",
}

// ---------------------------------------------------------------------------------------------
// generation

type opList struct {
	ops []string
	tag string
}

// groups whose ops touch no node state run without a world ("reset 0")
var statelessGroups = map[string]bool{"codec": true, "proofs": true, "signatures": true, "constructors": true}

var tmplCache sync.Map // seed -> *templates

func templatesFor(seed int64) (*templates, error) {
	if t, ok := tmplCache.Load(seed); ok {
		return t.(*templates), nil
	}
	w, err := newWorld(seed)
	if err != nil {
		return nil, err
	}
	defer w.close()
	t, err := w.templates()
	if err != nil {
		return nil, err
	}
	tmplCache.Store(seed, t)
	return t, nil
}

func sample(rng *rand.Rand, ms []mutant, n int) []mutant {
	if len(ms) <= n {
		return ms
	}
	idx := rng.Perm(len(ms))[:n]
	sort.Ints(idx)
	res := make([]mutant, n)
	for i, j := range idx {
		res[i] = ms[j]
	}
	return res
}

func mutantsOf(rng *rand.Rand, schema string, b []byte, payload string, limit int, nrandom int) []mutant {
	var ms []mutant
	if t := parse(schema, b, payload, 0); t != nil {
		ms = sample(rng, structuralMutants(t), limit)
	}
	for i := 0; i < nrandom; i++ {
		ms = append(ms, randomMutant(rng, b))
	}
	return ms
}

func (prop) Generate(rng *rand.Rand, tier string) []corr.Case {
	c08.LoadSchemas()
	thorough := tier == "thorough"
	seeds := []int64{1 + rng.Int63n(3)}
	lim, nrand := 260, 40
	if thorough {
		seeds = []int64{1, 2, 3, 4 + rng.Int63n(1000)}
		lim, nrand = 100000, 400
	}
	var cases []corr.Case
	for _, seed := range seeds {
		t, err := templatesFor(seed)
		if err != nil {
			return []corr.Case{{Ops: []string{"reset 0", "x world-error " + corr.Hex([]byte(err.Error()))}, Tag: "world-error"}}
		}
		var groups []opList
		one := func(kind string, ms []mutant) []string {
			ops := make([]string, len(ms))
			for i, m := range ms {
				ops[i] = kind + " " + corr.Hex(m.data)
			}
			return ops
		}
		env := func(b []byte) []byte { return encodeEnvelope(b) }
		// (1)+(3) gossip: blocks (with transactions, assets and an aggregate commit)
		for _, blk := range [][]byte{t.nextBlock, t.nextEmpty} {
			groups = append(groups, opList{one("blk", mutantsOf(rng, "blockchain.RawBlock", blk, "", lim*3, nrand)), "block"})
		}
		groups = append(groups, opList{one("blk", mutantsOf(rng, "blockchain.RawBlock", t.oldBlock, "", lim/4, nrand/4)), "block-old"})
		groups = append(groups, opList{one("blk", mutantsOf(rng, "blockchain.RawBlock", t.farBlock, "", lim/4, nrand/4)), "block-far"})
		groups = append(groups, opList{one("gblk", mutantsOf(rng, "p2p.Message", env(t.nextBlock), "blockchain.RawBlock", lim, nrand)), "block-envelope"})
		// (2) transactions
		groups = append(groups, opList{one("tx", mutantsOf(rng, "blockchain.Transaction", t.tx, "", lim, nrand)), "tx"})
		groups = append(groups, opList{one("gtx", mutantsOf(rng, "p2p.Message", env(t.tx2), "blockchain.Transaction", lim/2, nrand)), "tx-envelope"})
		// (3) single commits
		groups = append(groups, opList{one("sc", mutantsOf(rng, "consensus.EventPostSingleCommits", t.commits, "", lim, nrand)), "commits"})
		groups = append(groups, opList{one("sc", mutantsOf(rng, "consensus.EventPostSingleCommits", t.oneCommit, "", lim, nrand)), "commits"})
		groups = append(groups, opList{one("gsc", mutantsOf(rng, "p2p.Message", env(t.oneCommit), "consensus.EventPostSingleCommits", lim/2, nrand)), "commits-envelope"})
		// (4)+(5) request / response envelopes and the sync RPC payloads inside them
		groups = append(groups, opList{one("req", mutantsOf(rng, "p2p.Request", t.reqCommon, "sync.GetHighestCommonBlockRequest", lim, nrand)), "rpc-common-block"})
		groups = append(groups, opList{one("req", mutantsOf(rng, "p2p.Request", t.reqFromID, "sync.GetBlocksFromIDRequest", lim, nrand)), "rpc-blocks-from-id"})
		groups = append(groups, opList{one("req", mutantsOf(rng, "p2p.Request", t.reqLast, "", lim/2, nrand/2)), "rpc-last-block"})
		groups = append(groups, opList{one("req", mutantsOf(rng, "p2p.Request", t.reqTxs, "", lim/2, nrand/2)), "rpc-transactions"})
		groups = append(groups, opList{one("req", mutantsOf(rng, "p2p.Request", t.reqUnknown, "", lim/4, nrand/4)), "rpc-unknown"})
		groups = append(groups, opList{one("resp", mutantsOf(rng, "p2p.responseMsg", t.respOK, "blockchain.RawBlock", lim/2, nrand)), "rpc-response"})
		groups = append(groups, opList{one("resp", mutantsOf(rng, "p2p.responseMsg", t.respErr, "", lim/2, nrand/2)), "rpc-response"})
		// model-free stateful entries
		groups = append(groups, opList{xops("agg", t, rng, lim, nrand), "aggregate-commit"})
		groups = append(groups, opList{xops("vblock", t, rng, lim, nrand), "verify-block"})
		groups = append(groups, opList{xops("ep", t, rng, lim, nrand), "endpoints"})
		groups = append(groups, opList{xops("proofs", t, rng, lim, nrand), "proofs"})
		groups = append(groups, opList{xops("crypto", t, rng, lim, nrand), "signatures"})
		groups = append(groups, opList{xops("constructors", t, rng, lim, nrand), "constructors"})
		// codec: structural mutants of every network-facing struct, compared with the model
		var decOps []string
		for _, name := range networkSchemas {
			s := c08.ByName[name]
			if s == nil {
				continue
			}
			n := 2
			if thorough {
				n = 12
			}
			for i := 0; i < n; i++ {
				b := c08.GenEncoding(rng, s, 0, i%2 == 0)
				for _, m := range mutantsOf(rng, name, b, "", lim/8, 2) {
					decOps = append(decOps, fmt.Sprintf("dec %s %s", name, corr.Hex(m.data)), fmt.Sprintf("decs %s %s", name, corr.Hex(m.data)))
				}
			}
		}
		groups = append(groups, opList{decOps, "codec"})
		// the unmutated messages last (they change the state of the node)
		valid := []string{
			"tx " + corr.Hex(t.tx), "gtx " + corr.Hex(env(t.tx2)), "sc " + corr.Hex(t.commits), "gsc " + corr.Hex(env(t.oneCommit)),
			"req " + corr.Hex(t.reqLast), "req " + corr.Hex(t.reqCommon), "req " + corr.Hex(t.reqFromID), "req " + corr.Hex(t.reqTxs), "req " + corr.Hex(t.reqUnknown),
			"resp " + corr.Hex(t.respOK), "resp " + corr.Hex(t.respErr),
			"x ep chain_postBlock " + corr.Hex(t.postBlockJSON), "x ep txpool_postTransaction " + corr.Hex(t.postTxJSON),
			"blk " + corr.Hex(t.tipBlock), "blk " + corr.Hex(t.oldBlock), "blk " + corr.Hex(t.farBlock), "blk " + corr.Hex(t.nextBlock), "gblk " + corr.Hex(env(t.nextEmpty)),
		}
		if len(t.aggregate) > 0 {
			valid = append([]string{"x agg " + corr.Hex(t.aggregate)}, valid...)
		}
		groups = append(groups, opList{valid, "valid"})
		perCase := 60
		if thorough {
			perCase = 240
		}
		only := os.Getenv("C09_ONLY")
		for _, g := range groups {
			if only != "" && !strings.Contains(","+only+",", ","+g.tag+",") {
				continue
			}
			for i := 0; i < len(g.ops); i += perCase {
				j := i + perCase
				if j > len(g.ops) {
					j = len(g.ops)
				}
				rs := seed
				if statelessGroups[g.tag] {
					rs = 0
				}
				ops := append([]string{"reset " + strconv.FormatInt(rs, 10)}, g.ops[i:j]...)
				cases = append(cases, corr.Case{Ops: ops, Tag: g.tag})
			}
		}
	}
	return cases
}

// ---------------------------------------------------------------------------------------------
// execution

// hungEntries: entry points on which a call did not return. The abandoned goroutine keeps spinning, so
// further calls of the same entry point are skipped in this process (the hang is reported once per case).
var hungEntries sync.Map

type runStats struct {
	mu       sync.Mutex
	verdicts map[string]int
}

var stats = runStats{verdicts: map[string]int{}}

func (s *runStats) add(k string) {
	s.mu.Lock()
	s.verdicts[k]++
	s.mu.Unlock()
}

// opMu: operations run under the read lock; an operation whose allocation looks too large (the
// counter is process wide and cases run in parallel) is repeated alone under the write lock, and only
// that measurement counts.
var opMu sync.RWMutex

func measured(inSize int, f func() string) outcome {
	opMu.RLock()
	o := guarded(opTimeout, f)
	opMu.RUnlock()
	if !o.hang && o.panicV == "" && o.alloc > uint64(allocC*inSize)+allocKLoose {
		opMu.Lock()
		o2 := guarded(opTimeout, f)
		opMu.Unlock()
		if !o2.hang && o2.panicV == "" {
			o.alloc = o2.alloc
		}
	}
	return o
}

func failOf(entry string, o outcome, op string, i int, inSize int, allocK uint64) []corr.Fail {
	var fails []corr.Fail
	switch {
	case o.hang:
		fails = append(fails, corr.Fail{Sig: "c09-hang:" + entry, Detail: fmt.Sprintf("%s: no answer within %s", clip(op), opTimeout), Op: i})
	case o.panicV != "":
		sig := "c09-panic:" + entry
		if strings.Contains(o.stack, "crypto.Bits.read") {
			sig = "c09-bits-read-panic"
		}
		fails = append(fails, corr.Fail{Sig: sig, Detail: fmt.Sprintf("%s: panic %q at %s", clip(op), o.panicV, panicSite(o.stack)), Op: i})
	}
	if !o.hang && o.alloc > uint64(allocC*inSize)+allocK {
		fails = append(fails, corr.Fail{Sig: "c09-alloc:" + entry, Detail: fmt.Sprintf("%s: %d bytes allocated for %d input bytes", clip(op), o.alloc, inSize), Op: i})
	}
	return fails
}

func clip(s string) string {
	if len(s) > 600 {
		return s[:600] + "…(" + strconv.Itoa(len(s)) + " chars)"
	}
	return s
}

func (prop) RunImpl(c corr.Case) ([]string, []corr.Fail) {
	c08.LoadSchemas()
	out := make([]string, 0, len(c.Ops))
	var fails []corr.Fail
	var w *world
	var seed int64
	defer func() {
		if w != nil {
			w.close()
		}
	}()
	rebuild := func() bool {
		if w != nil && !w.dead {
			// a world whose goroutine hung or panicked mid-operation is abandoned, not closed
			w = nil
		}
		nw, err := newWorld(seed)
		if err != nil {
			return false
		}
		w = nw
		return true
	}
	for i, op := range c.Ops {
		f := strings.Fields(op)
		switch {
		case f[0] == "reset":
			if w != nil {
				w.close()
				w = nil
			}
			seed, _ = strconv.ParseInt(f[1], 10, 64)
			if seed != 0 {
				nw, err := newWorld(seed)
				if err != nil {
					fails = append(fails, corr.Fail{Sig: "c09-world", Detail: err.Error(), Op: i})
				}
				w = nw
			}
			out = append(out, "ok")
		case f[0] == "dec" || f[0] == "decs":
			if len(f) != 3 {
				out = append(out, "bad-op")
				break
			}
			var r string
			o := measured(len(f[2])/2, func() string { r = c08.Decode1(f[1], corr.UnHex(f[2]), f[0] == "decs"); return r })
			if r == "err panic" {
				o.panicV, o.stack = "decoder panicked", ""
			}
			if o.hang {
				r = "hang"
			}
			fails = append(fails, failOf("codec:"+f[1], o, op, i, len(f[2])/2, allocKLoose)...)
			out = append(out, r)
		case f[0] == "x":
			if len(f) < 2 {
				out = append(out, "bad-op")
				break
			}
			entry := f[1]
			if entry == "world-error" {
				fails = append(fails, corr.Fail{Sig: "c09-world", Detail: string(corr.UnHex(f[2])), Op: i})
				out = append(out, "-")
				break
			}
			name := entry
			if entry == "ep" && len(f) > 2 {
				name = "ep:" + f[2]
			}
			if entry == "codec" && len(f) > 2 {
				name = "codec:" + f[2]
			}
			_, pure := pureEntries[entry]
			if !pure && w == nil {
				out = append(out, "-")
				break
			}
			if _, h := hungEntries.Load(name); h {
				out = append(out, "-")
				break
			}
			ww := w
			o := measured(inputSize(f[2:]), func() string { return ww.xOp(entry, f[2:]) }) // pure entries do not touch ww
			if o.hang {
				hungEntries.Store(name, true)
			}
			stats.add(name + "=" + verdictClass(o))
			fails = append(fails, failOf(name, o, op, i, inputSize(f[2:]), allocKLoose)...)
			if !pure && (o.hang || o.panicV != "") {
				rebuild()
			}
			out = append(out, "-")
		default:
			if len(f) != 2 || w == nil {
				out = append(out, "bad-op")
				break
			}
			data := corr.UnHex(f[1])
			var line, detail string
			var bad []string
			if _, h := hungEntries.Load(f[0]); h {
				out = append(out, statelessLine(f[0], data))
				break
			}
			ww := w
			o := measured(len(data), func() string { line, detail, bad = ww.statefulOp(f[0], data); return detail })
			if o.hang {
				hungEntries.Store(f[0], true)
			}
			stats.add(f[0] + "=" + verdictClass(o))
			fails = append(fails, failOf(f[0], o, op, i, len(data), allocKLoose)...)
			for _, b := range bad {
				fails = append(fails, corr.Fail{Sig: "c09-verdict:" + f[0], Detail: clip(op) + ": " + b, Op: i})
			}
			if o.hang || o.panicV != "" {
				// the verdict line is still well defined (it does not depend on the crashed call)
				line = statelessLine(f[0], data)
				rebuild()
			}
			out = append(out, line)
		}
	}
	return out, fails
}

func verdictClass(o outcome) string {
	switch {
	case o.hang:
		return "HANG"
	case o.panicV != "":
		return "PANIC"
	}
	return o.verdict
}

func (prop) Classify(c corr.Case, out []string) string {
	kinds := map[string]bool{}
	for i, op := range c.Ops {
		if i == 0 || i >= len(out) {
			continue
		}
		f := strings.Fields(op)
		k := f[0]
		if k == "x" && len(f) > 1 {
			k = "x-" + f[1]
		}
		o := out[i]
		if j := strings.IndexByte(o, ' '); j > 0 {
			o = o[:j]
		}
		kinds[k+":"+o] = true
	}
	if len(kinds) < 2 {
		return ""
	}
	l := make([]string, 0, len(kinds))
	for k := range kinds {
		l = append(l, k)
	}
	sort.Strings(l)
	if len(l) > 6 {
		l = append(l[:6], "…")
	}
	return c.Tag + "[" + strings.Join(l, ",") + "]"
}
