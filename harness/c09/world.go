package c09

import (
	"context"
	"crypto/ed25519"
	"crypto/sha256"
	"encoding/binary"
	"fmt"

	"github.com/libp2p/go-libp2p/core/crypto"
	"github.com/libp2p/go-libp2p/core/peer"
	ma "github.com/multiformats/go-multiaddr"

	"github.com/LiskHQ/lisk-engine/pkg/blockchain"
	"github.com/LiskHQ/lisk-engine/pkg/codec"
	"github.com/LiskHQ/lisk-engine/pkg/consensus"
	"github.com/LiskHQ/lisk-engine/pkg/consensus/certificate"
	syncer "github.com/LiskHQ/lisk-engine/pkg/consensus/sync"
	"github.com/LiskHQ/lisk-engine/pkg/db"
	"github.com/LiskHQ/lisk-engine/pkg/engine/config"
	"github.com/LiskHQ/lisk-engine/pkg/engine/endpoint"
	"github.com/LiskHQ/lisk-engine/pkg/generator"
	"github.com/LiskHQ/lisk-engine/pkg/p2p"
	"github.com/LiskHQ/lisk-engine/pkg/router"
	"github.com/LiskHQ/lisk-engine/pkg/trie/rmt"
	"github.com/LiskHQ/lisk-engine/pkg/trie/smt"
	"github.com/LiskHQ/lisk-engine/pkg/txpool"

	"verifharness/node"
)

// genesisTimestamp is fixed (far in the past) so that a world is a pure function of its seed: the
// bytes of every valid message generated for seed s are valid in every world built from s, now and
// in a later replay.
const genesisTimestamp = 1_600_000_000

const worldHeight = 16 // blocks on top of genesis

// more than 8 validators: the aggregation bitmap of a commit has two bytes, so that a one byte
// bitmap is too short for the validator set
const numValidators = 9

// world is one in-process node plus everything hanging on its p2p connection, as engine.Start wires it.
type world struct {
	seed  int64
	n     *node.Node
	pool  *txpool.TransactionPool
	gen   *generator.Generator
	genDB *db.DB
	vn    *p2p.VerifNode // real MessageProtocol / Peer of n.Conn over the stub host
	eps   map[string]router.EndpointHandler
	ctx   context.Context
	peers []p2p.PeerID
	next  int
	dead  bool
}

var peerPool = func() []p2p.PeerID {
	res := make([]p2p.PeerID, 64)
	for i := range res {
		seed := sha256.Sum256([]byte(fmt.Sprintf("c09-peer-%d", i)))
		priv := ed25519.NewKeyFromSeed(seed[:])
		pk, err := crypto.UnmarshalEd25519PublicKey(priv.Public().(ed25519.PublicKey))
		if err != nil {
			panic(err)
		}
		id, err := peer.IDFromPublicKey(pk)
		if err != nil {
			panic(err)
		}
		res[i] = id
	}
	return res
}()

func newWorld(seed int64) (w *world, err error) { return newWorldCfg(seed, nil) }

// newWorldCfg: newWorld with a modified node configuration (C09CONC: a block cache smaller than the chain).
func newWorldCfg(seed int64, mod func(*node.Config)) (w *world, err error) {
	defer func() {
		if r := recover(); r != nil {
			err = fmt.Errorf("world construction panicked: %v", r)
		}
	}()
	ncfg := node.Config{NumValidators: numValidators, Seed: seed, GenesisTimestamp: genesisTimestamp, ExtraValidators: 1}
	if mod != nil {
		mod(&ncfg)
	}
	n, err := node.New(ncfg)
	if err != nil {
		return nil, err
	}
	w = &world{seed: seed, n: n, ctx: context.Background(), peers: peerPool}
	// transaction pool on the same connection (engine.Start order: pool.Init registers its handlers
	// before the connection starts)
	w.pool = txpool.NewTransactionPool(&txpool.TransactionPoolConfig{MaxTransactions: 64, MaxTransactionsPerAccount: 8})
	if err := w.pool.Init(w.ctx, node.NopLogger(), n.DB, n.Chain, n.Conn, n.ABI); err != nil {
		return nil, err
	}
	w.pool.VerifStopTicker()
	w.vn, err = p2p.VerifC09Attach(n.Conn, peerPool[63])
	if err != nil {
		return nil, err
	}
	w.vn.StartGater()
	// a chain with transactions, certificates and aggregate commits
	for i := 0; i < worldHeight; i++ {
		opts := node.BlockOpts{}
		if i%3 == 1 {
			v := n.Validators[i%numValidators]
			opts.Txs = []*blockchain.Transaction{
				n.NewTransaction(v, uint64(i), 1000, []byte{node.TxOK, node.TxOK, byte(i)}),
				n.NewTransaction(n.Validators[(i+1)%numValidators], uint64(i), 2000, []byte{node.TxOK, node.TxOK}),
			}
		}
		// aggregate commit: the reference aggregate (verifier's key order) of all validators for the
		// highest precommitted height every second block, otherwise the empty commit (independent of
		// the key order SingleCommits.Aggregate uses, see C06)
		_, mhpc, mhc := n.BFTHeights()
		opts.AggregateCommit = &blockchain.AggregateCommit{Height: mhc, AggregationBits: codec.Hex{}, CertificateSignature: codec.Hex{}}
		if i%2 == 1 && mhpc > mhc {
			if ref, err := n.ReferenceAggregate(mhpc, n.Validators[:numValidators]); err == nil && ref != nil {
				opts.AggregateCommit = ref
			}
		}
		b, err := n.BuildBlock(opts)
		if err != nil {
			return nil, fmt.Errorf("build block %d: %w", i, err)
		}
		if err := n.Process(b); err != nil {
			return nil, fmt.Errorf("process block %d: %w", i, err)
		}
		if i%3 == 0 {
			for _, v := range n.Validators[:7] {
				_ = n.Certify(v, 0, n.Height())
			}
		}
	}
	// generator + endpoints
	w.genDB, err = db.NewInMemoryDB()
	if err != nil {
		return nil, err
	}
	cfg := &config.Config{Genesis: &config.GenesisConfig{ChainID: n.Cfg.ChainID, BlockTime: n.Cfg.BlockTime, BFTBatchSize: uint32(n.Cfg.BatchSize)}}
	_ = cfg.InsertDefault()
	w.gen = generator.NewGenerator(&generator.GeneratorParams{Consensus: n.Exec, ABI: n.ABI, Pool: w.pool, Chain: n.Chain})
	w.eps = map[string]router.EndpointHandler{}
	add := func(ns string, hs router.EndpointHandlers) {
		for m, h := range hs {
			w.eps[ns+"_"+m] = h
		}
	}
	add("chain", endpoint.NewChainEndpoint(n.Chain, n.Exec, n.Conn, w.pool, n.ABI).Endpoint())
	add("system", endpoint.NewSystemEndpoint(cfg, n.Chain, n.Exec, n.Conn, w.pool, n.ABI).Endpoint())
	add("network", endpoint.NewNetworkEndpoint(cfg, n.Chain, n.Exec, n.Conn, w.pool, n.ABI).Endpoint())
	add("txpool", endpoint.NewtxpoolEndpoint(cfg, n.Chain, n.Exec, n.Conn, w.pool, n.ABI).Endpoint())
	add("generator", endpoint.NewGeneratorEndpoint(cfg, n.Chain, n.Exec, w.gen, n.DB, w.genDB, n.ABI).Endpoint())
	return w, nil
}

func (w *world) close() {
	if w == nil || w.dead {
		return
	}
	w.dead = true
	w.vn.Close()
	w.pool.VerifStopTicker()
	w.n.Close()
	if w.genDB != nil {
		_ = w.genDB.Close()
	}
}

// freshPeer returns a peer id with an open connection on the stub network (so that bans are
// observable as disconnects) and its address.
func (w *world) freshPeer() (p2p.PeerID, ma.Multiaddr) {
	i := w.next % 60
	w.next++
	p := w.peers[i]
	addr := ma.StringCast(fmt.Sprintf("/ip4/10.9.%d.%d/tcp/4001", i/200, 1+i%200))
	_ = w.vn.PeerDisconnect(p) // drop the connection left by an earlier operation
	w.vn.TakeClosed()
	w.vn.AddConn(p, addr)
	w.n.DrainEvents() // the node's event channel is buffered; nobody else reads it here
	return p, addr
}

// ---------------------------------------------------------------------------------------------
// valid messages of a world (templates for the mutators)

type templates struct {
	nextBlock     []byte // valid next block with transactions and a non-empty aggregate commit (if available)
	nextEmpty     []byte // valid next block without transactions
	tipBlock      []byte // the current tip (identical block)
	oldBlock      []byte // a block from the middle of the chain
	farBlock      []byte // well-formed block on another chain far ahead
	header        []byte // encoded header of nextBlock
	asset         []byte // encoded block asset
	tx            []byte // valid signed transaction (not on chain)
	tx2           []byte // valid transaction, other sender
	commits       []byte // EventPostSingleCommits with valid commits for recent heights
	oneCommit     []byte // EventPostSingleCommits with a single valid commit
	aggregate     []byte // encoded non-empty AggregateCommit valid for the current state ("" if none)
	aggHeight     uint32
	reqLast       []byte // Request envelopes
	reqCommon     []byte
	reqFromID     []byte
	reqTxs        []byte
	reqUnknown    []byte
	respOK        []byte
	respErr       []byte
	ids           [][]byte // block ids of the chain
	rmtProof      []byte   // encoded rmt.Proof for rmtQuery against rmtRoot
	rmtQuery      [][]byte
	rmtRoot       []byte
	rmtSize       uint64
	rmtAppend     [][]byte // append path of the first rmtWitIdx leaves
	rmtWitness    [][]byte
	rmtWitIdx     uint64
	smtProof      []byte // encoded smt.Proof (inclusion + exclusion queries)
	smtKeys       [][]byte
	smtRoot       []byte
	blsKeys       [][]byte // validators' BLS keys, ascending
	blsMsg        []byte
	blsSig        []byte // aggregate of all
	blsBits       []byte
	blsOneSig     []byte
	edPub, edSig  []byte
	edMsg         []byte
	chainID       []byte
	validatorAdr  [][]byte
	postBlockJSON []byte // JSON of a valid postBlock / postTransaction request
	postTxJSON    []byte
}

type mapDB map[string][]byte

func (m mapDB) Get(k []byte) ([]byte, bool) {
	v, ok := m[string(k)]
	if !ok {
		return nil, false
	}
	return append(make([]byte, 0, len(v)), v...), true
}
func (m mapDB) Del(k []byte)    { delete(m, string(k)) }
func (m mapDB) Set(k, v []byte) { m[string(k)] = append(make([]byte, 0, len(v)), v...) }

func h32(tag string, i int) []byte {
	s := sha256.Sum256([]byte(fmt.Sprintf("%s-%d", tag, i)))
	return s[:]
}

func (w *world) templates() (t *templates, err error) {
	defer func() {
		if r := recover(); r != nil {
			err = fmt.Errorf("template construction panicked: %v", r)
		}
	}()
	n := w.n
	t = &templates{chainID: n.Cfg.ChainID}
	v0 := n.Validators[0]
	txA := n.NewTransaction(v0, 100, 5000, []byte{node.TxOK, node.TxOK, 7})
	txB := n.NewTransaction(n.Validators[1], 100, 7000, []byte{node.TxOK, node.TxOK, 9, 9})
	t.tx, t.tx2 = txA.Encode(), txB.Encode()
	_, mhpc, mhc := n.BFTHeights()
	emptyAC := &blockchain.AggregateCommit{Height: mhc, AggregationBits: codec.Hex{}, CertificateSignature: codec.Hex{}}
	ac := emptyAC
	if mhpc > mhc {
		if ref, err := n.ReferenceAggregate(mhpc, n.Validators[:numValidators]); err == nil && ref != nil {
			ac = ref
		}
	}
	nb, err := n.BuildBlock(node.BlockOpts{AggregateCommit: ac, Txs: []*blockchain.Transaction{txA, txB}, Assets: []*blockchain.BlockAsset{{Module: "random", Data: []byte{1, 2, 3}}}})
	if err != nil {
		return nil, err
	}
	t.nextBlock = nb.Encode()
	t.header = nb.Header.Encode()
	if len(nb.Assets) > 0 {
		t.asset = nb.Assets[0].Encode()
	}
	if !nb.Header.AggregateCommit.Empty() {
		t.aggregate = nb.Header.AggregateCommit.Encode()
		t.aggHeight = nb.Header.AggregateCommit.Height
	}
	ne, err := n.BuildBlock(node.BlockOpts{AggregateCommit: emptyAC})
	if err != nil {
		return nil, err
	}
	t.nextEmpty = ne.Encode()
	t.tipBlock = n.Tip().Encode()
	if ob, err := n.BlockAt(n.Height() / 2); err == nil {
		t.oldBlock = ob.Encode()
	}
	far, err := n.BuildBlock(node.BlockOpts{AggregateCommit: emptyAC, Mutate: func(b *blockchain.Block) {
		b.Header.Height += 50
		b.Header.PreviousBlockID = h32("far", 0)
	}})
	if err == nil {
		t.farBlock = far.Encode()
	}
	for h := uint32(0); h <= n.Height(); h++ {
		if hd, err := n.HeaderAt(h); err == nil {
			t.ids = append(t.ids, hd.ID)
		}
	}
	// single commits for the last heights
	var scs []*certificate.SingleCommit
	for h := n.Height(); h > 0 && len(scs) < 6; h-- {
		for _, v := range n.Validators[:2] {
			scs = append(scs, n.SingleCommit(v, h))
		}
	}
	t.commits = consensus.VerifEncodeSingleCommits(scs)
	t.oneCommit = consensus.VerifEncodeSingleCommits(scs[:1])
	for _, v := range n.Validators[:numValidators] {
		t.validatorAdr = append(t.validatorAdr, v.Address)
	}
	// p2p envelopes
	from := w.peers[0]
	common := (&syncer.GetHighestCommonBlockRequest{IDs: [][]byte{t.ids[len(t.ids)-1], t.ids[1], h32("unknown", 1)}}).Encode()
	fromID := (&syncer.GetBlocksFromIDRequest{ID: t.ids[2]}).Encode()
	t.reqLast = p2p.VerifEncodeRequest(from, syncer.RPCEndpointGetLastBlock, nil)
	t.reqCommon = p2p.VerifEncodeRequest(from, syncer.RPCEndpointGetHighestCommonBlock, common)
	t.reqFromID = p2p.VerifEncodeRequest(from, syncer.RPCEndpointGetBlocksFromID, fromID)
	t.reqTxs = p2p.VerifEncodeRequest(from, txpool.RPCEndpointGetTransactions, nil)
	t.reqUnknown = p2p.VerifEncodeRequest(from, "getNothing", []byte{1})
	t.respOK = p2p.VerifEncodeResponse("b7e1c3f0-0000-4000-8000-000000000001", syncer.RPCEndpointGetLastBlock, t.tipBlock)
	t.respErr = p2p.VerifC09EncodeResponseErr("b7e1c3f0-0000-4000-8000-000000000002", syncer.RPCEndpointGetBlocksFromID, nil, "not found")
	// regular merkle tree proof and right witness
	tr := rmt.NewRegularMerkleTree(mapDB{})
	var leaves [][]byte
	for i := 0; i < 11; i++ {
		leaves = append(leaves, h32("leaf", i))
		if err := tr.Append(leaves[i]); err != nil {
			return nil, err
		}
	}
	q := [][]byte{rmtLeafHash(leaves[2]), rmtLeafHash(leaves[7]), rmtLeafHash(leaves[10])}
	pr, err := tr.GenerateProof(q)
	if err != nil {
		return nil, err
	}
	t.rmtProof, t.rmtQuery, t.rmtRoot, t.rmtSize = pr.Encode(), q, tr.Root(), tr.Size()
	t.rmtWitIdx = 6
	part := rmt.NewRegularMerkleTree(mapDB{})
	for i := 0; i < int(t.rmtWitIdx); i++ {
		_ = part.Append(leaves[i])
	}
	t.rmtAppend = part.AppendPath()
	if wit, err := tr.GenerateRightWitness(t.rmtWitIdx); err == nil {
		t.rmtWitness = wit
	}
	// sparse merkle tree proof
	sdb := mapDB{}
	trie := smt.NewTrie(nil, 32)
	var keys, vals [][]byte
	for i := 0; i < 9; i++ {
		keys = append(keys, h32("smt-key", i))
		vals = append(vals, h32("smt-val", i))
	}
	root, err := trie.Update(sdb, keys, vals)
	if err != nil {
		return nil, err
	}
	t.smtKeys = [][]byte{keys[1], keys[5], h32("smt-absent", 0)}
	sp, err := smt.NewTrie(root, 32).Prove(sdb, t.smtKeys)
	if err != nil {
		return nil, err
	}
	t.smtProof, t.smtRoot = sp.Encode(), root
	// BLS / Ed25519 material
	hd, _ := n.HeaderAt(n.Height())
	agg, err := n.ReferenceAggregate(n.Height(), n.Validators[:numValidators])
	if err == nil && agg != nil {
		cert := certificate.NewCertificateFromBlock(hd)
		t.blsMsg = certSigningHash(n.Cfg.ChainID, cert)
		t.blsSig, t.blsBits = agg.CertificateSignature, agg.AggregationBits
	}
	params, err := n.BFTParams(n.Height())
	if err == nil {
		for _, v := range params.Validators() {
			t.blsKeys = append(t.blsKeys, v.BLSKey())
		}
		sortBytes(t.blsKeys)
	}
	t.blsOneSig = n.SingleCommit(v0, n.Height()).CertificateSignature()
	t.edPub = v0.EdPub
	t.edMsg = h32("ed-msg", 0)
	t.edSig = ed25519.Sign(ed25519.PrivateKey(v0.EdPriv), t.edMsg)
	t.postBlockJSON = mustJSON(map[string]any{"block": nb})
	t.postTxJSON = mustJSON(map[string]any{"transaction": txA})
	return t, nil
}

func u64(v uint64) []byte {
	b := make([]byte, 8)
	binary.BigEndian.PutUint64(b, v)
	return b
}

var _ = codec.Hex{}
