package c09

import (
	"bytes"
	"fmt"
	"io"
	"net"
	"net/http"
	"os"
	"os/exec"
	"strings"
	"time"

	"github.com/gorilla/websocket"

	"github.com/LiskHQ/lisk-engine/pkg/router"
	"github.com/LiskHQ/lisk-engine/pkg/rpc"

	"verifharness/corr"
	"verifharness/node"
)

// The JSON RPC server runs handlers in goroutines of its own (router.Invoke, wsSocket.dispatch /
// read, net/http): a panic there cannot be recovered by a caller — it ends the process. So the RPC
// transport is driven in a CHILD process: the child builds the node, the router with the engine's
// endpoints and the real rpc.RPCServer (HTTP + WS on a loopback port, as engine.Start wires them),
// plays one scenario as an RPC client and prints "alive" if the server still answers afterwards.
// The parent reports a child that died as `c09-crash:rpc:<scenario>`.

const childEnv = "C09_RPC_CHILD"

func init() {
	if sc := os.Getenv(childEnv); sc != "" {
		os.Exit(runRPCChild(sc))
	}
}

type rpcScenario struct {
	name string
	run  func(c *rpcClient) error
}

type rpcClient struct {
	addr string
}

func (c *rpcClient) post(body string) (int, string, error) {
	resp, err := http.Post("http://"+c.addr+"/rpc", "application/json", strings.NewReader(body))
	if err != nil {
		return 0, "", err
	}
	defer resp.Body.Close()
	b, _ := io.ReadAll(resp.Body)
	return resp.StatusCode, string(b), nil
}

func (c *rpcClient) ws(msgs ...string) ([]string, error) {
	conn, _, err := websocket.DefaultDialer.Dial("ws://"+c.addr+"/rpc-ws", nil)
	if err != nil {
		return nil, err
	}
	defer conn.Close()
	var out []string
	for _, m := range msgs {
		if err := conn.WriteMessage(websocket.TextMessage, []byte(m)); err != nil {
			return out, nil // the server closed the connection (malformed message): allowed
		}
		_ = conn.SetReadDeadline(time.Now().Add(3 * time.Second))
		_, resp, err := conn.ReadMessage()
		if err != nil {
			return out, nil
		}
		out = append(out, string(resp))
	}
	return out, nil
}

func rpcReq(method, params string) string {
	return `{"jsonrpc":"2.0","id":"1","method":"` + method + `","params":` + params + `}`
}

var rpcScenarios = []rpcScenario{
	{"http-garbage", func(c *rpcClient) error {
		for _, b := range []string{"", "{", "null", "[]", `{"jsonrpc":"2.0"}`, `{"jsonrpc":"1.0","id":"1","method":"x"}`, `{"jsonrpc":"2.0","id":"-1","method":"x"}`,
			`{"jsonrpc":"2.0","id":1,"method":"x"}`, rpcReq("x", "{}"), rpcReq("a_b_c", "{}"), rpcReq("chain_nope", "{}"), rpcReq("_", "{}"), rpcReq("chain_getLastBlock", "null"),
			rpcReq("chain_getBlockByHeight", `{"height":"x"}`), rpcReq("chain_getGetBlockByID", `{"id":"zz"}`), rpcReq("system_getNodeInfo", `[]`), strings.Repeat("[", 100000)} {
			if _, _, err := c.post(b); err != nil {
				return err
			}
		}
		return nil
	}},
	{"http-get-on-ws-path", func(c *rpcClient) error {
		// a plain HTTP request on the websocket path: the upgrade fails
		resp, err := http.Get("http://" + c.addr + "/rpc-ws")
		if err == nil {
			resp.Body.Close()
		}
		time.Sleep(300 * time.Millisecond)
		return nil
	}},
	{"ws-garbage", func(c *rpcClient) error {
		for _, m := range []string{"", "{", "null", `{}`, `{"jsonrpc":"2.0","id":"-5","method":"x"}`, rpcReq("x", "{}"), rpcReq("chain_nope", "1"), rpcReq("subscribe", "{}"),
			rpcReq("subscribe", `{"topics":[]}`), rpcReq("subscribe", `{"topics":5}`), rpcReq("subscribe", `null`)} {
			if _, err := c.ws(m); err != nil {
				return err
			}
		}
		return nil
	}},
	{"ws-subscribe-unsubscribe", func(c *rpcClient) error {
		_, err := c.ws(rpcReq("subscribe", `{"topics":["chain_newBlock"]}`), rpcReq("unsubscribe", `{"topics":["chain_newBlock"]}`))
		return err
	}},
	{"ws-unsubscribe-garbage", func(c *rpcClient) error {
		for _, p := range []string{`{}`, `null`, `{"topics":[]}`, `{"topics":null}`, `{"topics":5}`, `[]`, `"x"`} {
			if _, err := c.ws(rpcReq("unsubscribe", p)); err != nil {
				return err
			}
		}
		return nil
	}},
	{"post-block-empty-params", func(c *rpcClient) error {
		_, _, err := c.post(rpcReq("chain_postBlock", `{}`))
		return err
	}},
	{"post-block-null-members", func(c *rpcClient) error {
		for _, p := range []string{`{"block":{}}`, `{"block":{"header":{}}}`, `{"block":{"header":{},"transactions":[null]}}`, `{"block":{"header":{"aggregateCommit":{}},"assets":[null]}}`} {
			if _, _, err := c.post(rpcReq("chain_postBlock", p)); err != nil {
				return err
			}
		}
		return nil
	}},
	{"post-transaction-empty-params", func(c *rpcClient) error {
		_, err := c.ws(rpcReq("txpool_postTransaction", `{}`))
		return err
	}},
	{"endpoints-generic-params", func(c *rpcClient) error {
		for _, e := range endpointNames {
			if e == "chain_postBlock" || e == "txpool_postTransaction" {
				continue
			}
			for _, p := range []string{`{}`, `null`, `[]`, `5`, `{"id":null}`, `{"height":-1}`, `{"address":5}`, `{"type":"plain","data":null}`} {
				if _, _, err := c.post(rpcReq(e, p)); err != nil {
					return err
				}
			}
		}
		return nil
	}},
}

func runRPCChild(scenario string) int {
	var sc *rpcScenario
	for i := range rpcScenarios {
		if rpcScenarios[i].name == scenario {
			sc = &rpcScenarios[i]
		}
	}
	if sc == nil {
		fmt.Println("unknown scenario")
		return 3
	}
	w, err := newWorld(1)
	if err != nil {
		fmt.Println("world:", err)
		return 3
	}
	rt := router.NewRouter()
	_ = rt.Init(nil, node.NopLogger(), w.n.Chain)
	for name, h := range w.eps {
		p := strings.SplitN(name, "_", 2)
		if err := rt.RegisterEndpoint(p[0], p[1], h); err != nil {
			fmt.Println("register:", err)
			return 3
		}
	}
	l, err := net.Listen("tcp", "127.0.0.1:0")
	if err != nil {
		fmt.Println("listen:", err)
		return 3
	}
	port := l.Addr().(*net.TCPAddr).Port
	l.Close()
	srv := rpc.NewRPCServer(node.NopLogger(), []string{rpc.RPCTypeHTTP, rpc.RPCTypeWS}, rt, port, "127.0.0.1", "")
	go func() { _ = srv.ListenAndServe() }()
	c := &rpcClient{addr: fmt.Sprintf("127.0.0.1:%d", port)}
	ready := false
	for i := 0; i < 100; i++ {
		if code, _, err := c.post(rpcReq("chain_getLastBlock", "{}")); err == nil && code == 200 {
			ready = true
			break
		}
		time.Sleep(50 * time.Millisecond)
	}
	if !ready {
		fmt.Println("server did not start")
		return 3
	}
	if err := sc.run(c); err != nil {
		fmt.Println("client error:", err)
		return 4
	}
	// let the consensus loop see what the handlers queued (postBlock), as Executer.Start would
	func() {
		defer func() {
			if r := recover(); r != nil {
				fmt.Println("consensus loop panicked:", r)
				os.Exit(2) // the real loop has no recover
			}
		}()
		w.drainQueue()
	}()
	time.Sleep(100 * time.Millisecond)
	code, body, err := c.post(rpcReq("chain_getLastBlock", "{}"))
	if err != nil || code != 200 || !strings.Contains(body, `"result"`) {
		fmt.Println("server does not answer any more:", code, err)
		return 4
	}
	if out, err := c.ws(rpcReq("system_getNodeInfo", "{}")); err != nil || len(out) != 1 || !strings.Contains(out[0], `"result"`) {
		fmt.Println("websocket server does not answer any more:", out, err)
		return 4
	}
	fmt.Println("alive")
	return 0
}

// rpcTransportChecks runs every scenario in a child process.
func rpcTransportChecks() (int, []corr.Fail) {
	var fails []corr.Fail
	n := 0
	for _, sc := range rpcScenarios {
		cmd := exec.Command(os.Args[0])
		cmd.Env = append(os.Environ(), childEnv+"="+sc.name)
		var out, errb bytes.Buffer
		cmd.Stdout, cmd.Stderr = &out, &errb
		done := make(chan error, 1)
		if err := cmd.Start(); err != nil {
			fails = append(fails, corr.Fail{Sig: "c09-rpc-child", Detail: err.Error(), Op: -1})
			continue
		}
		go func() { done <- cmd.Wait() }()
		var err error
		select {
		case err = <-done:
		case <-time.After(90 * time.Second):
			_ = cmd.Process.Kill()
			fails = append(fails, corr.Fail{Sig: "c09-hang:rpc:" + sc.name, Detail: "RPC scenario did not finish within 90s", Op: -1})
			continue
		}
		n++
		if err == nil && strings.Contains(out.String(), "alive") {
			continue
		}
		msg := strings.TrimSpace(out.String())
		st := errb.String()
		if i := strings.Index(st, "fatal error:"); i >= 0 && !strings.Contains(st, "panic:") {
			msg += " | " + strings.SplitN(st[i:], "\n", 2)[0]
		}
		if i := strings.Index(st, "panic:"); i >= 0 {
			st = st[i:]
			lines := strings.Split(st, "\n")
			site := ""
			for _, l := range lines {
				if strings.Contains(l, "github.com/LiskHQ/lisk-engine/") && !strings.HasPrefix(l, "\t") {
					site = strings.TrimPrefix(l, "github.com/LiskHQ/lisk-engine/")
					if j := strings.LastIndex(site, "("); j > 0 {
						site = site[:j]
					}
					break
				}
			}
			msg += " | " + lines[0] + " at " + site
		}
		sig := "c09-crash:rpc:" + sc.name
		if cmd.ProcessState != nil && (cmd.ProcessState.ExitCode() == 3) {
			sig = "c09-rpc-child"
		}
		fails = append(fails, corr.Fail{Sig: sig, Detail: fmt.Sprintf("scenario %s: node process exited (%v): %s", sc.name, err, clip(msg)), Op: -1})
	}
	return n, fails
}
