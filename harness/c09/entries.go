package c09

import (
	"context"
	"fmt"
	"strconv"
	"strings"

	"github.com/LiskHQ/lisk-engine/pkg/blockchain"
	"github.com/LiskHQ/lisk-engine/pkg/codec"
	"github.com/LiskHQ/lisk-engine/pkg/consensus"
	syncer "github.com/LiskHQ/lisk-engine/pkg/consensus/sync"
	"github.com/LiskHQ/lisk-engine/pkg/crypto"
	"github.com/LiskHQ/lisk-engine/pkg/p2p"
	"github.com/LiskHQ/lisk-engine/pkg/router"
	"github.com/LiskHQ/lisk-engine/pkg/rpc"
	"github.com/LiskHQ/lisk-engine/pkg/trie/rmt"
	"github.com/LiskHQ/lisk-engine/pkg/trie/smt"
	"github.com/LiskHQ/lisk-engine/pkg/txpool"

	"verifharness/c08"
	"verifharness/corr"
	"verifharness/node"
)

func rmtLeafHash(d []byte) []byte { return crypto.Hash(append([]byte{0}, d...)) }

func certSigningHash(chainID []byte, c interface{ SigningBytes() []byte }) []byte {
	msg := append(append([]byte("LSK_CE_"), chainID...), c.SigningBytes()...)
	return crypto.Hash(msg)
}

// list arguments: "_" = empty list, otherwise comma separated hex with "-" for the empty string
func encList(l [][]byte) string {
	if len(l) == 0 {
		return "_"
	}
	s := make([]string, len(l))
	for i, b := range l {
		s[i] = corr.Hex(b)
	}
	return strings.Join(s, ",")
}

func decList(s string) [][]byte {
	if s == "_" {
		return [][]byte{}
	}
	parts := strings.Split(s, ",")
	res := make([][]byte, len(parts))
	for i, p := range parts {
		res[i] = corr.UnHex(p)
	}
	return res
}

func encU64s(l []uint64) string {
	if len(l) == 0 {
		return "_"
	}
	s := make([]string, len(l))
	for i, v := range l {
		s[i] = strconv.FormatUint(v, 10)
	}
	return strings.Join(s, ",")
}

func decU64s(s string) []uint64 {
	if s == "_" {
		return []uint64{}
	}
	parts := strings.Split(s, ",")
	res := make([]uint64, len(parts))
	for i, p := range parts {
		res[i], _ = strconv.ParseUint(p, 10, 64)
	}
	return res
}

func vres(r p2p.ValidationResult) string {
	switch r {
	case p2p.ValidationAccept:
		return "accept"
	case p2p.ValidationReject:
		return "reject"
	case p2p.ValidationIgnore:
		return "ignore"
	}
	return fmt.Sprintf("result(%d)", int(r))
}

// ---------------------------------------------------------------------------------------------
// stateless entry points (no node needed): name -> function over the op's arguments

type pureEntry struct {
	nargs int
	// size of the untrusted input for the allocation bound
	run func(a []string) string
}

func inputSize(a []string) int {
	n := 0
	for _, s := range a {
		n += len(s) / 2
	}
	return n
}

func boolS(b bool) string {
	if b {
		return "true"
	}
	return "false"
}

func errS(err error) string {
	if err != nil {
		return "error"
	}
	return "ok"
}

var pureEntries = map[string]pureEntry{
	// (1) block / transaction constructors and stateless validation
	"newblock": {1, func(a []string) string {
		b, err := blockchain.NewBlock(corr.UnHex(a[0]))
		if err != nil {
			return "decode-error"
		}
		b.Init()
		_ = b.Encode()
		return "validate-" + errS(b.Validate())
	}},
	"newheader": {1, func(a []string) string {
		h, err := blockchain.NewBlockHeader(corr.UnHex(a[0]))
		if err != nil {
			return "decode-error"
		}
		_ = h.SigningBytes()
		_ = h.VerifySignature([]byte{4, 0, 0, 0x99}, make([]byte, 32))
		_ = h.ValidateGenesis()
		return "validate-" + errS(h.Validate())
	}},
	"newtx": {1, func(a []string) string {
		t, err := blockchain.NewTransaction(corr.UnHex(a[0]))
		if err != nil {
			return "decode-error"
		}
		_ = t.SigningBytes()
		_ = t.SenderAddress()
		_ = t.Copy()
		return "validate-" + errS(t.Validate())
	}},
	"newasset": {1, func(a []string) string {
		as, err := blockchain.NewBlockAsset(corr.UnHex(a[0]))
		if err != nil {
			return "decode-error"
		}
		l := blockchain.BlockAssets{as, as}
		_ = l.GetRoot()
		return "valid-" + errS(l.Valid())
	}},
	// every generated codec struct, both decoders
	"codec": {2, func(a []string) string {
		b := corr.UnHex(a[1])
		r := c08.Decode1(a[0], b, false)
		rs := c08.Decode1(a[0], b, true)
		if r == "err panic" || rs == "err panic" {
			panic("decoder of " + a[0] + " panicked")
		}
		if strings.HasPrefix(r, "ok") {
			return "ok"
		}
		return "error"
	}},
	// (6) proofs
	"smtv": {4, func(a []string) string { // proof bytes, root, key length, query keys
		p := &smt.Proof{}
		if err := p.Decode(corr.UnHex(a[0])); err != nil {
			return "decode-error"
		}
		kl, _ := strconv.Atoi(a[2])
		ok, err := smt.Verify(decList(a[3]), p, corr.UnHex(a[1]), kl)
		if err != nil {
			return "error"
		}
		return boolS(ok)
	}},
	"rmtv": {3, func(a []string) string { // proof bytes, root, query hashes
		p := &rmt.Proof{}
		if err := p.Decode(corr.UnHex(a[0])); err != nil {
			return "decode-error"
		}
		return boolS(rmt.VerifyProof(decList(a[2]), p, corr.UnHex(a[1])))
	}},
	"rmtu": {2, func(a []string) string { // proof bytes, update data
		p := &rmt.Proof{}
		if err := p.Decode(corr.UnHex(a[0])); err != nil {
			return "decode-error"
		}
		_, err := rmt.CalculateRootFromUpdateData(decList(a[1]), p)
		return errS(err)
	}},
	"rmtw": {4, func(a []string) string { // node index, append path, right witness, root
		idx, _ := strconv.ParseUint(a[0], 10, 64)
		return boolS(rmt.VerifyRightWitness(idx, decList(a[1]), decList(a[2]), corr.UnHex(a[3])))
	}},
	// (7) signatures
	"blsv": {3, func(a []string) string { // msg sig pk
		return boolS(crypto.BLSVerify(corr.UnHex(a[0]), corr.UnHex(a[1]), corr.UnHex(a[2])))
	}},
	"pop": {2, func(a []string) string { // pk proof
		return boolS(crypto.BLSPopVerify(corr.UnHex(a[0]), corr.UnHex(a[1])))
	}},
	"blsagg": {4, func(a []string) string { // keys bits sig msg
		return boolS(crypto.BLSVerifyAggSig(decList(a[0]), corr.UnHex(a[1]), corr.UnHex(a[2]), corr.UnHex(a[3])))
	}},
	"blsw": {6, func(a []string) string { // keys bits sig weights threshold msg
		thr, _ := strconv.ParseUint(a[4], 10, 64)
		return boolS(crypto.BLSVerifyWeightedAggSig(decList(a[0]), corr.UnHex(a[1]), corr.UnHex(a[2]), decU64s(a[3]), thr, corr.UnHex(a[5])))
	}},
	"edv": {3, func(a []string) string { // pk sig msg
		return errS(crypto.VerifySignature(corr.UnHex(a[0]), corr.UnHex(a[1]), corr.UnHex(a[2])))
	}},
	"vbs": {4, func(a []string) string { // pk sig chainID signingBytes
		return boolS(blockchain.ValidateBlockSignature(corr.UnHex(a[0]), corr.UnHex(a[1]), corr.UnHex(a[2]), corr.UnHex(a[3])))
	}},
}

// ---------------------------------------------------------------------------------------------
// stateful entry points

// drainQueue looks at what the handlers queued for the consensus loop and runs Executer.process on
// it, except for blocks the fork choice hands to the network synchroniser.
func (w *world) drainQueue() string {
	last := "none"
	for {
		b, pid, ok := w.n.Exec.VerifC09TakeQueued()
		if !ok {
			return last
		}
		fc, err := w.n.Exec.VerifForkChoice(b)
		if err != nil {
			last = "forkchoice-error"
			continue
		}
		if fc == "differentChain" {
			last = "would-sync"
			continue
		}
		if err := w.n.Exec.VerifProcess(context.Background(), b, pid); err != nil {
			last = fc + "-error"
		} else {
			last = fc + "-ok"
		}
	}
}

// gossip delivers one raw pubsub message on the topic and then lets the consensus loop run.
func (w *world) gossip(topic string, raw []byte) (string, string) {
	from, _ := w.freshPeer()
	res, handled := p2p.VerifC09Gossip(w.ctx, w.n.Conn, topic, from, raw)
	q := "none"
	if handled {
		q = w.drainQueue()
	}
	return vres(res), q
}

// prefix verdicts computed with the real decoders / Validate methods (what the Lean model computes)
func blockPrefix(payload []byte) string {
	b, err := blockchain.NewBlock(payload)
	if err != nil {
		return "reject"
	}
	if b.Validate() != nil {
		return "reject"
	}
	return "accept"
}

func txPrefix(payload []byte) string {
	if len(payload) == 0 {
		return "reject"
	}
	t, err := blockchain.NewTransaction(payload)
	if err != nil || t.Validate() != nil {
		return "reject"
	}
	return "accept"
}

func commitsPrefix(payload []byte) string {
	ev := &consensus.EventPostSingleCommits{}
	if err := ev.DecodeStrict(payload); err != nil {
		return "reject"
	}
	if len(ev.SingleCommits) == 0 {
		return "empty"
	}
	if ev.SingleCommits[0].Validate() != nil {
		return "reject"
	}
	return "stateful"
}

var knownProcedures = map[string]bool{
	syncer.RPCEndpointGetLastBlock:          true,
	syncer.RPCEndpointGetHighestCommonBlock: true,
	syncer.RPCEndpointGetBlocksFromID:       true,
	txpool.RPCEndpointGetTransactions:       true,
}

// statefulOp runs a model-compared op; returns the output line, the internal detail and the
// violated consistency conditions.
func (w *world) statefulOp(kind string, data []byte) (out string, detail string, bad []string) {
	envelope := func(payload []byte) []byte { return p2p.VerifC09EncodeMessage(payload) }
	payloadOf := func(raw []byte) ([]byte, bool) {
		m := p2p.NewMessage(nil)
		if err := m.Decode(raw); err != nil {
			return nil, false
		}
		return m.Data, true
	}
	switch kind {
	case "blk", "gblk", "tx", "gtx", "sc", "gsc":
		raw := data
		if kind[0] != 'g' {
			raw = envelope(data)
		}
		topic := map[byte]string{'b': consensus.P2PEventPostBlock, 't': txpool.RPCEventPostTransactionAnnouncement, 's': consensus.P2PEventPostSingleCommits}[strings.TrimPrefix(kind, "g")[0]]
		payload, okEnv := payloadOf(raw)
		want := "reject"
		if okEnv {
			switch topic {
			case consensus.P2PEventPostBlock:
				want = blockPrefix(payload)
			case txpool.RPCEventPostTransactionAnnouncement:
				want = txPrefix(payload)
			default:
				want = commitsPrefix(payload)
			}
		}
		got, q := w.gossip(topic, raw)
		detail = got + "/" + q
		switch want {
		case "accept", "reject":
			if got != want {
				bad = append(bad, fmt.Sprintf("validator returned %s, decode+Validate give %s", got, want))
			}
		case "empty":
			if got != "ignore" {
				bad = append(bad, "validator returned "+got+" for an empty commit list")
			}
		case "stateful":
			if got == "accept" {
				bad = append(bad, "single commit validator returned accept")
			}
		}
		return want, detail, bad
	case "req":
		from, addr := w.freshPeer()
		w.vn.OnRequest(from, addr, data)
		banned := len(w.vn.TakeClosed()) > 0
		if banned {
			return "ban", "ban", nil
		}
		return "serve", "serve", nil
	case "resp":
		from, addr := w.freshPeer()
		w.vn.OnResponse(from, addr, data)
		if len(w.vn.TakeClosed()) > 0 {
			return "ban", "ban", nil
		}
		return "ok", "ok", nil
	}
	return "bad-op", "", nil
}

// worldEntries: stateful entry points without a model (output "-").
func (w *world) xOp(entry string, a []string) string {
	if e, ok := pureEntries[entry]; ok {
		if len(a) != e.nargs {
			return "bad-op"
		}
		return e.run(a)
	}
	if w == nil {
		return "no-world"
	}
	switch entry {
	case "agg": // encoded AggregateCommit -> verifyAggregateCommit
		ac := &blockchain.AggregateCommit{}
		if err := ac.Decode(corr.UnHex(a[0])); err != nil {
			return "decode-error"
		}
		return errS(w.n.Exec.VerifVerifyAggregateCommit(w.n.Store(), ac))
	case "vblock": // encoded block -> verifyBlock (without the stateless validation in front)
		b, err := blockchain.NewBlock(corr.UnHex(a[0]))
		if err != nil {
			return "decode-error"
		}
		return errS(w.n.Exec.VerifVerifyBlock(w.n.Store(), b))
	case "ep": // JSON RPC endpoint: name, params
		h, ok := w.eps[a[0]]
		if !ok {
			return "no-endpoint"
		}
		rw := rpc.NewEndpointResponseWriter()
		h(rw, router.NewEndpointRequest(w.ctx, node.NopLogger(), corr.UnHex(a[1])))
		res := rw.Result()
		q := w.drainQueue()
		if res.Err() != nil {
			return "error/" + q
		}
		if _, err := res.JSONData(); err != nil {
			return "unmarshalable/" + q
		}
		return "ok/" + q
	case "rpc": // procedure, payload: a well-formed request envelope around the payload
		from, addr := w.freshPeer()
		w.vn.OnRequest(from, addr, p2p.VerifEncodeRequest(from, string(corr.UnHex(a[0])), corr.UnHex(a[1])))
		if len(w.vn.TakeClosed()) > 0 {
			return "ban"
		}
		return "serve"
	}
	return "bad-op"
}

var _ = codec.Hex{}
