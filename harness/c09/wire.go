package c09

import (
	"bytes"
	"encoding/binary"
	"encoding/json"
	"math/rand"
	"sort"

	"verifharness/c08"
)

// ---------------------------------------------------------------------------------------------
// A parse tree of the Lisk codec wire format (keys, varints, length-delimited payloads), aware of
// which payloads are nested messages (from the regenerated schema table, plus the places where a
// `bytes` field carries an encoded message: RawBlock.header/transactions/assets, the p2p envelopes).

type tfield struct {
	num int
	wt  int
	vi  []byte // wt 0: the varint bytes of the value
	pay []byte // wt 2: payload (when sub == nil)
	sub *tnode // wt 2: parsed nested message
}

type tnode struct {
	schema string
	fields []*tfield
}

// bytesAsMessage: `bytes` fields whose content is an encoded message.
var bytesAsMessage = map[string]string{
	"blockchain.RawBlock.1": "blockchain.BlockHeader",
	"blockchain.RawBlock.2": "blockchain.Transaction",
	"blockchain.RawBlock.3": "blockchain.BlockAsset",
}

func uvarint(n uint64) []byte {
	b := make([]byte, binary.MaxVarintLen64)
	return b[:binary.PutUvarint(b, n)]
}

func readUvarint(b []byte) (uint64, int) {
	v, n := binary.Uvarint(b)
	if n <= 0 {
		return 0, 0
	}
	return v, n
}

// parse returns nil if b is not a clean sequence of fields.
func parse(schema string, b []byte, payload string, depth int) *tnode {
	n := &tnode{schema: schema}
	s := c08.ByName[schema]
	kinds := map[int]c08.Field{}
	if s != nil {
		for _, f := range s.Dec {
			kinds[f.Num] = f
		}
	}
	for len(b) > 0 {
		key, k := readUvarint(b)
		if k == 0 {
			return nil
		}
		b = b[k:]
		f := &tfield{num: int(key >> 3), wt: int(key & 7)}
		switch f.wt {
		case 0:
			_, m := readUvarint(b)
			if m == 0 {
				if len(b) == 0 {
					return nil
				}
				m = 1
			}
			f.vi = append([]byte{}, b[:m]...)
			b = b[m:]
		case 2:
			l, m := readUvarint(b)
			if m == 0 || uint64(len(b)-m) < l {
				return nil
			}
			f.pay = append([]byte{}, b[m:m+int(l)]...)
			b = b[m+int(l):]
			nested := ""
			if kf, ok := kinds[f.num]; ok && (kf.Kind == "msg" || kf.Kind == "msgArr") {
				nested = kf.Nested
			} else if as, ok := bytesAsMessage[schema+"."+itoa(f.num)]; ok {
				nested = as
			} else if payload != "" && (schema == "p2p.Message" && f.num == 1 || (schema == "p2p.Request" || schema == "p2p.responseMsg") && f.num == 3) {
				nested = payload
			}
			if nested != "" && depth < 6 {
				f.sub = parse(nested, f.pay, "", depth+1)
			}
		default:
			return nil
		}
		n.fields = append(n.fields, f)
	}
	return n
}

func itoa(i int) string {
	b, _ := json.Marshal(i)
	return string(b)
}

func (f *tfield) key() []byte { return uvarint(uint64(f.num<<3 | f.wt)) }

func (f *tfield) body() []byte {
	if f.sub != nil {
		return f.sub.ser()
	}
	return f.pay
}

func (f *tfield) ser() []byte {
	out := f.key()
	if f.wt == 0 {
		return append(out, f.vi...)
	}
	body := f.body()
	out = append(out, uvarint(uint64(len(body)))...)
	return append(out, body...)
}

func (n *tnode) ser() []byte {
	var out []byte
	for _, f := range n.fields {
		out = append(out, f.ser()...)
	}
	return out
}

type fieldRef struct {
	node *tnode
	idx  int
}

func (n *tnode) allFields() []fieldRef {
	var res []fieldRef
	var walk func(n *tnode)
	walk = func(n *tnode) {
		for i, f := range n.fields {
			res = append(res, fieldRef{n, i})
			if f.sub != nil {
				walk(f.sub)
			}
		}
	}
	walk(n)
	return res
}

func (n *tnode) clone() *tnode {
	c := &tnode{schema: n.schema}
	for _, f := range n.fields {
		g := &tfield{num: f.num, wt: f.wt, vi: append([]byte{}, f.vi...), pay: append([]byte{}, f.pay...)}
		if f.sub != nil {
			g.sub = f.sub.clone()
		}
		c.fields = append(c.fields, g)
	}
	return c
}

// rawField is a field whose serialisation is given literally (mutations of keys / lengths).
func rawField(b []byte) *tfield { return &tfield{wt: -1, pay: b} }

func (f *tfield) serRaw() ([]byte, bool) {
	if f.wt == -1 {
		return f.pay, true
	}
	return nil, false
}

var hugeVarints = [][]byte{
	{0xff, 0xff, 0xff, 0xff, 0x07},                               // 2^31-1
	{0x80, 0x80, 0x80, 0x80, 0x08},                               // 2^31
	{0xff, 0xff, 0xff, 0xff, 0x0f},                               // 2^32-1
	{0x80, 0x80, 0x80, 0x80, 0x10},                               // 2^32
	{0xff, 0xff, 0xff, 0xff, 0xff, 0xff, 0xff, 0xff, 0x7f},       // 2^63-1
	{0x80, 0x80, 0x80, 0x80, 0x80, 0x80, 0x80, 0x80, 0x80, 0x01}, // 2^63 (int(size) negative)
	{0xff, 0xff, 0xff, 0xff, 0xff, 0xff, 0xff, 0xff, 0xff, 0x01}, // 2^64-1 (index + int(size) = index - 1)
	{0xfe, 0xff, 0xff, 0xff, 0xff, 0xff, 0xff, 0xff, 0xff, 0x01}, // 2^64-2
	{0xff, 0xff, 0xff, 0xff, 0xff, 0xff, 0xff, 0xff, 0xff, 0x7f}, // overflowing 10th byte
	{0x80, 0x80, 0x80, 0x80, 0x80, 0x80, 0x80, 0x80, 0x80, 0x80, 0x01},
	{0x80, 0x00}, // non-shortest zero
	{0x80},       // unterminated
}

type mutant struct {
	data []byte
	tag  string
}

// structuralMutants enumerates the systematic mutations of one message:
//   - flat truncations of the serialised message at every field boundary, after every key, inside and
//     after every length prefix and in the middle of every payload (outer lengths then point past the
//     end of the buffer);
//   - the same truncations inside nested messages with the enclosing lengths recomputed;
//   - every length prefix replaced by length±1, by "rest of buffer + 1" and by huge values (2^31, 2^32,
//     2^63-1, 2^63, 2^64-1: int overflow of index + int(size)); every varint value replaced by the same
//     huge values, non-shortest and unterminated varints;
//   - every byte-string payload emptied, shortened / extended by one byte, zeroed, set to 0xff (invalid
//     curve points), bit-flipped; bitmaps shortened and extended;
//   - fields dropped, duplicated, swapped with their neighbour, given an unknown field number or
//     another wire type.
func structuralMutants(root *tnode) []mutant {
	var res []mutant
	orig := root.ser()
	add := func(b []byte, tag string) {
		if !bytes.Equal(b, orig) {
			res = append(res, mutant{b, tag})
		}
	}
	refs := root.allFields()
	// flat truncation points
	cuts := map[int]bool{}
	var offsets func(n *tnode, base int)
	offsets = func(n *tnode, base int) {
		off := base
		for _, f := range n.fields {
			k := len(f.key())
			cuts[off] = true
			cuts[off+k] = true
			if f.wt == 0 {
				for i := 1; i <= len(f.vi); i++ {
					cuts[off+k+i] = true
				}
				off += k + len(f.vi)
				continue
			}
			body := f.body()
			lp := len(uvarint(uint64(len(body))))
			for i := 1; i <= lp; i++ {
				cuts[off+k+i] = true
			}
			if len(body) > 1 {
				cuts[off+k+lp+1] = true
				cuts[off+k+lp+len(body)/2] = true
				cuts[off+k+lp+len(body)-1] = true
			}
			if f.sub != nil {
				offsets(f.sub, off+k+lp)
			}
			off += k + lp + len(body)
		}
	}
	offsets(root, 0)
	var cl []int
	for c := range cuts {
		if c < len(orig) {
			cl = append(cl, c)
		}
	}
	sort.Ints(cl)
	for _, c := range cl {
		add(append([]byte{}, orig[:c]...), "flat-truncate")
	}
	for ri := range refs {
		mut := func(tag string, f func(n *tnode, i int)) {
			c := root.clone()
			r := c.allFields()[ri]
			f(r.node, r.idx)
			add(c.serM(), tag)
		}
		fld := refs[ri].node.fields[refs[ri].idx]
		// nested truncation: keep the key (and part of the length) of this field, drop the rest of the
		// enclosing message; enclosing lengths are recomputed
		mut("trunc-after-key", func(n *tnode, i int) {
			n.fields = append(n.fields[:i:i], rawField(n.fields[i].key()))
		})
		mut("trunc-before-field", func(n *tnode, i int) { n.fields = n.fields[:i] })
		mut("drop-field", func(n *tnode, i int) { n.fields = append(n.fields[:i:i], n.fields[i+1:]...) })
		mut("dup-field", func(n *tnode, i int) {
			n.fields = append(n.fields[:i+1:i+1], append([]*tfield{n.fields[i]}, n.fields[i+1:]...)...)
		})
		if refs[ri].idx > 0 {
			mut("swap-fields", func(n *tnode, i int) { n.fields[i-1], n.fields[i] = n.fields[i], n.fields[i-1] })
		}
		mut("unknown-field-number", func(n *tnode, i int) { n.fields[i].num = 31 })
		mut("field-number-0", func(n *tnode, i int) { n.fields[i].num = 0 })
		mut("huge-field-number", func(n *tnode, i int) {
			f := n.fields[i]
			raw := append([]byte{0xff, 0xff, 0xff, 0xff, 0xff, 0xff, 0xff, 0xff, 0xff, 0x01}, f.ser()[len(f.key()):]...)
			n.fields[i] = rawField(raw)
		})
		for _, wt := range []int{1, 5, 7} {
			wt := wt
			mut("wire-type", func(n *tnode, i int) {
				f := n.fields[i]
				raw := append(uvarint(uint64(f.num<<3|wt)), f.ser()[len(f.key()):]...)
				n.fields[i] = rawField(raw)
			})
		}
		mut("flip-wire-type", func(n *tnode, i int) {
			f := n.fields[i]
			raw := append(uvarint(uint64(f.num<<3|(2-f.wt))), f.ser()[len(f.key()):]...)
			n.fields[i] = rawField(raw)
		})
		if fld.wt == 0 {
			for _, h := range hugeVarints {
				h := h
				mut("huge-varint", func(n *tnode, i int) { n.fields[i].vi = h })
			}
			mut("varint-2", func(n *tnode, i int) { n.fields[i].vi = []byte{2} })
			mut("varint-trunc", func(n *tnode, i int) {
				n.fields = append(n.fields[:i:i], rawField(append(n.fields[i].key(), 0x80)))
			})
			continue
		}
		body := fld.body()
		// length prefix mutations (payload unchanged)
		lens := [][]byte{uvarint(uint64(len(body)) + 1), uvarint(uint64(len(body)) + 200), uvarint(uint64(len(orig)) + 1)}
		if len(body) > 0 {
			lens = append(lens, uvarint(uint64(len(body))-1), uvarint(0))
		}
		lens = append(lens, hugeVarints...)
		for _, l := range lens {
			l := l
			mut("bad-length", func(n *tnode, i int) {
				f := n.fields[i]
				n.fields[i] = rawField(append(append(f.key(), l...), f.body()...))
			})
		}
		mut("len-prefix-cut", func(n *tnode, i int) {
			// a two byte length prefix cut after its first byte, at the end of the enclosing message
			f := n.fields[i]
			n.fields = append(n.fields[:i:i], rawField(append(f.key(), 0x80|byte(len(f.body())&0x7f))))
		})
		if fld.sub != nil {
			continue
		}
		// byte string payloads
		setPay := func(tag string, g func(p []byte) []byte) {
			mut(tag, func(n *tnode, i int) { n.fields[i].pay = g(append([]byte{}, n.fields[i].pay...)) })
		}
		setPay("empty", func(p []byte) []byte { return nil })
		setPay("shorter", func(p []byte) []byte {
			if len(p) == 0 {
				return p
			}
			return p[:len(p)-1]
		})
		setPay("longer", func(p []byte) []byte { return append(p, 0) })
		setPay("one-byte", func(p []byte) []byte { return []byte{1} })
		setPay("zeroed", func(p []byte) []byte { return make([]byte, len(p)) })
		setPay("all-ff", func(p []byte) []byte { return bytes.Repeat([]byte{0xff}, len(p)) })
		setPay("flip-first", func(p []byte) []byte {
			if len(p) > 0 {
				p[0] ^= 0x80
			}
			return p
		})
		setPay("flip-last", func(p []byte) []byte {
			if len(p) > 0 {
				p[len(p)-1] ^= 1
			}
			return p
		})
		setPay("doubled", func(p []byte) []byte { return append(p, p...) })
		setPay("big-4k", func(p []byte) []byte { return bytes.Repeat([]byte{0x41}, 4096) })
		setPay("non-utf8", func(p []byte) []byte { return []byte{0xc3, 0x28} })
		setPay("infinity-point", func(p []byte) []byte {
			// compressed point at infinity of G1 / G2 (valid encoding, invalid key / signature)
			if len(p) == 0 {
				return p
			}
			q := make([]byte, len(p))
			q[0] = 0xc0
			return q
		})
	}
	return res
}

// serM serialises a tree that may contain raw fields.
func (n *tnode) serM() []byte {
	var out []byte
	for _, f := range n.fields {
		if raw, ok := f.serRaw(); ok {
			out = append(out, raw...)
			continue
		}
		out = append(out, f.key()...)
		if f.wt == 0 {
			out = append(out, f.vi...)
			continue
		}
		var body []byte
		if f.sub != nil {
			body = f.sub.serM()
		} else {
			body = f.pay
		}
		out = append(out, uvarint(uint64(len(body)))...)
		out = append(out, body...)
	}
	return out
}

// deepNesting wraps the payload n times into a length-delimited field (linear time).
func deepNesting(num int, depth int, inner []byte) []byte {
	key := uvarint(uint64(num<<3 | 2))
	prefixes := make([][]byte, depth)
	l := len(inner)
	total := l
	for i := 0; i < depth; i++ {
		p := append(append([]byte{}, key...), uvarint(uint64(l))...)
		prefixes[i] = p
		l += len(p)
		total += len(p)
	}
	out := make([]byte, 0, total)
	for i := depth - 1; i >= 0; i-- {
		out = append(out, prefixes[i]...)
	}
	return append(out, inner...)
}

// randomMutant applies 1..3 random byte-level mutations (the C08 mutator).
func randomMutant(rng *rand.Rand, b []byte) mutant {
	out, tag := c08.Mutate(rng, b)
	for i := rng.Intn(3); i > 0; i-- {
		out, _ = c08.Mutate(rng, out)
	}
	return mutant{out, "random:" + tag}
}

func sortBytes(l [][]byte) {
	sort.Slice(l, func(i, j int) bool { return bytes.Compare(l[i], l[j]) < 0 })
}

func mustJSON(v any) []byte {
	b, err := json.Marshal(v)
	if err != nil {
		panic(err)
	}
	return b
}
