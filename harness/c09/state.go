package c09

// Pseudo-property C09STATE (model-free, run with C09 through `also`): a block from a peer that is VALID ENOUGH to
// get past decoding and static validation reaches the consensus logic of a node whose optional state is ABSENT.
//
// C09's other families mutate bytes and ask every entry point once, on ONE node that has applied all of its blocks
// through Executer.process: its tip has a receive time, its pools are filled, it never restarted. The code behind the
// validators branches on node state that is optional (`lastBlockReceived *time.Time` is nil after every (re)start and
// while the tip comes from the synchroniser; the tip may be the genesis block; the syncing flag may be set). Seeded
// change C09-15 lost the nil case of the receive time in pkg/consensus/forkchoice: a statelessly valid competing block
// of tie-break shape then crashes the consensus goroutine - only in such a state.
//
// Here the REAL path (postBlock gossip entry = registered validator + handler -> process queue -> one iteration of the
// Start loop = Executer.process; or AddInternal, the entry of chain_postBlock and of the generator) is driven over the
// cross product
//
//	node state   fresh        tip = genesis block, nothing received yet
//	             restart      blocks applied normally, then restart on the existing database
//	             synced       restart, then the tip applied by the REAL synchroniser (scripted peer on loopback)
//	             syncedstale  tip applied by the synchroniser without a restart (the receive time of an EARLIER tip is left)
//	             syncing      restart, syncing flag set, tip applied through processValidated as the synchronisers do
//	             normal       tip applied through Executer.process (receive time outside its slot)
//	             inslot       tip applied through Executer.process in the slot of the wall clock (received within its slot)
//	block class  (LIP-0014) valid successor (next slot / slot of the wall clock), identical block, double forging,
//	             tie-break shape {later, earlier slot} x {other, same generator} x {received within, outside its slot},
//	             fully valid or failing in execution (tip is deleted and re-applied), different chain with higher
//	             priority (a longer chain a peer really serves; a claimed higher maxHeightPrevoted), lower priority,
//	             old block of the own chain
//	alteration   none, or ONE header / payload alteration of the class block (integer extremes, emptied / short / random
//	             byte fields, nil aggregate commit, wrong key), signed again with the generator's key
//
// on a chain whose slots are 10^7 s long with the wall clock in the middle of slot k (as the C04 tie-break histories),
// so that "received within its slot" is decided weeks away from a slot boundary. Every class block is statelessly valid
// and properly signed.
//
// Oracles (no model):
//
//	c09-consensus-panic:<site>     the entry point or Executer.process panicked (recovered here; in the node it is the
//	                               consensus goroutine, which has no recover: the node is gone); the case is the failing input
//	c09-consensus-hang             it did not return within the watchdog
//	c09-node-stuck-after-block     afterwards the node does not apply a following valid block (through the same entry)
//	c09-forkchoice-panic:<pred>    (`fcn` ops) a predicate of forkchoice.NewForkChoice(tip, block, slots, receiveTime) panics
//	                               although tip header, block header and slot calculator are there (receive time nil or not)
//	c09-forkchoice-absent-time-not-in-slot   (`fcn`) with a nil receive time the five verdicts differ from those with a
//	                               receive time inside the tip's slot (LIP-0014: a tip without receive time counts as
//	                               received within its slot)
//
// Ops:
//
//	reset nv=<n> seed=<s> now=<unix> F=<f>
//	blk state=<state> class=<class> alt=<label|none> via=<gossip|internal>
//	fcn g=<genesis> bt=<blockTime> last=<nil|h,mhp,id,prev,gen,ts,version> cur=<...> slot=<nil|ok> recv=<nil|unix> now=<unix>

import (
	"bytes"
	"context"
	"errors"
	"fmt"
	"math/rand"
	"runtime/debug"
	"sort"
	"strconv"
	"strings"
	"sync"
	"time"

	"github.com/LiskHQ/lisk-engine/pkg/blockchain"
	"github.com/LiskHQ/lisk-engine/pkg/codec"
	"github.com/LiskHQ/lisk-engine/pkg/consensus"
	"github.com/LiskHQ/lisk-engine/pkg/consensus/forkchoice"
	lsync "github.com/LiskHQ/lisk-engine/pkg/consensus/sync"
	"github.com/LiskHQ/lisk-engine/pkg/consensus/validator"
	"github.com/LiskHQ/lisk-engine/pkg/p2p"

	"verifharness/corr"
	"verifharness/node"
)

type stateProp struct{}

func init() { corr.Register(stateProp{}) }

func (stateProp) ID() string                 { return "C09STATE" }
func (stateProp) NoModel() bool              { return true }
func (stateProp) Parallel() int              { return 4 }
func (stateProp) CaseTimeout() time.Duration { return 4 * time.Minute }

const (
	stBlockTime = 10_000_000
	stWatchdog  = 25 * time.Second
)

var stStates = []string{"fresh", "restart", "synced", "syncedstale", "syncing", "normal", "inslot"}

// ---------------------------------------------------------------------------------------------
// scenario geometry

type stKey struct {
	nv, F int
	seed  int64
	now   uint32
}

// slots: common blocks of heights 1..F-1 in slots 1..F-1, the tip T (height F) in slot F+nv, the wall clock in the
// middle of slot F+2nv+1. Generators rotate by slot, so that T±nv is T's generator and T±1, the wall-clock slot are others.
func (k stKey) slotT() int   { return k.F + k.nv }
func (k stKey) slotNow() int { return k.F + 2*k.nv + 1 }
func (k stKey) genesisTS() uint32 {
	return k.now - uint32(k.slotNow())*stBlockTime - stBlockTime/2 + uint32(k.seed%1000)
}
func (k stKey) cfg() node.Config {
	return node.Config{NumValidators: k.nv, Seed: k.seed, GenesisTimestamp: k.genesisTS(), BlockTime: stBlockTime, ExtraValidators: 1}
}
func (k stKey) resetLine() string {
	return fmt.Sprintf("reset nv=%d seed=%d now=%d F=%d", k.nv, k.seed, k.now, k.F)
}

func stKV(w []string) map[string]string {
	m := map[string]string{}
	for _, t := range w {
		if i := strings.IndexByte(t, '='); i > 0 {
			m[t[:i]] = t[i+1:]
		}
	}
	return m
}

func parseStReset(w []string) (stKey, bool) {
	m := stKV(w)
	var k stKey
	var e1, e2, e3, e4 error
	k.nv, e1 = strconv.Atoi(m["nv"])
	k.seed, e2 = strconv.ParseInt(m["seed"], 10, 64)
	now, e3 := strconv.ParseUint(m["now"], 10, 32)
	k.now = uint32(now)
	k.F, e4 = strconv.Atoi(m["F"])
	if e1 != nil || e2 != nil || e3 != nil || e4 != nil {
		return k, false
	}
	return k, k.nv >= 2 && k.nv <= 8 && k.F >= 3 && k.F <= 12 && uint64(k.now) > uint64(k.slotNow()+2)*stBlockTime
}

// stWorld: the blocks of one geometry (built once; blocks are values, every case feeds wire copies to a fresh node)
type stWorld struct {
	key     stKey
	once    sync.Once
	err     error
	common  []*blockchain.Block                     // heights 1..F-1
	tip     map[string]*blockchain.Block            // tip kind (gen | T | Tin) -> tip block
	shapes  map[string]map[string]*blockchain.Block // tip kind -> class -> block
	peer    map[string][]*blockchain.Block          // tip kind -> chain a peer serves ([0] = nil for genesis)
	signer  map[string]*node.Validator              // generator address -> key holder
	chainID []byte
}

var stWorlds = struct {
	sync.Mutex
	m map[stKey]*stWorld
}{m: map[stKey]*stWorld{}}

func stWorldFor(k stKey) (*stWorld, error) {
	stWorlds.Lock()
	w, ok := stWorlds.m[k]
	if !ok {
		if len(stWorlds.m) > 16 {
			stWorlds.m = map[stKey]*stWorld{}
		}
		w = &stWorld{key: k}
		stWorlds.m[k] = w
	}
	stWorlds.Unlock()
	w.once.Do(w.build)
	return w, w.err
}

func stTipKind(state string) string {
	switch state {
	case "fresh":
		return "gen"
	case "inslot":
		return "Tin"
	}
	return "T"
}

func rnd32(tag string, i int) []byte { return h32("c09state-"+tag, i) }

// dupMut gives a block built as successor of the node's tip the duplicate shape of header x (height, parent,
// maxHeightPrevoted); sameGen also copies the generator address
func dupMut(x *blockchain.BlockHeader, sameGen bool, more func(b *blockchain.Block)) func(b *blockchain.Block) {
	return func(b *blockchain.Block) {
		b.Header.Height = x.Height
		b.Header.PreviousBlockID = append(codec.Hex{}, x.PreviousBlockID...)
		b.Header.MaxHeightPrevoted = x.MaxHeightPrevoted
		if sameGen {
			b.Header.GeneratorAddress = append(codec.Lisk32{}, x.GeneratorAddress...)
		}
		if more != nil {
			more(b)
		}
	}
}

func (w *stWorld) build() {
	defer func() {
		if r := recover(); r != nil {
			w.err = fmt.Errorf("panic while building the scenario: %v\n%s", r, debug.Stack())
		}
	}()
	k := w.key
	a, err := node.New(k.cfg())
	if err != nil {
		w.err = err
		return
	}
	defer a.Close()
	a.ABI.LogCalls = false
	w.tip, w.shapes, w.peer, w.signer = map[string]*blockchain.Block{}, map[string]map[string]*blockchain.Block{}, map[string][]*blockchain.Block{}, map[string]*node.Validator{}
	for _, v := range a.Validators {
		w.signer[string(v.Address)] = v
	}
	w.chainID = append([]byte{}, a.Cfg.ChainID...)
	fail := func(format string, args ...any) bool {
		if w.err == nil {
			w.err = fmt.Errorf(format, args...)
		}
		return false
	}
	build := func(what string, o node.BlockOpts) *blockchain.Block {
		b, err := a.BuildBlock(o)
		if err != nil {
			fail("%s: %v", what, err)
			return nil
		}
		cp, err := node.CopyBlock(b) // ids computed as a receiver computes them
		if err != nil {
			fail("%s: %v", what, err)
			return nil
		}
		return cp
	}
	extra := []*blockchain.BlockAsset{{Module: "random", Data: []byte{9, 9}}}
	sT, sNow := k.slotT(), k.slotNow()

	// ---- tip = genesis block -------------------------------------------------------------------
	g := a.Genesis
	gs := map[string]*blockchain.Block{}
	w.tip["gen"], w.shapes["gen"] = g, gs
	gs["successor"] = build("gen successor", node.BlockOpts{SlotsAhead: 1})
	gs["successor-now"] = build("gen successor-now", node.BlockOpts{SlotsAhead: sNow})
	gs["identical"] = g
	gs["double"] = build("gen double", node.BlockOpts{SlotsAhead: 1, Mutate: dupMut(g.Header, true, func(b *blockchain.Block) { b.Header.Timestamp = g.Header.Timestamp })})
	gs["tie-later-other-now-bad"] = build("gen tie now", node.BlockOpts{SlotsAhead: sNow, Mutate: dupMut(g.Header, false, nil)})
	gs["tie-later-other-past"] = build("gen tie past", node.BlockOpts{SlotsAhead: 2, Mutate: dupMut(g.Header, false, nil)})
	gs["tie-later-same"] = build("gen tie same", node.BlockOpts{SlotsAhead: sNow, Mutate: dupMut(g.Header, true, nil)})
	// "earlier" than the genesis slot: a timestamp before the genesis timestamp (the uint32 difference wraps)
	gs["tie-earlier-other"] = build("gen tie earlier", node.BlockOpts{SlotsAhead: 1, Mutate: dupMut(g.Header, false, func(b *blockchain.Block) { b.Header.Timestamp = g.Header.Timestamp - 1 })})
	gs["tie-earlier-same"] = build("gen tie earlier same", node.BlockOpts{SlotsAhead: 1, Mutate: dupMut(g.Header, true, func(b *blockchain.Block) { b.Header.Timestamp = g.Header.Timestamp - stBlockTime })})
	gs["diff-higher-mhp"] = build("gen mhp", node.BlockOpts{SlotsAhead: 1, Mutate: dupMut(g.Header, false, func(b *blockchain.Block) {
		b.Header.MaxHeightPrevoted++
		b.Header.PreviousBlockID = rnd32("prev", 1)
	})})
	gs["diff-lower"] = build("gen lower", node.BlockOpts{SlotsAhead: 1, Mutate: dupMut(g.Header, false, func(b *blockchain.Block) { b.Header.PreviousBlockID = rnd32("prev", 2) })})
	if w.err != nil {
		return
	}

	// ---- common blocks -------------------------------------------------------------------------
	for h := 1; h < k.F; h++ {
		bs, err := a.Extend(1)
		if err != nil {
			fail("common block %d: %v", h, err)
			return
		}
		cp, _ := node.CopyBlock(bs[0])
		w.common = append(w.common, cp)
	}
	parentSlot := k.F - 1
	at := func(slot int) int { return slot - parentSlot }

	// ---- duplicates of the tips, built fully valid on the tips' parent -----------------------------
	T := build("T", node.BlockOpts{SlotsAhead: at(sT)})
	Tin := build("Tin", node.BlockOpts{SlotsAhead: at(sNow)})
	if w.err != nil {
		return
	}
	ts, is := map[string]*blockchain.Block{}, map[string]*blockchain.Block{}
	w.tip["T"], w.shapes["T"], w.tip["Tin"], w.shapes["Tin"] = T, ts, Tin, is
	ts["identical"], is["identical"] = T, Tin
	ts["double"] = build("T double", node.BlockOpts{SlotsAhead: at(sT), Assets: extra})
	ts["tie-later-other-now"] = build("T tie now", node.BlockOpts{SlotsAhead: at(sNow), Assets: extra})
	ts["tie-later-other-past"] = build("T tie past", node.BlockOpts{SlotsAhead: at(sT + 1)})
	ts["tie-later-same"] = build("T tie later same", node.BlockOpts{SlotsAhead: at(sT + k.nv)})
	ts["tie-earlier-other"] = build("T tie earlier", node.BlockOpts{SlotsAhead: at(sT - 1)})
	ts["tie-earlier-same"] = build("T tie earlier same", node.BlockOpts{SlotsAhead: at(sT - k.nv)})
	is["double"] = build("Tin double", node.BlockOpts{SlotsAhead: at(sNow), Assets: extra})
	is["tie-later-other-past"] = build("Tin tie later", node.BlockOpts{SlotsAhead: at(sNow + 1)}) // a future slot
	is["tie-later-same"] = build("Tin tie later same", node.BlockOpts{SlotsAhead: at(sNow + k.nv)})
	is["tie-earlier-other"] = build("Tin tie earlier", node.BlockOpts{SlotsAhead: at(sNow - 1)})
	is["tie-earlier-same"] = build("Tin tie earlier same", node.BlockOpts{SlotsAhead: at(sNow - k.nv)})
	if w.err != nil {
		return
	}
	sameGen := func(x, y *blockchain.Block) bool {
		return bytes.Equal(x.Header.GeneratorAddress, y.Header.GeneratorAddress)
	}
	for kind, m := range map[string]map[string]*blockchain.Block{"T": ts, "Tin": is} {
		for class, b := range m {
			want := strings.HasSuffix(class, "-same") || class == "double" || class == "identical"
			if sameGen(b, w.tip[kind]) != want {
				fail("scenario geometry: %s/%s: same generator = %v", kind, class, !want)
				return
			}
		}
	}

	// ---- blocks built on the tip T (and the peer's chain above it) ----------------------------------
	if r := a.ProcessResult(T); r.Err != nil || !r.Applied {
		fail("tip T: %v", r.Err)
		return
	}
	ts["successor-now"] = build("T successor-now", node.BlockOpts{SlotsAhead: sNow - sT})
	ts["tie-later-other-now-bad"] = build("T tie now bad", node.BlockOpts{SlotsAhead: sNow - sT, Mutate: dupMut(T.Header, false, nil)})
	ts["diff-higher-mhp"] = build("T mhp", node.BlockOpts{SlotsAhead: 1, Mutate: dupMut(T.Header, false, func(b *blockchain.Block) {
		b.Header.MaxHeightPrevoted++
		b.Header.PreviousBlockID = rnd32("prev", 3)
	})})
	ts["diff-lower"] = build("T lower", node.BlockOpts{SlotsAhead: 1, Mutate: func(b *blockchain.Block) {
		b.Header.Height = T.Header.Height - 1
		b.Header.PreviousBlockID = rnd32("prev", 4)
	}})
	ts["lower-mhp"] = build("T lower mhp", node.BlockOpts{SlotsAhead: sNow - sT, Mutate: dupMut(T.Header, false, func(b *blockchain.Block) {
		b.Header.MaxHeightPrevoted = T.Header.MaxHeightPrevoted - 1 // wraps to 2^32-1 when it is 0: then a higher priority
	})})
	ts["old"] = w.common[0]
	if w.err != nil {
		return
	}
	ys, err := a.Extend(2)
	if err != nil {
		fail("peer chain: %v", err)
		return
	}
	y1, _ := node.CopyBlock(ys[0])
	y2, _ := node.CopyBlock(ys[1])
	ts["successor"], ts["diff-higher"] = y1, y2
	long := append(append([]*blockchain.Block{nil}, w.common...), T, y1, y2)
	w.peer["T"], w.peer["gen"] = long, long
	gs["diff-higher"] = w.common[1] // height 2 on a parent the fresh node does not have

	// ---- blocks built on the tip Tin (a second builder) ----------------------------------------------
	b2, err := node.New(k.cfg())
	if err != nil {
		w.err = err
		return
	}
	defer b2.Close()
	b2.ABI.LogCalls = false
	for _, b := range append(append([]*blockchain.Block{}, w.common...), Tin) {
		if r := b2.ProcessResult(b); r.Err != nil || !r.Applied {
			fail("second builder: %v", r.Err)
			return
		}
	}
	a2 := a
	a = b2
	is["successor"] = build("Tin successor", node.BlockOpts{SlotsAhead: 1}) // a future slot: refused by the slot rule
	is["tie-now-dup-bad"] = build("Tin dup", node.BlockOpts{SlotsAhead: 1, Mutate: dupMut(Tin.Header, false, func(b *blockchain.Block) { b.Header.Timestamp = Tin.Header.Timestamp + 5 })})
	is["diff-higher"] = build("Tin higher", node.BlockOpts{SlotsAhead: 1, Mutate: func(b *blockchain.Block) {
		b.Header.Height = Tin.Header.Height + 2
		b.Header.PreviousBlockID = rnd32("prev", 5)
	}})
	is["diff-higher-mhp"] = build("Tin mhp", node.BlockOpts{SlotsAhead: 1, Mutate: dupMut(Tin.Header, false, func(b *blockchain.Block) {
		b.Header.MaxHeightPrevoted++
		b.Header.PreviousBlockID = rnd32("prev", 6)
	})})
	is["diff-lower"] = build("Tin lower", node.BlockOpts{SlotsAhead: 1, Mutate: func(b *blockchain.Block) {
		b.Header.Height = Tin.Header.Height - 1
		b.Header.PreviousBlockID = rnd32("prev", 7)
	}})
	is["old"] = w.common[0]
	a = a2
	w.peer["Tin"] = append(append([]*blockchain.Block{nil}, w.common...), Tin)
	for kind, m := range w.shapes {
		for class, b := range m {
			if b == nil {
				fail("scenario: %s/%s was not built", kind, class)
				return
			}
			// every class block is statelessly valid (the genesis block is not a version-2 block)
			if b != g {
				if err := b.Validate(); err != nil {
					fail("scenario: %s/%s is not statelessly valid: %v", kind, class, err)
					return
				}
			}
		}
	}
}

func (w *stWorld) classes(kind string) []string {
	out := []string{}
	for c := range w.shapes[kind] {
		out = append(out, c)
	}
	sort.Strings(out)
	return out
}

// ---------------------------------------------------------------------------------------------
// single alterations of a class block (signed again with the key of the block's generator when it has one)

type stAlt struct {
	label  string
	resign bool
	f      func(b *blockchain.Block, w *stWorld)
}

var stAlts = []stAlt{
	{"version-0", true, func(b *blockchain.Block, w *stWorld) { b.Header.Version = 0 }},
	{"version-1", true, func(b *blockchain.Block, w *stWorld) { b.Header.Version = 1 }},
	{"version-3", true, func(b *blockchain.Block, w *stWorld) { b.Header.Version = 3 }},
	{"ts-0", true, func(b *blockchain.Block, w *stWorld) { b.Header.Timestamp = 0 }},
	{"ts-max", true, func(b *blockchain.Block, w *stWorld) { b.Header.Timestamp = ^uint32(0) }},
	{"ts-before-genesis", true, func(b *blockchain.Block, w *stWorld) { b.Header.Timestamp = w.key.genesisTS() - 1 }},
	{"ts+1", true, func(b *blockchain.Block, w *stWorld) { b.Header.Timestamp++ }},
	{"ts-next-slot", true, func(b *blockchain.Block, w *stWorld) { b.Header.Timestamp += stBlockTime }},
	{"height-0", true, func(b *blockchain.Block, w *stWorld) { b.Header.Height = 0 }},
	{"height-max", true, func(b *blockchain.Block, w *stWorld) { b.Header.Height = ^uint32(0) }},
	{"height+1", true, func(b *blockchain.Block, w *stWorld) { b.Header.Height++ }},
	{"height-1", true, func(b *blockchain.Block, w *stWorld) { b.Header.Height-- }},
	{"prev-empty", true, func(b *blockchain.Block, w *stWorld) { b.Header.PreviousBlockID = codec.Hex{} }},
	{"prev-short", true, func(b *blockchain.Block, w *stWorld) { b.Header.PreviousBlockID = b.Header.PreviousBlockID[:31] }},
	{"prev-random", true, func(b *blockchain.Block, w *stWorld) { b.Header.PreviousBlockID = rnd32("alt-prev", 1) }},
	{"gen-empty", false, func(b *blockchain.Block, w *stWorld) { b.Header.GeneratorAddress = codec.Lisk32{} }},
	{"gen-19", false, func(b *blockchain.Block, w *stWorld) { b.Header.GeneratorAddress = b.Header.GeneratorAddress[:19] }},
	{"gen-random", false, func(b *blockchain.Block, w *stWorld) { b.Header.GeneratorAddress = rnd32("alt-gen", 1)[:20] }},
	{"gen-zero", false, func(b *blockchain.Block, w *stWorld) { b.Header.GeneratorAddress = make([]byte, 20) }},
	{"mhp-max", true, func(b *blockchain.Block, w *stWorld) { b.Header.MaxHeightPrevoted = ^uint32(0) }},
	{"mhp+1", true, func(b *blockchain.Block, w *stWorld) { b.Header.MaxHeightPrevoted++ }},
	{"mhp-1", true, func(b *blockchain.Block, w *stWorld) { b.Header.MaxHeightPrevoted-- }},
	{"mhg-max", true, func(b *blockchain.Block, w *stWorld) { b.Header.MaxHeightGenerated = ^uint32(0) }},
	{"implies-flip", true, func(b *blockchain.Block, w *stWorld) { b.Header.ImpliesMaxPrevotes = !b.Header.ImpliesMaxPrevotes }},
	{"vhash-empty", true, func(b *blockchain.Block, w *stWorld) { b.Header.ValidatorsHash = codec.Hex{} }},
	{"vhash-random", true, func(b *blockchain.Block, w *stWorld) { b.Header.ValidatorsHash = rnd32("alt-vh", 1) }},
	{"ac-nil", true, func(b *blockchain.Block, w *stWorld) { b.Header.AggregateCommit = nil }},
	{"ac-height-max", true, func(b *blockchain.Block, w *stWorld) {
		b.Header.AggregateCommit = &blockchain.AggregateCommit{Height: ^uint32(0), AggregationBits: codec.Hex{}, CertificateSignature: codec.Hex{}}
	}},
	{"ac-bits-only", true, func(b *blockchain.Block, w *stWorld) {
		b.Header.AggregateCommit = &blockchain.AggregateCommit{Height: b.Header.Height - 1, AggregationBits: codec.Hex{0xff}, CertificateSignature: codec.Hex{}}
	}},
	{"ac-garbage", true, func(b *blockchain.Block, w *stWorld) {
		b.Header.AggregateCommit = &blockchain.AggregateCommit{Height: 1, AggregationBits: codec.Hex{0xff, 0xff, 0xff}, CertificateSignature: rnd32("alt-sig", 1)}
	}},
	{"stateroot-random", true, func(b *blockchain.Block, w *stWorld) { b.Header.StateRoot = rnd32("alt-sr", 1) }},
	{"stateroot-empty", true, func(b *blockchain.Block, w *stWorld) { b.Header.StateRoot = codec.Hex{} }},
	{"eventroot-empty", true, func(b *blockchain.Block, w *stWorld) { b.Header.EventRoot = codec.Hex{} }},
	{"txroot-random", true, func(b *blockchain.Block, w *stWorld) { b.Header.TransactionRoot = rnd32("alt-tr", 1) }},
	{"assetroot-random", true, func(b *blockchain.Block, w *stWorld) { b.Header.AssetRoot = rnd32("alt-ar", 1) }},
	{"asset-added", true, func(b *blockchain.Block, w *stWorld) {
		b.Assets = append(append([]*blockchain.BlockAsset{}, b.Assets...), &blockchain.BlockAsset{Module: "zzz", Data: []byte{1}})
		b.Header.AssetRoot = blockchain.BlockAssets(b.Assets).GetRoot()
	}},
	{"sig-flip", false, func(b *blockchain.Block, w *stWorld) {
		if len(b.Header.Signature) > 0 {
			b.Header.Signature = append(codec.Hex{}, b.Header.Signature...)
			b.Header.Signature[3] ^= 0x40
		}
	}},
	{"sig-empty", false, func(b *blockchain.Block, w *stWorld) { b.Header.Signature = codec.Hex{} }},
	{"sig-other-key", false, func(b *blockchain.Block, w *stWorld) {
		for _, v := range w.signer {
			if !bytes.Equal(v.Address, b.Header.GeneratorAddress) {
				b.Header.Sign(w.chainID, v.EdPriv)
				return
			}
		}
	}},
}

func stAltByLabel(l string) *stAlt {
	for i := range stAlts {
		if stAlts[i].label == l {
			return &stAlts[i]
		}
	}
	return nil
}

// altered applies one alteration to a wire copy of b; nil = the altered block cannot be encoded (nothing a peer could send)
func (w *stWorld) altered(b *blockchain.Block, chainID []byte, a *stAlt) (res *blockchain.Block) {
	defer func() {
		if recover() != nil {
			res = nil
		}
	}()
	cp, err := node.CopyBlock(b)
	if err != nil {
		return nil
	}
	a.f(cp, w)
	if a.resign {
		if v := w.signer[string(b.Header.GeneratorAddress)]; v != nil {
			cp.Header.Sign(chainID, v.EdPriv)
		}
	}
	out, err := blockchain.NewBlock(cp.Encode()) // ids as a receiver computes them
	if err != nil {
		return nil
	}
	return out
}

// ---------------------------------------------------------------------------------------------
// the scripted peer (a libp2p host on loopback serving one chain)

type stPeer struct {
	chain []*blockchain.Block
	byID  map[string]int
	conn  *p2p.Connection
}

func startStPeer(chainID []byte, genesis *blockchain.Block, chain []*blockchain.Block) (*stPeer, error) {
	pp := &stPeer{chain: append([]*blockchain.Block{genesis}, chain[1:]...), byID: map[string]int{}}
	for h, b := range pp.chain {
		pp.byID[string(b.Header.ID)] = h
	}
	pp.conn = p2p.NewConnection(node.NopLogger(), &p2p.Config{ChainID: chainID, Addresses: []string{"/ip4/127.0.0.1/tcp/0"}})
	handlers := map[string]p2p.RPCHandler{
		lsync.RPCEndpointGetLastBlock: func(w p2p.ResponseWriter, r *p2p.Request) { w.Write(pp.chain[len(pp.chain)-1].Encode()) },
		lsync.RPCEndpointGetHighestCommonBlock: func(w p2p.ResponseWriter, r *p2p.Request) {
			req := &lsync.GetHighestCommonBlockRequest{}
			if r.Data == nil || req.Decode(r.Data) != nil {
				w.Error(errors.New("bad request"))
				return
			}
			best := -1
			for _, id := range req.IDs {
				if h, ok := pp.byID[string(id)]; ok && h > best {
					best = h
				}
			}
			if best < 0 {
				w.Write(nil)
				return
			}
			w.Write((&lsync.GetHighestCommonBlockResponse{ID: pp.chain[best].Header.ID}).Encode())
		},
		lsync.RPCEndpointGetBlocksFromID: func(w p2p.ResponseWriter, r *p2p.Request) {
			req := &lsync.GetBlocksFromIDRequest{}
			if r.Data == nil || req.Decode(r.Data) != nil {
				w.Error(errors.New("bad request"))
				return
			}
			h, ok := pp.byID[string(req.ID)]
			if !ok {
				w.Error(errors.New("unknown block"))
				return
			}
			to := h + lsync.VerifC19MaxBlocksPerResponse
			if to > len(pp.chain)-1 {
				to = len(pp.chain) - 1
			}
			w.Write((&lsync.GetBlocksFromIDResponse{Blocks: append([]*blockchain.Block{}, pp.chain[h+1:to+1]...)}).Encode())
		},
	}
	for name, h := range handlers {
		if err := pp.conn.RegisterRPCHandler(name, h); err != nil {
			return nil, err
		}
	}
	if err := pp.conn.Start([]byte{}); err != nil {
		return nil, err
	}
	return pp, nil
}

func stConnect(q *node.Node, pp *stPeer) error {
	addrs, err := pp.conn.MultiAddress()
	if err != nil || len(addrs) == 0 {
		return fmt.Errorf("peer address: %v", err)
	}
	info, err := p2p.AddrInfoFromMultiAddr(addrs[0])
	if err != nil {
		return err
	}
	if err := q.Conn.Connect(context.Background(), *info); err != nil {
		return err
	}
	for deadline := time.Now().Add(20 * time.Second); time.Now().Before(deadline); time.Sleep(5 * time.Millisecond) {
		for _, pid := range pp.conn.ConnectedPeers() {
			if pid == q.Conn.ID() {
				ctx, cancel := context.WithTimeout(context.Background(), time.Second)
				_, err := lsync.VerifC19RequestLastBlockHeader(ctx, q.Conn, pp.conn.ID())
				cancel()
				if err == nil {
					return nil
				}
			}
		}
	}
	return errors.New("the two hosts did not get connected")
}

func stStop(q *node.Node, started bool, peers ...*stPeer) {
	fin := make(chan struct{})
	go func() {
		defer close(fin)
		defer func() { _ = recover() }()
		if q != nil && q.Conn != nil && started {
			_ = q.Conn.Stop()
		}
		for _, pp := range peers {
			if pp != nil && pp.conn != nil {
				_ = pp.conn.Stop()
			}
		}
		if q != nil {
			q.Close()
		}
	}()
	select {
	case <-fin:
	case <-time.After(15 * time.Second):
	}
}

// ---------------------------------------------------------------------------------------------
// reference classification (LIP-0014, the harness's own slot arithmetic) - only used to decide whether the case
// needs a peer to synchronise with, and to name what was exercised

func stRefSlot(g uint32, t uint32) uint64 { return uint64(t-g) / stBlockTime } // uint32 difference as the code has it

func stRefClass(g uint32, tip, cur *blockchain.BlockHeader, tipRecv *time.Time, now time.Time) string {
	dup := tip.Height == cur.Height && tip.MaxHeightPrevoted == cur.MaxHeightPrevoted && bytes.Equal(tip.PreviousBlockID, cur.PreviousBlockID)
	switch {
	case bytes.Equal(tip.ID, cur.ID):
		return "identical"
	case tip.Height+1 == cur.Height && bytes.Equal(tip.ID, cur.PreviousBlockID):
		return "valid"
	case dup && bytes.Equal(tip.GeneratorAddress, cur.GeneratorAddress):
		return "doubleForging"
	case dup && stRefSlot(g, tip.Timestamp) < stRefSlot(g, cur.Timestamp) && tipRecv != nil &&
		stRefSlot(g, uint32(tipRecv.Unix())) != stRefSlot(g, tip.Timestamp) && stRefSlot(g, uint32(now.Unix())) == stRefSlot(g, cur.Timestamp):
		return "tieBreak"
	case tip.MaxHeightPrevoted < cur.MaxHeightPrevoted || (tip.Height < cur.Height && tip.MaxHeightPrevoted == cur.MaxHeightPrevoted):
		return "differentChain"
	}
	return "discard"
}

// ---------------------------------------------------------------------------------------------
// runner

type stStats struct {
	sync.Mutex
	cases      int
	reached    int // blocks that got past the static validation into Executer.process
	byState    map[string]int
	byClass    map[string]int
	byOutcome  map[string]int
	follow     map[string]int
	fcn        int
	fcnNilReq  map[string]int
	nilTimeRun int // Executer.process calls with a nil receive time
}

var stStat = stStats{byState: map[string]int{}, byClass: map[string]int{}, byOutcome: map[string]int{}, follow: map[string]int{}, fcnNilReq: map[string]int{}}

func fixMHG(n *node.Node) {
	for _, v := range n.Validators {
		v.MaxHeightGenerated = 0
	}
	for h := uint32(1); h <= n.Height(); h++ {
		hd, err := n.HeaderAt(h)
		if err != nil {
			continue
		}
		if v := n.ValidatorByAddress(hd.GeneratorAddress); v != nil && h > v.MaxHeightGenerated {
			v.MaxHeightGenerated = h
		}
	}
}

// stEnter hands a block to the node through the entry point and runs the consensus loop on what was queued.
// Returns (validator verdict, what process did, failure).
func stEnter(q *node.Node, via string, from p2p.PeerID, b *blockchain.Block, what string) (verdict, proc, errText string, fails []corr.Fail) {
	fail := func(sig, format string, a ...any) {
		fails = append(fails, corr.Fail{Sig: sig, Detail: what + ": " + fmt.Sprintf(format, a...)})
	}
	raw := p2p.VerifC09EncodeMessage(b.Encode())
	o := guarded(stWatchdog, func() string {
		if via == "internal" {
			cp, err := node.CopyBlock(b)
			if err != nil {
				return "undecodable"
			}
			q.Exec.AddInternal(cp)
			return "queued"
		}
		res, handled := p2p.VerifC09Gossip(context.Background(), q.Conn, consensus.P2PEventPostBlock, from, raw)
		if !handled {
			return "rejected:" + vres(res)
		}
		return "queued"
	})
	switch {
	case o.hang:
		fail("c09-consensus-hang", "the %s entry point did not return within %s; block %s", via, stWatchdog, corr.Hex(b.Encode()))
		return "hang", "-", "", fails
	case o.panicV != "":
		fail("c09-consensus-panic:"+panicSite(o.stack), "the %s entry point panicked: %s; block %s", via, o.panicV, corr.Hex(b.Encode()))
		return "panic", "-", "", fails
	}
	verdict = o.verdict
	if verdict != "queued" {
		return verdict, "-", "", nil
	}
	proc = "none"

	for i := 0; i < 4; i++ {
		nilTime := q.Exec.VerifLastBlockReceived() == nil
		tipBefore := append([]byte{}, q.Tip().Header.ID...)
		o := guarded(stWatchdog, func() string {
			ok, err := q.Exec.VerifProcessQueued() // one iteration of the Start loop: Executer.process
			switch {
			case !ok:
				return "empty"
			case err != nil:
				return "error " + err.Error()
			}
			return "ok"
		})
		switch {
		case o.hang:
			fail("c09-consensus-hang", "Executer.process did not return within %s (receive time of the tip nil: %v); block %s", stWatchdog, nilTime, corr.Hex(b.Encode()))
			return verdict, "hang", "", fails
		case o.panicV != "":
			fail("c09-consensus-panic:"+panicSite(o.stack), "Executer.process panicked with %q at %s - in the node this is the consensus goroutine (Executer.Start has no recover): the node is gone. Receive time of the tip nil: %v; tip height %d; block height %d timestamp %d generator %s, encoded %s",
				o.panicV, panicSite(o.stack), nilTime, q.Height(), b.Header.Height, b.Header.Timestamp, corr.Hex(b.Header.GeneratorAddress), corr.Hex(b.Encode()))
			return verdict, "panic", "", fails
		case o.verdict == "empty":
			return verdict, proc, errText, fails
		}
		if nilTime {
			stStat.Lock()
			stStat.nilTimeRun++
			stStat.Unlock()
		}
		proc = o.verdict
		if strings.HasPrefix(proc, "error ") {
			errText, proc = strings.TrimPrefix(proc, "error "), "error"
		}
		if !bytes.Equal(tipBefore, q.Tip().Header.ID) {
			proc += "+tip"
		}
	}
	return verdict, proc, errText, fails
}

func runBlk(k stKey, words []string) (out string, fails []corr.Fail) {
	m := stKV(words)
	state, class, label, via := m["state"], m["class"], m["alt"], m["via"]
	if via != "gossip" && via != "internal" {
		return "bad-op", nil
	}
	w, err := stWorldFor(k)
	if err != nil {
		return "setup-failed", []corr.Fail{{Sig: "c09-state-harness", Detail: "scenario: " + err.Error()}}
	}
	kind := stTipKind(state)
	shape := w.shapes[kind][class]
	if shape == nil {
		return "no-such-class", nil
	}
	what := fmt.Sprintf("%s | blk state=%s class=%s alt=%s via=%s", k.resetLine(), state, class, label, via)
	harness := func(format string, a ...any) (string, []corr.Fail) {
		return "setup-failed", append(fails, corr.Fail{Sig: "c09-state-harness", Detail: what + ": " + fmt.Sprintf(format, a...)})
	}
	q, err := node.New(k.cfg())
	if err != nil {
		return harness("node: %v", err)
	}
	q.ABI.LogCalls = false
	started := false
	var peers []*stPeer
	hung := false
	defer func() {
		if !hung {
			stStop(q, started, peers...)
		}
	}()
	apply := func(bs ...*blockchain.Block) error {
		for _, b := range bs {
			if r := q.ProcessResult(b); r.Err != nil || !r.Applied {
				return fmt.Errorf("own block %d: applied=%v %v", b.Header.Height, r.Applied, r.Err)
			}
		}
		return nil
	}
	startConn := func() error {
		if started {
			return nil
		}
		q.Conn.VerifC19SetListen([]string{"/ip4/127.0.0.1/tcp/0"})
		if err := q.Conn.Start([]byte{}); err != nil {
			return err
		}
		started = true
		return nil
	}
	withPeer := func(chain []*blockchain.Block) (*stPeer, error) {
		if err := startConn(); err != nil {
			return nil, err
		}
		pp, err := startStPeer(q.Cfg.ChainID, q.Genesis, chain)
		if err != nil {
			return nil, err
		}
		peers = append(peers, pp)
		if err := stConnect(q, pp); err != nil {
			return nil, err
		}
		q.AllowSync, q.PeerID = true, pp.conn.ID()
		return pp, nil
	}
	T, common := w.tip["T"], w.common
	// ---- the node state ----
	wantNil := true
	switch state {
	case "fresh":
	case "normal":
		wantNil = false
		err = apply(append(append([]*blockchain.Block{}, common...), T)...)
	case "inslot":
		wantNil = false
		err = apply(append(append([]*blockchain.Block{}, common...), w.tip["Tin"])...)
	case "restart":
		if err = apply(append(append([]*blockchain.Block{}, common...), T)...); err == nil {
			err = q.Restart()
		}
	case "syncing":
		if err = apply(common...); err == nil {
			err = q.Restart()
		}
		if err == nil {
			q.Exec.VerifC04SetSyncing(true)
			err = q.ProcessValidated(T, false)
		}
	case "synced", "syncedstale":
		// the node holds the chain up to height F-2; a peer announces T (height F, on a parent the node does not have):
		// different chain -> the real synchroniser downloads and applies F-1 and T
		wantNil = state == "synced"
		if err = apply(common[:len(common)-1]...); err == nil && state == "synced" {
			err = q.Restart()
		}
		if err == nil {
			var pp *stPeer
			pp, err = withPeer(append(append([]*blockchain.Block{nil}, common...), T))
			if err == nil {
				v, p, _, fs := stEnter(q, "gossip", pp.conn.ID(), T, what+" (state set-up: announced tip)")
				fails = append(fails, fs...)
				if len(fs) > 0 {
					hung = p == "hang" || v == "hang"
					return "setup-" + v + "-" + p, fails
				}
				if !bytes.Equal(q.Tip().Header.ID, T.Header.ID) {
					// pkg/p2p can drop a response (C17): one more announcement
					stEnter(q, "gossip", pp.conn.ID(), T, what)
				}
				if !bytes.Equal(q.Tip().Header.ID, T.Header.ID) {
					err = fmt.Errorf("the synchroniser did not adopt the peer's chain (tip height %d): %s %s", q.Height(), v, p)
				}
			}
		}
	default:
		return "bad-op", nil
	}
	if err != nil {
		return harness("state: %v", err)
	}
	if got := q.Exec.VerifLastBlockReceived() == nil; got != wantNil {
		return harness("state %s: receive time of the tip nil = %v, expected %v", state, got, wantNil)
	}
	if !bytes.Equal(q.Tip().Header.ID, w.tip[kind].Header.ID) {
		return harness("state %s: tip is not the scenario's tip", state)
	}
	q.DrainEvents()
	// ---- the block ----
	b := shape
	if label != "none" {
		a := stAltByLabel(label)
		if a == nil {
			return "no-such-alteration", nil
		}
		if b = w.altered(shape, q.Cfg.ChainID, a); b == nil {
			return "not-encodable", nil
		}
	}
	ref := stRefClass(q.Cfg.GenesisTimestamp, q.Tip().Header, b.Header, q.Exec.VerifLastBlockReceived(), time.Now())
	from := peerPool[int(k.seed)%60]
	if err := startConn(); err != nil {
		return harness("connection: %v", err)
	}
	q.AllowSync = true
	if ref == "differentChain" {
		// the synchroniser will ask the announcing peer: a peer that serves a chain above the node's tip
		pp, err := withPeer(w.peer[kind])
		if err != nil {
			return harness("peer: %v", err)
		}
		from = pp.conn.ID()
	}
	tipBefore := append([]byte{}, q.Tip().Header.ID...)
	verdict, proc, _, fs := stEnter(q, via, from, b, what)
	fails = append(fails, fs...)
	out = fmt.Sprintf("%s %s %s", verdict, ref, proc)
	hung = verdict == "hang" || proc == "hang"
	stStat.Lock()
	stStat.cases++
	stStat.byState[state]++
	stStat.byClass[class]++
	if verdict == "queued" {
		stStat.reached++
		stStat.byOutcome[ref+":"+proc]++
	} else {
		stStat.byOutcome[verdict]++
	}
	stStat.Unlock()
	if hung || proc == "panic" || verdict == "panic" {
		return out, fails
	}
	// ---- afterwards: the node still processes a following valid block ----
	follow := "no-slot-left"
	tipSlot := q.BlockSlot().GetSlotNumber(q.Tip().Header.Timestamp)
	if tipSlot < k.slotNow() {
		fixMHG(q)
		q.Exec.VerifC04SetSyncing(false)
		nb, err := q.BuildBlock(node.BlockOpts{SlotsAhead: 1})
		if err != nil {
			follow = "not-built"
			fails = append(fails, corr.Fail{Sig: "c09-node-stuck-after-block", Detail: fmt.Sprintf("%s: after the block (%s) no following block can be built on the tip of height %d: %v", what, out, q.Height(), err)})
		} else {
			v, p, et, fs := stEnter(q, via, from, nb, what+" (following valid block)")
			if len(fs) == 0 && !bytes.Equal(q.Tip().Header.ID, nb.Header.ID) && via == "gossip" && p == "none" {
				// not even queued (e.g. the validator refused it): hand it in through AddInternal before judging
				v, p, et, fs = stEnter(q, "internal", from, nb, what+" (following valid block)")
			}
			fails = append(fails, fs...)
			follow = "applied"
			if len(fs) == 0 && !bytes.Equal(q.Tip().Header.ID, nb.Header.ID) {
				follow = "refused"
				sig, why := "c09-node-stuck-after-block", "the tip is unchanged"
				if tip := q.Tip().Header; !bytes.Equal(tipBefore, tip.ID) {
					// the received block (or the chain it announced) was ADOPTED and wedges the node; name what is odd about the new tip
					sig, why = sig+":adopted-tip", "the received block / chain was adopted"
					for _, f := range []struct {
						name string
						v    []byte
					}{{"stateRoot", tip.StateRoot}, {"eventRoot", tip.EventRoot}, {"validatorsHash", tip.ValidatorsHash}, {"transactionRoot", tip.TransactionRoot}, {"assetRoot", tip.AssetRoot}} {
						if len(f.v) != 32 {
							sig += fmt.Sprintf("-with-%d-byte-%s", len(f.v), f.name)
							why += fmt.Sprintf(", its %s has %d bytes", f.name, len(f.v))
						}
					}
				}
				fails = append(fails, corr.Fail{Sig: sig, Detail: fmt.Sprintf("%s: after the block (%s; %s) the node does not apply the following valid block of height %d (%s %s: %s); tip height %d; received block %s", what, out, why, nb.Header.Height, v, p, et, q.Height(), corr.Hex(b.Encode()))})
			} else if len(fs) > 0 {
				follow = "failed"
				hung = v == "hang" || p == "hang"
			}
		}
	}
	stStat.Lock()
	stStat.follow[follow]++
	stStat.Unlock()
	return out + " follow=" + follow, fails
}

// ---- the pure fork-choice entry point ------------------------------------------------------------

func stHdr(s string) *blockchain.BlockHeader {
	if s == "nil" {
		return nil
	}
	f := strings.Split(s, ",")
	if len(f) != 7 {
		panic("bad header " + s)
	}
	u := func(x string) uint32 {
		n, err := strconv.ParseUint(x, 10, 32)
		if err != nil {
			panic(err)
		}
		return uint32(n)
	}
	by := func(x string) []byte {
		if x == "nil" {
			return nil
		}
		return corr.UnHex(x)
	}
	return &blockchain.BlockHeader{Height: u(f[0]), MaxHeightPrevoted: u(f[1]), ID: by(f[2]), PreviousBlockID: by(f[3]), GeneratorAddress: by(f[4]),
		Timestamp: u(f[5]), Version: u(f[6])}
}

var stPreds = []string{"IsIdenticalBlock", "IsValidBlock", "IsDoubleForging", "IsTieBreak", "IsDifferentChain"}

// stVerdicts evaluates the five predicates in the order of Executer.process, each under recover
func stVerdicts(last, cur *blockchain.BlockHeader, slot *validator.BlockSlot, recv *time.Time, now *time.Time) (res [5]string) {
	for i := range res {
		res[i] = func() (out string) {
			defer func() {
				if r := recover(); r != nil {
					out = "panic"
				}
			}()
			var fc interface {
				IsIdenticalBlock() bool
				IsValidBlock() bool
				IsDoubleForging() bool
				IsTieBreak() bool
				IsDifferentChain() bool
			}
			var err error
			if now != nil {
				fc, err = forkchoice.VerifNewForkChoiceAt(last, cur, slot, recv, *now)
			} else {
				fc, err = forkchoice.NewForkChoice(last, cur, slot, recv)
			}
			if err != nil {
				return "err"
			}
			switch i {
			case 0:
				return strconv.FormatBool(fc.IsIdenticalBlock())
			case 1:
				return strconv.FormatBool(fc.IsValidBlock())
			case 2:
				return strconv.FormatBool(fc.IsDoubleForging())
			case 3:
				return strconv.FormatBool(fc.IsTieBreak())
			}
			return strconv.FormatBool(fc.IsDifferentChain())
		}()
	}
	return res
}

func runFcn(op string, words []string) (out string, fails []corr.Fail) {
	defer func() {
		if r := recover(); r != nil {
			out = "bad-op"
		}
	}()
	m := stKV(words)
	g64, _ := strconv.ParseUint(m["g"], 10, 32)
	bt64, _ := strconv.ParseUint(m["bt"], 10, 32)
	last, cur := stHdr(m["last"]), stHdr(m["cur"])
	var slot *validator.BlockSlot
	if m["slot"] != "nil" {
		slot = validator.NewBlockSlot(uint32(g64), uint32(bt64))
	}
	var recv *time.Time
	if m["recv"] != "nil" {
		n, err := strconv.ParseInt(m["recv"], 10, 64)
		if err != nil {
			return "bad-op", nil
		}
		t := time.Unix(n, 0)
		recv = &t
	}
	n, err := strconv.ParseInt(m["now"], 10, 64)
	if err != nil {
		return "bad-op", nil
	}
	now := time.Unix(n, 0)
	v := stVerdicts(last, cur, slot, recv, &now)
	wall := stVerdicts(last, cur, slot, recv, nil) // the constructor as Executer.process calls it (wall clock)
	out = strings.Join(v[:], " ")
	required := last != nil && cur != nil && slot != nil
	stStat.Lock()
	stStat.fcn++
	if !required {
		key := "panics"
		if !strings.Contains(out, "panic") {
			key = "answers"
		}
		stStat.fcnNilReq[key]++
	}
	stStat.Unlock()
	if !required {
		return out, nil // a nil tip header / block header / slot calculator is nothing Executer.process passes
	}
	for i, p := range stPreds {
		if v[i] == "panic" || wall[i] == "panic" {
			fails = append(fails, corr.Fail{Sig: "c09-forkchoice-panic:" + p, Detail: fmt.Sprintf("%s: %s panics although tip header, block header and slot calculator are there (receive time of the tip: %s)", op, p, m["recv"])})
		}
	}
	if recv == nil && len(fails) == 0 {
		// LIP-0014: a tip without receive time counts as received within its slot - the tip's own timestamp is a time of its slot
		in := time.Unix(int64(last.Timestamp), 0)
		if vi := stVerdicts(last, cur, slot, &in, &now); vi != v {
			fails = append(fails, corr.Fail{Sig: "c09-forkchoice-absent-time-not-in-slot", Detail: fmt.Sprintf("%s: verdicts %v with a nil receive time, %v with the receive time %d (inside the tip's slot)", op, v, vi, last.Timestamp)})
		}
	}
	return out, fails
}

func (stateProp) RunImpl(c corr.Case) (outs []string, fails []corr.Fail) {
	var key stKey
	ok := false
	for i, op := range c.Ops {
		out, fs := func() (out string, fs []corr.Fail) {
			defer func() {
				if p := recover(); p != nil {
					out = "panic"
					fs = append(fs, corr.Fail{Sig: "c09-state-harness-panic", Detail: fmt.Sprintf("%s: %v\n%s", op, p, debug.Stack())})
				}
			}()
			w := strings.Fields(op)
			switch {
			case len(w) == 0:
				return "bad-op", nil
			case w[0] == "reset":
				if len(w) == 1 {
					ok = false
					return "ok", nil
				}
				key, ok = parseStReset(w[1:])
				if !ok {
					return "bad-op", nil
				}
				return "ok", nil
			case w[0] == "blk" && ok:
				return runBlk(key, w[1:])
			case w[0] == "fcn":
				return runFcn(op, w[1:])
			}
			return "bad-op", nil
		}()
		for j := range fs {
			fs[j].Op = i
		}
		outs = append(outs, out)
		fails = append(fails, fs...)
	}
	return outs, fails
}

func (stateProp) Classify(c corr.Case, out []string) string {
	for i, op := range c.Ops {
		if i < len(out) && strings.HasPrefix(op, "blk ") {
			m := stKV(strings.Fields(op))
			o := strings.Fields(out[i])
			if len(o) >= 3 {
				alt := "plain"
				if m["alt"] != "none" {
					alt = "altered"
				}
				return m["state"] + "," + o[1] + "," + o[0] + "," + o[2] + "," + alt
			}
			return ""
		}
	}
	if len(c.Ops) > 1 && strings.HasPrefix(c.Ops[1], "fcn ") {
		return c.Tag
	}
	return ""
}

// ---------------------------------------------------------------------------------------------
// generator

func fcnCases(rng *rand.Rand, tier string) []corr.Case {
	var cases []corr.Case
	hex := func(b byte, n int) string { return corr.Hex(bytes.Repeat([]byte{b}, n)) }
	hdr := func(h, mhp uint32, id, prev, gen string, ts uint32, ver int) string {
		return fmt.Sprintf("%d,%d,%s,%s,%s,%d,%d", h, mhp, id, prev, gen, ts, ver)
	}
	rounds := 2
	if tier == "thorough" {
		rounds = 40
	}
	for r := 0; r < rounds; r++ {
		for _, bt := range []uint32{10, 1, stBlockTime, 7} {
			g := 1_600_000_000 + uint32(rng.Intn(100_000_000))
			if r%2 == 1 {
				g = uint32(rng.Intn(1000)) // a young chain: timestamps before genesis wrap
			}
			sl := uint32(3 + rng.Intn(50))
			inSlot := func(s uint32) uint32 { return g + s*bt + uint32(rng.Intn(int(bt))) }
			ops := []string{"reset"}
			tipTS := inSlot(sl)
			idA, idB, prevP, genA, genB := hex(1, 32), hex(2, 32), hex(7, 32), hex(0xa, 20), hex(0xb, 20)
			tips := []string{
				hdr(500, 430, idA, prevP, genA, tipTS, 2),
				hdr(0, 0, idA, hex(0, 32), hex(0, 20), g, 0),            // a genesis block as tip
				hdr(500, 430, "-", "-", "-", tipTS, 2),                  // empty byte fields
				hdr(^uint32(0), ^uint32(0), idA, prevP, genA, tipTS, 2), // integer extremes
				"nil",
			}
			for ti, tip := range tips {
				th, tm, tprev := uint32(500), uint32(430), prevP
				switch ti {
				case 1:
					th, tm, tprev = 0, 0, hex(0, 32)
				case 2:
					tprev = "-"
				case 3:
					th, tm = ^uint32(0), ^uint32(0)
				}
				curs := []string{
					hdr(th, tm, idB, tprev, genB, inSlot(sl+1), 2),            // tie-break shape, later slot, other generator
					hdr(th, tm, idB, tprev, genB, inSlot(sl+3), 2),            // … a slot further
					hdr(th, tm, idB, tprev, genB, inSlot(sl-1), 2),            // … earlier slot
					hdr(th, tm, idB, tprev, genA, inSlot(sl+1), 2),            // same generator
					hdr(th, tm, idB, tprev, genB, g-1-uint32(rng.Intn(5)), 2), // timestamp before the genesis timestamp
					hdr(th+1, tm, idB, idA, genB, inSlot(sl+1), 2),            // successor
					hdr(th, tm, idA, tprev, genA, tipTS, 2),                   // identical id
					hdr(th+2, tm, idB, hex(9, 32), genB, inSlot(sl+2), 2),     // different chain
					hdr(th, tm+1, idB, hex(9, 32), genB, inSlot(sl+1), 2),
					hdr(th, tm, idB, "-", "-", inSlot(sl+1), 2),
					"nil",
				}
				for _, cur := range curs {
					for _, slot := range []string{"ok", "nil"} {
						// receive time of the tip: nil, inside its slot, outside; receive time of the block: in / outside its slot
						for _, recv := range []string{"nil", strconv.FormatUint(uint64(tipTS), 10), strconv.FormatUint(uint64(tipTS)+uint64(bt)+1, 10)} {
							nows := []uint32{inSlot(sl + 1)}
							if slot == "ok" && tip != "nil" && cur != "nil" {
								nows = append(nows, inSlot(sl+3), g+(sl+2)*bt)
							} else if recv != "nil" && !(tip == "nil" && cur == "nil") {
								continue // one nil combination per pair is enough beyond the receive time
							}
							for _, now := range nows {
								ops = append(ops, fmt.Sprintf("fcn g=%d bt=%d last=%s cur=%s slot=%s recv=%s now=%d", g, bt, tip, cur, slot, recv, now))
							}
						}
					}
				}
			}
			cases = append(cases, corr.Case{Ops: ops, Tag: "forkchoice-nil-combinations"})
		}
	}
	return cases
}

func (stateProp) Generate(rng *rand.Rand, tier string) []corr.Case {
	thorough := tier == "thorough"
	now := uint32(time.Now().Unix())
	keys := []stKey{{nv: 3, F: 4, seed: 1 + rng.Int63n(1<<30), now: now}}
	if thorough {
		keys = append(keys, stKey{nv: 4, F: 5, seed: 1 + rng.Int63n(1<<30), now: now}, stKey{nv: 2, F: 3, seed: 1 + rng.Int63n(1<<30), now: now})
	}
	var cases []corr.Case
	for _, k := range keys {
		w, err := stWorldFor(k)
		reset := k.resetLine()
		add := func(state, class, alt, via string) {
			cases = append(cases, corr.Case{Ops: []string{reset, fmt.Sprintf("blk state=%s class=%s alt=%s via=%s", state, class, alt, via)}, Tag: "state-" + state})
		}
		if err != nil {
			add("fresh", "successor", "none", "gossip") // reports the set-up failure
			continue
		}
		// the full cross product state x class, through gossip; the classes around the tie break also through AddInternal
		n := 0
		for _, st := range stStates {
			for _, cl := range w.classes(stTipKind(st)) {
				add(st, cl, "none", "gossip")
				if strings.HasPrefix(cl, "tie-") || cl == "double" || thorough || n%3 == 0 {
					add(st, cl, "none", "internal")
				}
				n++
			}
		}
		// single alterations: every alteration in every state on classes drawn per (state, alteration)
		per := 1
		if thorough {
			per = 4
		}
		for ai, a := range stAlts {
			for si, st := range stStates {
				cls := w.classes(stTipKind(st))
				for j := 0; j < per; j++ {
					cl := cls[rng.Intn(len(cls))]
					if j == 0 && (ai+si)%2 == 0 {
						// half of the draws stay in tie-break territory
						tie := []string{}
						for _, c := range cls {
							if strings.HasPrefix(c, "tie-") {
								tie = append(tie, c)
							}
						}
						cl = tie[rng.Intn(len(tie))]
					}
					via := "gossip"
					if rng.Intn(3) == 0 {
						via = "internal"
					}
					add(st, cl, a.label, via)
				}
			}
		}
		for ai, a := range stAlts {
			st := stStates[ai%len(stStates)]
			add(st, "successor", a.label, []string{"gossip", "internal"}[ai%2])
			if thorough {
				for _, st2 := range stStates {
					if st2 != st {
						add(st2, "successor", a.label, []string{"gossip", "internal"}[(ai+1)%2])
					}
				}
			}
		}
		// the root / hash fields of a block that gets EXECUTED, in every state
		for _, l := range []string{"stateroot-empty", "stateroot-random", "eventroot-empty", "vhash-empty", "ac-nil"} {
			for si, st := range stStates {
				add(st, "successor", l, []string{"gossip", "internal"}[si%2])
			}
		}
	}
	return append(cases, fcnCases(rng, tier)...)
}

func (stateProp) Extra(rng *rand.Rand, tier string) corr.ExtraResult {
	stStat.Lock()
	defer stStat.Unlock()
	res := corr.ExtraResult{Notes: map[string]any{}}
	res.Evaluations = stStat.cases + stStat.fcn
	res.Notes["block_cases"] = stStat.cases
	res.Notes["blocks_that_reached_Executer_process"] = stStat.reached
	res.Notes["process_calls_with_nil_receive_time"] = stStat.nilTimeRun
	res.Notes["by_state"] = stStat.byState
	res.Notes["by_class"] = stStat.byClass
	res.Notes["by_reference_class_and_outcome"] = stStat.byOutcome
	res.Notes["following_valid_block"] = stStat.follow
	res.Notes["forkchoice_constructor_ops"] = stStat.fcn
	res.Notes["forkchoice_with_nil_required_argument"] = stStat.fcnNilReq
	return res
}
