package c09

import (
	"bytes"
	"fmt"
	"math/rand"
	"os"
	"runtime"
	"runtime/debug"
	"sort"
	"strconv"
	"strings"
	"sync"
	"sync/atomic"
	"time"

	"verifharness/c08"
	"verifharness/corr"
)

// NoModel: `C09_NOMODEL=1 vh C09 ...` runs the oracle without the Lean driver.
func (prop) NoModel() bool { return os.Getenv("C09_NOMODEL") != "" }

// singleArg entry points for the exhaustive small-input sweep: name -> op prefix; the byte string is
// appended as the last argument.
func exhaustiveEntries(t *templates) []string {
	l := []string{
		"blk", "gblk", "tx", "gtx", "sc", "gsc", "req", "resp",
		"x agg", "x vblock", "x newblock", "x newheader", "x newtx", "x newasset",
	}
	for _, s := range networkSchemas {
		l = append(l, "x codec "+s)
	}
	for _, e := range endpointNames {
		l = append(l, "x ep "+e)
	}
	for _, proc := range []string{"getLastBlock", "getHighestCommonBlock", "getBlocksFromId", "getTransactions"} {
		l = append(l, "x rpc "+corr.Hex([]byte(proc)))
	}
	// proofs: the byte string is the encoded proof, the other arguments are those of a valid call
	l = append(l, "x smtv@ "+corr.Hex(t.smtRoot)+" 32 "+hexList(t.smtKeys))
	l = append(l, "x rmtv@ "+corr.Hex(t.rmtRoot)+" "+hexList(t.rmtQuery))
	l = append(l, "x rmtu@ "+hexList(t.rmtQuery))
	return l
}

// opFor builds the op for entry e and input b ("@" marks entries whose input is the FIRST argument).
func opFor(e string, b []byte) string {
	if i := strings.Index(e, "@ "); i >= 0 {
		return e[:i] + " " + corr.Hex(b) + " " + e[i+2:]
	}
	return e + " " + corr.Hex(b)
}

type sweepResult struct {
	evals int
	fails []corr.Fail
	note  string
}

// runOps executes ops on one world in one goroutine (per-op recover), watched from outside: a batch
// that stops making progress is a hang of the op at the progress counter.
func runOps(seed int64, ops func(i int) (string, bool), n int, allocK uint64, measure bool, observe func(name string, size int, o outcome)) sweepResult {
	res := sweepResult{}
	var progress int64
	type fl struct {
		fails []corr.Fail
		evals int
	}
	done := make(chan fl, 1)
	start := 0
	for start < n {
		w, err := newWorld(seed)
		if err != nil {
			res.fails = append(res.fails, corr.Fail{Sig: "c09-world", Detail: err.Error(), Op: -1})
			return res
		}
		atomic.StoreInt64(&progress, int64(start))
		go func(from int) {
			var fails []corr.Fail
			evals := 0
			crashed := false
			for i := from; i < n && !crashed; i++ {
				atomic.StoreInt64(&progress, int64(i))
				op, ok := ops(i)
				if !ok {
					continue
				}
				f := strings.Fields(op)
				var a0 uint64
				if measure {
					a0 = allocBytes()
				}
				t0 := time.Now()
				o := func() (o outcome) {
					defer func() {
						if r := recover(); r != nil {
							o.panicV, o.stack = fmt.Sprint(r), string(debug.Stack())
						}
					}()
					if f[0] == "x" {
						o.verdict = w.xOp(f[1], f[2:])
					} else {
						_, o.verdict, _ = w.statefulOp(f[0], corr.UnHex(f[1]))
					}
					return o
				}()
				evals++
				name, size := f[0], 0
				if f[0] == "x" {
					name, size = f[1], inputSize(f[2:])
					if (f[1] == "ep" || f[1] == "codec") && len(f) > 2 {
						name = f[1] + ":" + f[2]
					}
				} else {
					size = len(f[1]) / 2
				}
				o.dur = time.Since(t0)
				if measure {
					o.alloc = allocBytes() - a0
				}
				if observe != nil {
					observe(name, size, o)
				}
				fs := failOf(name, o, op, -1, size, allocK)
				if len(fs) > 0 && len(fails) < 50 {
					fails = append(fails, fs...)
				}
				if o.panicV != "" {
					pure := false
					if f[0] == "x" {
						_, pure = pureEntries[f[1]]
					}
					if !pure {
						crashed = true // the node may be in an inconsistent state: continue on a fresh one
						atomic.StoreInt64(&progress, int64(i+1))
						done <- fl{fails, evals}
						return
					}
				}
			}
			atomic.StoreInt64(&progress, int64(n))
			done <- fl{fails, evals}
		}(start)
		// watchdog
		last, lastChange := int64(-1), time.Now()
		hung := false
	wait:
		for {
			select {
			case r := <-done:
				res.fails = append(res.fails, r.fails...)
				res.evals += r.evals
				break wait
			case <-time.After(200 * time.Millisecond):
				p := atomic.LoadInt64(&progress)
				if p != last {
					last, lastChange = p, time.Now()
				} else if time.Since(lastChange) > opTimeout {
					op, _ := ops(int(p))
					f := strings.Fields(op)
					name := f[0]
					if name == "x" {
						name = f[1]
					}
					res.fails = append(res.fails, corr.Fail{Sig: "c09-hang:" + name, Detail: clip(op) + ": no progress for " + opTimeout.String(), Op: -1})
					hung = true
					break wait
				}
			}
		}
		if hung {
			start = int(atomic.LoadInt64(&progress)) + 1 // abandon the world and its goroutine
			continue
		}
		start = int(atomic.LoadInt64(&progress))
		w.close()
	}
	return res
}

// nthString enumerates all byte strings by length, then value: index 0 is the empty string, 1..256 the
// one byte strings, and so on.
func nthString(i int) []byte {
	l, total := 0, 1
	for i >= total {
		i -= total
		total *= 256
		l++
	}
	b := make([]byte, l)
	for k := l - 1; k >= 0; k-- {
		b[k] = byte(i)
		i >>= 8
	}
	return b
}

func countStrings(maxLen int) int {
	n, total := 0, 1
	for l := 0; l <= maxLen; l++ {
		n += total
		total *= 256
	}
	return n
}

// Extra: (a) exhaustive byte strings up to length 2 (quick) / 3 (thorough, for the entry points whose
// cost allows it) on every single-argument entry point; (b) allocation and time as a function of the
// input size, single threaded, with the tight bound: growing valid messages, and small messages that
// claim huge lengths.
func (prop) Extra(rng *rand.Rand, tier string) corr.ExtraResult {
	c08.LoadSchemas()
	res := corr.ExtraResult{Notes: map[string]any{}, Exhaustive: true}
	if os.Getenv("C09_NOEXTRA") != "" {
		return res
	}
	t, err := templatesFor(1)
	if err != nil {
		res.Fails = append(res.Fails, corr.Fail{Sig: "c09-world", Detail: err.Error(), Op: -1})
		return res
	}
	entries := exhaustiveEntries(t)
	n2 := countStrings(2)
	var mu sync.Mutex
	var wg sync.WaitGroup
	sem := make(chan struct{}, 8)
	perEntry := map[string]int{}
	sweep := func(e string, from, to int) {
		defer wg.Done()
		defer func() { <-sem }()
		r := runOps(1, func(i int) (string, bool) { return opFor(e, nthString(from+i)), true }, to-from, allocKLoose, false, nil)
		mu.Lock()
		res.Evaluations += r.evals
		perEntry[e] += r.evals
		res.Fails = append(res.Fails, r.fails...)
		mu.Unlock()
	}
	for _, e := range entries {
		wg.Add(1)
		sem <- struct{}{}
		go sweep(e, 0, n2)
	}
	wg.Wait()
	if tier == "thorough" {
		// length 3: 2^24 strings per entry point, on the decoders and validators in front of everything else
		n3 := countStrings(3)
		for _, e := range []string{"blk", "gblk", "tx", "gtx", "sc", "gsc", "req", "resp", "x agg", "x newblock", "x newheader", "x newtx", "x newasset",
			"x codec p2p.Request", "x codec p2p.responseMsg", "x codec p2p.Message", "x codec blockchain.Block", "x codec smt.Proof", "x codec rmt.Proof",
			"x codec sync.GetBlocksFromIDResponse", "x codec consensus.EventPostSingleCommits", "x ep chain_postBlock", "x ep txpool_postTransaction"} {
			wg.Add(1)
			sem <- struct{}{}
			go sweep(e, n2, n3)
		}
		wg.Wait()
	}
	names := make([]string, 0, len(perEntry))
	for k := range perEntry {
		names = append(names, k)
	}
	sort.Strings(names)
	res.Notes["exhaustive_entry_points"] = len(names)
	res.Notes["exhaustive_max_len"] = map[string]int{"quick": 2, "thorough": 3}[tier]

	// (b) scaling, single threaded
	runtime.GC()
	scal := scalingOps(t, tier)
	type sc struct {
		MaxInput     int     `json:"max_input_bytes"`
		MaxAlloc     uint64  `json:"max_alloc_bytes"`
		MaxAllocPerB float64 `json:"max_alloc_per_input_byte_above_64KiB"`
		MaxMs        float64 `json:"max_ms"`
		MaxUsPerKiB  float64 `json:"max_us_per_KiB_above_64KiB"`
		Calls        int     `json:"calls"`
	}
	scaling := map[string]*sc{}
	r := runOps(1, func(i int) (string, bool) { return scal[i], true }, len(scal), allocKTight, true, func(name string, size int, o outcome) {
		e := scaling[name]
		if e == nil {
			e = &sc{}
			scaling[name] = e
		}
		e.Calls++
		if size > e.MaxInput {
			e.MaxInput = size
		}
		if o.alloc > e.MaxAlloc {
			e.MaxAlloc = o.alloc
		}
		ms := float64(o.dur.Microseconds()) / 1000
		if ms > e.MaxMs {
			e.MaxMs = ms
		}
		if size >= 64<<10 {
			if r := float64(o.alloc) / float64(size); r > e.MaxAllocPerB {
				e.MaxAllocPerB = r
			}
			if r := float64(o.dur.Microseconds()) / (float64(size) / 1024); r > e.MaxUsPerKiB {
				e.MaxUsPerKiB = r
			}
		}
	})
	res.Notes["scaling"] = scaling
	res.Evaluations += r.evals
	res.Fails = append(res.Fails, r.fails...)
	res.Notes["scaling_ops"] = len(scal)
	res.Notes["alloc_bound"] = fmt.Sprintf("%d*|input| + %d bytes per call", allocC, allocKTight)
	// time as a function of size: the largest inputs must finish within the watchdog (checked by runOps)

	// (c) the JSON RPC transport (HTTP + WS) in child processes
	nsc, rf := rpcTransportChecks()
	res.Evaluations += nsc
	res.Fails = append(res.Fails, rf...)
	res.Notes["rpc_scenarios"] = nsc

	// verdict statistics of the model-free entry points (filled by RunImpl)
	stats.mu.Lock()
	vs := map[string]int{}
	for k, v := range stats.verdicts {
		vs[k] = v
	}
	stats.mu.Unlock()
	res.Notes["verdicts"] = vs
	sigs := map[string]int{}
	for _, f := range res.Fails {
		sigs[f.Sig]++
	}
	res.Notes["fail_sigs"] = sigs
	res.Notes["not_covered"] = "cgo blst internals, libp2p / pubsub framing in front of the bytes, encoding/json internals, goroutine leaks"
	// keep one fail per signature (the report lists every one otherwise)
	seen := map[string]bool{}
	var uniq []corr.Fail
	for _, f := range res.Fails {
		if !seen[f.Sig] {
			seen[f.Sig] = true
			uniq = append(uniq, f)
		}
	}
	res.Fails = uniq
	return res
}

// scalingOps: inputs of growing size and small inputs claiming huge sizes.
func scalingOps(t *templates, tier string) []string {
	var ops []string
	sizes := []int{1 << 10, 1 << 14, 1 << 18, 1 << 20}
	if tier == "thorough" {
		sizes = append(sizes, 1<<22)
	}
	grow := func(schema string, b []byte, payload string, num int, parentSchema string, size int) []byte {
		// set the first byte-string field `num` of a node of parentSchema to `size` bytes
		pt := parse(schema, b, payload, 0)
		if pt == nil {
			return b
		}
		for _, r := range pt.allFields() {
			f := r.node.fields[r.idx]
			if r.node.schema == parentSchema && f.num == num && f.wt == 2 && f.sub == nil {
				f.pay = bytes.Repeat([]byte{0x61}, size)
				break
			}
		}
		return pt.ser()
	}
	for _, n := range sizes {
		ops = append(ops,
			"blk "+corr.Hex(grow("blockchain.RawBlock", t.nextBlock, "", 6, "blockchain.Transaction", n)),     // params
			"blk "+corr.Hex(grow("blockchain.RawBlock", t.nextBlock, "", 2, "blockchain.BlockAsset", n)),      // asset data
			"blk "+corr.Hex(grow("blockchain.RawBlock", t.nextBlock, "", 2, "blockchain.AggregateCommit", n)), // bitmap
			"blk "+corr.Hex(grow("blockchain.RawBlock", t.nextBlock, "", 15, "blockchain.BlockHeader", n)),    // signature
			"tx "+corr.Hex(grow("blockchain.Transaction", t.tx, "", 6, "blockchain.Transaction", n)),
			"tx "+corr.Hex(grow("blockchain.Transaction", t.tx, "", 1, "blockchain.Transaction", n)),
			"sc "+corr.Hex(grow("consensus.EventPostSingleCommits", t.oneCommit, "", 4, "certificate.SingleCommit", n)),
			"req "+corr.Hex(grow("p2p.Request", t.reqFromID, "sync.GetBlocksFromIDRequest", 1, "sync.GetBlocksFromIDRequest", n)),
			"req "+corr.Hex(grow("p2p.Request", t.reqLast, "", 3, "p2p.Request", n)),
			"req "+corr.Hex(grow("p2p.Request", t.reqLast, "", 1, "p2p.Request", n)),
			"resp "+corr.Hex(grow("p2p.responseMsg", t.respErr, "", 4, "p2p.responseMsg", n)),
			"x agg "+corr.Hex(grow("blockchain.AggregateCommit", []byte{0x08, 0x05, 0x12, 0x01, 0x0f, 0x1a, 0x01, 0x01}, "", 2, "blockchain.AggregateCommit", n)),
			"x ep chain_postBlock "+corr.Hex(append(append([]byte(`{"block":{"header":{"signature":"`), bytes.Repeat([]byte("ab"), n/2)...), []byte(`"}}}`)...)),
			"x ep txpool_postTransaction "+corr.Hex(append(append([]byte(`{"transaction":{"params":"`), bytes.Repeat([]byte("ab"), n/2)...), []byte(`"}}`)...)),
			"x ep chain_getGetBlockByID "+corr.Hex(append(append([]byte(`{"id":"`), bytes.Repeat([]byte("ab"), n/2)...), []byte(`"}`)...)),
		)
		// many small elements: ids of a common-block request (one goroutine each), commits, transactions
		k := n / 34
		ids := make([]byte, 0, n)
		for i := 0; i < k; i++ {
			ids = append(append(ids, 0x0a, 0x20), h32("id", i)...)
		}
		ops = append(ops, "x rpc "+corr.Hex([]byte("getHighestCommonBlock"))+" "+corr.Hex(ids))
		var many []byte
		pt := parse("consensus.EventPostSingleCommits", t.oneCommit, "", 0)
		if pt != nil && len(pt.fields) > 0 {
			one := pt.fields[0].ser()
			for i := 0; i < n/len(one)+1; i++ {
				many = append(many, one...)
			}
			ops = append(ops, "sc "+corr.Hex(many))
		}
		var txs []byte
		for i := 0; i < n/(len(t.tx)+3)+1; i++ {
			txs = append(append(append(txs, 0x12), uvarint(uint64(len(t.tx)))...), t.tx...)
		}
		ops = append(ops, "blk "+corr.Hex(append(append(append([]byte{0x0a}, uvarint(uint64(len(t.header)))...), t.header...), txs...)))
		// proofs
		sib := make([]byte, 0, n)
		for i := 0; i < k; i++ {
			sib = append(append(sib, 0x0a, 0x20), h32("s", i)...)
		}
		ops = append(ops, "x smtv "+corr.Hex(append(sib, t.smtProof...))+" "+corr.Hex(t.smtRoot)+" 32 "+hexList(t.smtKeys))
		idxs := make([]byte, 0, n)
		for i := 0; i < n/3; i++ {
			idxs = append(idxs, uvarint(uint64(1<<14+i))...)
		}
		rp := append([]byte{0x08}, uvarint(1<<13)...)
		rp = append(append(append(rp, 0x12), uvarint(uint64(len(idxs)))...), idxs...)
		qs := make([][]byte, n/3)
		for i := range qs {
			qs[i] = []byte{byte(i)}
		}
		if n <= 1<<18 {
			ops = append(ops, "x rmtv "+corr.Hex(rp)+" "+corr.Hex(t.rmtRoot)+" "+hexList(qs))
		}
		ops = append(ops, "x blsagg "+hexList(t.blsKeys)+" "+corr.Hex(bytes.Repeat([]byte{0xff}, n))+" "+corr.Hex(t.blsSig)+" "+corr.Hex(t.blsMsg))
		ops = append(ops, "x blsv "+corr.Hex(bytes.Repeat([]byte{1}, n))+" "+corr.Hex(t.blsOneSig)+" "+corr.Hex(t.blsKeys[0]))
		ops = append(ops, "x edv "+corr.Hex(t.edPub)+" "+corr.Hex(t.edSig)+" "+corr.Hex(bytes.Repeat([]byte{1}, n)))
	}
	// small inputs that claim huge sizes: every length prefix / count of the valid messages replaced
	// by huge values (a decoder that allocates before it checks would show here)
	claim := func(kind, schema string, b []byte, payload string) {
		pt := parse(schema, b, payload, 0)
		if pt == nil {
			return
		}
		for _, m := range structuralMutants(pt) {
			if m.tag == "bad-length" || m.tag == "huge-varint" || m.tag == "huge-field-number" {
				ops = append(ops, kind+" "+corr.Hex(m.data))
			}
		}
	}
	claim("blk", "blockchain.RawBlock", t.nextBlock, "")
	claim("tx", "blockchain.Transaction", t.tx, "")
	claim("sc", "consensus.EventPostSingleCommits", t.oneCommit, "")
	claim("req", "p2p.Request", t.reqCommon, "sync.GetHighestCommonBlockRequest")
	claim("resp", "p2p.responseMsg", t.respOK, "blockchain.RawBlock")
	claim("x codec smt.Proof", "smt.Proof", t.smtProof, "")
	claim("x codec rmt.Proof", "rmt.Proof", t.rmtProof, "")
	claim("x smtv@ "+corr.Hex(t.smtRoot)+" 32 "+hexList(t.smtKeys), "smt.Proof", t.smtProof, "")
	for i, op := range ops {
		if j := strings.Index(op, "@ "); j >= 0 {
			f := strings.Fields(op)
			ops[i] = opFor(strings.Join(f[:len(f)-1], " "), corr.UnHex(f[len(f)-1]))
		}
	}
	// rmt proofs with huge sizes / index counts
	for _, size := range []uint64{1 << 20, 1 << 40, 1 << 62, ^uint64(0)} {
		p := append([]byte{0x08}, uvarint(size)...)
		p = append(p, 0x12, 0x02, 0x04, 0x05)
		ops = append(ops, "x rmtv "+corr.Hex(p)+" "+corr.Hex(t.rmtRoot)+" "+hexList(t.rmtQuery[:2]))
	}
	_ = strconv.Itoa
	return ops
}
