package c09

// Pseudo-property C09CONC (model-free, run with C09 through `also`): network-facing handlers WHILE the chain moves.
//
// C09's hang oracle calls every entry point sequentially; a handler whose lock use only deadlocks against the node's
// own block processing (a read lock held while waiting for workers that take it again, with the writer of AddBlock /
// RemoveBlock queued in between — seeded change C09-12) never hangs there. Here every network-facing handler that
// reads chain data runs concurrently with the chain writer on the same node:
//   writer  : one goroutine doing what the consensus loop does — Executer.process of the next block, deleteBlock of
//             the tip, in runs long enough to empty the block cache (cache refill inside RemoveBlock); the cache is
//             configured smaller than the chain;
//   readers : several goroutines issuing VALID requests: the sync RPC procedures and getTransactions through the real
//             MessageProtocol.onRequest, the JSON-RPC endpoints that read the chain / pool / generator, and gossip
//             (block, transaction, single commits) through the real validators and handlers.
// Oracle: every request returns and the writer finishes its schedule (progress watchdog: no goroutine made progress
// for `stall`), no request panics, and afterwards every request is still answered. A violation is reported with the
// schedule (world seed, cache size, schedule seed, writer step), the requests that did not return and the lisk-engine
// functions the blocked goroutines wait in.
//
// Each scenario runs in a CHILD process (like the RPC transport scenarios): a deadlock leaves goroutines and locks
// behind, and a data race on a Go map is a fatal error that no recover catches.

import (
	"bytes"
	"context"
	"encoding/json"
	"fmt"
	"math/rand"
	"os"
	"os/exec"
	"runtime"
	"runtime/debug"
	"sort"
	"strconv"
	"strings"
	"sync"
	"sync/atomic"
	"syscall"
	"time"

	ma "github.com/multiformats/go-multiaddr"

	"github.com/LiskHQ/lisk-engine/pkg/blockchain"
	"github.com/LiskHQ/lisk-engine/pkg/codec"
	"github.com/LiskHQ/lisk-engine/pkg/consensus"
	"github.com/LiskHQ/lisk-engine/pkg/consensus/certificate"
	syncer "github.com/LiskHQ/lisk-engine/pkg/consensus/sync"
	"github.com/LiskHQ/lisk-engine/pkg/p2p"
	"github.com/LiskHQ/lisk-engine/pkg/router"
	"github.com/LiskHQ/lisk-engine/pkg/rpc"
	"github.com/LiskHQ/lisk-engine/pkg/txpool"

	"verifharness/corr"
	"verifharness/node"
)

const concChildEnv = "C09_CONC_CHILD"

// address space of a scenario process (virtual memory, not resident: the Go runtime, pebble and blst reserve a few GiB)
const concAddressSpace = 12 << 30

type concProp struct{}

func init() {
	if spec := os.Getenv(concChildEnv); spec != "" {
		os.Exit(runConcChild(spec))
	}
	corr.Register(concProp{})
}

func (concProp) ID() string                 { return "C09CONC" }
func (concProp) NoModel() bool              { return true }
func (concProp) Parallel() int              { return 3 }
func (concProp) CaseTimeout() time.Duration { return 6 * time.Minute }

// ---------------------------------------------------------------------------------------------
// scenario description (one op line)

type concSpec struct {
	Seed    int64  // world seed
	Cache   int    // block cache capacity (smaller than the chain)
	Steps   int    // writer steps (one AddBlock or RemoveBlock each)
	Readers int    // reader goroutines
	Sched   int64  // seed of the writer schedule and of the readers' request choice
	Mix     string // request families: req, ep, gossip
	StallMs int    // progress watchdog
}

func (s concSpec) String() string {
	return fmt.Sprintf("conc seed=%d cache=%d steps=%d readers=%d sched=%d mix=%s stall=%d", s.Seed, s.Cache, s.Steps, s.Readers, s.Sched, s.Mix, s.StallMs)
}

func parseConcSpec(op string) (concSpec, bool) {
	s := concSpec{StallMs: 8000}
	f := strings.Fields(op)
	if len(f) == 0 || f[0] != "conc" {
		return s, false
	}
	for _, kv := range f[1:] {
		p := strings.SplitN(kv, "=", 2)
		if len(p) != 2 {
			return s, false
		}
		n, _ := strconv.ParseInt(p[1], 10, 64)
		switch p[0] {
		case "seed":
			s.Seed = n
		case "cache":
			s.Cache = int(n)
		case "steps":
			s.Steps = int(n)
		case "readers":
			s.Readers = int(n)
		case "sched":
			s.Sched = n
		case "mix":
			s.Mix = p[1]
		case "stall":
			s.StallMs = int(n)
		}
	}
	return s, s.Seed > 0 && s.Cache > 0 && s.Steps > 0 && s.Readers > 0
}

func (concProp) Generate(rng *rand.Rand, tier string) []corr.Case {
	n, steps := 3, 300
	if tier == "thorough" {
		n, steps = 12, 1200
	}
	mixes := []string{"req,ep,gossip", "req", "req,ep"}
	var cases []corr.Case
	for i := 0; i < n; i++ {
		sp := concSpec{
			Seed:    1 + rng.Int63n(3),
			Cache:   []int{4, 6, 9, 3}[(i+int(rng.Int63n(4)))%4],
			Steps:   steps,
			Readers: 4,
			Sched:   1 + rng.Int63n(1<<40),
			Mix:     mixes[i%len(mixes)],
			StallMs: 8000,
		}
		cases = append(cases, corr.Case{Ops: []string{"reset " + strconv.FormatInt(sp.Seed, 10), sp.String()}, Tag: "conc-" + strings.ReplaceAll(sp.Mix, ",", "+")})
	}
	return cases
}

// ---------------------------------------------------------------------------------------------
// parent side

type concResult struct {
	Result   string         `json:"result"` // ok | hang | setup-error
	Error    string         `json:"error,omitempty"`
	Steps    int            `json:"steps"`
	Adds     int            `json:"adds"`
	Deletes  int            `json:"deletes"`
	Refills  int            `json:"deep_delete_runs"`
	WErrors  int            `json:"writer_errors"`
	Requests map[string]int `json:"requests"`
	Panics   []concPanic    `json:"panics,omitempty"`
	Stuck    []string       `json:"stuck,omitempty"`   // requests that did not return
	Writer   string         `json:"writer,omitempty"`  // what the writer was doing
	Blocked  []string       `json:"blocked,omitempty"` // "<n> x <state> in <function>"
	Culprit  string         `json:"culprit,omitempty"`
	Spinning bool           `json:"spinning,omitempty"` // the culprit goroutine is running, not waiting
	WallMs   int64          `json:"wall_ms"`
}

type concPanic struct {
	Who   string `json:"who"`
	Value string `json:"value"`
	Site  string `json:"site"`
	Req   string `json:"request"`
}

var concStats struct {
	sync.Mutex
	runs, steps, adds, deletes, deep int
	requests                         map[string]int
}

func (concProp) RunImpl(c corr.Case) ([]string, []corr.Fail) {
	out := make([]string, 0, len(c.Ops))
	var fails []corr.Fail
	for i, op := range c.Ops {
		if strings.HasPrefix(op, "reset") {
			out = append(out, "ok")
			continue
		}
		sp, ok := parseConcSpec(op)
		if !ok {
			out = append(out, "bad-op")
			continue
		}
		out = append(out, "-")
		res, raw, err := runConcScenario(sp)
		switch {
		case err != nil && res == nil:
			// the child died or did not finish
			sig, msg := "c09-crash:conc", clip(raw)
			if strings.Contains(err.Error(), "timeout") {
				sig = "c09-hang:conc:child-timeout"
			} else if j := strings.Index(raw, "fatal error:"); j >= 0 {
				site := firstRepoFrame(raw[j:])
				msg = strings.SplitN(raw[j:], "\n", 2)[0] + " at " + site
				sig = "c09-crash:conc:" + site
				if strings.Contains(msg, "out of memory") || strings.Contains(msg, "cannot allocate memory") {
					sig = "c09-unbounded-work:conc:" + site
				}
			} else if j := strings.Index(raw, "panic:"); j >= 0 {
				site := firstRepoFrame(raw[j:])
				msg = strings.SplitN(raw[j:], "\n", 2)[0] + " at " + site
				sig = "c09-crash:conc:" + site
			}
			phase := ""
			for _, l := range strings.Split(raw, "\n") {
				if strings.HasPrefix(l, "CONC-PHASE ") {
					phase = strings.TrimPrefix(l, "CONC-PHASE ")
				}
				if strings.HasPrefix(l, "runtime: out of memory") {
					msg += " (" + l + ")"
				}
			}
			fails = append(fails, corr.Fail{Sig: sig, Detail: fmt.Sprintf("%s: node process ended (%v) during: %s: %s", op, err, phase, msg), Op: i})
		case res.Result == "setup-error":
			fails = append(fails, corr.Fail{Sig: "c09-conc-setup", Detail: op + ": " + res.Error, Op: i})
		default:
			if res.Result == "hang" {
				culprit := res.Culprit
				if culprit == "" {
					culprit = "unknown"
				}
				// a lock cycle: which of the waiting functions holds what the others queue behind cannot be read off the stacks
				// (the candidates are in the detail), so the signature does not name one
				sig := "c09-hang:conc:lock-wait"
				if res.Spinning {
					// a goroutine that keeps RUNNING inside the engine: unbounded work / allocation, not a lock cycle
					sig = "c09-unbounded-work:conc:" + culprit
				}
				fails = append(fails, corr.Fail{Sig: sig, Op: i, Detail: fmt.Sprintf(
					"%s: no goroutine made progress for %d ms. Requests that did not return: %s. Writer: %s (after %d steps: %d blocks added, %d removed). Blocked goroutines: %s. Waiting for its workers / running: %s",
					op, sp.StallMs, strings.Join(res.Stuck, " | "), res.Writer, res.Steps, res.Adds, res.Deletes, strings.Join(res.Blocked, "; "), culprit)})
			}
			for _, p := range res.Panics {
				fails = append(fails, corr.Fail{Sig: "c09-panic:conc:" + p.Who, Op: i, Detail: fmt.Sprintf("%s: %s panicked with %q at %s while the chain writer was running; request: %s", op, p.Who, p.Value, p.Site, clip(p.Req))})
			}
			concStats.Lock()
			concStats.runs++
			concStats.steps += res.Steps
			concStats.adds += res.Adds
			concStats.deletes += res.Deletes
			concStats.deep += res.Refills
			if concStats.requests == nil {
				concStats.requests = map[string]int{}
			}
			for k, v := range res.Requests {
				concStats.requests[k] += v
			}
			concStats.Unlock()
		}
	}
	return out, fails
}

func firstRepoFrame(st string) string {
	for _, l := range strings.Split(st, "\n") {
		if strings.Contains(l, "github.com/LiskHQ/lisk-engine/") && !strings.HasPrefix(l, "\t") {
			l = strings.TrimPrefix(l, "github.com/LiskHQ/lisk-engine/")
			if j := strings.LastIndex(l, "("); j > 0 {
				l = l[:j]
			}
			return l
		}
	}
	return "?"
}

func runConcScenario(sp concSpec) (*concResult, string, error) {
	cmd := exec.Command(os.Args[0])
	cmd.Env = append(os.Environ(), concChildEnv+"="+sp.String())
	var out, errb bytes.Buffer
	cmd.Stdout, cmd.Stderr = &out, &errb
	if err := cmd.Start(); err != nil {
		return nil, "", err
	}
	done := make(chan error, 1)
	go func() { done <- cmd.Wait() }()
	var err error
	select {
	case err = <-done:
	case <-time.After(4 * time.Minute):
		_ = cmd.Process.Kill()
		return nil, out.String() + errb.String(), fmt.Errorf("timeout after 4m")
	}
	for _, l := range strings.Split(out.String(), "\n") {
		if strings.HasPrefix(l, "CONC-RESULT ") {
			res := &concResult{}
			if jerr := json.Unmarshal([]byte(strings.TrimPrefix(l, "CONC-RESULT ")), res); jerr == nil {
				return res, out.String(), nil
			}
		}
	}
	if err == nil {
		err = fmt.Errorf("no result line")
	}
	return nil, out.String() + errb.String(), err
}

func (concProp) Classify(c corr.Case, out []string) string { return c.Tag }

func (concProp) Extra(rng *rand.Rand, tier string) corr.ExtraResult {
	concStats.Lock()
	defer concStats.Unlock()
	res := corr.ExtraResult{Notes: map[string]any{}}
	res.Evaluations = concStats.steps
	for _, v := range concStats.requests {
		res.Evaluations += v
	}
	res.Notes["scenarios"] = concStats.runs
	res.Notes["writer_steps"] = concStats.steps
	res.Notes["blocks_added"] = concStats.adds
	res.Notes["blocks_removed"] = concStats.deletes
	res.Notes["delete_runs_emptying_the_cache"] = concStats.deep
	res.Notes["requests_answered_while_the_chain_moved"] = concStats.requests
	return res
}

// ---------------------------------------------------------------------------------------------
// child side

type concReq struct {
	name string
	desc string // request bytes / params for the report
	run  func(rd *concReader)
}

type concReader struct {
	idx   int
	w     *world
	peers []p2p.PeerID
	addrs []ma.Multiaddr
	next  int
	cur   atomic.Int64 // index of the request being served (-1 none)
	count atomic.Int64
	seq   int
}

func (rd *concReader) peer() (p2p.PeerID, ma.Multiaddr) {
	i := rd.next % len(rd.peers)
	rd.next++
	return rd.peers[i], rd.addrs[i]
}

func concOut(res *concResult) {
	b, _ := json.Marshal(res)
	fmt.Println("CONC-RESULT " + string(b))
}

func runConcChild(specText string) int {
	t0 := time.Now()
	sp, ok := parseConcSpec(specText)
	if !ok {
		concOut(&concResult{Result: "setup-error", Error: "bad scenario " + specText})
		return 3
	}
	res := &concResult{Result: "ok", Requests: map[string]int{}}
	// a runaway allocation of the code under test (observed: 32 GiB in GetBlocksBetweenHeight) must end THIS process
	// with "out of memory", not the machine
	_ = syscall.Setrlimit(syscall.RLIMIT_AS, &syscall.Rlimit{Cur: concAddressSpace, Max: concAddressSpace})
	setupErr := func(format string, a ...any) int {
		res.Result, res.Error = "setup-error", fmt.Sprintf(format, a...)
		concOut(res)
		return 3
	}
	w, err := newWorldCfg(sp.Seed, func(c *node.Config) { c.MaxBlockCache = sp.Cache })
	if err != nil {
		return setupErr("world: %v", err)
	}
	n := w.n
	base := n.Height()
	// the blocks the writer removes and re-applies: more than the cache holds
	k := sp.Cache + 3
	ext, err := n.Extend(k)
	if err != nil {
		return setupErr("extend: %v", err)
	}
	n.ABI.LogCalls = false
	reqs, err := concRequests(w, base, ext, sp.Mix)
	if err != nil {
		return setupErr("requests: %v", err)
	}
	readers := make([]*concReader, sp.Readers)
	for i := range readers {
		rd := &concReader{idx: i, w: w}
		for j := 0; j < 12; j++ {
			p := peerPool[(i*12+j)%60]
			addr := ma.StringCast(fmt.Sprintf("/ip4/10.9.%d.%d/tcp/4001", 1+i, 1+j))
			w.vn.AddConn(p, addr)
			rd.peers, rd.addrs = append(rd.peers, p), append(rd.addrs, addr)
		}
		rd.cur.Store(-1)
		readers[i] = rd
	}
	// the bulk range lookup behind getBlocksFromId / GetLastNBlocks on the bounds a handler computes when the tip moved
	// below the requested block between its two reads (from = h+1 > to = tip): empty, in bounded time and memory
	for _, r := range [][2]uint32{{base + 1, base}, {base + 2, base}, {base + 2, base - 1}, {base + 104, base}, {1, 0}, {^uint32(0), 0}} {
		var blocks []*blockchain.Block
		var rerr error
		fmt.Printf("CONC-PHASE DataAccess.GetBlocksBetweenHeight(%d, %d) on the quiet chain (tip %d)\n", r[0], r[1], n.Height())
		pv, site := concGuard(func() { blocks, rerr = n.Chain.DataAccess().GetBlocksBetweenHeight(r[0], r[1]) }, 20*time.Second)
		switch {
		case pv == "timeout":
			res.Result, res.Spinning, res.Culprit = "hang", true, "blockchain.(*DataAccess).GetBlocksBetweenHeight"
			res.Stuck = []string{fmt.Sprintf("DataAccess.GetBlocksBetweenHeight(%d, %d) on the quiet chain", r[0], r[1])}
			res.Writer = "not started"
			concOut(res)
			return 5
		case pv != "":
			res.Panics = append(res.Panics, concPanic{Who: "range-below-from", Value: pv, Site: site, Req: fmt.Sprintf("DataAccess.GetBlocksBetweenHeight(%d, %d)", r[0], r[1])})
		case rerr == nil && len(blocks) != 0:
			return setupErr("GetBlocksBetweenHeight(%d, %d) returned %d blocks for an empty range", r[0], r[1], len(blocks))
		}
	}
	// quiet chain: every request is answered
	fmt.Println("CONC-PHASE every request once on the quiet chain")
	for qi, q := range reqs {
		if pv, site := concGuard(func() { q.run(readers[0]) }, 20*time.Second); pv != "" {
			return setupErr("request %s on the quiet chain: %s at %s (%s)", q.name, pv, site, clip(reqs[qi].desc))
		}
	}

	var (
		wStep     atomic.Int64
		wDone     atomic.Bool
		wDescMu   sync.Mutex
		wDesc     = "not started"
		panicsMu  sync.Mutex
		wg        sync.WaitGroup
		reqCounts = make([]map[string]int, sp.Readers)
	)
	recordPanic := func(who string, r any, req string) {
		panicsMu.Lock()
		if len(res.Panics) < 8 {
			res.Panics = append(res.Panics, concPanic{Who: who, Value: fmt.Sprint(r), Site: panicSite(string(debug.Stack())), Req: req})
		}
		panicsMu.Unlock()
	}
	fmt.Println("CONC-PHASE writer and readers running")
	// writer
	wg.Add(1)
	go func() {
		defer wg.Done()
		defer wDone.Store(true)
		defer func() {
			if r := recover(); r != nil {
				recordPanic("writer", r, wDesc)
			}
		}()
		rng := rand.New(rand.NewSource(sp.Sched))
		depth, target, run := k, k, 0
		for s := 0; s < sp.Steps; s++ {
			if depth == target {
				switch rng.Intn(4) {
				case 0:
					target = 0 // removes more blocks in a row than the cache holds: refill inside RemoveBlock
				case 1:
					target = k
				default:
					target = rng.Intn(k + 1)
				}
				run = 0
				if depth == target {
					target = (target + 1 + rng.Intn(k)) % (k + 1)
				}
			}
			if depth > target {
				wDescMu.Lock()
				wDesc = fmt.Sprintf("step %d: deleteBlock of the tip at height %d (cache capacity %d, %d removals in a row)", s, base+uint32(depth), sp.Cache, run+1)
				wDescMu.Unlock()
				if err := n.DeleteTip(rng.Intn(3) == 0); err != nil {
					res.WErrors++
					target = depth
				} else {
					depth--
					res.Deletes++
					if run++; run == sp.Cache {
						res.Refills++
					}
				}
			} else {
				wDescMu.Lock()
				wDesc = fmt.Sprintf("step %d: process of the block at height %d (cache capacity %d)", s, base+uint32(depth)+1, sp.Cache)
				wDescMu.Unlock()
				r := n.ProcessResult(ext[depth])
				if r.Err != nil || !r.Applied {
					res.WErrors++
					target = depth
				} else {
					depth++
					res.Adds++
				}
			}
			res.Steps = s + 1
			wStep.Add(1)
		}
	}()
	// readers
	for i, rd := range readers {
		wg.Add(1)
		reqCounts[i] = map[string]int{}
		go func(i int, rd *concReader) {
			defer wg.Done()
			rng := rand.New(rand.NewSource(sp.Sched*31 + int64(i)))
			for j := 0; !wDone.Load() || j < 20; j++ {
				qi := rng.Intn(len(reqs))
				rd.cur.Store(int64(qi))
				func() {
					defer func() {
						if r := recover(); r != nil {
							recordPanic(reqs[qi].name, r, reqs[qi].desc)
						}
					}()
					reqs[qi].run(rd)
				}()
				rd.cur.Store(-1)
				rd.count.Add(1)
				reqCounts[i][reqs[qi].name]++
				if j > 200000 {
					break
				}
			}
		}(i, rd)
	}
	// progress watchdog
	finished := make(chan struct{})
	go func() { wg.Wait(); close(finished) }()
	progress := func() int64 {
		p := wStep.Load()
		for _, rd := range readers {
			p += rd.count.Load()
		}
		return p
	}
	last, lastChange := progress(), time.Now()
	stall := time.Duration(sp.StallMs) * time.Millisecond
	hung := false
watch:
	for {
		select {
		case <-finished:
			break watch
		case <-time.After(50 * time.Millisecond):
			if p := progress(); p != last {
				last, lastChange = p, time.Now()
			} else if time.Since(lastChange) > stall {
				hung = true
				break watch
			}
		}
	}
	res.WallMs = time.Since(t0).Milliseconds()
	if hung {
		res.Result = "hang"
		for _, rd := range readers {
			if qi := rd.cur.Load(); qi >= 0 {
				res.Stuck = append(res.Stuck, fmt.Sprintf("reader %d, its request no. %d: %s %s", rd.idx, rd.count.Load()+1, reqs[qi].name, clipN(reqs[qi].desc, 200)))
			}
		}
		wDescMu.Lock()
		res.Writer = wDesc
		wDescMu.Unlock()
		if wDone.Load() {
			res.Writer = "finished its schedule"
		}
		res.Blocked, res.Culprit, res.Spinning = blockedGoroutines()
		res.Steps = int(wStep.Load())
		concOut(res)
		return 5
	}
	for i := range reqCounts {
		for kname, v := range reqCounts[i] {
			res.Requests[kname] += v
		}
	}
	// afterwards: every request is still answered
	for _, q := range reqs {
		if pv, site := concGuard(func() { q.run(readers[0]) }, 10*time.Second); pv != "" {
			if pv == "timeout" {
				res.Result = "hang"
				res.Stuck = append(res.Stuck, "after the run: "+q.name+" "+clipN(q.desc, 200))
				res.Writer = "finished its schedule"
				res.Blocked, res.Culprit, res.Spinning = blockedGoroutines()
				concOut(res)
				return 5
			}
			res.Panics = append(res.Panics, concPanic{Who: q.name, Value: pv, Site: site, Req: q.desc})
		}
	}
	concOut(res)
	return 0
}

func clipN(s string, n int) string {
	if len(s) > n {
		return s[:n] + "…"
	}
	return s
}

// concGuard runs f in a goroutine under recover with a timeout: ("", "") ok, ("timeout", "") no answer.
func concGuard(f func(), d time.Duration) (string, string) {
	type r struct{ pv, site string }
	ch := make(chan r, 1)
	go func() {
		defer func() {
			if x := recover(); x != nil {
				ch <- r{fmt.Sprint(x), panicSite(string(debug.Stack()))}
			}
		}()
		f()
		ch <- r{}
	}()
	select {
	case x := <-ch:
		return x.pv, x.site
	case <-time.After(d):
		return "timeout", ""
	}
}

// blockedGoroutines summarises the goroutine dump: which lisk-engine functions the goroutines that wait for a lock, a
// WaitGroup or a channel are in. The culprit is the function that waits for its workers (WaitGroup) — the holder of
// what the others queue behind — if there is one, otherwise the most frequent waiting place.
func blockedGoroutines() ([]string, string, bool) {
	buf := make([]byte, 8<<20)
	buf = buf[:runtime.Stack(buf, true)]
	counts := map[string]int{}
	culprit, spinning := "", false
	for _, g := range strings.Split(string(buf), "\n\n") {
		lines := strings.Split(g, "\n")
		if len(lines) < 2 || !strings.HasPrefix(lines[0], "goroutine ") {
			continue
		}
		state := ""
		if a, b := strings.Index(lines[0], "["), strings.LastIndex(lines[0], "]"); a >= 0 && b > a {
			state = strings.SplitN(lines[0][a+1:b], ",", 2)[0]
		}
		waiting := false
		for _, s := range []string{"sync.", "semacquire", "chan ", "select", "running", "runnable"} {
			if strings.Contains(state, s) {
				waiting = true
			}
		}
		if !waiting {
			continue
		}
		fn := ""
		for _, l := range lines[1:] {
			if strings.HasPrefix(l, "\t") || strings.HasPrefix(l, "created by") {
				continue
			}
			if strings.Contains(l, "github.com/LiskHQ/lisk-engine/pkg/") && !strings.Contains(l, "Verif") {
				fn = strings.TrimPrefix(l, "github.com/LiskHQ/lisk-engine/pkg/")
				if j := strings.LastIndex(fn, "("); j > 0 {
					fn = fn[:j]
				}
				break
			}
		}
		if fn == "" {
			continue
		}
		counts[state+" in "+fn]++
		// the culprit: a goroutine that keeps running inside the engine (a loop / allocation that does not end), else the
		// one waiting for its workers
		if state == "running" || state == "runnable" {
			culprit, spinning = fn, true
		} else if (strings.Contains(state, "WaitGroup") || state == "semacquire") && culprit == "" {
			culprit = fn
		}
	}
	var keys []string
	for k2 := range counts {
		keys = append(keys, k2)
	}
	sort.Slice(keys, func(i, j int) bool {
		if counts[keys[i]] != counts[keys[j]] {
			return counts[keys[i]] > counts[keys[j]]
		}
		return keys[i] < keys[j]
	})
	var res []string
	for _, k2 := range keys {
		res = append(res, fmt.Sprintf("%d x %s", counts[k2], k2))
	}
	if culprit == "" && len(keys) > 0 {
		culprit = keys[0][strings.Index(keys[0], " in ")+4:]
	}
	if len(res) > 12 {
		res = res[:12]
	}
	return res, culprit, spinning
}

// concRequests: the valid requests of a world whose chain has `base` stable blocks and the blocks `ext` on top that
// the writer removes and re-applies.
func concRequests(w *world, base uint32, ext []*blockchain.Block, mix string) ([]concReq, error) {
	n := w.n
	var reqs []concReq
	has := func(f string) bool { return strings.Contains(","+mix+",", ","+f+",") }
	idAt := func(h uint32) ([]byte, error) {
		hd, err := n.HeaderAt(h)
		if err != nil {
			return nil, err
		}
		return hd.ID, nil
	}
	var stable [][]byte
	for _, h := range []uint32{0, 1, base / 2, base - 1, base} {
		id, err := idAt(h)
		if err != nil {
			return nil, err
		}
		stable = append(stable, id)
	}
	if has("req") {
		addReq := func(name, proc string, payload []byte) {
			reqs = append(reqs, concReq{name: "req:" + name, desc: "procedure " + proc + " payload " + corr.Hex(payload), run: func(rd *concReader) {
				p, addr := rd.peer()
				rd.w.vn.OnRequest(p, addr, p2p.VerifEncodeRequest(p, proc, payload))
			}})
		}
		addReq("getLastBlock", syncer.RPCEndpointGetLastBlock, nil)
		addReq("getTransactions", txpool.RPCEndpointGetTransactions, nil)
		addReq("getHighestCommonBlock", syncer.RPCEndpointGetHighestCommonBlock,
			(&syncer.GetHighestCommonBlockRequest{IDs: [][]byte{ext[len(ext)-1].Header.ID, ext[0].Header.ID, stable[4], stable[2], h32("unknown", 1)}}).Encode())
		// the blocks above a stable block: the range ends in the part of the chain that moves
		for i, id := range stable {
			addReq(fmt.Sprintf("getBlocksFromId@%d", []uint32{0, 1, base / 2, base - 1, base}[i]), syncer.RPCEndpointGetBlocksFromID, (&syncer.GetBlocksFromIDRequest{ID: id}).Encode())
		}
		addReq("getBlocksFromId@moving", syncer.RPCEndpointGetBlocksFromID, (&syncer.GetBlocksFromIDRequest{ID: ext[len(ext)/2].Header.ID}).Encode())
	}
	if has("ep") {
		addEp := func(name string, params []byte) {
			h, ok := w.eps[name]
			if !ok {
				return
			}
			reqs = append(reqs, concReq{name: "ep:" + name, desc: name + " " + string(params), run: func(rd *concReader) {
				rw := rpc.NewEndpointResponseWriter()
				h(rw, router.NewEndpointRequest(context.Background(), node.NopLogger(), params))
				_ = rw.Result()
			}})
		}
		var txID []byte
		for h := base; h > 0 && txID == nil; h-- {
			if b, err := n.BlockAt(h); err == nil && len(b.Transactions) > 0 {
				txID = b.Transactions[0].ID
			}
		}
		addEp("chain_getLastBlock", []byte(`{}`))
		addEp("chain_getGetBlockByID", mustJSON(map[string]any{"id": codec.Hex(stable[2])}))
		addEp("chain_getGetBlockByID", mustJSON(map[string]any{"id": codec.Hex(ext[len(ext)-1].Header.ID)}))
		addEp("chain_getBlockByHeight", mustJSON(map[string]any{"height": base / 2}))
		addEp("chain_getBlockByHeight", mustJSON(map[string]any{"height": base + uint32(len(ext))}))
		addEp("chain_getBlockByHeight", mustJSON(map[string]any{"height": base + 1}))
		if txID != nil {
			addEp("chain_getTransactionByID", mustJSON(map[string]any{"id": codec.Hex(txID)}))
		}
		addEp("system_getNodeInfo", []byte(`{}`))
		addEp("network_getConnectedPeers", []byte(`{}`))
		addEp("txpool_getTransactionsFromPool", []byte(`{}`))
		addEp("generator_getStatus", []byte(`{}`))
		addEp("generator_getAllKeys", []byte(`{}`))
		addEp("generator_estimateSafeStatus", []byte(`{"timeShutdown":0}`))
		addEp("generator_hasKeys", mustJSON(map[string]any{"address": codec.Lisk32(n.Validators[0].Address)}))
	}
	if has("gossip") {
		addGossip := func(name, topic string, payload []byte) {
			raw := p2p.VerifC09EncodeMessage(payload)
			reqs = append(reqs, concReq{name: "gossip:" + name, desc: "topic " + topic + " message " + corr.Hex(raw), run: func(rd *concReader) {
				p, _ := rd.peer()
				_, handled := p2p.VerifC09Gossip(context.Background(), rd.w.n.Conn, topic, p, raw)
				if handled {
					// what the handler queued for the consensus loop is dropped (the writer plays that loop)
					for {
						if _, _, ok := rd.w.n.Exec.VerifC09TakeQueued(); !ok {
							break
						}
					}
				}
			}})
		}
		old, err := n.BlockAt(base / 2)
		if err != nil {
			return nil, err
		}
		addGossip("block-old", consensus.P2PEventPostBlock, old.Encode())
		addGossip("block-moving", consensus.P2PEventPostBlock, ext[len(ext)-1].Encode())
		tx := n.NewTransaction(n.Validators[2], 100, 5000, []byte{node.TxOK, node.TxOK, 7})
		addGossip("transaction", txpool.RPCEventPostTransactionAnnouncement, tx.Encode())
		c1 := n.SingleCommit(n.Validators[0], base)
		c2 := n.SingleCommit(n.Validators[1], base-1)
		addGossip("single-commits", consensus.P2PEventPostSingleCommits, consensus.VerifEncodeSingleCommits([]*certificate.SingleCommit{c1, c2}))
	}
	if len(reqs) == 0 {
		return nil, fmt.Errorf("empty request mix %q", mix)
	}
	return reqs, nil
}
