package c09

import (
	"fmt"
	"runtime/debug"
	"runtime/metrics"
	"strings"
	"sync"
	"time"
)

// outcome of one guarded call of an entry point.
type outcome struct {
	verdict string // what the entry point returned (small vocabulary), "" if it did not return
	panicV  string // recovered panic value ("" = none)
	stack   string
	hang    bool
	alloc   uint64 // bytes allocated on the heap while the call ran (whole process, see allocBytes)
	dur     time.Duration
}

var allocSample = []metrics.Sample{{Name: "/gc/heap/allocs:bytes"}}
var allocMu sync.Mutex

// allocBytes: cumulative heap allocation of the process (cheap, no stop-the-world).
func allocBytes() uint64 {
	allocMu.Lock()
	defer allocMu.Unlock()
	metrics.Read(allocSample)
	return allocSample[0].Value.Uint64()
}

// guarded runs f under recover, a wall-clock watchdog and the allocation counter. f runs in its own
// goroutine (as the node runs validators and handlers); when the watchdog fires the goroutine is
// abandoned.
func guarded(timeout time.Duration, f func() string) outcome {
	type res struct {
		v, p, st string
	}
	ch := make(chan res, 1)
	a0 := allocBytes()
	t0 := time.Now()
	go func() {
		defer func() {
			if r := recover(); r != nil {
				ch <- res{p: fmt.Sprint(r), st: string(debug.Stack())}
			}
		}()
		ch <- res{v: f()}
	}()
	timer := time.NewTimer(timeout)
	defer timer.Stop()
	select {
	case r := <-ch:
		return outcome{verdict: r.v, panicV: r.p, stack: r.st, alloc: allocBytes() - a0, dur: time.Since(t0)}
	case <-timer.C:
		return outcome{hang: true, alloc: allocBytes() - a0, dur: time.Since(t0)}
	}
}

// panicSite extracts the innermost lisk-engine frame of a recovered panic.
func panicSite(stack string) string {
	lines := strings.Split(stack, "\n")
	seenPanic := false
	for _, l := range lines {
		if strings.HasPrefix(l, "panic(") {
			seenPanic = true
			continue
		}
		if seenPanic && strings.Contains(l, "github.com/LiskHQ/lisk-engine/") && !strings.HasPrefix(l, "\t") {
			l = strings.TrimPrefix(l, "github.com/LiskHQ/lisk-engine/")
			if i := strings.LastIndex(l, "("); i > 0 {
				l = l[:i]
			}
			return l
		}
	}
	return "?"
}
