package c09

import (
	"bytes"
	"encoding/json"
	"fmt"
	"math/rand"
	"strconv"

	"github.com/LiskHQ/lisk-engine/pkg/codec"
	syncer "github.com/LiskHQ/lisk-engine/pkg/consensus/sync"
	"github.com/LiskHQ/lisk-engine/pkg/p2p"
	"github.com/LiskHQ/lisk-engine/pkg/txpool"

	"verifharness/corr"
)

func encodeEnvelope(payload []byte) []byte { return p2p.VerifC09EncodeMessage(payload) }

// statelessLine recomputes the output line of a model-compared op without touching the node.
func statelessLine(kind string, data []byte) string {
	payload := data
	if kind[0] == 'g' {
		m := p2p.NewMessage(nil)
		if err := m.Decode(data); err != nil {
			return "reject"
		}
		payload = m.Data
		kind = kind[1:]
	}
	switch kind {
	case "blk":
		return blockPrefix(payload)
	case "tx":
		return txPrefix(payload)
	case "sc":
		return commitsPrefix(payload)
	case "req":
		return requestLine(data)
	case "resp":
		return responseLine(data)
	}
	return "bad-op"
}

// requestLine: what MessageProtocol.onRequest and the registered handlers do with a request, as far
// as the remote peer can observe it ("ban" = disconnected and banned, "serve" = handler answered).
func requestLine(raw []byte) string {
	r := &p2p.Request{}
	if err := r.Decode(raw); err != nil {
		return "ban"
	}
	switch r.Procedure {
	case syncer.RPCEndpointGetLastBlock, txpool.RPCEndpointGetTransactions:
		return "serve"
	case syncer.RPCEndpointGetHighestCommonBlock:
		req := &syncer.GetHighestCommonBlockRequest{}
		if err := req.Decode(r.Data); err != nil || len(req.IDs) == 0 {
			return "ban"
		}
		for _, id := range req.IDs {
			if len(id) != 32 {
				return "ban"
			}
		}
		return "serve"
	case syncer.RPCEndpointGetBlocksFromID:
		req := &syncer.GetBlocksFromIDRequest{}
		if err := req.Decode(r.Data); err != nil || len(req.ID) != 32 {
			return "ban"
		}
		return "serve"
	}
	return "ban"
}

func responseLine(raw []byte) string {
	mk, ok := codec.VerifRegistry["p2p.responseMsg"]
	if !ok {
		return "unregistered"
	}
	v := mk()
	if err := v.Decode(raw); err != nil {
		return "ban"
	}
	t := parse("p2p.responseMsg", v.Encode(), "", 0)
	proc := ""
	if t != nil {
		for _, f := range t.fields {
			if f.num == 2 && f.wt == 2 {
				proc = string(f.pay)
			}
		}
	}
	if knownProcedures[proc] {
		return "ok"
	}
	return "ban"
}

// ---------------------------------------------------------------------------------------------
// generators of the model-free ops

func hexList(l [][]byte) string { return encList(l) }

func cloneList(l [][]byte) [][]byte {
	r := make([][]byte, len(l))
	for i, b := range l {
		r[i] = append([]byte{}, b...)
	}
	return r
}

// byteVariants: wrong-length / invalid variants of a key, signature, hash or bitmap
func byteVariants(b []byte) [][]byte {
	v := [][]byte{nil, {0}, {0xff}}
	if len(b) > 0 {
		v = append(v, b[:len(b)-1], append(append([]byte{}, b...), 0), append(append([]byte{}, b...), b...), b[:len(b)/2],
			make([]byte, len(b)), bytes.Repeat([]byte{0xff}, len(b)))
		inf := make([]byte, len(b))
		inf[0] = 0xc0
		f := append([]byte{}, b...)
		f[0] ^= 0x20 // compression / sort flag bits of a point
		g := append([]byte{}, b...)
		g[len(g)-1] ^= 1
		notOnCurve := append([]byte{}, b...)
		notOnCurve[len(b)/2] ^= 0x55
		v = append(v, inf, f, g, notOnCurve)
	}
	return v
}

func listVariants(l [][]byte) [][][]byte {
	v := [][][]byte{{}, cloneList(l)}
	if len(l) > 0 {
		v = append(v, cloneList(l[:len(l)-1]), append(cloneList(l), l[0]), append(cloneList(l), []byte{}))
		for _, bv := range byteVariants(l[0]) {
			m := cloneList(l)
			m[0] = bv
			v = append(v, m)
			m2 := cloneList(l)
			m2[len(l)-1] = bv
			v = append(v, m2)
		}
		rev := cloneList(l)
		for i, j := 0, len(rev)-1; i < j; i, j = i+1, j-1 {
			rev[i], rev[j] = rev[j], rev[i]
		}
		v = append(v, rev)
	}
	return v
}

func xops(group string, t *templates, rng *rand.Rand, lim, nrand int) []string {
	var ops []string
	add := func(format string, a ...any) { ops = append(ops, "x "+fmt.Sprintf(format, a...)) }
	switch group {
	case "agg":
		src := t.aggregate
		if len(src) == 0 {
			src = append([]byte{0x08, byte(t.aggHeight), 0x12, 0x01, 0x0f, 0x1a, 0x60}, make([]byte, 96)...)
		}
		for _, m := range mutantsOf(rng, "blockchain.AggregateCommit", src, "", lim, nrand) {
			add("agg %s", corr.Hex(m.data))
		}
		// every height with short / long / empty bitmaps and wrong-length signatures
		pt := parse("blockchain.AggregateCommit", src, "", 0)
		if pt != nil {
			for h := 0; h <= worldHeight+2; h++ {
				for _, bits := range [][]byte{nil, {0x0f}, {0x01}, {0xff}, {0x0f, 0x00}, {0xff, 0xff, 0xff}, bytes.Repeat([]byte{0xff}, 40)} {
					for _, sig := range [][]byte{nil, t.blsSig, t.blsOneSig, make([]byte, 96), {1, 2, 3}} {
						ac := []byte{0x08, byte(h)}
						if len(bits) > 0 {
							ac = append(append(ac, 0x12, byte(len(bits))), bits...)
						}
						if len(sig) > 0 {
							ac = append(append(ac, 0x1a, byte(len(sig))), sig...)
						}
						add("agg %s", corr.Hex(ac))
					}
				}
			}
		}
	case "vblock":
		for _, m := range mutantsOf(rng, "blockchain.RawBlock", t.nextBlock, "", lim, nrand/2) {
			add("vblock %s", corr.Hex(m.data))
		}
	case "constructors":
		for _, m := range mutantsOf(rng, "blockchain.RawBlock", t.nextBlock, "", lim/2, nrand/2) {
			add("newblock %s", corr.Hex(m.data))
		}
		for _, m := range mutantsOf(rng, "blockchain.BlockHeader", t.header, "", lim, nrand/2) {
			add("newheader %s", corr.Hex(m.data))
		}
		for _, m := range mutantsOf(rng, "blockchain.Transaction", t.tx, "", lim/2, nrand/2) {
			add("newtx %s", corr.Hex(m.data))
		}
		for _, m := range mutantsOf(rng, "blockchain.BlockAsset", t.asset, "", lim/2, nrand/2) {
			add("newasset %s", corr.Hex(m.data))
		}
		for _, d := range []int{10, 1000, 20000} {
			add("newblock %s", corr.Hex(deepNesting(1, d, []byte{0x08, 0x01})))
			add("newheader %s", corr.Hex(deepNesting(14, d, []byte{0x08, 0x01})))
			add("codec blockchain.Block %s", corr.Hex(deepNesting(1, d, []byte{0x08, 0x01})))
			add("codec sync.GetBlocksFromIDResponse %s", corr.Hex(deepNesting(1, d, []byte{0x08, 0x01})))
		}
	case "proofs":
		root, keys := t.smtRoot, t.smtKeys
		add("smtv %s %s 32 %s", corr.Hex(t.smtProof), corr.Hex(root), hexList(keys))
		for _, m := range mutantsOf(rng, "smt.Proof", t.smtProof, "", lim*2, nrand) {
			add("smtv %s %s 32 %s", corr.Hex(m.data), corr.Hex(root), hexList(keys))
		}
		for _, kv := range listVariants(keys) {
			add("smtv %s %s 32 %s", corr.Hex(t.smtProof), corr.Hex(root), hexList(kv))
		}
		for _, kl := range []int{0, 1, 31, 33, 64, -1} {
			add("smtv %s %s %d %s", corr.Hex(t.smtProof), corr.Hex(root), kl, hexList(keys))
		}
		for _, rv := range byteVariants(root) {
			add("smtv %s %s 32 %s", corr.Hex(t.smtProof), corr.Hex(rv), hexList(keys))
		}
		// bitmaps longer than the key, on a query whose key equals the queried key
		if pt := parse("smt.Proof", t.smtProof, "", 0); pt != nil {
			for _, n := range []int{32, 33, 64, 300} {
				c := pt.clone()
				for _, r := range c.allFields() {
					f := r.node.fields[r.idx]
					if r.node.schema == "smt.QueryProof" && f.num == 3 {
						f.pay = append([]byte{0x80}, make([]byte, n)...)
						break // only the first query (its key equals the queried key)
					}
				}
				add("smtv %s %s 32 %s", corr.Hex(c.ser()), corr.Hex(root), hexList(keys))
			}
		}
		add("rmtv %s %s %s", corr.Hex(t.rmtProof), corr.Hex(t.rmtRoot), hexList(t.rmtQuery))
		for _, m := range mutantsOf(rng, "rmt.Proof", t.rmtProof, "", lim*2, nrand) {
			add("rmtv %s %s %s", corr.Hex(m.data), corr.Hex(t.rmtRoot), hexList(t.rmtQuery))
			add("rmtu %s %s", corr.Hex(m.data), hexList(t.rmtQuery))
		}
		for _, qv := range listVariants(t.rmtQuery) {
			add("rmtv %s %s %s", corr.Hex(t.rmtProof), corr.Hex(t.rmtRoot), hexList(qv))
			add("rmtu %s %s", corr.Hex(t.rmtProof), hexList(qv))
		}
		// sizes and indexes around the integer limits
		for _, size := range []uint64{0, 1, 2, 3, 1 << 31, 1 << 32, 1<<53 + 1, 1 << 62, 1 << 63, ^uint64(0)} {
			for _, idx := range []uint64{0, 1, 2, 3, 4, 1 << 31, 1 << 32, 1 << 63, ^uint64(0)} {
				p := append([]byte{0x08}, uvarint(size)...)
				ip := append(uvarint(idx), uvarint(idx|1)...)
				p = append(append(append(p, 0x12), uvarint(uint64(len(ip)))...), ip...)
				p = append(append(p, 0x1a, 0x20), t.rmtQuery[0]...)
				add("rmtv %s %s %s", corr.Hex(p), corr.Hex(t.rmtRoot), hexList(t.rmtQuery[:2]))
				add("rmtu %s %s", corr.Hex(p), hexList(t.rmtQuery[:2]))
			}
		}
		add("rmtw %d %s %s %s", t.rmtWitIdx, hexList(t.rmtAppend), hexList(t.rmtWitness), corr.Hex(t.rmtRoot))
		for _, idx := range []uint64{0, 1, 2, t.rmtWitIdx, t.rmtWitIdx + 1, 1 << 20, 1 << 63, ^uint64(0)} {
			for _, ap := range listVariants(t.rmtAppend) {
				add("rmtw %d %s %s %s", idx, hexList(ap), hexList(t.rmtWitness), corr.Hex(t.rmtRoot))
			}
			for _, wv := range listVariants(t.rmtWitness) {
				add("rmtw %d %s %s %s", idx, hexList(t.rmtAppend), hexList(wv), corr.Hex(t.rmtRoot))
			}
			long := [][]byte{}
			for i := 0; i < 70; i++ {
				long = append(long, t.rmtRoot)
			}
			add("rmtw %d %s %s %s", idx, hexList(long), hexList(t.rmtWitness), corr.Hex(t.rmtRoot))
			add("rmtw %d %s %s %s", idx, hexList(t.rmtAppend), hexList(long), corr.Hex(t.rmtRoot))
		}
	case "crypto":
		keys, bits, sig, msg := t.blsKeys, t.blsBits, t.blsSig, t.blsMsg
		if len(keys) == 0 || len(sig) == 0 {
			return nil
		}
		w := make([]uint64, len(keys))
		for i := range w {
			w[i] = 1
		}
		add("blsagg %s %s %s %s", hexList(keys), corr.Hex(bits), corr.Hex(sig), corr.Hex(msg))
		add("blsw %s %s %s %s 3 %s", hexList(keys), corr.Hex(bits), corr.Hex(sig), encU64s(w), corr.Hex(msg))
		bitVariants := append(byteVariants(bits), []byte{0x00}, []byte{0x01}, []byte{0x1f}, []byte{0xff}, []byte{0x0f, 0x00}, []byte{0x0f, 0x01}, bytes.Repeat([]byte{0xff}, 64))
		for _, bv := range bitVariants {
			add("blsagg %s %s %s %s", hexList(keys), corr.Hex(bv), corr.Hex(sig), corr.Hex(msg))
			add("blsw %s %s %s %s 3 %s", hexList(keys), corr.Hex(bv), corr.Hex(sig), encU64s(w), corr.Hex(msg))
			add("blsw %s %s %s %s 0 %s", hexList(keys), corr.Hex(bv), corr.Hex(sig), encU64s(w), corr.Hex(msg))
		}
		for _, sv := range byteVariants(sig) {
			add("blsagg %s %s %s %s", hexList(keys), corr.Hex(bits), corr.Hex(sv), corr.Hex(msg))
			add("blsw %s %s %s %s 3 %s", hexList(keys), corr.Hex(bits), corr.Hex(sv), encU64s(w), corr.Hex(msg))
			add("blsw %s 00 %s %s 0 %s", hexList(keys), corr.Hex(sv), encU64s(w), corr.Hex(msg))
			add("blsv %s %s %s", corr.Hex(msg), corr.Hex(sv), corr.Hex(keys[0]))
			add("pop %s %s", corr.Hex(keys[0]), corr.Hex(sv))
		}
		for _, kv := range listVariants(keys) {
			add("blsagg %s %s %s %s", hexList(kv), corr.Hex(bits), corr.Hex(sig), corr.Hex(msg))
			add("blsw %s %s %s %s 3 %s", hexList(kv), corr.Hex(bits), corr.Hex(sig), encU64s(w), corr.Hex(msg))
			add("blsagg %s ff %s %s", hexList(kv), corr.Hex(sig), corr.Hex(msg))
		}
		for _, wv := range [][]uint64{{}, {1}, {1, 1, 1}, {1, 1, 1, 1, 1}, {^uint64(0), ^uint64(0), 1, 1}} {
			add("blsw %s %s %s %s 3 %s", hexList(keys), corr.Hex(bits), corr.Hex(sig), encU64s(wv), corr.Hex(msg))
		}
		for _, kv := range byteVariants(keys[0]) {
			add("blsv %s %s %s", corr.Hex(msg), corr.Hex(t.blsOneSig), corr.Hex(kv))
			add("pop %s %s", corr.Hex(kv), corr.Hex(t.blsOneSig))
		}
		for _, mv := range [][]byte{nil, {0}, bytes.Repeat([]byte{7}, 5000)} {
			add("blsv %s %s %s", corr.Hex(mv), corr.Hex(t.blsOneSig), corr.Hex(keys[0]))
			add("edv %s %s %s", corr.Hex(t.edPub), corr.Hex(t.edSig), corr.Hex(mv))
		}
		add("edv %s %s %s", corr.Hex(t.edPub), corr.Hex(t.edSig), corr.Hex(t.edMsg))
		for _, pv := range byteVariants(t.edPub) {
			add("edv %s %s %s", corr.Hex(pv), corr.Hex(t.edSig), corr.Hex(t.edMsg))
			add("vbs %s %s %s %s", corr.Hex(pv), corr.Hex(t.edSig), corr.Hex(t.chainID), corr.Hex(t.edMsg))
		}
		for _, sv := range byteVariants(t.edSig) {
			add("edv %s %s %s", corr.Hex(t.edPub), corr.Hex(sv), corr.Hex(t.edMsg))
			add("vbs %s %s %s %s", corr.Hex(t.edPub), corr.Hex(sv), corr.Hex(t.chainID), corr.Hex(t.edMsg))
		}
	case "ep":
		ops = append(ops, endpointOps(t, rng, lim, nrand)...)
	}
	return ops
}

// ---------------------------------------------------------------------------------------------
// JSON RPC endpoint requests

var endpointNames = []string{
	"chain_getLastBlock", "chain_getGetBlockByID", "chain_getBlockByHeight", "chain_getTransactionByID", "chain_postBlock",
	"system_getNodeInfo", "network_getConnectedPeers", "txpool_getTransactionsFromPool", "txpool_postTransaction",
	"generator_updateStatus", "generator_getStatus", "generator_setStatus", "generator_estimateSafeStatus", "generator_getAllKeys",
	"generator_setKeys", "generator_hasKeys",
}

var genericJSON = []string{
	``, `{}`, `null`, `[]`, `""`, `0`, `true`, `{`, `}`, `{"a":`, `[1,2`, `{"id":null}`, `{"id":""}`, `{"id":"zz"}`, `{"id":"0"}`, `{"id":5}`, `{"id":[]}`, `{"id":{}}`,
	`{"height":-1}`, `{"height":"1"}`, `{"height":4294967296}`, `{"height":1e99}`, `{"height":null}`, `{"height":2}`,
	`{"block":null}`, `{"block":{}}`, `{"block":[]}`, `{"block":"x"}`, `{"block":{"header":null}}`, `{"block":{"header":{}}}`,
	`{"block":{"header":{},"transactions":[null]}}`, `{"block":{"header":{},"assets":[null]}}`, `{"block":{"header":{"aggregateCommit":null}}}`,
	`{"transaction":null}`, `{"transaction":{}}`, `{"transaction":[]}`, `{"transaction":{"signatures":[null]}}`, `{"transaction":{"nonce":5}}`, `{"transaction":{"nonce":"x"}}`,
	`{"transaction":{"senderPublicKey":"00"}}`, `{"onlyProcessable":1}`, `{"onlyProcessable":true}`,
	`{"address":null}`, `{"address":""}`, `{"address":"lsk"}`, `{"address":5}`, `{"generatorAddress":"lskzzzzzzzzzzzzzzzzzzzzzzzzzzzzzzzzzzzzzz"}`,
	`{"type":"plain"}`, `{"type":"plain","data":null}`, `{"type":"plain","data":{}}`, `{"type":"plain","data":[]}`, `{"type":"encrypted"}`, `{"type":"encrypted","data":{}}`, `{"type":"x"}`,
	`{"timeShutdown":0}`, `{"timeShutdown":4294967295}`, `{"enable":true}`, `{"enable":true,"height":1}`, `{"password":"x","enable":false}`,
}

func jsonMutants(rng *rand.Rand, valid []byte, n int) [][]byte {
	var res [][]byte
	// structural: remove / null / retype every member at every depth
	var v any
	if err := json.Unmarshal(valid, &v); err != nil {
		return nil
	}
	var paths [][]string
	var walk func(x any, p []string)
	walk = func(x any, p []string) {
		switch t := x.(type) {
		case map[string]any:
			for k, c := range t {
				q := append(append([]string{}, p...), k)
				paths = append(paths, q)
				walk(c, q)
			}
		case []any:
			for i, c := range t {
				q := append(append([]string{}, p...), strconv.Itoa(i))
				paths = append(paths, q)
				walk(c, q)
			}
		}
	}
	walk(v, nil)
	sortPaths(paths)
	repl := []any{nil, "", "zz", 0, -1, 1e30, true, []any{}, map[string]any{}, []any{nil}, "00", "ffffffffffffffffffffffffffffffffffffffffffffffffffffffffffffffffff"}
	for _, p := range paths {
		for _, r := range append([]any{deleteMarker{}}, repl...) {
			var c any
			_ = json.Unmarshal(valid, &c)
			c = setPath(c, p, r)
			if b, err := json.Marshal(c); err == nil {
				res = append(res, b)
			}
		}
	}
	for i := 0; i < n; i++ {
		m := randomMutant(rng, valid)
		res = append(res, m.data)
	}
	for i := 0; i <= len(valid); i += 1 + len(valid)/40 {
		res = append(res, append([]byte{}, valid[:i]...))
	}
	return res
}

type deleteMarker struct{}

func sortPaths(p [][]string) {
	for i := 1; i < len(p); i++ {
		for j := i; j > 0 && fmt.Sprint(p[j]) < fmt.Sprint(p[j-1]); j-- {
			p[j], p[j-1] = p[j-1], p[j]
		}
	}
}

func setPath(x any, p []string, r any) any {
	if len(p) == 0 {
		return r
	}
	switch t := x.(type) {
	case map[string]any:
		if len(p) == 1 {
			if _, del := r.(deleteMarker); del {
				delete(t, p[0])
				return t
			}
		}
		t[p[0]] = setPath(t[p[0]], p[1:], r)
		return t
	case []any:
		i, _ := strconv.Atoi(p[0])
		if i < len(t) {
			if len(p) == 1 {
				if _, del := r.(deleteMarker); del {
					return append(t[:i:i], t[i+1:]...)
				}
			}
			t[i] = setPath(t[i], p[1:], r)
		}
		return t
	}
	return x
}

func endpointOps(t *templates, rng *rand.Rand, lim, nrand int) []string {
	var ops []string
	add := func(name string, js []byte) { ops = append(ops, "x ep "+name+" "+corr.Hex(js)) }
	for _, name := range endpointNames {
		for _, g := range genericJSON {
			add(name, []byte(g))
		}
	}
	for _, id := range t.ids[:2] {
		add("chain_getGetBlockByID", mustJSON(map[string]any{"id": codec.Hex(id)}))
		add("chain_getTransactionByID", mustJSON(map[string]any{"id": codec.Hex(id)}))
	}
	pb := sampleBytes(rng, jsonMutants(rng, t.postBlockJSON, nrand), lim*2)
	for _, m := range pb {
		add("chain_postBlock", m)
	}
	for _, m := range sampleBytes(rng, jsonMutants(rng, t.postTxJSON, nrand), lim) {
		add("txpool_postTransaction", m)
	}
	addr := codec.Lisk32(t.validatorAdr[0])
	plain := mustJSON(map[string]any{"address": addr, "type": "plain", "data": map[string]any{
		"generatorKey": codec.Hex(t.edPub), "generatorPrivateKey": codec.Hex(append(make([]byte, 32), t.edPub...)),
		"blsKey": codec.Hex(t.blsKeys[0]), "blsPrivateKey": codec.Hex(make([]byte, 32))}})
	for _, m := range sampleBytes(rng, jsonMutants(rng, plain, nrand/2), lim) {
		add("generator_setKeys", m)
	}
	add("generator_setKeys", plain)
	for _, js := range []any{
		map[string]any{"address": addr}, map[string]any{"generatorAddress": addr, "enable": true, "password": "x"},
		map[string]any{"generatorAddress": addr, "enable": false}, map[string]any{"address": addr, "height": 3, "maxHeightPrevoted": 1, "maxHeightPreviouslyForged": 2},
		map[string]any{"generatorAddress": addr, "enable": true, "height": 3, "maxHeightPrevoted": 1, "maxHeightGenerated": 2},
	} {
		for _, name := range []string{"generator_hasKeys", "generator_updateStatus", "generator_setStatus"} {
			add(name, mustJSON(js))
		}
	}
	add("generator_getAllKeys", []byte(`{}`))
	add("generator_getStatus", []byte(`{}`))
	return ops
}

func sampleBytes(rng *rand.Rand, l [][]byte, n int) [][]byte {
	if len(l) <= n {
		return l
	}
	idx := rng.Perm(len(l))[:n]
	res := make([][]byte, n)
	for i, j := range idx {
		res[i] = l[j]
	}
	return res
}
