// Package roots is the pseudo-property "ROOTS" (run as part of C03): the derived commitments of a block —
// event encoding / keys / root (pkg/blockchain/event.go), validators hash
// (pkg/consensus/validator/validators_hash.go), transaction root / asset root / IDs / signing bytes and signed
// messages of transactions and headers (pkg/blockchain/block.go, transaction.go), certificate signing bytes and
// message (pkg/consensus/certificate) — computed by the REAL functions and by the Lean model
// LiskVerif.Roots (lean/LiskVerif/Model/Roots.lean, driver lean/Driver/Roots.lean) on the same generated inputs
// and compared byte for byte, plus model-free oracles:
//
//   - event root = root of a FRESH real smt trie filled one key at a time (other order) = the harness's own
//     LIP-0039 recomputation; every key pair carries the event's encoding; keys are 12 bytes;
//   - no two distinct trie maps of a case share an event root; valid event lists (Validate ok, index = position)
//     have pairwise distinct keys and no two distinct ones share a root;
//   - validators hash = the harness's own sort / encode / sha256; invariant under permutations of the input
//     when no BLS key carries two different weights; for such ambiguous inputs the real hash is one of the hashes
//     of the key-sorted arrangements; no two distinct (sorted list, threshold) of a case share a hash;
//   - IDs = sha256 of the bytes NewTransaction / NewBlockHeader accept, which re-encode to themselves; roots =
//     LIP-0031 reference; Block.Validate = reference verdict; the messages actually signed (Ed25519 and BLS
//     signatures are deterministic) = sha256(tag ‖ chainID ‖ signing bytes).
//
// Line protocol: see lean/Driver/Roots.lean.
package roots

import (
	"bytes"
	"crypto/ed25519"
	"crypto/sha256"
	"encoding/binary"
	"encoding/hex"
	"fmt"
	"hash/fnv"
	"math"
	"math/rand"
	"sort"
	"strconv"
	"strings"
	"sync"

	"github.com/LiskHQ/lisk-engine/pkg/blockchain"
	"github.com/LiskHQ/lisk-engine/pkg/codec"
	"github.com/LiskHQ/lisk-engine/pkg/consensus/certificate"
	"github.com/LiskHQ/lisk-engine/pkg/consensus/validator"
	"github.com/LiskHQ/lisk-engine/pkg/crypto"
	"github.com/LiskHQ/lisk-engine/pkg/trie/rmt"
	"github.com/LiskHQ/lisk-engine/pkg/trie/smt"

	"verifharness/corr"
)

type prop struct{}

func init() { corr.Register(prop{}) }

func (prop) ID() string    { return "ROOTS" }
func (prop) Parallel() int { return 8 }

// ---------------------------------------------------------------------------------------------
// keys used to observe the signed messages

var (
	edSeed = bytes.Repeat([]byte{0x42}, 32)
	edPriv = ed25519.NewKeyFromSeed(edSeed)
	edPub  = edPriv.Public().(ed25519.PublicKey)
	blsKP  *crypto.BLSKeyPair
	blsOne sync.Once
)

func blsKeys() *crypto.BLSKeyPair {
	blsOne.Do(func() { blsKP = crypto.BLSKeyGen(bytes.Repeat([]byte{0x37}, 32)) })
	return blsKP
}

// ---------------------------------------------------------------------------------------------
// parsing (mirrors Driver/Roots.lean)

func natArg(s string) (uint64, bool) {
	if s == "" {
		return 0, false
	}
	for _, c := range s {
		if c < '0' || c > '9' {
			return 0, false
		}
	}
	n, err := strconv.ParseUint(s, 10, 64)
	if err != nil {
		return 0, false
	}
	return n, true
}

func u32Arg(s string) (uint32, bool) {
	n, ok := natArg(s)
	if !ok || n > math.MaxUint32 {
		return 0, false
	}
	return uint32(n), true
}

func hexArg(s string) ([]byte, bool) {
	if s == "-" {
		return []byte{}, true
	}
	b, err := hex.DecodeString(s)
	if err != nil {
		return nil, false
	}
	return b, true
}

func listArg(s string) ([][]byte, bool) {
	if s == "_" {
		return [][]byte{}, true
	}
	var res [][]byte
	for _, item := range strings.Split(s, ",") {
		b, ok := hexArg(item)
		if !ok {
			return nil, false
		}
		res = append(res, b)
	}
	return res, true
}

func boolArg(s string) (bool, bool) {
	switch s {
	case "1", "true":
		return true, true
	case "0", "false":
		return false, true
	}
	return false, false
}

type kw struct {
	key    []byte
	weight uint64
}

func parseValidators(s string) ([]kw, bool) {
	if s == "_" {
		return nil, true
	}
	var res []kw
	for _, item := range strings.Split(s, ",") {
		p := strings.Split(item, ":")
		if len(p) != 2 {
			return nil, false
		}
		k, ok := hexArg(p[0])
		if !ok {
			return nil, false
		}
		w, ok := natArg(p[1])
		if !ok {
			return nil, false
		}
		res = append(res, kw{k, w})
	}
	return res, true
}

func parseAC(s string) (*blockchain.AggregateCommit, bool) {
	if s == "_" {
		return nil, true
	}
	p := strings.Split(s, ":")
	if len(p) != 3 {
		return nil, false
	}
	h, ok := u32Arg(p[0])
	if !ok {
		return nil, false
	}
	b, ok := hexArg(p[1])
	if !ok {
		return nil, false
	}
	g, ok := hexArg(p[2])
	if !ok {
		return nil, false
	}
	return &blockchain.AggregateCommit{Height: h, AggregationBits: b, CertificateSignature: g}, true
}

func showList(l [][]byte) string {
	if len(l) == 0 {
		return "_"
	}
	s := make([]string, len(l))
	for i, b := range l {
		s[i] = corr.Hex(b)
	}
	return strings.Join(s, ",")
}

func okErr(err error) string {
	if err == nil {
		return "ok"
	}
	return "err"
}

func okErrB(b bool) string {
	if b {
		return "ok"
	}
	return "err"
}

// ---------------------------------------------------------------------------------------------
// reference implementations (independent of the packages under test)

func sha(parts ...[]byte) []byte {
	h := sha256.New()
	for _, p := range parts {
		h.Write(p)
	}
	return h.Sum(nil)
}

func bitAt(k []byte, i int) bool { return k[i/8]&(0x80>>uint(i%8)) != 0 }

type kv struct{ k, v []byte }

// refSMTRoot is the LIP-0039 root of a set of pairs with distinct keys of keyLen bytes.
func refSMTRoot(es []kv, depth, keyLen int) []byte {
	switch {
	case len(es) == 0:
		return sha()
	case len(es) == 1:
		return sha([]byte{0}, es[0].k, es[0].v)
	case depth == 8*keyLen:
		return sha()
	}
	var l, r []kv
	for _, e := range es {
		if bitAt(e.k, depth) {
			r = append(r, e)
		} else {
			l = append(l, e)
		}
	}
	return sha([]byte{1}, refSMTRoot(l, depth+1, keyLen), refSMTRoot(r, depth+1, keyLen))
}

// refMerkleRoot is the regular Merkle root of LIP-0031.
func refMerkleRoot(data [][]byte) []byte {
	switch len(data) {
	case 0:
		return sha()
	case 1:
		return sha([]byte{0}, data[0])
	}
	k := 1
	for k*2 < len(data) {
		k *= 2
	}
	return sha([]byte{1}, refMerkleRoot(data[:k]), refMerkleRoot(data[k:]))
}

func isAlnum(s string) bool {
	for _, c := range []byte(s) {
		if !(c >= '0' && c <= '9' || c >= 'a' && c <= 'z' || c >= 'A' && c <= 'Z') {
			return false
		}
	}
	return true
}

func refTxStaticValid(tx *blockchain.Transaction) bool {
	if !isAlnum(tx.Module) || !isAlnum(tx.Command) || len(tx.Params) > 14*1024 {
		return false
	}
	if len(tx.SenderPublicKey) != 32 || len(tx.Signatures) == 0 {
		return false
	}
	for _, s := range tx.Signatures {
		if len(s) != 64 {
			return false
		}
	}
	return true
}

func refEventValid(e *blockchain.Event) bool {
	return isAlnum(e.Module) && isAlnum(e.Name) && len(e.Data) <= 1024 && len(e.Topics) >= 1 && len(e.Topics) <= 4
}

// refAssetsValid: modules strictly increasing (sorted and unique).
func refAssetsValid(assets []*blockchain.BlockAsset) bool {
	for i := 1; i < len(assets); i++ {
		if !(assets[i-1].Module < assets[i].Module) {
			return false
		}
	}
	return true
}

// protobuf subset, written by hand
func pbVarint(n uint64) []byte {
	var b []byte
	for n >= 128 {
		b = append(b, byte(n%128)+128)
		n /= 128
	}
	return append(b, byte(n))
}
func pbBytes(fn int, v []byte) []byte {
	return append(append(pbVarint(uint64(fn*8+2)), pbVarint(uint64(len(v)))...), v...)
}
func pbUint(fn int, n uint64) []byte { return append(pbVarint(uint64(fn*8)), pbVarint(n)...) }

// refVHash hashes the validators in the given order.
func refVHash(ordered []kw, thr uint64) []byte {
	var enc []byte
	for _, v := range ordered {
		enc = append(enc, pbBytes(1, append(pbBytes(1, v.key), pbUint(2, v.weight)...))...)
	}
	enc = append(enc, pbUint(2, thr)...)
	return sha(enc)
}

func sortedKW(vals []kw, byWeightToo bool) []kw {
	s := append([]kw{}, vals...)
	sort.SliceStable(s, func(i, j int) bool {
		c := bytes.Compare(s[i].key, s[j].key)
		if c != 0 {
			return c < 0
		}
		return byWeightToo && s[i].weight < s[j].weight
	})
	return s
}

// runsOf splits a key-sorted list into maximal runs of equal keys.
func runsOf(s []kw) [][]kw {
	var runs [][]kw
	for i := 0; i < len(s); {
		j := i
		for j < len(s) && bytes.Equal(s[j].key, s[i].key) {
			j++
		}
		runs = append(runs, s[i:j])
		i = j
	}
	return runs
}

func allSame(r []kw) bool {
	for _, v := range r {
		if v.weight != r[0].weight {
			return false
		}
	}
	return true
}

func permsKW(r []kw) [][]kw {
	if len(r) <= 1 {
		return [][]kw{append([]kw{}, r...)}
	}
	var res [][]kw
	for i := range r {
		rest := append(append([]kw{}, r[:i]...), r[i+1:]...)
		for _, p := range permsKW(rest) {
			res = append(res, append([]kw{r[i]}, p...))
		}
	}
	return res
}

// admissible returns the hashes of every key-sorted arrangement (ascending, distinct); ok=false if there are
// more than 64 arrangements to enumerate (product of the factorials of the runs that have to be permuted).
func admissible(vals []kw, thr uint64) (hashes []string, ambiguous bool, ok bool) {
	runs := runsOf(sortedKW(vals, false))
	bound := 1
	for _, r := range runs {
		if !allSame(r) {
			ambiguous = true
			for k := 2; k <= len(r) && bound <= 64; k++ {
				bound *= k
			}
		}
	}
	if bound > 64 {
		return nil, true, false
	}
	arr := [][]kw{{}}
	for _, r := range runs {
		orders := [][]kw{r}
		if !allSame(r) {
			orders = permsKW(r)
		}
		var next [][]kw
		for _, a := range arr {
			for _, o := range orders {
				next = append(next, append(append([]kw{}, a...), o...))
			}
		}
		arr = next
	}
	set := map[string]bool{}
	for _, a := range arr {
		set[hex.EncodeToString(refVHash(a, thr))] = true
	}
	for h := range set {
		hashes = append(hashes, h)
	}
	sort.Strings(hashes)
	return hashes, ambiguous, true
}

func realVHash(vals []kw, thr uint64) ([]byte, error) {
	hv := make([]validator.HashValidator, len(vals))
	for i, v := range vals {
		hv[i] = validator.NewHashValidator(append([]byte{}, v.key...), v.weight)
	}
	return validator.ComputeValidatorsHash(hv, thr)
}

func canonKW(vals []kw, thr uint64) string {
	var sb strings.Builder
	for _, v := range sortedKW(vals, true) {
		fmt.Fprintf(&sb, "%x:%d,", v.key, v.weight)
	}
	fmt.Fprintf(&sb, "/%d", thr)
	return sb.String()
}

// memDB is a map-backed smt.DBReadWriter (the trie writes from several goroutines).
type memDB struct {
	mu sync.Mutex
	m  map[string][]byte
}

func newMemDB() *memDB { return &memDB{m: map[string][]byte{}} }
func (d *memDB) Get(k []byte) ([]byte, bool) {
	d.mu.Lock()
	defer d.mu.Unlock()
	v, ok := d.m[string(k)]
	return v, ok
}
func (d *memDB) Set(k, v []byte) {
	d.mu.Lock()
	defer d.mu.Unlock()
	d.m[string(k)] = append([]byte{}, v...)
}
func (d *memDB) Del(k []byte) {
	d.mu.Lock()
	defer d.mu.Unlock()
	delete(d.m, string(k))
}

// ---------------------------------------------------------------------------------------------
// runner

type runner struct {
	events []*blockchain.Event
	txs    []*blockchain.Transaction
	assets []*blockchain.BlockAsset
	fails  []corr.Fail
	op     int
	// distinctness of commitments within the case
	rootOfMap  map[string]string // event root -> canonical trie map
	rootOfList map[string]string // event root -> canonical VALID event list
	vhOf       map[string]string // validators hash -> canonical (sorted list, threshold)
	idOf       map[string]string // transaction / header id -> encoding
	idStored   bool              // UpdateID returns 8 bytes: it must store them in Event.ID too
}

func (r *runner) fail(sig, format string, a ...any) {
	r.fails = append(r.fails, corr.Fail{Sig: sig, Detail: fmt.Sprintf(format, a...), Op: r.op})
}

func (r *runner) remember(m map[string]string, sig string, commitment []byte, input string) {
	k := string(commitment)
	if old, ok := m[k]; ok {
		if old != input {
			r.fail(sig, "commitment %x shared by two distinct inputs:\n  %s\n  %s", commitment, clip(old), clip(input))
		}
		return
	}
	m[k] = input
}

func clip(s string) string {
	if len(s) > 600 {
		return s[:600] + "…"
	}
	return s
}

func (r *runner) reset() {
	r.events, r.txs, r.assets = nil, nil, nil
	r.rootOfMap, r.rootOfList = map[string]string{}, map[string]string{}
	r.vhOf, r.idOf = map[string]string{}, map[string]string{}
}

func parseEvent(w []string) (*blockchain.Event, bool) {
	m, ok1 := hexArg(w[0])
	n, ok2 := hexArg(w[1])
	d, ok3 := hexArg(w[2])
	tp, ok4 := listArg(w[3])
	h, ok5 := u32Arg(w[4])
	i, ok6 := u32Arg(w[5])
	if !(ok1 && ok2 && ok3 && ok4 && ok5 && ok6) {
		return nil, false
	}
	topics := make([]codec.Hex, len(tp))
	for j, t := range tp {
		topics[j] = t
	}
	return &blockchain.Event{Module: string(m), Name: string(n), Data: d, Topics: topics, Height: h, Index: i}, true
}

func (r *runner) showEvent(e *blockchain.Event) string {
	enc := e.Encode()
	id := e.UpdateID()
	if (r.idStored || len(e.ID) != 0) && !bytes.Equal(e.ID, id) {
		r.fail("roots-event-id-field", "Event.ID %x differs from the value UpdateID returns %x", []byte(e.ID), id)
	}
	kps := e.KeyPairs()
	keys := make([][]byte, len(kps))
	if len(kps) != len(e.Topics) {
		r.fail("roots-keypairs-count", "%d key pairs for %d topics", len(kps), len(e.Topics))
	}
	for i, kp := range kps {
		keys[i] = kp.Key
		if !bytes.Equal(kp.Value, enc) {
			r.fail("roots-keypair-value", "key pair %d does not carry the event's encoding", i)
		}
		if len(kp.Key) != 12 {
			r.fail("roots-keypair-keylen", "key %x is not 12 bytes", []byte(kp.Key))
		}
		if i < len(e.Topics) {
			want := append(append([]byte{}, sha(e.Topics[i])[:8]...), 0, 0, 0, 0)
			binary.BigEndian.PutUint32(want[8:], e.Index<<2+uint32(i))
			if !bytes.Equal(kp.Key, want) {
				r.fail("roots-keypair-key", "key %d is %x, recomputed %x", i, []byte(kp.Key), want)
			}
		}
	}
	// the encoding is accepted back and re-encodes to itself (ASCII strings only are generated)
	if back, err := blockchain.NewEvent(enc); err != nil {
		r.fail("roots-event-decode", "own encoding rejected: %v", err)
	} else if !bytes.Equal(back.Encode(), enc) {
		r.fail("roots-event-reencode", "decode/encode of the own encoding differs")
	}
	verr := e.Validate()
	if (verr == nil) != refEventValid(e) {
		r.fail("roots-event-validate", "Validate says %v, the rules say %v", verr, refEventValid(e))
	}
	return "enc=" + corr.Hex(enc) + " id=" + corr.Hex(id) + " keys=" + showList(keys) + " valid=" + okErr(verr)
}

func cloneEvents(evs []*blockchain.Event) []*blockchain.Event {
	res := make([]*blockchain.Event, len(evs))
	copy(res, evs)
	return res
}

func (r *runner) eventRoot() string {
	root, err := blockchain.CalculateEventRoot(cloneEvents(r.events))
	if err != nil {
		r.fail("roots-event-root-error", "CalculateEventRoot: %v", err)
		return "root=error"
	}
	var pairs []kv
	for _, e := range r.events {
		for _, kp := range e.KeyPairs() {
			pairs = append(pairs, kv{kp.Key, kp.Value})
		}
	}
	// what the trie holds: the first occurrence of every key
	seen := map[string]bool{}
	var uniq []kv
	for _, p := range pairs {
		if !seen[string(p.k)] {
			seen[string(p.k)] = true
			uniq = append(uniq, p)
		}
	}
	// oracle 1: a fresh real trie filled in the opposite order. (The stored subtree format of pkg/trie/smt assumes
	// 32-byte values, a trie holding encoded events cannot be read back: one key at a time works only on hashed
	// values — done below on the same keys.)
	rk, rv := make([][]byte, len(uniq)), make([][]byte, len(uniq))
	for i, p := range uniq {
		rk[len(uniq)-1-i], rv[len(uniq)-1-i] = p.k, p.v
	}
	if len(uniq) > 0 {
		fresh, e := smt.NewTrie(nil, 12).Update(newMemDB(), rk, rv)
		if e != nil {
			r.fail("roots-fresh-trie-error", "Update: %v", e)
		} else if !bytes.Equal(fresh, root) {
			r.fail("roots-event-root-fresh-trie", "CalculateEventRoot %x, fresh trie filled in the opposite order %x", root, fresh)
		}
		tr, d := smt.NewTrie(nil, 12), newMemDB()
		hashed := make([]kv, len(uniq))
		var one []byte
		for i := range rk {
			hashed[i] = kv{rk[i], sha(rv[i])}
			if one, e = tr.Update(d, [][]byte{rk[i]}, [][]byte{hashed[i].v}); e != nil {
				r.fail("roots-fresh-trie-error", "Update (one key at a time, hashed values): %v", e)
				break
			}
		}
		if e == nil {
			if ref := refSMTRoot(hashed, 0, 12); !bytes.Equal(one, ref) {
				r.fail("roots-event-keys-one-at-a-time", "the event keys with hashed values, one key at a time: %x, reference %x", one, ref)
			}
		}
	}
	// oracle 2: own LIP-0039 recomputation
	if ref := refSMTRoot(uniq, 0, 12); !bytes.Equal(ref, root) {
		r.fail("roots-event-root-reference", "CalculateEventRoot %x, reference %x", root, ref)
	}
	// oracle 3: distinct maps have distinct roots
	sorted := append([]kv{}, uniq...)
	sort.Slice(sorted, func(i, j int) bool { return bytes.Compare(sorted[i].k, sorted[j].k) < 0 })
	var sb strings.Builder
	for _, p := range sorted {
		fmt.Fprintf(&sb, "%x=%x;", p.k, p.v)
	}
	r.remember(r.rootOfMap, "roots-event-root-collision", root, sb.String())
	// oracle 4: valid lists (the bounds Validate and UpdateIndex give) have distinct keys, and the root tells
	// the whole list
	valid := true
	for i, e := range r.events {
		if e.Validate() != nil || e.Index != uint32(i) || uint32(i) >= blockchain.MaxEventsPerBlock {
			valid = false
		}
	}
	if valid {
		if len(uniq) != len(pairs) {
			r.fail("roots-event-key-collision-in-bounds", "%d key pairs, %d distinct keys for a valid event list", len(pairs), len(uniq))
		}
		var lb strings.Builder
		for _, e := range r.events {
			fmt.Fprintf(&lb, "%x;", e.Encode())
		}
		r.remember(r.rootOfList, "roots-event-list-collision", root, lb.String())
	}
	return fmt.Sprintf("root=%s pairs=%d distinct=%d", corr.Hex(root), len(pairs), len(uniq))
}

func opRand(op string) *rand.Rand {
	h := fnv.New64a()
	h.Write([]byte(op))
	return rand.New(rand.NewSource(int64(h.Sum64())))
}

func (r *runner) vhash(op string, thr uint64, vals []kw) string {
	real, err := realVHash(vals, thr)
	if err != nil {
		r.fail("roots-vhash-error", "ComputeValidatorsHash: %v", err)
		return "h=error"
	}
	hashes, amb, ok := admissible(vals, thr)
	if !ok {
		return "amb-too-large"
	}
	if !amb {
		if len(hashes) != 1 || hashes[0] != hex.EncodeToString(real) {
			r.fail("roots-vhash-reference", "ComputeValidatorsHash %x, own sort/encode/sha256 %v", real, hashes)
		}
		// invariance under permutations of the input
		rng := opRand(op)
		for k := 0; k < 3; k++ {
			p := append([]kw{}, vals...)
			if k == 0 {
				for i, j := 0, len(p)-1; i < j; i, j = i+1, j-1 {
					p[i], p[j] = p[j], p[i]
				}
			} else {
				rng.Shuffle(len(p), func(i, j int) { p[i], p[j] = p[j], p[i] })
			}
			if h2, _ := realVHash(p, thr); !bytes.Equal(h2, real) {
				r.fail("roots-vhash-permutation", "hash %x, after permuting the input %x", real, h2)
			}
		}
		r.remember(r.vhOf, "roots-vhash-collision", real, canonKW(vals, thr))
		return "h=" + corr.Hex(real)
	}
	// a BLS key with two different weights: the comparator does not determine the order; the hash must be one
	// of those of the key-sorted arrangements
	found := false
	for _, h := range hashes {
		if h == hex.EncodeToString(real) {
			found = true
		}
	}
	if !found {
		r.fail("roots-vhash-not-admissible", "ComputeValidatorsHash %x is not the hash of any key-sorted arrangement", real)
	}
	return "amb " + strings.Join(hashes, ",")
}

func (r *runner) showTx(tx *blockchain.Transaction) string {
	tx.Init()
	enc := tx.Encode()
	if !bytes.Equal(tx.ID, sha(enc)) {
		r.fail("roots-tx-id", "ID %x is not sha256 of the encoding", []byte(tx.ID))
	}
	if tx.Size() != len(enc) {
		r.fail("roots-tx-size", "Size %d, encoding has %d bytes", tx.Size(), len(enc))
	}
	if !bytes.Equal(tx.Bytes(), enc) {
		r.fail("roots-tx-bytes", "Bytes differs from Encode")
	}
	// IDs = sha256 of the ACCEPTED bytes
	if back, err := blockchain.NewTransaction(enc); err != nil {
		r.fail("roots-tx-decode", "own encoding rejected by NewTransaction: %v", err)
	} else {
		if !bytes.Equal(back.ID, sha(enc)) {
			r.fail("roots-tx-id-accepted-bytes", "NewTransaction assigns %x, sha256 of the accepted bytes is %x", []byte(back.ID), sha(enc))
		}
		if !bytes.Equal(back.Encode(), enc) {
			r.fail("roots-tx-reencode", "accepted bytes do not re-encode to themselves")
		}
	}
	verr := tx.Validate()
	if (verr == nil) != refTxStaticValid(tx) {
		r.fail("roots-tx-validate", "Validate says %v, the rules say %v", verr, refTxStaticValid(tx))
	}
	r.remember(r.idOf, "roots-id-collision", tx.ID, "tx:"+hex.EncodeToString(enc))
	return fmt.Sprintf("id=%s size=%d sb=%s valid=%s", corr.Hex(tx.ID), tx.Size(), corr.Hex(tx.SigningBytes()), okErr(verr))
}

func (r *runner) step(op string) string {
	w := strings.Fields(op)
	const bad = "bad-op"
	if len(w) == 0 {
		return bad
	}
	switch {
	case w[0] == "reset" && len(w) == 2 && (w[1] == "4" || w[1] == "8"):
		r.reset()
		// the size the generator probed must be the size of what UpdateID returns; with 8 bytes (the fix) the id
		// must also be stored in Event.ID, with 4 bytes (the code as it is) Event.ID may stay empty
		if got := len((&blockchain.Event{Height: 1, Index: 1}).UpdateID()); strconv.Itoa(got) != w[1] {
			r.fail("roots-event-id-size", "UpdateID returns %d bytes, the case was generated for %s", got, w[1])
		}
		r.idStored = w[1] == "8"
		return "ok"
	case w[0] == "event" && len(w) == 7:
		e, ok := parseEvent(w[1:])
		if !ok {
			return bad
		}
		r.events = append(r.events, e)
		return r.showEvent(e)
	case w[0] == "setevent" && len(w) == 8:
		k, ok := natArg(w[1])
		e, ok2 := parseEvent(w[2:])
		if !ok || !ok2 || k >= uint64(len(r.events)) {
			return bad
		}
		r.events[k] = e
		return r.showEvent(e)
	case w[0] == "swapevents" && len(w) == 3:
		i, ok := natArg(w[1])
		j, ok2 := natArg(w[2])
		if !ok || !ok2 || i >= uint64(len(r.events)) || j >= uint64(len(r.events)) {
			return bad
		}
		r.events[i], r.events[j] = r.events[j], r.events[i]
		return "ok"
	case w[0] == "delevent" && len(w) == 2:
		i, ok := natArg(w[1])
		if !ok || i >= uint64(len(r.events)) {
			return bad
		}
		r.events = append(append([]*blockchain.Event{}, r.events[:i]...), r.events[i+1:]...)
		return "ok"
	case w[0] == "updateindex" && len(w) == 1:
		evs := blockchain.Events(r.events)
		evs.UpdateIndex()
		if len(r.events) == 0 {
			return "idx=_"
		}
		s := make([]string, len(r.events))
		for i, e := range r.events {
			s[i] = strconv.FormatUint(uint64(e.Index), 10)
			if (r.idStored || len(e.ID) != 0) && !bytes.Equal(e.ID, e.UpdateID()) {
				r.fail("roots-event-id-field", "after UpdateIndex Event.ID %x differs from UpdateID() %x", []byte(e.ID), e.UpdateID())
			}
		}
		return "idx=" + strings.Join(s, ",")
	case w[0] == "eventroot" && len(w) == 1:
		return r.eventRoot()
	case w[0] == "vhash" && len(w) == 3:
		thr, ok := natArg(w[1])
		vals, ok2 := parseValidators(w[2])
		if !ok || !ok2 {
			return bad
		}
		return r.vhash(op, thr, vals)
	case w[0] == "tx" && len(w) == 8:
		m, ok1 := hexArg(w[1])
		c, ok2 := hexArg(w[2])
		nonce, ok3 := natArg(w[3])
		fee, ok4 := natArg(w[4])
		spk, ok5 := hexArg(w[5])
		params, ok6 := hexArg(w[6])
		sigs, ok7 := listArg(w[7])
		if !(ok1 && ok2 && ok3 && ok4 && ok5 && ok6 && ok7) {
			return bad
		}
		ss := make([]codec.Hex, len(sigs))
		for i, s := range sigs {
			ss[i] = s
		}
		tx := &blockchain.Transaction{Module: string(m), Command: string(c), Nonce: nonce, Fee: fee, SenderPublicKey: spk, Params: params, Signatures: ss}
		r.txs = append(r.txs, tx)
		return r.showTx(tx)
	case w[0] == "txmsg" && len(w) == 3:
		i, ok := natArg(w[1])
		chain, ok2 := hexArg(w[2])
		if !ok || !ok2 || i >= uint64(len(r.txs)) {
			return bad
		}
		tx := r.txs[i]
		msg := sha(blockchain.TagTransaction, chain, tx.SigningBytes())
		sig := tx.GetSignature(chain, edPriv)
		if !bytes.Equal(sig, ed25519.Sign(edPriv, msg)) || !ed25519.Verify(edPub, msg, sig) {
			r.fail("roots-tx-signed-message", "GetSignature does not sign sha256(tag ‖ chainID ‖ SigningBytes)")
			return "msg=MISMATCH"
		}
		return "msg=" + corr.Hex(msg)
	case w[0] == "asset" && len(w) == 3:
		m, ok := hexArg(w[1])
		d, ok2 := hexArg(w[2])
		if !ok || !ok2 {
			return bad
		}
		a := &blockchain.BlockAsset{Module: string(m), Data: d}
		r.assets = append(r.assets, a)
		enc := a.Encode()
		if back, err := blockchain.NewBlockAsset(enc); err != nil {
			r.fail("roots-asset-decode", "own encoding rejected by NewBlockAsset: %v", err)
		} else if !bytes.Equal(back.Encode(), enc) {
			r.fail("roots-asset-reencode", "accepted bytes do not re-encode to themselves")
		}
		return "enc=" + corr.Hex(enc)
	case w[0] == "sortassets" && len(w) == 1:
		as := blockchain.BlockAssets(r.assets)
		as.Sort()
		r.assets = as
		mods := make([][]byte, len(r.assets))
		for i, a := range r.assets {
			mods[i] = []byte(a.Module)
		}
		return "mods=" + showList(mods)
	case w[0] == "assets" && len(w) == 1:
		as := blockchain.BlockAssets(r.assets)
		verr := as.Valid()
		if (verr == nil) != refAssetsValid(r.assets) {
			r.fail("roots-assets-valid", "Valid says %v, strictly increasing modules: %v", verr, refAssetsValid(r.assets))
		}
		root := as.GetRoot()
		enc := make([][]byte, len(r.assets))
		for i, a := range r.assets {
			enc[i] = a.Encode()
		}
		if ref := refMerkleRoot(enc); !bytes.Equal(ref, root) {
			r.fail("roots-asset-root-reference", "GetRoot %x, LIP-0031 reference over the encoded assets %x", root, ref)
		}
		return "valid=" + okErr(verr) + " root=" + corr.Hex(root)
	case w[0] == "txroot" && len(w) == 1:
		ids := make([][]byte, len(r.txs))
		for i, tx := range r.txs {
			ids[i] = tx.ID
		}
		root := rmt.CalculateRoot(ids)
		if ref := refMerkleRoot(ids); !bytes.Equal(ref, root) {
			r.fail("roots-tx-root-reference", "CalculateRoot %x, LIP-0031 reference over the ids %x", root, ref)
		}
		return "root=" + corr.Hex(root)
	case w[0] == "block" && len(w) == 17:
		return r.block(w[1:])
	}
	return bad
}

func (r *runner) block(w []string) string {
	const bad = "bad-op"
	chain, ok0 := hexArg(w[0])
	ver, ok1 := u32Arg(w[1])
	ts, ok2 := u32Arg(w[2])
	ht, ok3 := u32Arg(w[3])
	prev, ok4 := hexArg(w[4])
	gen, ok5 := hexArg(w[5])
	txr, ok6 := hexArg(w[6])
	asr, ok7 := hexArg(w[7])
	evr, ok8 := hexArg(w[8])
	str, ok9 := hexArg(w[9])
	mhp, ok10 := u32Arg(w[10])
	mhg, ok11 := u32Arg(w[11])
	imp, ok12 := boolArg(w[12])
	vh, ok13 := hexArg(w[13])
	ac, ok14 := parseAC(w[14])
	sig, ok15 := hexArg(w[15])
	if !(ok0 && ok1 && ok2 && ok3 && ok4 && ok5 && ok6 && ok7 && ok8 && ok9 && ok10 && ok11 && ok12 && ok13 && ok14 && ok15) {
		return bad
	}
	mk := func() *blockchain.BlockHeader {
		var acc *blockchain.AggregateCommit
		if ac != nil {
			c := *ac
			acc = &c
		}
		return &blockchain.BlockHeader{Version: ver, Timestamp: ts, Height: ht, PreviousBlockID: prev, GeneratorAddress: gen,
			TransactionRoot: txr, AssetRoot: asr, EventRoot: evr, StateRoot: str, MaxHeightPrevoted: mhp, MaxHeightGenerated: mhg,
			ImpliesMaxPrevotes: imp, ValidatorsHash: vh, AggregateCommit: acc, Signature: sig}
	}
	h := mk()
	h.Init()
	enc := h.Encode()
	if !bytes.Equal(h.ID, sha(enc)) {
		r.fail("roots-header-id", "ID %x is not sha256 of the encoding", []byte(h.ID))
	}
	// IDs = sha256 of the ACCEPTED bytes (a nil aggregate commit comes back as an empty struct, which encodes
	// differently — only headers with an aggregate commit re-encode to themselves)
	if back, err := blockchain.NewBlockHeader(enc); err != nil {
		r.fail("roots-header-decode", "own encoding rejected by NewBlockHeader: %v", err)
	} else if ac != nil {
		if !bytes.Equal(back.ID, sha(enc)) {
			r.fail("roots-header-id-accepted-bytes", "NewBlockHeader assigns %x, sha256 of the accepted bytes is %x", []byte(back.ID), sha(enc))
		}
	} else if !bytes.Equal(back.ID, sha(back.Encode())) {
		r.fail("roots-header-id", "NewBlockHeader: ID is not sha256 of the re-encoding")
	}
	r.remember(r.idOf, "roots-id-collision", h.ID, "header:"+hex.EncodeToString(enc))
	sb := h.SigningBytes()
	// the message actually signed: Ed25519 is deterministic
	msg := sha(blockchain.TagBlockHeader, chain, sb)
	msgOut := "msg=" + corr.Hex(msg)
	h2 := mk()
	h2.Sign(chain, edPriv)
	if !bytes.Equal(h2.Signature, ed25519.Sign(edPriv, msg)) || !h2.VerifySignature(chain, edPub) {
		r.fail("roots-header-signed-message", "Sign / VerifySignature do not use sha256(tag ‖ chainID ‖ SigningBytes)")
		msgOut = "msg=MISMATCH"
	}
	if !bytes.Equal(h2.ID, sha(h2.Encode())) {
		r.fail("roots-header-id-after-sign", "Sign leaves an ID that is not sha256 of the signed header")
	}
	hverr := h.Validate()
	if refH := len(prev) == 32 && len(gen) == 20 && len(sig) == 64 && len(str) == 32; (hverr == nil) != refH {
		r.fail("roots-header-validate", "Validate says %v, the length rules say %v", hverr, refH)
	}
	b := &blockchain.Block{Header: h, Transactions: r.txs, Assets: r.assets}
	verr := b.Validate()
	ids := make([][]byte, len(r.txs))
	txsOK := true
	for i, tx := range r.txs {
		ids[i] = sha(tx.Encode())
		txsOK = txsOK && refTxStaticValid(tx)
	}
	encAssets := make([][]byte, len(r.assets))
	for i, a := range r.assets {
		encAssets[i] = a.Encode()
	}
	ref := hverr == nil && txsOK && bytes.Equal(txr, refMerkleRoot(ids)) && refAssetsValid(r.assets) && bytes.Equal(asr, refMerkleRoot(encAssets))
	if (verr == nil) != ref {
		r.fail("roots-block-validate", "Block.Validate says %v, the reference verdict is %v", verr, ref)
	}
	// certificate of the header
	c := certificate.NewCertificateFromBlock(h)
	csb := c.SigningBytes()
	cmsg := sha([]byte("LSK_CE_"), chain, csb)
	cmsgOut := "certmsg=" + corr.Hex(cmsg)
	kp := blsKeys()
	c.Sign(chain, kp.PrivateKey)
	if !bytes.Equal(c.Signature, crypto.BLSSign(cmsg, kp.PrivateKey)) || !c.Verify(chain, c.Signature, kp.PublicKey) {
		r.fail("roots-certificate-signed-message", "Certificate.Sign / Verify do not use sha256(tag ‖ chainID ‖ SigningBytes)")
		cmsgOut = "certmsg=MISMATCH"
	}
	return "id=" + corr.Hex(h.ID) + " sb=" + corr.Hex(sb) + " " + msgOut + " hvalid=" + okErr(hverr) + " validate=" + okErr(verr) +
		" cert=" + corr.Hex(csb) + " " + cmsgOut
}

func (prop) RunImpl(c corr.Case) ([]string, []corr.Fail) {
	r := &runner{}
	r.reset()
	out := make([]string, len(c.Ops))
	for i, op := range c.Ops {
		r.op = i
		func() {
			defer func() {
				if p := recover(); p != nil {
					out[i] = "panic"
					r.fail("roots-panic", "%s: %v", strings.SplitN(op, " ", 2)[0], p)
				}
			}()
			out[i] = r.step(op)
		}()
	}
	return out, r.fails
}

func (prop) Classify(c corr.Case, out []string) string {
	var cl []string
	has := func(s string) bool {
		for _, x := range cl {
			if x == s {
				return true
			}
		}
		return false
	}
	add := func(s string) {
		if !has(s) {
			cl = append(cl, s)
		}
	}
	for i, o := range out {
		op := strings.SplitN(c.Ops[i], " ", 2)[0]
		switch {
		case o == "bad-op":
			add("bad-op")
		case op == "eventroot":
			var root string
			var pairs, distinct int
			fmt.Sscanf(o, "root=%s pairs=%d distinct=%d", &root, &pairs, &distinct)
			switch {
			case pairs == 0:
				add("eventroot-empty")
			case distinct < pairs:
				add("eventroot-key-collision")
			default:
				add("eventroot")
			}
		case op == "vhash" && strings.HasPrefix(o, "amb"):
			add("vhash-ambiguous")
		case op == "vhash":
			add("vhash")
		case op == "block" && strings.Contains(o, "validate=ok"):
			add("block-valid")
		case op == "block":
			add("block-invalid")
		case op == "assets" && strings.HasPrefix(o, "valid=err"):
			add("assets-invalid")
		case (op == "event" || op == "setevent") && strings.HasSuffix(o, "valid=err"):
			add("event-invalid")
		case op == "tx" && strings.HasSuffix(o, "valid=err"):
			add("tx-invalid")
		}
	}
	sort.Strings(cl)
	return strings.Join(cl, "+")
}
