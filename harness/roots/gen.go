package roots

import (
	"bytes"
	"encoding/hex"
	"fmt"
	"math/rand"
	"strings"

	"github.com/LiskHQ/lisk-engine/pkg/blockchain"

	"verifharness/corr"
)

// ---------------------------------------------------------------------------------------------
// generators

// resetOp opens every case: it tells both sides how many bytes the real Event.UpdateID returns (4 as the code
// is: height only; 8 with fixes/C03-event-id-not-stored.patch) — the one point where the model is parametric.
func resetOp() string {
	return fmt.Sprintf("reset %d", len((&blockchain.Event{Height: 1, Index: 1}).UpdateID()))
}

func hx(b []byte) string {
	if len(b) == 0 {
		return "-"
	}
	return hex.EncodeToString(b)
}

func rbytes(rng *rand.Rand, n int) []byte {
	b := make([]byte, n)
	rng.Read(b)
	return b
}

func pick[T any](rng *rand.Rand, l ...T) T { return l[rng.Intn(len(l))] }

const alnumChars = "abcdefghijklmnopqrstuvwxyzABCDEFGHIJKLMNOPQRSTUVWXYZ0123456789"

// name: mostly alphanumeric ASCII, sometimes empty, sometimes with a character outside the class
func genName(rng *rand.Rand) []byte {
	switch rng.Intn(12) {
	case 0:
		return nil
	case 1:
		return []byte(pick(rng, "to_ken", "a b", "pos-", "x\n", "tok.en", "$", "abc\x7f"))
	}
	n := 1 + rng.Intn(10)
	b := make([]byte, n)
	for i := range b {
		b[i] = alnumChars[rng.Intn(len(alnumChars))]
	}
	return b
}

type gEvent struct {
	module, name, data []byte
	topics             [][]byte
	height, index      uint32
}

func (e gEvent) args() string {
	tp := "_"
	if len(e.topics) > 0 {
		s := make([]string, len(e.topics))
		for i, t := range e.topics {
			s[i] = hx(t)
		}
		tp = strings.Join(s, ",")
	}
	return fmt.Sprintf("%s %s %s %s %d %d", hx(e.module), hx(e.name), hx(e.data), tp, e.height, e.index)
}

func genData(rng *rand.Rand) []byte {
	switch rng.Intn(10) {
	case 0:
		return nil
	case 1:
		return rbytes(rng, pick(rng, 1023, 1024, 1025))
	case 2:
		return rbytes(rng, 1)
	}
	return rbytes(rng, 1+rng.Intn(40))
}

func genTopics(rng *rand.Rand, pool [][]byte) [][]byte {
	n := pick(rng, 1, 1, 2, 2, 3, 4, 4, 0, 5)
	tp := make([][]byte, n)
	for i := range tp {
		switch rng.Intn(8) {
		case 0:
			tp[i] = nil // the empty topic
		case 1:
			if i > 0 {
				tp[i] = tp[i-1] // repeated topic
				continue
			}
			fallthrough
		default:
			tp[i] = pool[rng.Intn(len(pool))]
		}
	}
	return tp
}

func genHeight(rng *rand.Rand) uint32 {
	return pick(rng, 0, 1, uint32(rng.Intn(1000)), uint32(rng.Uint32()), 4294967295, 1<<30, 1<<24)
}

func nearLimitIndex(rng *rand.Rand) uint32 {
	return pick[uint32](rng, 1<<30-2, 1<<30-1, 1<<30, 1<<30+1, 1<<31-1, 1<<31, 1<<31+1, 3<<30, 4294967295, 4294967294)
}

func topicPool(rng *rand.Rand) [][]byte {
	n := 2 + rng.Intn(5)
	pool := make([][]byte, n)
	for i := range pool {
		pool[i] = rbytes(rng, pick(rng, 1, 8, 20, 32, 32))
	}
	return pool
}

// genEvents: a list of events, its root, UpdateIndex, then single changes of one event / of the order, each
// followed by the root (the distinctness oracle compares all the roots of the case).
func genEvents(rng *rand.Rand, big bool) corr.Case {
	ops := []string{resetOp()}
	pool := topicPool(rng)
	n := pick(rng, 0, 1, 2, 3, 5, 8)
	if big {
		n = pick(rng, 17, 33, 40)
	}
	mode := rng.Intn(4) // 0: positions, 1: near the limit, 2: random small, 3: mixed
	height := genHeight(rng)
	evs := make([]gEvent, n)
	for i := range evs {
		e := gEvent{module: genName(rng), name: genName(rng), data: genData(rng), topics: genTopics(rng, pool), height: height}
		if rng.Intn(10) == 0 {
			e.height = genHeight(rng)
		}
		switch mode {
		case 0:
			e.index = uint32(i)
		case 1:
			e.index = nearLimitIndex(rng)
		case 2:
			e.index = uint32(rng.Intn(8))
		default:
			e.index = pick(rng, uint32(i), nearLimitIndex(rng), uint32(rng.Intn(8)), uint32(1<<30)+uint32(i))
		}
		evs[i] = e
		ops = append(ops, "event "+e.args())
	}
	ops = append(ops, "eventroot")
	if rng.Intn(3) > 0 {
		ops = append(ops, "updateindex", "eventroot")
		for i := range evs {
			evs[i].index = uint32(i)
		}
	}
	if n == 0 {
		return corr.Case{Ops: ops, Tag: "events"}
	}
	// single changes
	for k := 0; k < 4+rng.Intn(4); k++ {
		i := rng.Intn(n)
		e := evs[i]
		switch rng.Intn(9) {
		case 0:
			e.data = append(append([]byte{}, e.data...), byte(rng.Intn(256)))
		case 1:
			if len(e.data) > 0 {
				e.data = append([]byte{}, e.data...)
				e.data[rng.Intn(len(e.data))] ^= 1 << uint(rng.Intn(8))
			} else {
				e.data = []byte{0}
			}
		case 2:
			e.module = append(append([]byte{}, e.module...), 'x')
		case 3:
			e.name = append(append([]byte{}, e.name...), 'y')
		case 4:
			e.height++
		case 5:
			e.index = pick(rng, e.index+1, e.index+1<<30, e.index^1)
		case 6:
			if len(e.topics) > 0 {
				e.topics = append([][]byte{}, e.topics...)
				e.topics[rng.Intn(len(e.topics))] = rbytes(rng, 8)
			} else {
				e.topics = [][]byte{rbytes(rng, 8)}
			}
		case 7:
			e.topics = append(append([][]byte{}, e.topics...), pool[rng.Intn(len(pool))])
		case 8:
			if len(e.topics) > 1 {
				e.topics = e.topics[:len(e.topics)-1]
			}
		}
		evs[i] = e
		ops = append(ops, fmt.Sprintf("setevent %d %s", i, e.args()), "eventroot")
	}
	if n >= 2 {
		i, j := rng.Intn(n), rng.Intn(n)
		ops = append(ops, fmt.Sprintf("swapevents %d %d", i, j), "eventroot", "updateindex", "eventroot")
		i = rng.Intn(n)
		ops = append(ops, fmt.Sprintf("delevent %d", i), "eventroot", "updateindex", "eventroot")
	}
	tag := "events"
	if big {
		tag = "events-big"
	}
	return corr.Case{Ops: ops, Tag: tag}
}

// directed event cases: the wrap-around of `Index << 2` and of the topic position
func directedEvents() []corr.Case {
	t1, t2 := "aabbccdd", "0102030405060708"
	return []corr.Case{
		{Tag: "events-wrap", Ops: []string{resetOp(),
			"event 6d 6e 01 " + t1 + " 7 0", "event 6d 6e 02 " + t1 + " 7 1073741824", "eventroot",
			"setevent 1 6d 6e 03 " + t1 + " 7 1073741824", "eventroot", // the root does not see the change
			"updateindex", "eventroot"}},
		{Tag: "events-wrap", Ops: []string{resetOp(),
			"event 6d 6e 01 " + t1 + "," + t2 + "," + t2 + "," + t2 + "," + t1 + " 7 0", "event 6d 6e 02 " + t1 + " 7 1", "eventroot",
			"setevent 1 6d 6e 03 " + t1 + " 7 1", "eventroot"}},
		{Tag: "events-wrap", Ops: []string{resetOp(), "event 6d 6e 01 _ 7 0", "eventroot", "setevent 0 6d 6e 02 _ 7 0", "eventroot",
			"event 6d 6e - - 0 0", "eventroot"}},
		{Tag: "events-wrap", Ops: []string{resetOp(), "eventroot", "updateindex", "eventroot",
			"event 6d 6e 01 " + t1 + " 4294967295 4294967295", "eventroot", "event 6d 6e 01 " + t1 + " 4294967295 1073741823", "eventroot"}},
	}
}

type gVal struct {
	key    []byte
	weight uint64
}

func valsArg(vs []gVal) string {
	if len(vs) == 0 {
		return "_"
	}
	s := make([]string, len(vs))
	for i, v := range vs {
		s[i] = fmt.Sprintf("%s:%d", hx(v.key), v.weight)
	}
	return strings.Join(s, ",")
}

func genWeight(rng *rand.Rand) uint64 {
	return pick(rng, 0, 1, 1, 2, uint64(rng.Intn(1000)), rng.Uint64(), 18446744073709551615, 1<<63, 1<<32)
}

func genThreshold(rng *rand.Rand) uint64 {
	return pick(rng, 0, 1, uint64(rng.Intn(1000)), rng.Uint64(), 18446744073709551615, 18446744073709551614, 1<<63, 127, 128)
}

// genVHash: a validator set in random order, the same set permuted, then single changes.
// dup: 0 none, 1 identical duplicates, 2 equal keys with different weights (short runs), 3 one long such run
func genVHash(rng *rand.Rand, n int, dup int) corr.Case {
	ops := []string{resetOp()}
	keyLen := pick(rng, 48, 48, 48, 2, 2)
	if n <= 14 && rng.Intn(3) == 0 {
		keyLen = 1
	}
	vs := make([]gVal, 0, n+4)
	sameWeight := rng.Intn(4) == 0
	w0 := genWeight(rng)
	for len(vs) < n {
		v := gVal{key: rbytes(rng, keyLen), weight: genWeight(rng)}
		if sameWeight {
			v.weight = w0
		}
		if rng.Intn(25) == 0 {
			v.key = nil
		}
		vs = append(vs, v)
	}
	switch dup {
	case 1:
		for k := 0; k < 1+rng.Intn(3) && len(vs) > 0; k++ {
			vs[rng.Intn(len(vs))] = vs[rng.Intn(len(vs))]
		}
	case 2:
		for k := 0; k < 1+rng.Intn(2) && len(vs) > 1; k++ {
			i, j := rng.Intn(len(vs)), rng.Intn(len(vs))
			if i != j {
				vs[i].key = vs[j].key
				if vs[i].weight == vs[j].weight {
					vs[i].weight++
				}
			}
		}
	case 3:
		for i := 0; i < 8 && i < len(vs); i++ {
			vs[i].key = vs[0].key
			vs[i].weight = uint64(i)
		}
	}
	rng.Shuffle(len(vs), func(i, j int) { vs[i], vs[j] = vs[j], vs[i] })
	thr := genThreshold(rng)
	ops = append(ops, fmt.Sprintf("vhash %d %s", thr, valsArg(vs)))
	p := append([]gVal{}, vs...)
	rng.Shuffle(len(p), func(i, j int) { p[i], p[j] = p[j], p[i] })
	ops = append(ops, fmt.Sprintf("vhash %d %s", thr, valsArg(p)))
	// single changes (each one compared with all the others by the distinctness oracle)
	for k := 0; k < 6 && len(vs) > 0; k++ {
		q := make([]gVal, len(vs))
		for i, v := range vs {
			q[i] = gVal{append([]byte{}, v.key...), v.weight}
		}
		t := thr
		i := rng.Intn(len(q))
		switch k {
		case 0:
			q[i].weight++
		case 1:
			if len(q[i].key) > 0 {
				q[i].key[rng.Intn(len(q[i].key))] ^= 1 << uint(rng.Intn(8))
			} else {
				q[i].key = []byte{0}
			}
		case 2:
			t++
		case 3:
			q = append(q[:i], q[i+1:]...)
		case 4:
			q = append(q, gVal{rbytes(rng, keyLen), genWeight(rng)})
		case 5:
			q[i].key = append(q[i].key, 0)
		}
		ops = append(ops, fmt.Sprintf("vhash %d %s", t, valsArg(q)))
	}
	tag := [...]string{"vhash", "vhash-dup", "vhash-ambiguous", "vhash-ambiguous"}[dup]
	return corr.Case{Ops: ops, Tag: tag}
}

type gTx struct {
	module, command []byte
	nonce, fee      uint64
	spk, params     []byte
	sigs            [][]byte
}

func listHex(l [][]byte) string {
	if len(l) == 0 {
		return "_"
	}
	s := make([]string, len(l))
	for i, b := range l {
		s[i] = hx(b)
	}
	return strings.Join(s, ",")
}

func (x gTx) args() string {
	return fmt.Sprintf("%s %s %d %d %s %s %s", hx(x.module), hx(x.command), x.nonce, x.fee, hx(x.spk), hx(x.params), listHex(x.sigs))
}

func genTx(rng *rand.Rand, valid bool) gTx {
	x := gTx{module: []byte(pick(rng, "token", "pos", "auth", "Mod9")), command: []byte(pick(rng, "transfer", "stake", "c")),
		nonce: pick(rng, 0, 1, uint64(rng.Intn(1000)), rng.Uint64(), 18446744073709551615), fee: pick(rng, 0, uint64(rng.Intn(100000)), rng.Uint64()),
		spk: rbytes(rng, 32), params: rbytes(rng, rng.Intn(60))}
	for i := 0; i < 1+rng.Intn(2); i++ {
		x.sigs = append(x.sigs, rbytes(rng, 64))
	}
	if rng.Intn(40) == 0 {
		x.params = rbytes(rng, 14*1024)
	}
	if !valid {
		switch rng.Intn(7) {
		case 0:
			x.module = genName(rng)
		case 1:
			x.command = []byte("a-b")
		case 2:
			x.spk = rbytes(rng, pick(rng, 0, 31, 33))
		case 3:
			x.sigs = nil
		case 4:
			x.sigs = append(x.sigs, rbytes(rng, pick(rng, 0, 63, 65)))
		case 5:
			x.params = rbytes(rng, 14*1024+1)
		case 6:
			x.params = nil
		}
	}
	return x
}

// reference encodings used by the generator to put the RIGHT roots into the header (independent of the code
// under test: hand-written protobuf + LIP-0031)
func (x gTx) refEncode() []byte {
	b := append(pbBytes(1, x.module), pbBytes(2, x.command)...)
	b = append(b, pbUint(3, x.nonce)...)
	b = append(b, pbUint(4, x.fee)...)
	b = append(b, pbBytes(5, x.spk)...)
	b = append(b, pbBytes(6, x.params)...)
	for _, s := range x.sigs {
		b = append(b, pbBytes(7, s)...)
	}
	return b
}

type gAsset struct{ module, data []byte }

func (a gAsset) refEncode() []byte { return append(pbBytes(1, a.module), pbBytes(2, a.data)...) }

func genBlock(rng *rand.Rand, big bool) corr.Case {
	ops := []string{resetOp()}
	chain := rbytes(rng, pick(rng, 4, 4, 4, 0, 1))
	ntx := pick(rng, 0, 1, 2, 3, 4, 5, 7, 8, 9)
	if big {
		ntx = pick(rng, 15, 16, 17, 30)
	}
	allValid := rng.Intn(4) > 0
	txs := make([]gTx, ntx)
	ids := make([][]byte, ntx)
	for i := range txs {
		txs[i] = genTx(rng, allValid || rng.Intn(3) > 0)
		ids[i] = sha(txs[i].refEncode())
		ops = append(ops, "tx "+txs[i].args())
		if rng.Intn(4) == 0 {
			ops = append(ops, fmt.Sprintf("txmsg %d %s", i, hx(chain)))
		}
	}
	ops = append(ops, "txroot")
	nas := rng.Intn(7)
	mods := []string{"auth", "dynamicReward", "interoperability", "pos", "random", "token", "validators"}
	var assets []gAsset
	amode := rng.Intn(5) // 0..2 sorted distinct, 3 shuffled, 4 duplicate
	perm := rng.Perm(len(mods))[:nas]
	if amode <= 2 {
		// ascending subset
		sel := map[int]bool{}
		for _, i := range perm {
			sel[i] = true
		}
		for i, m := range mods {
			if sel[i] {
				assets = append(assets, gAsset{[]byte(m), rbytes(rng, rng.Intn(30))})
			}
		}
	} else {
		for _, i := range perm {
			assets = append(assets, gAsset{[]byte(mods[i]), rbytes(rng, rng.Intn(30))})
		}
		if amode == 4 && len(assets) > 0 {
			assets = append(assets, gAsset{assets[rng.Intn(len(assets))].module, rbytes(rng, 3)})
		}
	}
	for _, a := range assets {
		ops = append(ops, fmt.Sprintf("asset %s %s", hx(a.module), hx(a.data)))
	}
	ops = append(ops, "assets")
	if amode == 3 && rng.Intn(2) == 0 {
		// distinct modules: the sorted order is unique
		ops = append(ops, "sortassets", "assets")
		for i := 0; i < len(assets); i++ {
			for j := i + 1; j < len(assets); j++ {
				if bytes.Compare(assets[j].module, assets[i].module) < 0 {
					assets[i], assets[j] = assets[j], assets[i]
				}
			}
		}
	}
	encA := make([][]byte, len(assets))
	for i, a := range assets {
		encA[i] = a.refEncode()
	}
	txRoot, asRoot := refMerkleRoot(ids), refMerkleRoot(encA)
	for k := 0; k < 1+rng.Intn(3); k++ {
		tr, ar := txRoot, asRoot
		prev, gen, sig := rbytes(rng, 32), rbytes(rng, 20), rbytes(rng, 64)
		switch rng.Intn(10) {
		case 0:
			tr = append([]byte{}, tr...)
			tr[rng.Intn(32)] ^= 1
		case 1:
			ar = append([]byte{}, ar...)
			ar[rng.Intn(32)] ^= 0x80
		case 2:
			prev = rbytes(rng, pick(rng, 0, 31, 33))
		case 3:
			gen = rbytes(rng, pick(rng, 0, 19, 21))
		case 4:
			sig = rbytes(rng, pick(rng, 0, 63, 65))
		case 5:
			tr = sha() // the root of the empty list
		}
		ac := "_"
		if rng.Intn(5) > 0 {
			ac = fmt.Sprintf("%d:%s:%s", genHeight(rng), hx(rbytes(rng, rng.Intn(4))), hx(rbytes(rng, pick(rng, 0, 96))))
		}
		ops = append(ops, fmt.Sprintf("block %s %d %d %d %s %s %s %s %s %s %d %d %d %s %s %s", hx(chain),
			pick(rng, 0, 2, uint32(rng.Intn(5))), genHeight(rng), genHeight(rng), hx(prev), hx(gen), hx(tr), hx(ar),
			hx(rbytes(rng, pick(rng, 32, 32, 0))), hx(rbytes(rng, pick(rng, 32, 32, 0))), genHeight(rng), genHeight(rng), rng.Intn(2),
			hx(rbytes(rng, pick(rng, 32, 32, 0))), ac, hx(sig)))
	}
	tag := "block"
	if big {
		tag = "block-big"
	}
	return corr.Case{Ops: ops, Tag: tag}
}

func genMalformed(rng *rand.Rand) corr.Case {
	ops := []string{resetOp(), "event 6d 6e 01 aa 1 0"}
	bad := []string{
		"event 6d 6e 01 aa 1", "event 6d 6e 01 aa 1 4294967296", "event 6d 6e 01 aa 4294967296 0", "event 6d 6e 0 aa 1 0",
		"event 6d 6e zz aa 1 0", "event 6d 6e 01 aa,b 1 0", "event 6d 6e 01 aa -1 0", "event 6d 6e 01 aa 1 0 0",
		"setevent 5 6d 6e 01 aa 1 0", "setevent x 6d 6e 01 aa 1 0", "swapevents 0 1", "swapevents 0", "delevent 1", "delevent",
		"eventroot x", "updateindex 1", "vhash", "vhash 1", "vhash x aa:1", "vhash 1 aa", "vhash 1 aa:1:2", "vhash 1 aa:x",
		"vhash 18446744073709551616 aa:1", "vhash 1 aa:18446744073709551616", "vhash 1 a:1", "tx 6d 63 1 2 00 01", "tx 6d 63 x 2 00 01 aa",
		"tx 6d 63 1 18446744073709551616 00 01 aa", "txmsg 0 01", "txmsg x 01", "txmsg 0", "asset 6d", "asset 6d 0g", "sortassets 1",
		"assets 1", "txroot 1", "block 01 2 3 4 aa bb cc dd ee ff 1 2 1 ab 5:01:02", "block 01 2 3 4 aa bb cc dd ee ff 1 2 2 ab 5:01:02 cd",
		"block 01 2 3 4 aa bb cc dd ee ff 1 2 1 ab 5:01 cd", "block 01 4294967296 3 4 aa bb cc dd ee ff 1 2 1 ab _ cd", "frobnicate", "reset 1", "reset", "reset 4 4",
		"event 6D 6E 01 AA 1 0", "vhash 01 AA:01", "event 6d 6e 01 aa,,bb 1 0", "event 6d 6e 01 aa, 1 0", "event 6d 6e -- aa 1 0",
	}
	for k := 0; k < 8; k++ {
		ops = append(ops, bad[rng.Intn(len(bad))])
	}
	ops = append(ops, "eventroot", "vhash 3 aa:1,bb:2", "txroot", "assets")
	return corr.Case{Ops: ops, Tag: "malformed"}
}

func (prop) Generate(rng *rand.Rand, tier string) []corr.Case {
	var cases []corr.Case
	cases = append(cases, directedEvents()...)
	nEv, nEvBig, nVh, nBlk, nBlkBig, nMal := 70, 6, 40, 36, 4, 6
	sizes := []int{1, 2, 3, 12, 13, 14, 50, 101, 120}
	if tier == "thorough" {
		nEv, nEvBig, nVh, nBlk, nBlkBig, nMal = 900, 80, 500, 400, 60, 40
	}
	for i := 0; i < nEv; i++ {
		cases = append(cases, genEvents(rng, false))
	}
	for i := 0; i < nEvBig; i++ {
		cases = append(cases, genEvents(rng, true))
	}
	for i := 0; i < nVh; i++ {
		n := sizes[i%len(sizes)]
		if i%3 == 2 {
			n = 1 + rng.Intn(120)
		}
		cases = append(cases, genVHash(rng, n, []int{0, 0, 1, 2, 2, 0, 1, 3}[i%8]))
	}
	// a malformed / empty validator list
	cases = append(cases, corr.Case{Tag: "vhash", Ops: []string{resetOp(), "vhash 0 _", "vhash 1 _", "vhash 0 -:0", "vhash 0 -:0,-:0", "vhash 0 -:0,-:1"}})
	for i := 0; i < nBlk; i++ {
		cases = append(cases, genBlock(rng, false))
	}
	for i := 0; i < nBlkBig; i++ {
		cases = append(cases, genBlock(rng, true))
	}
	for i := 0; i < nMal; i++ {
		cases = append(cases, genMalformed(rng))
	}
	return cases
}

// ---------------------------------------------------------------------------------------------
// Extra: what sort.Slice does with equal BLS keys of different weights (reported as a note, not a failure:
// the comparator of ComputeValidatorsHash admits every arrangement of such a run)

func (prop) Extra(rng *rand.Rand, tier string) corr.ExtraResult {
	res := corr.ExtraResult{Notes: map[string]any{}}
	trials := 200
	if tier == "thorough" {
		trials = 3000
	}
	dependent := 0
	smallestN := 0
	var sample string
	for t := 0; t < trials; t++ {
		n := 2 + rng.Intn(40)
		vs := make([]kw, n)
		for i := range vs {
			vs[i] = kw{rbytes(rng, 4), uint64(i)}
		}
		// one key twice, different weights
		i, j := rng.Intn(n), rng.Intn(n)
		if i == j {
			continue
		}
		vs[i].key = vs[j].key
		h1, _ := realVHash(vs, 1)
		p := append([]kw{}, vs...)
		rng.Shuffle(n, func(a, b int) { p[a], p[b] = p[b], p[a] })
		h2, _ := realVHash(p, 1)
		res.Evaluations += 2
		hashes, _, _ := admissible(vs, 1)
		ok1, ok2 := false, false
		for _, h := range hashes {
			ok1 = ok1 || h == hex.EncodeToString(h1)
			ok2 = ok2 || h == hex.EncodeToString(h2)
		}
		if !ok1 || !ok2 {
			res.Fails = append(res.Fails, corr.Fail{Sig: "roots-vhash-not-admissible", Detail: fmt.Sprintf("n=%d", n), Op: -1})
		}
		if !bytes.Equal(h1, h2) {
			dependent++
			if smallestN == 0 || n < smallestN {
				smallestN = n
				s := make([]string, n)
				for k, v := range vs {
					s[k] = fmt.Sprintf("%x:%d", v.key, v.weight)
				}
				s2 := make([]string, n)
				for k, v := range p {
					s2[k] = fmt.Sprintf("%x:%d", v.key, v.weight)
				}
				sample = fmt.Sprintf("threshold 1; order A %s -> %x; order B %s -> %x", strings.Join(s, ","), h1, strings.Join(s2, ","), h2)
			}
		}
	}
	res.Notes["vhash_input_order_dependent_cases"] = dependent
	res.Notes["vhash_input_order_dependent_smallest_n"] = smallestN
	if sample != "" {
		res.Samples = append(res.Samples, sample)
	}
	return res
}
