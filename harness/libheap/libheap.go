// Package libheap is the pseudo-property "LIBHEAP" (run as part of C14 and C15): differential correspondence
// between Go's container/heap driven through the REAL heap types of /repo (pkg/txpool/heap.go NonceMinHeap,
// FeeMinHeap, FeeMaxHeap; pkg/generator/selector.go FeePriorityTransactions) and the Lean transcription
// LiskVerif.GoHeap (lean/LiskVerif/Model/GoHeap.lean; theorems in Props/C14_Heap.lean), position by position
// after every operation (ties included), plus a model-free oracle: the heap invariant holds after every heap
// operation on a heap, Pop returns an element no remaining element is Less than, the multiset is preserved.
//
// Line protocol: see the header of lean/Driver/GoHeap.lean.
package libheap

import (
	"container/heap"
	"fmt"
	"math/rand"
	"sort"
	"strconv"
	"strings"

	"github.com/LiskHQ/lisk-engine/pkg/generator"
	"github.com/LiskHQ/lisk-engine/pkg/txpool"

	"verifharness/corr"
)

type prop struct{}

func init() { corr.Register(prop{}) }

func (prop) ID() string    { return "LIBHEAP" }
func (prop) Parallel() int { return 8 }

type elem struct{ p, id uint64 }

// box hides the four real heap types behind one interface; ids are attached by pointer identity (the element
// types carry no field the harness could use), NonceMinHeap has plain uint64 elements and all ids are 0.
type box interface {
	heap.Interface
	load([]elem)
	dump() []elem
	mk(elem) any
	un(any) elem
	set(i int, e elem)
}

type minBox struct {
	h   txpool.FeeMinHeap
	ids map[*txpool.TransactionWithFeePriority]uint64
}

func (b *minBox) Len() int           { return b.h.Len() }
func (b *minBox) Less(i, j int) bool { return b.h.Less(i, j) }
func (b *minBox) Swap(i, j int)      { b.h.Swap(i, j) }
func (b *minBox) Push(x any)         { b.h.Push(x) }
func (b *minBox) Pop() any           { return b.h.Pop() }
func (b *minBox) mk(e elem) any {
	t := &txpool.TransactionWithFeePriority{FeePriority: e.p}
	b.ids[t] = e.id
	return t
}
func (b *minBox) un(x any) elem {
	t := x.(*txpool.TransactionWithFeePriority)
	return elem{t.FeePriority, b.ids[t]}
}
func (b *minBox) load(l []elem) {
	b.h = txpool.FeeMinHeap{}
	for _, e := range l {
		b.h = append(b.h, b.mk(e).(*txpool.TransactionWithFeePriority))
	}
}
func (b *minBox) dump() []elem {
	r := []elem{}
	for _, t := range b.h {
		r = append(r, b.un(t))
	}
	return r
}
func (b *minBox) set(i int, e elem) { b.h[i] = b.mk(e).(*txpool.TransactionWithFeePriority) }

type maxBox struct {
	h   txpool.FeeMaxHeap
	ids map[*txpool.TransactionWithFeePriority]uint64
}

func (b *maxBox) Len() int           { return b.h.Len() }
func (b *maxBox) Less(i, j int) bool { return b.h.Less(i, j) }
func (b *maxBox) Swap(i, j int)      { b.h.Swap(i, j) }
func (b *maxBox) Push(x any)         { b.h.Push(x) }
func (b *maxBox) Pop() any           { return b.h.Pop() }
func (b *maxBox) mk(e elem) any {
	t := &txpool.TransactionWithFeePriority{FeePriority: e.p}
	b.ids[t] = e.id
	return t
}
func (b *maxBox) un(x any) elem {
	t := x.(*txpool.TransactionWithFeePriority)
	return elem{t.FeePriority, b.ids[t]}
}
func (b *maxBox) load(l []elem) {
	b.h = txpool.FeeMaxHeap{}
	for _, e := range l {
		b.h = append(b.h, b.mk(e).(*txpool.TransactionWithFeePriority))
	}
}
func (b *maxBox) dump() []elem {
	r := []elem{}
	for _, t := range b.h {
		r = append(r, b.un(t))
	}
	return r
}
func (b *maxBox) set(i int, e elem) { b.h[i] = b.mk(e).(*txpool.TransactionWithFeePriority) }

type genBox struct {
	h   generator.FeePriorityTransactions
	ids map[*generator.TransactionWithFeePriority]uint64
}

func (b *genBox) Len() int           { return b.h.Len() }
func (b *genBox) Less(i, j int) bool { return b.h.Less(i, j) }
func (b *genBox) Swap(i, j int)      { b.h.Swap(i, j) }
func (b *genBox) Push(x any)         { b.h.Push(x) }
func (b *genBox) Pop() any           { return b.h.Pop() }
func (b *genBox) mk(e elem) any {
	t := &generator.TransactionWithFeePriority{FeePriority: int(e.p)}
	b.ids[t] = e.id
	return t
}
func (b *genBox) un(x any) elem {
	t := x.(*generator.TransactionWithFeePriority)
	return elem{uint64(t.FeePriority), b.ids[t]}
}
func (b *genBox) load(l []elem) {
	b.h = generator.FeePriorityTransactions{}
	for _, e := range l {
		b.h = append(b.h, b.mk(e).(*generator.TransactionWithFeePriority))
	}
}
func (b *genBox) dump() []elem {
	r := []elem{}
	for _, t := range b.h {
		r = append(r, b.un(t))
	}
	return r
}
func (b *genBox) set(i int, e elem) { b.h[i] = b.mk(e).(*generator.TransactionWithFeePriority) }

type nonceBox struct{ h txpool.NonceMinHeap }

func (b *nonceBox) Len() int           { return b.h.Len() }
func (b *nonceBox) Less(i, j int) bool { return b.h.Less(i, j) }
func (b *nonceBox) Swap(i, j int)      { b.h.Swap(i, j) }
func (b *nonceBox) Push(x any)         { b.h.Push(x) }
func (b *nonceBox) Pop() any           { return b.h.Pop() }
func (b *nonceBox) mk(e elem) any      { return e.p }
func (b *nonceBox) un(x any) elem      { return elem{x.(uint64), 0} }
func (b *nonceBox) load(l []elem) {
	b.h = txpool.NonceMinHeap{}
	for _, e := range l {
		b.h = append(b.h, e.p)
	}
}
func (b *nonceBox) dump() []elem {
	r := []elem{}
	for _, v := range b.h {
		r = append(r, elem{v, 0})
	}
	return r
}
func (b *nonceBox) set(i int, e elem) { b.h[i] = e.p }

func newBox(mode string) box {
	switch mode {
	case "min":
		return &minBox{ids: map[*txpool.TransactionWithFeePriority]uint64{}}
	case "max":
		return &maxBox{ids: map[*txpool.TransactionWithFeePriority]uint64{}}
	case "gen":
		return &genBox{ids: map[*generator.TransactionWithFeePriority]uint64{}}
	case "nonce":
		return &nonceBox{}
	}
	return nil
}

func showE(e elem) string { return fmt.Sprintf("%d:%d", e.p, e.id) }
func showL(l []elem) string {
	s := make([]string, len(l))
	for i, e := range l {
		s[i] = showE(e)
	}
	return "[" + strings.Join(s, ",") + "]"
}
func parseE(s string) (elem, bool) {
	w := strings.Split(s, ":")
	if len(w) != 2 {
		return elem{}, false
	}
	p, e1 := strconv.ParseUint(w[0], 10, 63)
	id, e2 := strconv.ParseUint(w[1], 10, 63)
	return elem{p, id}, e1 == nil && e2 == nil
}
func parseL(s string) ([]elem, bool) {
	if strings.HasPrefix(s, "[") && strings.HasSuffix(s, "]") {
		s = s[1 : len(s)-1]
	}
	if s == "" {
		return []elem{}, true
	}
	r := []elem{}
	for _, w := range strings.Split(s, ",") {
		e, ok := parseE(w)
		if !ok {
			return nil, false
		}
		r = append(r, e)
	}
	return r, true
}

// less of the mode on element values (model-free reference for the oracle)
func lessOf(mode string) func(a, b elem) bool {
	if mode == "max" || mode == "gen" {
		return func(a, b elem) bool { return a.p > b.p }
	}
	return func(a, b elem) bool { return a.p < b.p }
}

func isHeap(l []elem, less func(a, b elem) bool) bool {
	for j := 1; j < len(l); j++ {
		if less(l[j], l[(j-1)/2]) {
			return false
		}
	}
	return true
}

func multiset(l []elem) string {
	s := make([]string, len(l))
	for i, e := range l {
		s[i] = showE(e)
	}
	sort.Strings(s)
	return strings.Join(s, ",")
}

func (prop) RunImpl(c corr.Case) ([]string, []corr.Fail) {
	var out []string
	var fails []corr.Fail
	var b box
	mode := ""
	wasHeap := false // the array was a heap before the op (the oracle only speaks about heaps)
	for i, op := range c.Ops {
		w := strings.Fields(op)
		line := func() (line string) {
			defer func() {
				if r := recover(); r != nil {
					line = "panic " + showL(b.dump())
				}
			}()
			if len(w) == 0 {
				return "bad-op"
			}
			if w[0] == "reset" {
				if len(w) != 2 || newBox(w[1]) == nil {
					return "bad-op"
				}
				mode = w[1]
				b = newBox(mode)
				b.load(nil)
				return "ok []"
			}
			if b == nil {
				return "bad-op"
			}
			less := lessOf(mode)
			before := b.dump()
			switch {
			case w[0] == "load" && len(w) == 2:
				l, ok := parseL(w[1])
				if !ok {
					return "bad-op"
				}
				b.load(l)
				return "ok " + showL(b.dump())
			case w[0] == "init" && len(w) == 1:
				heap.Init(b)
				after := b.dump()
				if !isHeap(after, less) {
					fails = append(fails, corr.Fail{Sig: "libheap-init-not-heap", Detail: showL(after), Op: i})
				}
				if multiset(before) != multiset(after) {
					fails = append(fails, corr.Fail{Sig: "libheap-multiset-changed", Detail: op, Op: i})
				}
				return "ok " + showL(after)
			case w[0] == "push" && len(w) == 2:
				e, ok := parseE(w[1])
				if !ok {
					return "bad-op"
				}
				heap.Push(b, b.mk(e))
				after := b.dump()
				if wasHeapNow(before, less) && !isHeap(after, less) {
					fails = append(fails, corr.Fail{Sig: "libheap-push-breaks-heap", Detail: showL(after), Op: i})
				}
				if multiset(append(append([]elem{}, before...), e)) != multiset(after) {
					fails = append(fails, corr.Fail{Sig: "libheap-multiset-changed", Detail: op, Op: i})
				}
				return "ok " + showL(after)
			case w[0] == "pop" && len(w) == 1:
				x := b.un(heap.Pop(b))
				after := b.dump()
				if wasHeapNow(before, less) {
					if !isHeap(after, less) {
						fails = append(fails, corr.Fail{Sig: "libheap-pop-breaks-heap", Detail: showL(after), Op: i})
					}
					for _, r := range after {
						if less(r, x) {
							fails = append(fails, corr.Fail{Sig: "libheap-pop-not-minimum", Detail: showE(x) + " " + showL(after), Op: i})
							break
						}
					}
				}
				if multiset(append(append([]elem{}, after...), x)) != multiset(before) {
					fails = append(fails, corr.Fail{Sig: "libheap-multiset-changed", Detail: op, Op: i})
				}
				return showE(x) + " " + showL(after)
			case w[0] == "remove" && len(w) == 2:
				k, err := strconv.Atoi(w[1])
				if err != nil || k < 0 {
					return "bad-op"
				}
				var want elem
				if k < len(before) {
					want = before[k]
				}
				x := b.un(heap.Remove(b, k))
				after := b.dump()
				if x != want {
					fails = append(fails, corr.Fail{Sig: "libheap-remove-wrong-element", Detail: op, Op: i})
				}
				if wasHeapNow(before, less) && !isHeap(after, less) {
					fails = append(fails, corr.Fail{Sig: "libheap-remove-breaks-heap", Detail: showL(after), Op: i})
				}
				if multiset(append(append([]elem{}, after...), x)) != multiset(before) {
					fails = append(fails, corr.Fail{Sig: "libheap-multiset-changed", Detail: op, Op: i})
				}
				return showE(x) + " " + showL(after)
			case w[0] == "fix" && len(w) == 3:
				k, err := strconv.Atoi(w[1])
				e, ok := parseE(w[2])
				if err != nil || k < 0 || !ok {
					return "bad-op"
				}
				b.set(k, e)
				heap.Fix(b, k)
				after := b.dump()
				if wasHeapNow(before, less) && !isHeap(after, less) {
					fails = append(fails, corr.Fail{Sig: "libheap-fix-breaks-heap", Detail: showL(after), Op: i})
				}
				return "ok " + showL(after)
			case w[0] == "isheap" && len(w) == 1:
				return fmt.Sprintf("%v %s", isHeap(before, less), showL(before))
			case w[0] == "drain" && len(w) == 1:
				var r []elem
				for b.Len() > 0 {
					r = append(r, b.un(heap.Pop(b)))
				}
				if wasHeapNow(before, less) {
					for k := 1; k < len(r); k++ {
						if less(r[k], r[k-1]) {
							fails = append(fails, corr.Fail{Sig: "libheap-drain-not-sorted", Detail: showL(r), Op: i})
							break
						}
					}
				}
				if multiset(r) != multiset(before) {
					fails = append(fails, corr.Fail{Sig: "libheap-multiset-changed", Detail: op, Op: i})
				}
				if r == nil {
					r = []elem{}
				}
				return showL(r) + " []"
			}
			return "bad-op"
		}()
		_ = wasHeap
		out = append(out, line)
	}
	return out, fails
}

func wasHeapNow(l []elem, less func(a, b elem) bool) bool { return isHeap(l, less) }

func (prop) Classify(c corr.Case, out []string) string {
	kinds := map[string]bool{}
	ties := false
	maxLen := 0
	for i, op := range c.Ops {
		if i >= len(out) {
			break
		}
		w := strings.Fields(op)
		if len(w) == 0 {
			continue
		}
		k := w[0]
		if strings.HasPrefix(out[i], "panic") {
			k += "!"
		}
		if w[0] == "reset" && len(w) > 1 {
			k = w[1]
		}
		kinds[k] = true
		if j := strings.Index(out[i], "["); j >= 0 {
			l, ok := parseL(strings.TrimSpace(out[i][j:]))
			if ok {
				if len(l) > maxLen {
					maxLen = len(l)
				}
				seen := map[uint64]bool{}
				for _, e := range l {
					if seen[e.p] {
						ties = true
					}
					seen[e.p] = true
				}
			}
		}
	}
	if maxLen < 3 {
		return ""
	}
	ks := []string{}
	for k := range kinds {
		ks = append(ks, k)
	}
	sort.Strings(ks)
	sz := "s"
	if maxLen > 15 {
		sz = "m"
	}
	if maxLen > 100 {
		sz = "l"
	}
	return fmt.Sprintf("%s ties=%v size=%s", strings.Join(ks, "+"), ties, sz)
}

func genElem(rng *rand.Rand, mode string, prange int, next *uint64) elem {
	e := elem{p: uint64(rng.Intn(prange))}
	if rng.Intn(40) == 0 {
		e.p = uint64(1)<<62 + uint64(rng.Intn(3)) // large priorities (int / uint64 conversions in the gen heap)
	}
	if mode != "nonce" {
		e.id = *next
		*next++
	}
	return e
}

func genCase(rng *rand.Rand, maxSize, nOps int) corr.Case {
	modes := []string{"min", "max", "nonce", "gen"}
	mode := modes[rng.Intn(len(modes))]
	prange := []int{2, 3, 5, 10, 1000}[rng.Intn(5)]
	var next uint64
	ops := []string{"reset " + mode}
	size := 0
	startHeap := rng.Intn(4) != 0
	if rng.Intn(3) != 0 {
		n := rng.Intn(maxSize + 1)
		l := make([]elem, n)
		for i := range l {
			l[i] = genElem(rng, mode, prange, &next)
		}
		ops = append(ops, "load "+showL(l))
		size = n
		if startHeap {
			ops = append(ops, "init")
		}
	}
	for k := 0; k < nOps; k++ {
		switch r := rng.Intn(100); {
		case r < 35 && size < maxSize:
			ops = append(ops, "push "+showE(genElem(rng, mode, prange, &next)))
			size++
		case r < 55:
			ops = append(ops, "pop")
			if size > 0 {
				size--
			}
		case r < 68:
			i := rng.Intn(size + 2)
			if size > 0 && rng.Intn(8) != 0 {
				i = rng.Intn(size)
			}
			ops = append(ops, fmt.Sprintf("remove %d", i))
			if i < size {
				size--
			}
		case r < 85:
			i := rng.Intn(size + 2)
			if size > 0 && rng.Intn(8) != 0 {
				i = rng.Intn(size)
			}
			ops = append(ops, fmt.Sprintf("fix %d %s", i, showE(genElem(rng, mode, prange, &next))))
		case r < 92:
			ops = append(ops, "isheap")
		case r < 95:
			ops = append(ops, "init")
		default:
			ops = append(ops, "drain")
			size = 0
		}
	}
	ops = append(ops, "isheap", "drain")
	return corr.Case{Ops: ops, Tag: mode}
}

func directed() []corr.Case {
	var cs []corr.Case
	for _, m := range []string{"min", "max", "nonce", "gen"} {
		cs = append(cs,
			corr.Case{Ops: []string{"reset " + m, "pop"}, Tag: "d-empty"},
			corr.Case{Ops: []string{"reset " + m, "remove 0", "fix 0 1:0", "init", "drain", "isheap"}, Tag: "d-empty"},
			corr.Case{Ops: []string{"reset " + m, "push 1:0", "remove 1", "remove 0", "pop"}, Tag: "d-one"},
			corr.Case{Ops: []string{"reset " + m, "load 5:0,3:0,3:0,1:0,4:0,1:0", "init", "isheap", "push 0:0", "pop", "remove 2", "fix 1 9:0", "fix 9 1:0", "drain", "pop"}, Tag: "d-mixed"},
		)
	}
	return cs
}

func (prop) Generate(rng *rand.Rand, tier string) []corr.Case {
	n, nBig := 3000, 6
	maxBig := 300
	if tier == "thorough" {
		n, nBig, maxBig = 60000, 60, 2000
	}
	cases := directed()
	for i := 0; i < n; i++ {
		cases = append(cases, genCase(rng, []int{3, 7, 8, 15, 16, 40}[rng.Intn(6)], 5+rng.Intn(40)))
	}
	for i := 0; i < nBig; i++ {
		cases = append(cases, genCase(rng, maxBig, 200+rng.Intn(400)))
	}
	return cases
}
