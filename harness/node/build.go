package node

import (
	"bytes"
	"encoding/json"
	"errors"
	"fmt"

	"github.com/LiskHQ/lisk-engine/pkg/blockchain"
	"github.com/LiskHQ/lisk-engine/pkg/codec"
	"github.com/LiskHQ/lisk-engine/pkg/crypto"
	"github.com/LiskHQ/lisk-engine/pkg/trie/rmt"
)

// BlockOpts selects the content of a block built on the current tip. The zero value builds the
// next honest, empty block.
type BlockOpts struct {
	// SlotsAhead is the distance of the block's slot from the tip's slot. 0 means: 1 if Generator is
	// nil, otherwise the first later slot that is assigned to Generator (1 if it is not a generator).
	SlotsAhead int
	// TimestampOffset is added to the slot start time (must stay below BlockTime to remain in the slot).
	TimestampOffset uint32
	// Generator signs the block and is put into generatorAddress (default: the generator assigned to the slot).
	Generator *Validator
	// SignWith overrides only the signing key (generatorAddress stays Generator's).
	SignWith *Validator
	Txs      []*blockchain.Transaction
	Assets   []*blockchain.BlockAsset
	// MaxHeightGenerated (default: truthful = Generator.MaxHeightGenerated).
	MaxHeightGenerated *uint32
	// MaxHeightPrevoted (default: the node's current value).
	MaxHeightPrevoted *uint32
	// ImpliesMaxPrevotes (default: value of bft API ImpliesMaximalPrevotes for this header; note
	// that nothing in the repository verifies this header field and pkg/generator leaves it false).
	ImpliesMaxPrevotes *bool
	// AggregateCommit (default: Executer.GetAggregateCommit()).
	AggregateCommit *blockchain.AggregateCommit
	// ValidatorChange is returned by the mock application from AfterTransactionsExecute of this block.
	ValidatorChange *ValidatorChange
	// BeforeEvents/AfterEvents are emitted by the mock application in the two block hooks.
	BeforeEvents, AfterEvents []*blockchain.Event
	// FailHook makes the mock application fail in that hook when this block executes.
	FailHook Hook
	// Mutate is applied to the complete block just before signing (single-field alterations that
	// keep a valid signature). Use Resign afterwards for alterations after building.
	Mutate func(b *blockchain.Block)
}

// U32 returns a pointer to v (for the optional fields of BlockOpts).
func U32(v uint32) *uint32 { return &v }

// Bool returns a pointer to v.
func Bool(v bool) *bool { return &v }

// SlotOf returns the first SlotsAhead >= 1 whose slot (for a block on the current tip) is assigned
// to v, or 0 if v is not a generator at the next height.
func (n *Node) SlotOf(v *Validator) int {
	tip := n.Tip().Header
	gens, err := n.Generators(tip.Height + 1)
	if err != nil || len(gens) == 0 {
		return 0
	}
	bs := n.BlockSlot()
	tipSlot := bs.GetSlotNumber(tip.Timestamp)
	for d := 1; d <= len(gens); d++ {
		g, _ := gens.AtTimestamp(bs, bs.GetSlotTime(tipSlot+d))
		if bytes.Equal(g.Address(), v.Address) {
			return d
		}
	}
	return 0
}

// GeneratorAt returns the key holder assigned to the slot SlotsAhead after the tip's slot.
func (n *Node) GeneratorAt(slotsAhead int) (*Validator, error) {
	tip := n.Tip().Header
	gens, err := n.Generators(tip.Height + 1)
	if err != nil {
		return nil, err
	}
	bs := n.BlockSlot()
	g, err := gens.AtTimestamp(bs, bs.GetSlotTime(bs.GetSlotNumber(tip.Timestamp)+slotsAhead))
	if err != nil {
		return nil, err
	}
	v := n.ValidatorByAddress(g.Address())
	if v == nil {
		return nil, fmt.Errorf("node: generator %x has no known keys", []byte(g.Address()))
	}
	return v, nil
}

func (o *BlockOpts) script() *Script {
	s := &Script{Before: ToScriptEvents(o.BeforeEvents), After: ToScriptEvents(o.AfterEvents), FailHook: string(o.FailHook)}
	if o.ValidatorChange != nil {
		s.Validators = scriptValidators(o.ValidatorChange.Validators)
		s.Precommit = o.ValidatorChange.PrecommitThreshold
		s.Certificate = o.ValidatorChange.CertificateThreshold
	}
	return s
}

// BuildBlock builds a block that Executer.process accepts when applied to the current tip (unless
// the options ask for something invalid). It does not modify the node: all BFT computations run on
// a staged store that is discarded.
func (n *Node) BuildBlock(opts BlockOpts) (*blockchain.Block, error) {
	tip := n.Tip().Header
	height := tip.Height + 1
	bs := n.BlockSlot()
	slots := opts.SlotsAhead
	if slots == 0 {
		slots = 1
		if opts.Generator != nil {
			if d := n.SlotOf(opts.Generator); d > 0 {
				slots = d
			}
		}
	}
	timestamp := bs.GetSlotTime(bs.GetSlotNumber(tip.Timestamp)+slots) + opts.TimestampOffset
	gen := opts.Generator
	if gen == nil {
		var err error
		gen, err = n.GeneratorAt(slots)
		if err != nil {
			return nil, err
		}
	}
	store := n.Store()
	mhp, _, _, err := n.BFT().API().GetBFTHeights(store)
	if err != nil {
		return nil, err
	}
	if opts.MaxHeightPrevoted != nil {
		mhp = *opts.MaxHeightPrevoted
	}
	mhg := gen.MaxHeightGenerated
	if opts.MaxHeightGenerated != nil {
		mhg = *opts.MaxHeightGenerated
	}
	ac := opts.AggregateCommit
	if ac == nil {
		ac, err = n.Exec.GetAggregateCommit()
		if err != nil {
			return nil, err
		}
	}
	assets := append([]*blockchain.BlockAsset{}, opts.Assets...)
	if s := opts.script(); !s.empty() {
		data, err := json.Marshal(s)
		if err != nil {
			return nil, err
		}
		assets = append(assets, &blockchain.BlockAsset{Module: ScriptModule, Data: data})
	}
	assets = sortAssets(assets)
	txs := append([]*blockchain.Transaction{}, opts.Txs...)
	txIDs := make([][]byte, len(txs))
	for i, tx := range txs {
		txIDs[i] = tx.ID
	}
	events := ExpectedEvents(height, assets, txs)
	eventRoot, err := blockchain.CalculateEventRoot(events)
	if err != nil {
		return nil, err
	}
	var validatorsHash []byte
	if vc := opts.ValidatorChange; vc != nil && (len(vc.Validators) != 0 || vc.PrecommitThreshold != 0 || vc.CertificateThreshold != 0) {
		validatorsHash, err = ValidatorsHashOf(vc.Validators, vc.CertificateThreshold)
		if err != nil {
			return nil, err
		}
	} else {
		params, err := n.BFT().API().GetBFTParameters(store, height+1)
		if err != nil {
			return nil, err
		}
		validatorsHash = params.ValidatorsHash()
	}
	header := &blockchain.BlockHeader{
		Version:            2,
		Timestamp:          timestamp,
		Height:             height,
		PreviousBlockID:    append([]byte{}, tip.ID...),
		GeneratorAddress:   append([]byte{}, gen.Address...),
		TransactionRoot:    rmt.CalculateRoot(txIDs),
		AssetRoot:          blockchain.BlockAssets(assets).GetRoot(),
		EventRoot:          eventRoot,
		StateRoot:          PredictStateRoot(tip.StateRoot, height, txs),
		MaxHeightPrevoted:  mhp,
		MaxHeightGenerated: mhg,
		ValidatorsHash:     append([]byte{}, validatorsHash...),
		AggregateCommit:    ac,
	}
	if opts.ImpliesMaxPrevotes != nil {
		header.ImpliesMaxPrevotes = *opts.ImpliesMaxPrevotes
	} else {
		header.ImpliesMaxPrevotes = n.impliesMaxPrevotes(header)
	}
	block := &blockchain.Block{Header: header, Transactions: txs, Assets: assets}
	if opts.Mutate != nil {
		opts.Mutate(block)
	}
	signer := gen
	if opts.SignWith != nil {
		signer = opts.SignWith
	}
	block.Header.Sign(n.Cfg.ChainID, signer.EdPriv)
	return block, nil
}

// impliesMaxPrevotes evaluates the bft API on a staged store after inserting the header, like
// getABIConsensus does during execution; the store is discarded.
func (n *Node) impliesMaxPrevotes(h *blockchain.BlockHeader) (res bool) {
	defer func() {
		if recover() != nil {
			res = false
		}
	}()
	store := n.Store()
	if err := n.BFT().BeforeTransactionsExecute(h.Readonly(), store); err != nil {
		return false
	}
	r, err := n.BFT().API().ImpliesMaximalPrevotes(store, h.Readonly())
	if err != nil {
		return false
	}
	return r
}

// Resign signs the (modified) header again with v's key and recomputes the block ID.
func (n *Node) Resign(b *blockchain.Block, v *Validator) {
	b.Header.Sign(n.Cfg.ChainID, v.EdPriv)
}

// CopyBlock deep-copies a block through its wire encoding (as a block received from a peer).
func CopyBlock(b *blockchain.Block) (*blockchain.Block, error) {
	return blockchain.NewBlock(b.Encode())
}

// NewTransaction returns a signed transaction that passes Transaction.Validate. params[0] and
// params[1] script the mock application's VerifyTransaction / ExecuteTransaction verdicts.
func (n *Node) NewTransaction(sender *Validator, nonce, fee uint64, params []byte) *blockchain.Transaction {
	tx := &blockchain.Transaction{
		Module:          "token",
		Command:         "transfer",
		Nonce:           nonce,
		Fee:             fee,
		SenderPublicKey: append([]byte{}, sender.EdPub...),
		Params:          append([]byte{}, params...),
	}
	tx.Signatures = []codec.Hex{tx.GetSignature(n.Cfg.ChainID, sender.EdPriv)}
	tx.Init()
	return tx
}

// Result describes what one Process/ProcessValidated/DeleteTip call did.
type Result struct {
	Err          error
	TipBefore    []byte
	TipAfter     []byte
	HeightBefore uint32
	HeightAfter  uint32
	Applied      bool // the given block is the tip now and was not before
	TipChanged   bool
	// ForkChoice is the classification process makes for the block against the tip: "identical",
	// "valid", "doubleForging", "tieBreak", "differentChain" or "discard" ("" for other calls).
	ForkChoice string
}

// ErrWouldSync is returned by Process when the fork choice sends the block to the synchroniser
// ("differentChain"): that path issues RPCs on the p2p connection, which is never started in this
// harness (the request goroutine would crash the process with a nil dereference). Set
// Node.AllowSync to call process anyway.
var ErrWouldSync = errors.New("node: block would start a sync (different chain); not processed")

func (n *Node) guard(f func() error) (err error) {
	defer func() {
		if r := recover(); r != nil {
			err = &PanicError{Value: r}
		}
	}()
	return f()
}

func (n *Node) run(b *blockchain.Block, f func() error) Result {
	before := n.Tip().Header
	res := Result{TipBefore: append([]byte{}, before.ID...), HeightBefore: before.Height}
	res.Err = n.guard(f)
	after := n.Tip().Header
	res.TipAfter = append([]byte{}, after.ID...)
	res.HeightAfter = after.Height
	res.TipChanged = !bytes.Equal(res.TipBefore, res.TipAfter)
	if b != nil {
		res.Applied = res.TipChanged && bytes.Equal(after.ID, b.Header.ID)
		if res.Applied {
			if v := n.ValidatorByAddress(b.Header.GeneratorAddress); v != nil && b.Header.Height > v.MaxHeightGenerated {
				v.MaxHeightGenerated = b.Header.Height
			}
		}
	}
	n.pump()
	n.LastResult = res
	return res
}

// ProcessResult runs Executer.process on a wire copy of the block with a non-empty peer id (so
// nothing is published) and reports the error together with what happened to the tip. process
// returns nil for several "discard" outcomes; check Applied.
// copyIn is CopyBlock, except that a header set in NextWireHeader (consumed here) replaces the canonical header
// bytes inside the wire form: the block arrives the way a peer sent it, e.g. NON-canonically encoded.
func (n *Node) copyIn(b *blockchain.Block) (*blockchain.Block, error) {
	if n.NextWireHeader == nil {
		return CopyBlock(b)
	}
	raw := &blockchain.RawBlock{Header: n.NextWireHeader, Transactions: [][]byte{}, Assets: [][]byte{}}
	n.NextWireHeader = nil
	for _, tx := range b.Transactions {
		raw.Transactions = append(raw.Transactions, tx.Encode())
	}
	for _, a := range b.Assets {
		raw.Assets = append(raw.Assets, a.Encode())
	}
	return blockchain.NewBlock(raw.Encode())
}

func (n *Node) ProcessResult(b *blockchain.Block) Result {
	cp, err := n.copyIn(b)
	if err != nil {
		r := n.run(nil, func() error { return fmt.Errorf("node: block does not decode: %w", err) })
		return r
	}
	return n.processGuarded(cp)
}

func (n *Node) processGuarded(b *blockchain.Block) Result {
	fc := ""
	r := n.run(b, func() error {
		var err error
		fc, err = n.Exec.VerifForkChoice(b)
		if err != nil {
			return err
		}
		if fc == "differentChain" && !n.AllowSync {
			return ErrWouldSync
		}
		return n.Exec.VerifProcess(n.ctx, b, n.PeerID)
	})
	r.ForkChoice = fc
	n.LastResult = r
	return r
}

// ForkChoice classifies a block against the current tip as process would, without processing it.
func (n *Node) ForkChoice(b *blockchain.Block) string {
	fc, err := n.Exec.VerifForkChoice(b)
	if err != nil {
		return "error: " + err.Error()
	}
	return fc
}

// Process is ProcessResult(b).Err.
func (n *Node) Process(b *blockchain.Block) error { return n.ProcessResult(b).Err }

// ProcessRaw runs Executer.process on the given object itself (no wire copy).
func (n *Node) ProcessRaw(b *blockchain.Block) Result {
	return n.processGuarded(b)
}

// ProcessValidated runs Executer.processValidated (publish=false) on a wire copy of the block.
func (n *Node) ProcessValidated(b *blockchain.Block, removeTemp bool) error {
	cp, err := CopyBlock(b)
	if err != nil {
		return err
	}
	return n.run(cp, func() error { return n.Exec.VerifProcessValidated(n.ctx, cp, false, removeTemp) }).Err
}

// DeleteTip runs Executer.deleteBlock on the current tip.
func (n *Node) DeleteTip(saveTemp bool) error {
	tip := n.Tip()
	return n.run(nil, func() error { return n.Exec.VerifDeleteBlock(n.ctx, tip, saveTemp) }).Err
}

// DeleteBlock runs Executer.deleteBlock on an arbitrary block object.
func (n *Node) DeleteBlock(b *blockchain.Block, saveTemp bool) error {
	return n.run(nil, func() error { return n.Exec.VerifDeleteBlock(n.ctx, b, saveTemp) }).Err
}

// VerifyBlock runs Executer.verifyBlock against a fresh staged store (nothing is written).
func (n *Node) VerifyBlock(b *blockchain.Block) error {
	return n.guard(func() error { return n.Exec.VerifVerifyBlock(n.Store(), b) })
}

// ErrNotApplied is returned by Extend when process returned nil but discarded the block.
var ErrNotApplied = errors.New("node: block was not applied")

// Extend builds and processes k blocks, one per consecutive slot, each by the generator assigned
// to the slot, with truthful maxHeightGenerated. mod (optional) adjusts the options of the i-th block.
func (n *Node) Extend(k int, mod ...func(i int, o *BlockOpts)) ([]*blockchain.Block, error) {
	var res []*blockchain.Block
	for i := 0; i < k; i++ {
		o := BlockOpts{}
		for _, m := range mod {
			m(i, &o)
		}
		b, err := n.BuildBlock(o)
		if err != nil {
			return res, fmt.Errorf("build block %d: %w", i, err)
		}
		r := n.ProcessResult(b)
		if r.Err != nil {
			return res, fmt.Errorf("process block %d (height %d): %w", i, b.Header.Height, r.Err)
		}
		if !r.Applied {
			return res, fmt.Errorf("block %d (height %d): %w", i, b.Header.Height, ErrNotApplied)
		}
		res = append(res, b)
	}
	return res, nil
}

// HashHex is a short printable id.
func HashHex(b []byte) string {
	if len(b) > 6 {
		b = b[:6]
	}
	return fmt.Sprintf("%x", b)
}

var _ = crypto.Hash
