package node

import "sync"

// Lenient reverts of the mock application (used by the stale-argument family of C04, harness/c04/stale.go).
//
// By default MockABI.Revert answers only a request that names the application's tip (height and state root): it
// plays a careful application. With SetLenientRevert(true) it plays an application that keeps its own undo log
// and never looks at the request (as the trivial applications of the repository's tests do): Revert pops the newest
// committed block whatever header / state roots the request names. That is what shows what the ENGINE does with a
// revert request for a block that is not the tip.

var lenientABIs sync.Map // *MockABI -> struct{}

// SetLenientRevert switches the lenient mode of Revert on or off.
func (m *MockABI) SetLenientRevert(on bool) {
	if on {
		lenientABIs.Store(m, struct{}{})
	} else {
		lenientABIs.Delete(m)
	}
}

// lenientRevert reports whether Revert is in lenient mode.
func (m *MockABI) lenientRevert() bool {
	_, ok := lenientABIs.Load(m)
	return ok
}
