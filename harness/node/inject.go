package node

import (
	"fmt"
	"reflect"
	"sync"
	"time"

	"github.com/LiskHQ/lisk-engine/pkg/blockchain"
	"github.com/LiskHQ/lisk-engine/pkg/consensus"
	"github.com/LiskHQ/lisk-engine/pkg/labi"
	"github.com/LiskHQ/lisk-engine/pkg/p2p"
)

// Failure injection for ONE step of the node (Executer.process / processValidated / deleteBlock /
// deleteTillCommonBlock): "errors after the point of no return".
//
// An injection kind is the name of a method of labi.ABI (the mock application answers the next call of that
// method with ErrInjected - whether or not the engine calls the method on the consensus path today) or one of
// the pseudo kinds below, which disturb the other fallible calls a step makes around its database write.
const (
	// InjSlowSubscriber: additional UNBUFFERED subscribers of the block events that take their time to receive:
	// every Publish of the step blocks until they did.
	InjSlowSubscriber = "SlowSubscriber"
	// InjP2PPublish: the step runs with publish=true (as for a block of the node's own generator) on a connection
	// without topics: Connection.Publish answers ErrTopicNotFound in the step's publish goroutine.
	InjP2PPublish = "P2PPublish"
)

// InjectionKinds lists every injection kind: all methods of labi.ABI (by reflection, so that a method added to the
// interface is swept as soon as the mock implements it) and the pseudo kinds.
func InjectionKinds() []string {
	t := reflect.TypeOf((*labi.ABI)(nil)).Elem()
	var res []string
	for i := 0; i < t.NumMethod(); i++ {
		res = append(res, t.Method(i).Name)
	}
	return append(res, InjSlowSubscriber, InjP2PPublish)
}

// Injectable reports whether the mock application can fail the ABI method of that name on request.
func Injectable(kind string) bool {
	for _, h := range AllHooks {
		if string(h) == kind {
			return true
		}
	}
	return kind == InjSlowSubscriber || kind == InjP2PPublish
}

// Injection is an armed failure; Disarm must be called when the step is over.
type Injection struct {
	n      *Node
	kind   string
	peer   p2p.PeerID
	subs   []slowSub
	wg     sync.WaitGroup
	closed bool
}

type slowSub struct {
	topic string
	ch    chan interface{}
}

// Arm prepares the failure `kind` for the next step.
func (n *Node) Arm(kind string) (*Injection, error) {
	if !Injectable(kind) {
		return nil, fmt.Errorf("node: unknown injection kind %q", kind)
	}
	inj := &Injection{n: n, kind: kind, peer: n.PeerID}
	n.ABI.TakeFired()
	switch kind {
	case InjSlowSubscriber:
		if n.Exec == nil {
			return inj, nil
		}
		for _, topic := range []string{consensus.EventBlockFinalize, consensus.EventBlockNew, consensus.EventBlockDelete} {
			ch := n.Exec.VerifEvents().Subscribe(topic)
			inj.subs = append(inj.subs, slowSub{topic, ch})
			inj.wg.Add(1)
			go func() {
				defer inj.wg.Done()
				for {
					time.Sleep(2 * time.Millisecond)
					if _, ok := <-ch; !ok {
						return
					}
				}
			}()
		}
	case InjP2PPublish:
		n.PeerID = "" // Executer.process publishes blocks that carry no peer id
	default:
		n.ABI.InjectFailure(Hook(kind), 1)
	}
	return inj, nil
}

// Publish reports whether processValidated has to be called with publish=true under this injection.
func (i *Injection) Publish() bool { return i != nil && i.kind == InjP2PPublish }

// Disarm removes what is left of the injection and returns the application hooks whose injected failure
// was consumed by the step.
func (i *Injection) Disarm() []Hook {
	if i == nil || i.closed {
		return nil
	}
	i.closed = true
	n := i.n
	n.PeerID = i.peer
	for _, s := range i.subs {
		if n.Exec != nil {
			_ = n.Exec.VerifEvents().Unsubscribe(s.topic, s.ch)
		}
	}
	if n.Exec != nil {
		i.wg.Wait()
	}
	n.ABI.ClearInjections()
	return n.ABI.TakeFired()
}

// ProcessValidatedPublish is ProcessValidated with the publish flag of Executer.processValidated.
func (n *Node) ProcessValidatedPublish(b *blockchain.Block, removeTemp, publish bool) error {
	cp, err := n.copyIn(b)
	if err != nil {
		return err
	}
	return n.run(cp, func() error { return n.Exec.VerifProcessValidated(n.ctx, cp, publish, removeTemp) }).Err
}
