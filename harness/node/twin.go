package node

// Twin starts a SECOND node object over the database handle and the mock application of n: a new
// Connection, Chain and Executer are built and initialised exactly as Restart does (Chain.Init,
// Executer.Init with the block cache prepared from the database), while n itself is left untouched.
// The twin is what the node would be had it been restarted at this moment: it shares the persistent
// state with n and nothing else (no memory of earlier calls, an empty certificate pool).
//
// It serves history-independence oracles: an answer of n that a freshly restarted node would not give
// on the same database depends on something n remembered across chain changes.  The twin must only
// be used for calls that do not write to the database, and has to be released with Release (NOT
// Close: the database belongs to n).
func (n *Node) Twin() (*Node, error) {
	t := &Node{
		Cfg:        n.Cfg,
		Validators: n.Validators,
		ABI:        n.ABI,
		DB:         n.DB,
		Genesis:    n.Genesis,
		Logger:     n.Logger,
		PeerID:     n.PeerID,
		evCh:       make(chan interface{}, 1<<10),
	}
	if err := t.start(); err != nil {
		t.stop()
		t.DB = nil
		return nil, err
	}
	return t, nil
}

// Release drops the objects of a twin (the shared database stays open).
func (t *Node) Release() {
	t.stop()
	t.DB = nil
	t.pending = nil
}
