package node

// The certified height as a function of the chain contents (reference for the oracles of C06; see
// harness/c06/certified.go).

import (
	"errors"
	"fmt"

	"github.com/LiskHQ/lisk-engine/pkg/blockchain"
)

// IncludedCommit is a non-empty aggregate commit carried by a block of the current chain.
type IncludedCommit struct {
	BlockHeight        uint32 // height of the carrying block
	Generator          []byte // generator address of the carrying block
	MaxHeightGenerated uint32 // maxHeightGenerated declared by the carrying block
	Commit             *blockchain.AggregateCommit
}

// CertifiedOfChain reads the certified height from the CHAIN CONTENTS ALONE (the headers genesis+1 .. tip
// through DataAccess; the consensus store is not consulted):
//
//	certified = max height of the non-empty aggregate commits included so far (the genesis height when none)
//
// included lists those commits in chain order (deep copies). violation describes the first block whose
// aggregate commit is neither the empty commit AT certified(prefix) nor a non-empty commit STRICTLY ABOVE
// certified(prefix) ("" when the chain is well formed); replay tells the two cases apart (true: a non-empty
// commit at or below the certified height was included again).
//
// It is the reference for "the last certified height is a function of the chain": after every block
// GetBFTHeights().MaxHeightCertified has to equal it, whatever kind of generator (BFT validator, standby
// generator without weight, header with maxHeightGenerated >= height) produced the carrying block.
func (n *Node) CertifiedOfChain() (certified uint32, included []IncludedCommit, violation string, replay bool) {
	certified = n.Cfg.GenesisHeight
	tip := n.Tip()
	if tip == nil {
		return certified, nil, "", false
	}
	for h := n.Cfg.GenesisHeight + 1; h <= tip.Header.Height; h++ {
		hd, err := n.HeaderAt(h)
		if err != nil || hd.AggregateCommit == nil {
			continue
		}
		ac := hd.AggregateCommit
		if ac.Empty() {
			if ac.Height != certified && violation == "" {
				violation = fmt.Sprintf("block %d was accepted with the empty aggregate commit at height %d, but the chain below it has certified height %d", h, ac.Height, certified)
			}
			continue
		}
		if ac.Height <= certified && violation == "" {
			violation, replay = fmt.Sprintf("block %d was accepted with a non-empty aggregate commit for height %d, but the chain below it has certified height %d already", h, ac.Height, certified), true
		}
		if ac.Height > certified {
			certified = ac.Height
		}
		included = append(included, IncludedCommit{BlockHeight: h, Generator: append([]byte{}, hd.GeneratorAddress...), MaxHeightGenerated: hd.MaxHeightGenerated,
			Commit: &blockchain.AggregateCommit{Height: ac.Height, AggregationBits: append([]byte{}, ac.AggregationBits...), CertificateSignature: append([]byte{}, ac.CertificateSignature...)}})
	}
	return certified, included, violation, replay
}

// CheckCertified compares the consensus store with CertifiedOfChain (nil = they agree and the chain is well formed).
func (n *Node) CheckCertified() error {
	certified, _, violation, _ := n.CertifiedOfChain()
	if _, _, mhc := n.BFTHeights(); mhc != certified {
		return fmt.Errorf("maxHeightCertified %d, but the chain (tip %d) has certified height %d", mhc, n.Height(), certified)
	}
	if violation != "" {
		return errors.New(violation)
	}
	return nil
}
