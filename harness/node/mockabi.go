package node

import (
	"bytes"
	"crypto/sha256"
	"encoding/binary"
	"encoding/hex"
	"encoding/json"
	"errors"
	"fmt"
	"sort"
	"strings"
	"sync"

	"github.com/LiskHQ/lisk-engine/pkg/blockchain"
	"github.com/LiskHQ/lisk-engine/pkg/codec"
	"github.com/LiskHQ/lisk-engine/pkg/labi"
)

// Hook names one ABI entry point (used in the call log, in scripts and for fault injection).
type Hook string

const (
	HookInit             Hook = "Init"
	HookInitStateMachine Hook = "InitStateMachine"
	HookInitGenesisState Hook = "InitGenesisState"
	HookInsertAssets     Hook = "InsertAssets"
	HookVerifyAssets     Hook = "VerifyAssets"
	HookBeforeTxs        Hook = "BeforeTransactionsExecute"
	HookVerifyTx         Hook = "VerifyTransaction"
	HookExecuteTx        Hook = "ExecuteTransaction"
	HookAfterTxs         Hook = "AfterTransactionsExecute"
	HookCommit           Hook = "Commit"
	HookRevert           Hook = "Revert"
	HookClear            Hook = "Clear"
	HookFinalize         Hook = "Finalize"
	HookGetMetadata      Hook = "GetMetadata"
	HookQuery            Hook = "Query"
	HookProve            Hook = "Prove"
)

// AllHooks lists every entry point of labi.ABI; each of them can be made to fail with InjectFailure
// (also those the engine does not call on the consensus path today: Finalize, GetMetadata, Query, Prove).
var AllHooks = []Hook{HookInit, HookInitStateMachine, HookInitGenesisState, HookInsertAssets, HookVerifyAssets, HookBeforeTxs,
	HookVerifyTx, HookExecuteTx, HookAfterTxs, HookCommit, HookRevert, HookClear, HookFinalize, HookGetMetadata, HookQuery, HookProve}

// ScriptModule is the module name of the block asset that carries a block's Script. The mock
// application reads its scripted behaviour for a block from that asset, so a block behaves the
// same on every node (and after restarts) without any out-of-band registration.
const ScriptModule = "verifscript"

// Verdict bytes understood in Transaction.Params: Params[0] scripts VerifyTransaction, Params[1]
// scripts ExecuteTransaction. Missing bytes mean "ok".
const (
	TxOK      byte = 0 // verify: Result=Ok(1); execute: Result=Success(1)
	TxInvalid byte = 1 // verify: Result=Invalid(-1); execute: Result=Invalid(-1)
	TxError   byte = 2 // the ABI call returns a Go error
	TxFail    byte = 3 // verify: Result=Pending(0); execute: Result=Fail(0), standard event with success=false
)

// ErrInjected is returned by hooks that fail because of fault injection or a script.
var ErrInjected = errors.New("mockabi: injected failure")

// ErrStateRootMismatch is returned by Commit/Revert when the expected root is not the computed one.
var ErrStateRootMismatch = errors.New("mockabi: state root mismatch")

// ScriptEvent is the JSON form of an application event emitted by a scripted hook.
type ScriptEvent struct {
	Module string   `json:"m"`
	Name   string   `json:"n"`
	Data   string   `json:"d"` // hex
	Topics []string `json:"t"` // hex, 1..4 entries
}

// ScriptValidator is the JSON form of labi.Validator.
type ScriptValidator struct {
	Address      string `json:"a"`
	BFTWeight    uint64 `json:"w"`
	GeneratorKey string `json:"g"`
	BLSKey       string `json:"b"`
}

// ValidatorChange is returned by the mock application from AfterTransactionsExecute.
type ValidatorChange struct {
	Validators           []*labi.Validator
	PrecommitThreshold   uint64
	CertificateThreshold uint64
}

// Script is the behaviour of the mock application for one block; it travels inside the block as
// the data of the ScriptModule asset (JSON).
type Script struct {
	Before      []ScriptEvent     `json:"before,omitempty"`
	After       []ScriptEvent     `json:"after,omitempty"`
	Validators  []ScriptValidator `json:"validators,omitempty"`
	Precommit   uint64            `json:"precommit,omitempty"`
	Certificate uint64            `json:"certificate,omitempty"`
	FailHook    string            `json:"fail,omitempty"` // hook that returns ErrInjected for this block
}

func (s *Script) empty() bool {
	return s == nil || (len(s.Before) == 0 && len(s.After) == 0 && len(s.Validators) == 0 && s.Precommit == 0 && s.Certificate == 0 && s.FailHook == "")
}

// ToScriptEvents converts events to their script form (Height and Index are assigned at execution).
func ToScriptEvents(evs []*blockchain.Event) []ScriptEvent {
	res := make([]ScriptEvent, len(evs))
	for i, e := range evs {
		se := ScriptEvent{Module: e.Module, Name: e.Name, Data: hex.EncodeToString(e.Data)}
		for _, t := range e.Topics {
			se.Topics = append(se.Topics, hex.EncodeToString(t))
		}
		res[i] = se
	}
	return res
}

func fromScriptEvents(ses []ScriptEvent, height uint32) []*blockchain.Event {
	res := make([]*blockchain.Event, len(ses))
	for i, se := range ses {
		d, _ := hex.DecodeString(se.Data)
		topics := make([]codec.Hex, len(se.Topics))
		for j, t := range se.Topics {
			b, _ := hex.DecodeString(t)
			topics[j] = b
		}
		res[i] = &blockchain.Event{Module: se.Module, Name: se.Name, Data: d, Topics: topics, Height: height}
	}
	return res
}

func scriptValidators(vs []*labi.Validator) []ScriptValidator {
	res := make([]ScriptValidator, len(vs))
	for i, v := range vs {
		res[i] = ScriptValidator{Address: hex.EncodeToString(v.Address), BFTWeight: v.BFTWeight, GeneratorKey: hex.EncodeToString(v.GeneratorKey), BLSKey: hex.EncodeToString(v.BLSKey)}
	}
	return res
}

func labiValidators(vs []ScriptValidator) []*labi.Validator {
	res := make([]*labi.Validator, len(vs))
	for i, v := range vs {
		a, _ := hex.DecodeString(v.Address)
		g, _ := hex.DecodeString(v.GeneratorKey)
		b, _ := hex.DecodeString(v.BLSKey)
		res[i] = &labi.Validator{Address: a, BFTWeight: v.BFTWeight, GeneratorKey: g, BLSKey: b}
	}
	return res
}

// ScriptFromAssets extracts the script carried by a block (nil error and empty script if none).
func ScriptFromAssets(assets []*blockchain.BlockAsset) (*Script, error) {
	for _, a := range assets {
		if a != nil && a.Module == ScriptModule {
			s := &Script{}
			if err := json.Unmarshal(a.Data, s); err != nil {
				return &Script{}, err
			}
			return s, nil
		}
	}
	return &Script{}, nil
}

// PredictStateRoot is the state transition of the mock application:
// root(h) = SHA256(root(h-1) || uint32be(h) || txID_1 || ... || txID_n).
func PredictStateRoot(prev []byte, height uint32, txs []*blockchain.Transaction) []byte {
	h := sha256.New()
	h.Write(prev)
	var hb [4]byte
	binary.BigEndian.PutUint32(hb[:], height)
	h.Write(hb[:])
	for _, tx := range txs {
		h.Write(tx.ID)
	}
	return h.Sum(nil)
}

// TxEvent is the standard event the mock application emits for an executed transaction.
func TxEvent(tx *blockchain.Transaction, height uint32, success bool) *blockchain.Event {
	return &blockchain.Event{
		Module: tx.Module,
		Name:   blockchain.EventNameDefault,
		Data:   blockchain.NewStandardTransactionEventData(success),
		Topics: []codec.Hex{codec.Hex(append([]byte{}, tx.ID...))},
		Height: height,
	}
}

func verdict(tx *blockchain.Transaction, i int) byte {
	if len(tx.Params) > i {
		return tx.Params[i]
	}
	return TxOK
}

// ExpectedEvents returns the events (with Height and Index set) that the mock application emits
// when a block with the given content is executed successfully.
func ExpectedEvents(height uint32, assets []*blockchain.BlockAsset, txs []*blockchain.Transaction) []*blockchain.Event {
	s, _ := ScriptFromAssets(assets)
	evs := blockchain.Events{}
	evs = append(evs, fromScriptEvents(s.Before, height)...)
	for _, tx := range txs {
		evs = append(evs, TxEvent(tx, height, verdict(tx, 1) == TxOK))
	}
	evs = append(evs, fromScriptEvents(s.After, height)...)
	evs.UpdateIndex()
	return evs
}

// Call is one entry of the call log of the mock application.
type Call struct {
	Hook      Hook
	Height    uint32 // height of the header of the context (0 when not applicable)
	ContextID string
	Detail    string // hook specific: tx id, roots, result ...
	Err       string // error returned ("" if none)
}

func (c Call) String() string {
	return fmt.Sprintf("%s h=%d %s err=%q", c.Hook, c.Height, c.Detail, c.Err)
}

type rootEntry struct {
	Height uint32
	Root   []byte
}

type abiContext struct {
	id       []byte
	header   *blockchain.BlockHeader
	script   *Script
	executed []*blockchain.Transaction
}

// MockABI is a scripted, deterministic stand-in for the application behind labi.ABI.
//
// Its persistent state is the stack of (height, stateRoot) pairs of the committed blocks. It
// survives Node.Restart (the application is a separate process in a real deployment).
type MockABI struct {
	mu sync.Mutex

	// Genesis response.
	GenesisValidators  []*labi.Validator
	GenesisPrecommit   uint64
	GenesisCertificate uint64
	GenesisEvents      []*blockchain.Event

	// Calls is the call log (appended by every ABI call). Reset with ResetCalls.
	Calls []Call
	// Inconsistencies collects requests that a real application would consider a protocol violation
	// of the engine (commit on a wrong base root, revert of a block that is not the tip ...).
	Inconsistencies []string
	// LogCalls can be switched off for long runs.
	LogCalls bool
	// ConsensusSeen: what the engine told the application about the consensus state (labi.Consensus argument of
	// BeforeTransactionsExecute / AfterTransactionsExecute / ExecuteTransaction), one entry per call, when
	// RecordConsensus is set. A real application may make state and events depend on every field of it, so a block
	// must be given the same values when it is generated and when it is validated.
	RecordConsensus bool
	ConsensusSeen   []ConsensusSeen

	roots    []rootEntry
	contexts map[string]*abiContext
	ctxSeq   uint64
	inject   map[Hook]int // hook -> number of upcoming calls that fail
	fired    []Hook       // hooks whose injected failure was consumed since the last TakeFired
}

// ConsensusSeen is one labi.Consensus argument the application received.
type ConsensusSeen struct {
	Hook   Hook
	Height uint32
	TxID   string // ExecuteTransaction only
	Digest string // every field of the argument ("nil" for a missing argument)
}

// ConsensusDigest renders every field of a labi.Consensus.
func ConsensusDigest(c *labi.Consensus) string {
	if c == nil {
		return "nil"
	}
	var sb strings.Builder
	fmt.Fprintf(&sb, "implyMaxPrevote=%v maxHeightCertified=%d certificateThreshold=%d validators=", c.ImplyMaxPrevote, c.MaxHeightCertified, c.CertificateThreshold)
	for _, v := range c.CurrentValidators {
		if v == nil {
			sb.WriteString("nil;")
			continue
		}
		fmt.Fprintf(&sb, "%x:%d:%x:%x;", []byte(v.Address), v.BFTWeight, []byte(v.GeneratorKey), []byte(v.BLSKey))
	}
	return sb.String()
}

func (m *MockABI) seeConsensus(h Hook, ctx *abiContext, hdr *blockchain.BlockHeader, txID []byte, c *labi.Consensus) {
	if !m.RecordConsensus {
		return
	}
	e := ConsensusSeen{Hook: h, Digest: ConsensusDigest(c), TxID: hex.EncodeToString(txID)}
	if ctx != nil && ctx.header != nil {
		e.Height = ctx.header.Height
	} else if hdr != nil {
		e.Height = hdr.Height
	}
	m.ConsensusSeen = append(m.ConsensusSeen, e)
}

// TakeConsensusSeen returns and clears the recorded consensus arguments.
func (m *MockABI) TakeConsensusSeen() []ConsensusSeen {
	m.mu.Lock()
	defer m.mu.Unlock()
	r := m.ConsensusSeen
	m.ConsensusSeen = nil
	return r
}

// NewMockABI creates the mock application.
func NewMockABI() *MockABI {
	return &MockABI{contexts: map[string]*abiContext{}, inject: map[Hook]int{}, LogCalls: true}
}

var _ labi.ABI = (*MockABI)(nil)

// InjectFailure makes the next `times` calls of the hook return ErrInjected.
func (m *MockABI) InjectFailure(h Hook, times int) {
	m.mu.Lock()
	defer m.mu.Unlock()
	m.inject[h] = times
}

// ClearInjections drops every injected failure that was not consumed.
func (m *MockABI) ClearInjections() {
	m.mu.Lock()
	defer m.mu.Unlock()
	m.inject = map[Hook]int{}
}

// TakeFired returns the hooks whose injected failure (InjectFailure) was consumed since the last call, in call order.
func (m *MockABI) TakeFired() []Hook {
	m.mu.Lock()
	defer m.mu.Unlock()
	res := m.fired
	m.fired = nil
	return res
}

// ResetCalls empties the call log.
func (m *MockABI) ResetCalls() {
	m.mu.Lock()
	defer m.mu.Unlock()
	m.Calls = nil
}

// CallNames returns the hook names of the call log, in order.
func (m *MockABI) CallNames() []string {
	m.mu.Lock()
	defer m.mu.Unlock()
	res := make([]string, len(m.Calls))
	for i, c := range m.Calls {
		res[i] = string(c.Hook)
	}
	return res
}

// StateRoot returns the current application state root and the height it belongs to.
func (m *MockABI) StateRoot() (uint32, []byte) {
	m.mu.Lock()
	defer m.mu.Unlock()
	if len(m.roots) == 0 {
		return 0, []byte{}
	}
	last := m.roots[len(m.roots)-1]
	return last.Height, append([]byte{}, last.Root...)
}

// Depth is the number of committed blocks (including genesis) the application knows.
func (m *MockABI) Depth() int {
	m.mu.Lock()
	defer m.mu.Unlock()
	return len(m.roots)
}

// ABISnapshot is a copy of the persistent state of the mock application.
type ABISnapshot struct{ roots []rootEntry }

// Snapshot copies the persistent application state (for crash simulations where the application
// state has to be rewound together with the engine database).
func (m *MockABI) Snapshot() ABISnapshot {
	m.mu.Lock()
	defer m.mu.Unlock()
	return ABISnapshot{roots: append([]rootEntry{}, m.roots...)}
}

// Restore replaces the persistent application state.
func (m *MockABI) Restore(s ABISnapshot) {
	m.mu.Lock()
	defer m.mu.Unlock()
	m.roots = append([]rootEntry{}, s.roots...)
	m.contexts = map[string]*abiContext{}
}

// String renders the persistent state canonically.
func (m *MockABI) String() string {
	m.mu.Lock()
	defer m.mu.Unlock()
	var sb bytes.Buffer
	for _, r := range m.roots {
		fmt.Fprintf(&sb, "%d:%x ", r.Height, r.Root[:4])
	}
	return sb.String()
}

func (m *MockABI) log(h Hook, ctx *abiContext, detail string, err error) {
	if !m.LogCalls {
		return
	}
	c := Call{Hook: h, Detail: detail}
	if ctx != nil {
		c.ContextID = hex.EncodeToString(ctx.id)
		if ctx.header != nil {
			c.Height = ctx.header.Height
		}
	}
	if err != nil {
		c.Err = err.Error()
	}
	m.Calls = append(m.Calls, c)
}

// fail decides whether the hook fails for this call (injection or script).
func (m *MockABI) fail(h Hook, ctx *abiContext) error {
	if n := m.inject[h]; n > 0 {
		m.inject[h] = n - 1
		m.fired = append(m.fired, h)
		return fmt.Errorf("%w at %s", ErrInjected, h)
	}
	if ctx != nil && ctx.script != nil && ctx.script.FailHook == string(h) {
		return fmt.Errorf("%w at %s (script)", ErrInjected, h)
	}
	return nil
}

func (m *MockABI) context(id []byte) (*abiContext, error) {
	ctx, ok := m.contexts[string(id)]
	if !ok {
		m.Inconsistencies = append(m.Inconsistencies, fmt.Sprintf("unknown context %x", id))
		return nil, fmt.Errorf("mockabi: unknown context %x", id)
	}
	return ctx, nil
}

func (m *MockABI) setScript(ctx *abiContext, assets []*blockchain.BlockAsset) {
	if ctx.script == nil {
		s, err := ScriptFromAssets(assets)
		if err != nil {
			s = &Script{}
		}
		ctx.script = s
	}
}

func (m *MockABI) Init(req *labi.InitRequest) (*labi.InitResponse, error) {
	m.mu.Lock()
	defer m.mu.Unlock()
	err := m.fail(HookInit, nil)
	if err == nil && len(m.roots) > 0 {
		last := m.roots[len(m.roots)-1]
		if last.Height != req.LastBlockHeight || !bytes.Equal(last.Root, req.LastStateRoot) {
			m.Inconsistencies = append(m.Inconsistencies, fmt.Sprintf("Init with height %d root %x but application is at height %d root %x", req.LastBlockHeight, req.LastStateRoot, last.Height, last.Root))
		}
	}
	m.log(HookInit, nil, fmt.Sprintf("height=%d root=%x", req.LastBlockHeight, req.LastStateRoot), err)
	if err != nil {
		return nil, err
	}
	return &labi.InitResponse{}, nil
}

func (m *MockABI) InitStateMachine(req *labi.InitStateMachineRequest) (*labi.InitStateMachineResponse, error) {
	m.mu.Lock()
	defer m.mu.Unlock()
	m.ctxSeq++
	id := sha256.Sum256([]byte(fmt.Sprintf("ctx-%d", m.ctxSeq)))
	ctx := &abiContext{id: id[:], header: req.Header}
	err := m.fail(HookInitStateMachine, nil)
	m.log(HookInitStateMachine, ctx, fmt.Sprintf("block=%x", []byte(req.Header.ID)), err)
	if err != nil {
		return nil, err
	}
	m.contexts[string(ctx.id)] = ctx
	return &labi.InitStateMachineResponse{ContextID: ctx.id}, nil
}

func (m *MockABI) InitGenesisState(req *labi.InitGenesisStateRequest) (*labi.InitGenesisStateResponse, error) {
	m.mu.Lock()
	defer m.mu.Unlock()
	ctx, err := m.context(req.ContextID)
	if err == nil {
		err = m.fail(HookInitGenesisState, ctx)
	}
	m.log(HookInitGenesisState, ctx, "", err)
	if err != nil {
		return nil, err
	}
	evs := make([]*blockchain.Event, len(m.GenesisEvents))
	for i, e := range m.GenesisEvents {
		c := *e
		c.Height = ctx.header.Height
		evs[i] = &c
	}
	return &labi.InitGenesisStateResponse{
		Events:               evs,
		PreCommitThreshold:   m.GenesisPrecommit,
		CertificateThreshold: m.GenesisCertificate,
		NextValidators:       m.GenesisValidators,
	}, nil
}

func (m *MockABI) InsertAssets(req *labi.InsertAssetsRequest) (*labi.InsertAssetsResponse, error) {
	m.mu.Lock()
	defer m.mu.Unlock()
	ctx, err := m.context(req.ContextID)
	if err == nil {
		err = m.fail(HookInsertAssets, ctx)
	}
	m.log(HookInsertAssets, ctx, fmt.Sprintf("finalized=%d", req.FinalizedHeight), err)
	if err != nil {
		return nil, err
	}
	return &labi.InsertAssetsResponse{Assets: []*blockchain.BlockAsset{}}, nil
}

func (m *MockABI) VerifyAssets(req *labi.VerifyAssetsRequest) (*labi.VerifyAssetsResponse, error) {
	m.mu.Lock()
	defer m.mu.Unlock()
	ctx, err := m.context(req.ContextID)
	if err == nil {
		m.setScript(ctx, req.Assets)
		err = m.fail(HookVerifyAssets, ctx)
	}
	m.log(HookVerifyAssets, ctx, fmt.Sprintf("assets=%d", len(req.Assets)), err)
	if err != nil {
		return nil, err
	}
	return &labi.VerifyAssetsResponse{}, nil
}

func (m *MockABI) BeforeTransactionsExecute(req *labi.BeforeTransactionsExecuteRequest) (*labi.BeforeTransactionsExecuteResponse, error) {
	m.mu.Lock()
	defer m.mu.Unlock()
	ctx, err := m.context(req.ContextID)
	if err == nil {
		m.setScript(ctx, req.Assets)
		err = m.fail(HookBeforeTxs, ctx)
	}
	m.seeConsensus(HookBeforeTxs, ctx, nil, nil, req.Consensus)
	detail := ""
	if req.Consensus != nil {
		detail = fmt.Sprintf("implyMaxPrevote=%v mhc=%d certThreshold=%d validators=%d", req.Consensus.ImplyMaxPrevote, req.Consensus.MaxHeightCertified, req.Consensus.CertificateThreshold, len(req.Consensus.CurrentValidators))
	}
	m.log(HookBeforeTxs, ctx, detail, err)
	if err != nil {
		return nil, err
	}
	return &labi.BeforeTransactionsExecuteResponse{Events: fromScriptEvents(ctx.script.Before, ctx.header.Height)}, nil
}

func (m *MockABI) VerifyTransaction(req *labi.VerifyTransactionRequest) (*labi.VerifyTransactionResponse, error) {
	m.mu.Lock()
	defer m.mu.Unlock()
	var ctx *abiContext
	var err error
	if len(req.ContextID) != 0 {
		ctx, err = m.context(req.ContextID)
	}
	if err == nil {
		err = m.fail(HookVerifyTx, ctx)
	}
	res := labi.TxVerifyResultOk
	if err == nil {
		switch verdict(req.Transaction, 0) {
		case TxInvalid:
			res = labi.TxVerifyResultInvalid
		case TxFail:
			res = labi.TxVerifyResultPending
		case TxError:
			err = fmt.Errorf("%w: scripted VerifyTransaction error", ErrInjected)
		}
	}
	m.log(HookVerifyTx, ctx, fmt.Sprintf("tx=%x result=%d", []byte(req.Transaction.ID), res), err)
	if err != nil {
		return nil, err
	}
	return &labi.VerifyTransactionResponse{Result: res}, nil
}

func (m *MockABI) ExecuteTransaction(req *labi.ExecuteTransactionRequest) (*labi.ExecuteTransactionResponse, error) {
	m.mu.Lock()
	defer m.mu.Unlock()
	var ctx *abiContext
	var err error
	if len(req.ContextID) != 0 {
		ctx, err = m.context(req.ContextID)
	}
	if err == nil {
		err = m.fail(HookExecuteTx, ctx)
	}
	res := labi.TxExecuteResultSuccess
	if err == nil {
		switch verdict(req.Transaction, 1) {
		case TxInvalid:
			res = labi.TxExecuteResultInvalid
		case TxFail:
			res = labi.TxExecuteResultFail
		case TxError:
			err = fmt.Errorf("%w: scripted ExecuteTransaction error", ErrInjected)
		}
	}
	m.seeConsensus(HookExecuteTx, ctx, req.Header, req.Transaction.ID, req.Consensus)
	m.log(HookExecuteTx, ctx, fmt.Sprintf("tx=%x result=%d", []byte(req.Transaction.ID), res), err)
	if err != nil {
		return nil, err
	}
	height := uint32(0)
	if ctx != nil {
		height = ctx.header.Height
		ctx.executed = append(ctx.executed, req.Transaction)
	} else if req.Header != nil {
		height = req.Header.Height
	}
	return &labi.ExecuteTransactionResponse{
		Events: []*blockchain.Event{TxEvent(req.Transaction, height, res == labi.TxExecuteResultSuccess)},
		Result: res,
	}, nil
}

func (m *MockABI) AfterTransactionsExecute(req *labi.AfterTransactionsExecuteRequest) (*labi.AfterTransactionsExecuteResponse, error) {
	m.mu.Lock()
	defer m.mu.Unlock()
	ctx, err := m.context(req.ContextID)
	if err == nil {
		m.setScript(ctx, req.Assets)
		err = m.fail(HookAfterTxs, ctx)
	}
	m.seeConsensus(HookAfterTxs, ctx, nil, nil, req.Consensus)
	m.log(HookAfterTxs, ctx, fmt.Sprintf("txs=%d", len(req.Transactions)), err)
	if err != nil {
		return nil, err
	}
	resp := &labi.AfterTransactionsExecuteResponse{
		Events:               fromScriptEvents(ctx.script.After, ctx.header.Height),
		PreCommitThreshold:   ctx.script.Precommit,
		CertificateThreshold: ctx.script.Certificate,
		NextValidators:       labiValidators(ctx.script.Validators),
	}
	return resp, nil
}

func (m *MockABI) Commit(req *labi.CommitRequest) (*labi.CommitResponse, error) {
	m.mu.Lock()
	defer m.mu.Unlock()
	ctx, err := m.context(req.ContextID)
	if err == nil {
		err = m.fail(HookCommit, ctx)
	}
	var root []byte
	if err == nil {
		prev := []byte{}
		if len(m.roots) > 0 {
			prev = m.roots[len(m.roots)-1].Root
			if m.roots[len(m.roots)-1].Height+1 != ctx.header.Height {
				m.Inconsistencies = append(m.Inconsistencies, fmt.Sprintf("Commit of height %d on application height %d", ctx.header.Height, m.roots[len(m.roots)-1].Height))
			}
		}
		if !bytes.Equal(prev, req.StateRoot) {
			m.Inconsistencies = append(m.Inconsistencies, fmt.Sprintf("Commit of height %d with base root %x but application root is %x", ctx.header.Height, []byte(req.StateRoot), prev))
			err = fmt.Errorf("%w: commit base %x, application root %x", ErrStateRootMismatch, []byte(req.StateRoot), prev)
		} else {
			root = PredictStateRoot(prev, ctx.header.Height, ctx.executed)
			if len(req.ExpectedStateRoot) != 0 && !bytes.Equal(root, req.ExpectedStateRoot) {
				err = fmt.Errorf("%w: expected %x computed %x", ErrStateRootMismatch, []byte(req.ExpectedStateRoot), root)
			} else if !req.DryRun {
				m.roots = append(m.roots, rootEntry{Height: ctx.header.Height, Root: root})
			}
		}
	}
	m.log(HookCommit, ctx, fmt.Sprintf("base=%x expected=%x dryRun=%v", []byte(req.StateRoot), []byte(req.ExpectedStateRoot), req.DryRun), err)
	if err != nil {
		return nil, err
	}
	return &labi.CommitResponse{StateRoot: root}, nil
}

func (m *MockABI) Revert(req *labi.RevertRequest) (*labi.RevertResponse, error) {
	m.mu.Lock()
	defer m.mu.Unlock()
	ctx, err := m.context(req.ContextID)
	if err == nil {
		err = m.fail(HookRevert, ctx)
	}
	var root []byte
	if err == nil {
		switch {
		case len(m.roots) < 2:
			err = fmt.Errorf("mockabi: nothing to revert")
			m.Inconsistencies = append(m.Inconsistencies, "Revert with nothing to revert")
		case m.lenientRevert(): // lenient.go
			m.roots = m.roots[:len(m.roots)-1]
			root = m.roots[len(m.roots)-1].Root
		case !bytes.Equal(m.roots[len(m.roots)-1].Root, req.StateRoot) || m.roots[len(m.roots)-1].Height != ctx.header.Height:
			m.Inconsistencies = append(m.Inconsistencies, fmt.Sprintf("Revert of height %d root %x but application is at height %d root %x", ctx.header.Height, []byte(req.StateRoot), m.roots[len(m.roots)-1].Height, m.roots[len(m.roots)-1].Root))
			err = fmt.Errorf("%w: revert of a block that is not the application tip", ErrStateRootMismatch)
		case !bytes.Equal(m.roots[len(m.roots)-2].Root, req.ExpectedStateRoot):
			err = fmt.Errorf("%w: revert expected %x previous %x", ErrStateRootMismatch, []byte(req.ExpectedStateRoot), m.roots[len(m.roots)-2].Root)
		default:
			m.roots = m.roots[:len(m.roots)-1]
			root = m.roots[len(m.roots)-1].Root
		}
	}
	m.log(HookRevert, ctx, fmt.Sprintf("root=%x expected=%x", []byte(req.StateRoot), []byte(req.ExpectedStateRoot)), err)
	if err != nil {
		return nil, err
	}
	return &labi.RevertResponse{StateRoot: root}, nil
}

func (m *MockABI) Clear(req *labi.ClearRequest) (*labi.ClearResponse, error) {
	m.mu.Lock()
	defer m.mu.Unlock()
	err := m.fail(HookClear, nil)
	m.log(HookClear, nil, fmt.Sprintf("contexts=%d", len(m.contexts)), err)
	if err != nil {
		return nil, err
	}
	m.contexts = map[string]*abiContext{}
	return &labi.ClearResponse{}, nil
}

func (m *MockABI) Finalize(req *labi.FinalizeRequest) (*labi.FinalizeResponse, error) {
	m.mu.Lock()
	defer m.mu.Unlock()
	err := m.fail(HookFinalize, nil)
	m.log(HookFinalize, nil, fmt.Sprintf("finalized=%d", req.FinalizedHeight), err)
	if err != nil {
		return nil, err
	}
	return &labi.FinalizeResponse{}, nil
}

func (m *MockABI) GetMetadata(req *labi.MetadataRequest) (*labi.MetadataResponse, error) {
	m.mu.Lock()
	defer m.mu.Unlock()
	if err := m.fail(HookGetMetadata, nil); err != nil {
		return nil, err
	}
	return &labi.MetadataResponse{Data: []byte("{}")}, nil
}

func (m *MockABI) Query(req *labi.QueryRequest) (*labi.QueryResponse, error) {
	m.mu.Lock()
	defer m.mu.Unlock()
	if err := m.fail(HookQuery, nil); err != nil {
		return nil, err
	}
	return &labi.QueryResponse{Data: []byte("{}")}, nil
}

func (m *MockABI) Prove(req *labi.ProveRequest) (*labi.ProveResponse, error) {
	m.mu.Lock()
	defer m.mu.Unlock()
	if err := m.fail(HookProve, nil); err != nil {
		return nil, err
	}
	return nil, errors.New("mockabi: Prove not supported")
}

// sortAssets returns the assets sorted by module as Block.Validate requires.
func sortAssets(assets []*blockchain.BlockAsset) []*blockchain.BlockAsset {
	res := append([]*blockchain.BlockAsset{}, assets...)
	sort.SliceStable(res, func(i, j int) bool { return res[i].Module < res[j].Module })
	return res
}
