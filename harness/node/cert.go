package node

import (
	"bytes"
	"sort"

	"github.com/LiskHQ/lisk-engine/pkg/blockchain"
	"github.com/LiskHQ/lisk-engine/pkg/consensus"
	"github.com/LiskHQ/lisk-engine/pkg/consensus/certificate"
	"github.com/LiskHQ/lisk-engine/pkg/crypto"
	"github.com/LiskHQ/lisk-engine/pkg/p2p"
)

// Certify runs Executer.Certify for v over the height range (from, to]: the node creates v's single
// commits (for heights with their own BFT parameters, and for `to`) and adds them to its pool.
func (n *Node) Certify(v *Validator, from, to uint32) error {
	return n.guard(func() error { return n.Exec.Certify(from, to, v.Address, v.BLSPriv) })
}

// SingleCommit creates v's single commit for the block of the current chain at the height
// (certificate.NewSingleCommit; internal flag set). nil if the height is not on the chain.
func (n *Node) SingleCommit(v *Validator, height uint32) *certificate.SingleCommit {
	h, err := n.HeaderAt(height)
	if err != nil {
		return nil
	}
	return certificate.NewSingleCommit(h, v.Address, n.Cfg.ChainID, v.BLSPriv)
}

// SingleCommitFor creates v's single commit for an arbitrary header (e.g. of a fork).
func (n *Node) SingleCommitFor(v *Validator, h *blockchain.BlockHeader) *certificate.SingleCommit {
	return certificate.NewSingleCommit(h, v.Address, n.Cfg.ChainID, v.BLSPriv)
}

// RawSingleCommit builds a single commit from raw fields (for tampering).
func RawSingleCommit(blockID []byte, height uint32, address, signature []byte) *certificate.SingleCommit {
	return certificate.VerifNewSingleCommit(blockID, height, address, signature, false)
}

// SubmitSingleCommits feeds the commits to the gossip validator of the postSingleCommits topic as
// one network message. The validator inserts acceptable commits into the pool and never returns
// ValidationAccept.
func (n *Node) SubmitSingleCommits(scs ...*certificate.SingleCommit) p2p.ValidationResult {
	data := consensus.VerifEncodeSingleCommits(scs)
	return n.SubmitSingleCommitsRaw(data)
}

// SubmitSingleCommitsRaw is SubmitSingleCommits with caller supplied message bytes.
func (n *Node) SubmitSingleCommitsRaw(data []byte) (res p2p.ValidationResult) {
	defer func() {
		if r := recover(); r != nil {
			n.LastResult = Result{Err: &PanicError{Value: r}}
			res = p2p.ValidationResult(-1)
		}
	}()
	return n.Exec.VerifSingleCommitValidator(n.ctx, p2p.NewMessage(data))
}

// VerifyAggregateCommit runs the unexported verifyAggregateCommit on a fresh consensus store.
func (n *Node) VerifyAggregateCommit(ac *blockchain.AggregateCommit) error {
	return n.guard(func() error { return n.Exec.VerifVerifyAggregateCommit(n.Store(), ac) })
}

// GetAggregateCommit runs Executer.GetAggregateCommit (aggregate of the pool's commits for the
// highest certifiable height, or the empty commit at maxHeightCertified).
func (n *Node) GetAggregateCommit() (ac *blockchain.AggregateCommit, err error) {
	err = n.guard(func() error {
		var e error
		ac, e = n.Exec.GetAggregateCommit()
		return e
	})
	return ac, err
}

// CertPool returns the certificate pool of the executer.
func (n *Node) CertPool() *certificate.Pool { return n.Exec.VerifCertificatePool() }

// BlockValidator runs the gossip validator of the postBlock topic on raw message bytes.
func (n *Node) BlockValidator(data []byte) (res p2p.ValidationResult) {
	defer func() {
		if r := recover(); r != nil {
			n.LastResult = Result{Err: &PanicError{Value: r}}
			res = p2p.ValidationResult(-1)
		}
	}()
	return n.Exec.VerifBlockValidator(n.ctx, p2p.NewMessage(data))
}

// BroadcastCertificates runs one tick of the certificate broadcast (cleanup, select, publish; the
// publish fails with ErrTopicNotFound on the unstarted connection, which is returned).
func (n *Node) BroadcastCertificates() error {
	return n.guard(func() error { return n.Exec.VerifBroadcastCertificate() })
}

// ReferenceAggregate builds the aggregate commit for a height from the given signers the way the
// VERIFIER expects it: keys sorted ascending by BLS key (ValidatorsWithBLSKey.sort), bit i set for
// the i-th key. It is the reference against which GetAggregateCommit can be compared.
func (n *Node) ReferenceAggregate(height uint32, signers []*Validator) (*blockchain.AggregateCommit, error) {
	params, err := n.BFTParams(height)
	if err != nil {
		return nil, err
	}
	kps := certificate.AddressKeyPairs{}
	for _, v := range params.Validators() {
		kps = append(kps, &certificate.AddressKeyPair{Address: v.Address(), BLSKey: v.BLSKey()})
	}
	keys := refSortedKeys(kps)
	h, err := n.HeaderAt(height)
	if err != nil {
		return nil, err
	}
	return referenceAggregate(keys, h, n.Cfg.ChainID, signers), nil
}

func refSortedKeys(kps certificate.AddressKeyPairs) [][]byte {
	keys := kps.BLSKeys()
	sort.Slice(keys, func(i, j int) bool { return bytes.Compare(keys[i], keys[j]) < 0 })
	return keys
}

func referenceAggregate(keysAsc [][]byte, h *blockchain.BlockHeader, chainID []byte, signers []*Validator) *blockchain.AggregateCommit {
	pairs := make([]*crypto.BLSPublicKeySignaturePair, len(signers))
	for i, v := range signers {
		sc := certificate.NewSingleCommit(h, v.Address, chainID, v.BLSPriv)
		pairs[i] = &crypto.BLSPublicKeySignaturePair{PublicKey: v.BLSPub, Signature: sc.CertificateSignature()}
	}
	bits, sig := crypto.BLSCreateAggSig(keysAsc, pairs)
	return &blockchain.AggregateCommit{Height: h.Height, AggregationBits: bits, CertificateSignature: sig}
}
