// Package node is the shared "node harness": it builds, fully in-process and offline, a real
// consensus.Executer on a real blockchain.Chain over a pebble database (in memory or on a caller
// supplied vfs.FS), with an unstarted p2p.Connection, a scripted mock application (MockABI) and
// validators holding real Ed25519/BLS keys. See README.md.
package node

import (
	"bytes"
	"context"
	"crypto/sha256"
	"encoding/hex"
	"errors"
	"fmt"
	"sort"
	"strings"
	"time"

	"github.com/cockroachdb/pebble"
	"github.com/cockroachdb/pebble/vfs"

	"github.com/LiskHQ/lisk-engine/pkg/blockchain"
	"github.com/LiskHQ/lisk-engine/pkg/consensus"
	"github.com/LiskHQ/lisk-engine/pkg/consensus/liskbft"
	"github.com/LiskHQ/lisk-engine/pkg/consensus/validator"
	"github.com/LiskHQ/lisk-engine/pkg/crypto"
	"github.com/LiskHQ/lisk-engine/pkg/db"
	"github.com/LiskHQ/lisk-engine/pkg/db/diffdb"
	"github.com/LiskHQ/lisk-engine/pkg/labi"
	"github.com/LiskHQ/lisk-engine/pkg/log"
	"github.com/LiskHQ/lisk-engine/pkg/p2p"
)

// Config describes a node. The zero value of every field selects the documented default. Two
// nodes created from the same (filled) Config have identical keys and genesis blocks; use
// New(n.Cfg) to create a twin of n (New stores the filled configuration in Node.Cfg).
type Config struct {
	NumValidators         int      // number of genesis validators (default 4)
	Weights               []uint64 // BFT weights of the genesis validators (default all 1); weight 0 = generator only
	BatchSize             int      // BFT batch size (default NumValidators)
	BlockTime             uint32   // seconds per slot (default 10)
	PrecommitThreshold    uint64   // default floor(2W/3)+1
	CertificateThreshold  uint64   // default floor(2W/3)+1
	ChainID               []byte   // default 04000099
	MaxBlockCache         int      // default 515 (the engine default)
	KeepEventsForHeights  *int     // default 0 (what engine.go effectively passes to blockchain.NewChain)
	FS                    vfs.FS   // optional pebble file system (e.g. vfs.NewStrictMem()) - default: db.NewInMemoryDB()
	Dir                   string   // database directory on FS (default "": the root of FS, as the pebble crash tests do)
	GenesisHeight         uint32   // default 0
	MaxTransactionsLength uint32   // payload size limit of a block, default 15 KiB (the engine default)
	GenesisTimestamp      uint32   // default: about now - 1_000_000 s, deliberately NOT a multiple of BlockTime (residue from Seed)
	Seed                  int64    // key derivation seed
	ExtraValidators       int      // additional key holders that are not in the genesis set (for validator changes)
	GenesisEvents         []*blockchain.Event
	Logger                log.Logger // default: discards everything
}

// Validator is one key holder.
type Validator struct {
	Index              int
	Address            []byte
	EdPriv, EdPub      []byte
	BLSPriv, BLSPub    []byte
	Weight             uint64
	MaxHeightGenerated uint32 // largest height of a block by this validator that the node applied (maintained by Process/Extend)
}

// Labi returns the application-side description of the validator with the given weight.
func (v *Validator) Labi(weight uint64) *labi.Validator {
	return &labi.Validator{Address: v.Address, BFTWeight: weight, GeneratorKey: v.EdPub, BLSKey: v.BLSPub}
}

func (v *Validator) String() string { return fmt.Sprintf("v%d(%x)", v.Index, v.Address[:4]) }

// NewValidator derives the keys of validator #index for a seed.
func NewValidator(seed int64, index int) *Validator {
	pass := fmt.Sprintf("verif-node-validator-%d-%d", seed, index)
	pub, priv, err := crypto.GetKeys(pass)
	if err != nil {
		panic(err)
	}
	ikm := sha256.Sum256([]byte("bls-" + pass))
	bls := crypto.BLSKeyGen(ikm[:])
	return &Validator{Index: index, Address: crypto.GetAddress(pub), EdPriv: priv, EdPub: pub, BLSPriv: bls.PrivateKey, BLSPub: bls.PublicKey, Weight: 1}
}

// KV is one database entry.
type KV struct{ Key, Value []byte }

// Node is the harness around one Executer.
type Node struct {
	Cfg Config
	// NextWireHeader: header bytes the NEXT block handed to ProcessResult / ProcessValidatedPublish arrives with
	// (build.go copyIn); nil = the canonical encoding
	NextWireHeader []byte
	Validators     []*Validator // genesis validators first, then Cfg.ExtraValidators more
	ABI            *MockABI
	DB             *db.DB
	Chain          *blockchain.Chain
	Exec           *consensus.Executer
	Conn           *p2p.Connection
	Genesis        *blockchain.Block
	Logger         log.Logger
	PeerID         p2p.PeerID // peer id attached to blocks given to Process (non-empty => never published)
	LastResult     Result
	AllowSync      bool // let Process run blocks that start a sync (see ErrWouldSync)

	ctx      context.Context
	cancel   context.CancelFunc
	evCh     chan interface{}
	pending  []Event
	restarts int
}

type nopLogger struct{}

func (nopLogger) Debug(string, ...interface{})     {}
func (nopLogger) Info(string, ...interface{})      {}
func (nopLogger) Error(string, ...interface{})     {}
func (nopLogger) Debugf(string, ...interface{})    {}
func (nopLogger) Infof(string, ...interface{})     {}
func (nopLogger) Errorf(string, ...interface{})    {}
func (nopLogger) Warning(string, ...interface{})   {}
func (nopLogger) Warningf(string, ...interface{})  {}
func (l nopLogger) With(...interface{}) log.Logger { return l }

// NopLogger discards everything.
func NopLogger() log.Logger { return nopLogger{} }

// DefaultThreshold is floor(2W/3)+1.
func DefaultThreshold(total uint64) uint64 { return total*2/3 + 1 }

func (cfg *Config) fill() error {
	if cfg.NumValidators == 0 {
		cfg.NumValidators = 4
	}
	if cfg.NumValidators < 0 {
		return errors.New("node: NumValidators must be positive")
	}
	if len(cfg.Weights) == 0 {
		cfg.Weights = make([]uint64, cfg.NumValidators)
		for i := range cfg.Weights {
			cfg.Weights[i] = 1
		}
	}
	if len(cfg.Weights) != cfg.NumValidators {
		return errors.New("node: len(Weights) != NumValidators")
	}
	if cfg.BatchSize == 0 {
		cfg.BatchSize = cfg.NumValidators
	}
	if cfg.BlockTime == 0 {
		cfg.BlockTime = 10
	}
	total := uint64(0)
	for _, w := range cfg.Weights {
		total += w
	}
	if cfg.PrecommitThreshold == 0 {
		cfg.PrecommitThreshold = DefaultThreshold(total)
	}
	if cfg.CertificateThreshold == 0 {
		cfg.CertificateThreshold = DefaultThreshold(total)
	}
	if len(cfg.ChainID) == 0 {
		cfg.ChainID = []byte{4, 0, 0, 0x99}
	}
	if cfg.MaxTransactionsLength == 0 {
		cfg.MaxTransactionsLength = 15 * 1024
	}
	if cfg.MaxBlockCache == 0 {
		cfg.MaxBlockCache = 515
	}
	if cfg.KeepEventsForHeights == nil {
		z := 0
		cfg.KeepEventsForHeights = &z
	}
	if cfg.GenesisTimestamp == 0 {
		// NOT a multiple of the block time (BlockTime > 1): LIP-0014 counts slots from the genesis timestamp
		// itself, and a slot calculator that silently assumes an aligned genesis must not pass unnoticed.
		// The residue 1 .. BlockTime-1 is derived from the seed.
		t := uint32(time.Now().Unix()) - 1_000_000
		cfg.GenesisTimestamp = t - t%cfg.BlockTime
		if cfg.BlockTime > 1 {
			cfg.GenesisTimestamp += 1 + uint32(uint64(cfg.Seed)%uint64(cfg.BlockTime-1))
		}
	}
	if cfg.Logger == nil {
		cfg.Logger = NopLogger()
	}
	return nil
}

// New creates the node: keys, genesis block, database, chain, executer; runs Executer.Init, which
// processes the genesis block.
func New(cfg Config) (*Node, error) {
	if err := cfg.fill(); err != nil {
		return nil, err
	}
	n := &Node{Cfg: cfg, Logger: cfg.Logger, PeerID: p2p.PeerID("verif-peer")}
	for i := 0; i < cfg.NumValidators+cfg.ExtraValidators; i++ {
		v := NewValidator(cfg.Seed, i)
		if i < cfg.NumValidators {
			v.Weight = cfg.Weights[i]
		} else {
			v.Weight = 0
		}
		n.Validators = append(n.Validators, v)
	}
	n.ABI = NewMockABI()
	for _, v := range n.Validators[:cfg.NumValidators] {
		n.ABI.GenesisValidators = append(n.ABI.GenesisValidators, v.Labi(v.Weight))
	}
	n.ABI.GenesisPrecommit = cfg.PrecommitThreshold
	n.ABI.GenesisCertificate = cfg.CertificateThreshold
	n.ABI.GenesisEvents = cfg.GenesisEvents
	genesis, err := BuildGenesis(&cfg, n.ABI.GenesisValidators)
	if err != nil {
		return nil, err
	}
	n.Genesis = genesis
	if err := n.openDB(); err != nil {
		return nil, err
	}
	n.evCh = make(chan interface{}, 1<<14)
	if err := n.start(); err != nil {
		n.DB.Close()
		return nil, err
	}
	return n, nil
}

// ValidatorsHashOf computes the validatorsHash of a parameter set the way SetBFTParameters does:
// validators with positive weight, sorted as BFTValidators.Sort sorts, validator.ComputeValidatorsHash.
func ValidatorsHashOf(vals []*labi.Validator, certificateThreshold uint64) ([]byte, error) {
	bftValidators, _ := liskbft.GetBFTValidatorAndGenerators(vals)
	bftValidators.Sort()
	hv := make([]validator.HashValidator, len(bftValidators))
	for i, v := range bftValidators {
		hv[i] = v
	}
	return validator.ComputeValidatorsHash(hv, certificateThreshold)
}

// BuildGenesis builds the version-0 genesis block for the configuration and the genesis validators.
func BuildGenesis(cfg *Config, vals []*labi.Validator) (*blockchain.Block, error) {
	g := blockchain.NewGenesisBlock(cfg.GenesisHeight, cfg.GenesisTimestamp, bytes.Repeat([]byte{0}, 32), blockchain.BlockAssets{})
	vh, err := ValidatorsHashOf(vals, cfg.CertificateThreshold)
	if err != nil {
		return nil, err
	}
	g.Header.ValidatorsHash = vh
	evs := blockchain.Events{}
	for _, e := range cfg.GenesisEvents {
		c := *e
		c.Height = cfg.GenesisHeight
		evs = append(evs, &c)
	}
	evs.UpdateIndex()
	er, err := blockchain.CalculateEventRoot(evs)
	if err != nil {
		return nil, err
	}
	g.Header.EventRoot = er
	g.Header.StateRoot = PredictStateRoot([]byte{}, cfg.GenesisHeight, nil)
	g.Init()
	return g, nil
}

func (n *Node) openDB() error {
	var d *db.DB
	var err error
	if n.Cfg.FS != nil {
		if n.Cfg.Dir != "" {
			// a strict file system forgets unsynced directory entries: make the database directory durable
			fs := n.Cfg.FS
			if err := fs.MkdirAll(n.Cfg.Dir, 0o755); err != nil {
				return err
			}
			for dir := n.Cfg.Dir; ; {
				dir = fs.PathDir(dir)
				root := dir == "." || dir == "/" || dir == ""
				if root {
					dir = "" // MemFS: the empty name is the root directory
				}
				if f, err := fs.OpenDir(dir); err == nil {
					_ = f.Sync()
					_ = f.Close()
				}
				if root {
					break
				}
			}
		}
		d, err = db.NewDBWithFS(n.Cfg.FS, n.Cfg.Dir)
	} else {
		d, err = db.NewInMemoryDB()
	}
	if err != nil {
		return err
	}
	n.DB = d
	return nil
}

// start builds Connection, Chain and Executer over n.DB and runs Init (as engine.Start does).
func (n *Node) start() (err error) {
	defer func() {
		if r := recover(); r != nil {
			err = &PanicError{Value: r}
		}
	}()
	n.ctx, n.cancel = context.WithCancel(context.Background())
	n.Conn = p2p.NewConnection(n.Logger, &p2p.Config{ChainID: n.Cfg.ChainID})
	n.Chain = blockchain.NewChain(&blockchain.ChainConfig{
		ChainID:               n.Cfg.ChainID,
		MaxTransactionsLength: n.Cfg.MaxTransactionsLength,
		MaxBlockCache:         n.Cfg.MaxBlockCache,
		KeepEventsForHeights:  *n.Cfg.KeepEventsForHeights,
	})
	n.Exec = consensus.NewExecuter(&consensus.ExecuterConfig{
		CTX:       n.ctx,
		ABI:       n.ABI,
		Chain:     n.Chain,
		Conn:      n.Conn,
		BlockTime: n.Cfg.BlockTime,
		BatchSize: n.Cfg.BatchSize,
	})
	// one buffered channel for all topics keeps the global publication order and never blocks Publish
	for _, topic := range []string{consensus.EventBlockNew, consensus.EventBlockDelete, consensus.EventBlockFinalize, consensus.EventValidatorsChange, consensus.EventChainFork, consensus.EventNetworkBlockNew} {
		n.Exec.VerifEvents().On(topic, n.evCh)
	}
	n.Chain.Init(n.Genesis, n.DB)
	if _, err := n.ABI.Clear(&labi.ClearRequest{}); err != nil {
		return err
	}
	if err := n.Exec.Init(&consensus.ExecuterInitParam{CTX: n.ctx, Logger: n.Logger, Database: n.DB, GenesisBlock: n.Genesis}); err != nil {
		n.Exec.VerifStopTicker()
		return err
	}
	n.Exec.VerifStopTicker() // the broadcast ticker is only consumed by Start, which is never run
	tip := n.Chain.LastBlock()
	if tip == nil {
		return errors.New("node: no tip after Init")
	}
	if _, err := n.ABI.Init(&labi.InitRequest{ChainID: n.Cfg.ChainID, LastBlockHeight: tip.Header.Height, LastStateRoot: tip.Header.StateRoot}); err != nil {
		return err
	}
	return nil
}

func (n *Node) stop() {
	if n.Exec != nil {
		n.Exec.VerifStopTicker()
	}
	if n.cancel != nil {
		n.cancel()
	}
	n.pump()
	n.Exec, n.Chain, n.Conn = nil, nil, nil
}

// Restart simulates a process restart: the Chain, Executer and Connection objects are dropped and
// new ones are built over the SAME database handle; Init runs again. The mock application keeps its
// state. Events not yet drained stay queued.
func (n *Node) Restart() error {
	n.stop()
	n.restarts++
	return n.start()
}

// StartInputs are the start-up inputs RestartWith may change. Nil / zero fields keep the current value.
type StartInputs struct {
	Genesis              *blockchain.Block // genesis block handed to Chain.Init and Executer.Init
	ChainID              []byte
	MaxBlockCache        int
	KeepEventsForHeights *int
	FreshABI             bool // the application starts from an empty state (a new MockABI with the same genesis parameters)
}

// RestartWith is Restart with other start-up inputs (a node restarted on its existing database with a
// different genesis block, chain id, block cache size or event retention). The inputs stay in effect
// (Node.Genesis, Node.Cfg, Node.ABI are overwritten): a caller that probes a start that must be refused
// saves these three fields before and restores them before the next Restart. When Init fails the
// error is returned and the node is left stopped-like: Chain and Executer exist, the block cache is
// whatever Init left (Tip() may be nil).
func (n *Node) RestartWith(in StartInputs) error {
	n.stop()
	n.restarts++
	if in.Genesis != nil {
		n.Genesis = in.Genesis
	}
	if len(in.ChainID) != 0 {
		n.Cfg.ChainID = append([]byte{}, in.ChainID...)
	}
	if in.MaxBlockCache != 0 {
		n.Cfg.MaxBlockCache = in.MaxBlockCache
	}
	if in.KeepEventsForHeights != nil {
		k := *in.KeepEventsForHeights
		n.Cfg.KeepEventsForHeights = &k
	}
	if in.FreshABI {
		old := n.ABI
		n.ABI = NewMockABI()
		n.ABI.GenesisValidators = old.GenesisValidators
		n.ABI.GenesisPrecommit = old.GenesisPrecommit
		n.ABI.GenesisCertificate = old.GenesisCertificate
		n.ABI.GenesisEvents = old.GenesisEvents
	}
	return n.start()
}

// ForeignGenesis builds a genesis block that differs from the node's: height and timestamp as given
// (same validators, thresholds and genesis events).
func (n *Node) ForeignGenesis(height, timestamp uint32) (*blockchain.Block, error) {
	cfg := n.Cfg
	cfg.GenesisHeight = height
	cfg.GenesisTimestamp = timestamp
	return BuildGenesis(&cfg, n.ABI.GenesisValidators)
}

// Reopen closes the database and opens it again from the file system (only with Cfg.FS), then
// restarts. With crash=true and a *vfs.MemFS created by vfs.NewStrictMem(), everything that was
// not synced is dropped first (simulated power loss).
func (n *Node) Reopen(crash bool) error {
	if n.Cfg.FS == nil {
		return errors.New("node: Reopen needs Cfg.FS")
	}
	n.stop()
	mem, isMem := n.Cfg.FS.(*vfs.MemFS)
	if crash && isMem {
		mem.SetIgnoreSyncs(true)
	}
	func() {
		defer func() { _ = recover() }()
		_ = n.DB.Close()
	}()
	if crash && isMem {
		mem.ResetToSyncedState()
		mem.SetIgnoreSyncs(false)
	}
	if err := n.openDB(); err != nil {
		return err
	}
	n.restarts++
	return n.start()
}

// Close releases the node.
func (n *Node) Close() { _ = n.CloseErr() }

// CloseErr releases the node and returns the error of closing the database (pebble reports e.g.
// iterators that were never closed).
func (n *Node) CloseErr() (err error) {
	n.stop()
	if n.DB != nil {
		func() {
			defer func() {
				if r := recover(); r != nil {
					err = &PanicError{Value: r}
				}
			}()
			err = n.DB.Close()
		}()
		n.DB = nil
	}
	return err
}

// Store returns a fresh staged view of the consensus (BFT) store; nothing is written unless the
// caller commits it.
func (n *Node) Store() *diffdb.Database {
	return diffdb.New(n.DB, blockchain.DBPrefixToBytes(blockchain.DBPrefixState))
}

// BFT returns the BFT module of the executer.
func (n *Node) BFT() *liskbft.Module { return n.Exec.VerifBFT() }

// BlockSlot returns the slot calculator of the executer.
func (n *Node) BlockSlot() *validator.BlockSlot { return n.Exec.VerifBlockSlot() }

// Tip returns the cached last block.
func (n *Node) Tip() *blockchain.Block { return n.Chain.LastBlock() }

// Height returns the height of the tip.
func (n *Node) Height() uint32 { return n.Tip().Header.Height }

// Finalized returns the persisted finalized height.
func (n *Node) Finalized() uint32 {
	h, err := n.Chain.DataAccess().GetFinalizedHeight()
	if err != nil {
		panic(err)
	}
	return h
}

// BFTHeights returns maxHeightPrevoted, maxHeightPrecommitted, maxHeightCertified.
func (n *Node) BFTHeights() (mhp, mhpc, mhc uint32) {
	a, b, c, err := n.BFT().API().GetBFTHeights(n.Store())
	if err != nil {
		panic(err)
	}
	return a, b, c
}

// BFTDump renders the whole BFT store (liskbft.VerifDump).
func (n *Node) BFTDump() string {
	s, err := liskbft.VerifDump(n.Store())
	if err != nil {
		return "dump-err " + err.Error()
	}
	return s
}

// BFTParams returns the BFT parameters valid at a height.
func (n *Node) BFTParams(height uint32) (*liskbft.BFTParams, error) {
	return n.BFT().API().GetBFTParameters(n.Store(), height)
}

// Generators returns the generator list valid at a height.
func (n *Node) Generators(height uint32) (liskbft.Generators, error) {
	return n.BFT().API().GetGeneratorKeys(n.Store(), height)
}

// ValidatorByAddress finds a key holder.
func (n *Node) ValidatorByAddress(addr []byte) *Validator {
	for _, v := range n.Validators {
		if bytes.Equal(v.Address, addr) {
			return v
		}
	}
	return nil
}

// BlockAt returns the block of the current chain at a height (cache or database).
func (n *Node) BlockAt(height uint32) (*blockchain.Block, error) {
	return n.Chain.DataAccess().GetBlockByHeight(height)
}

// HeaderAt returns the header of the current chain at a height.
func (n *Node) HeaderAt(height uint32) (*blockchain.BlockHeader, error) {
	return n.Chain.DataAccess().GetBlockHeaderByHeight(height)
}

// TempBlocks returns the temporary blocks stored by DeleteTip(saveTemp=true).
func (n *Node) TempBlocks() ([]*blockchain.Block, error) {
	return n.Chain.DataAccess().GetTempBlocks()
}

// DumpDB returns every key/value of the blockchain database in key order.
func (n *Node) DumpDB() []KV {
	it := n.DB.VerifPebble().NewIter(&pebble.IterOptions{})
	defer it.Close()
	var res []KV
	for it.First(); it.Valid(); it.Next() {
		res = append(res, KV{Key: append([]byte{}, it.Key()...), Value: append([]byte{}, it.Value()...)})
	}
	return res
}

// DumpString renders a dump, one "key=value" line (hex) per entry.
func DumpString(kvs []KV) string {
	var sb strings.Builder
	for _, kv := range kvs {
		sb.WriteString(hex.EncodeToString(kv.Key))
		sb.WriteByte('=')
		sb.WriteString(hex.EncodeToString(kv.Value))
		sb.WriteByte('\n')
	}
	return sb.String()
}

// DumpDBString is DumpString(n.DumpDB()).
func (n *Node) DumpDBString() string { return DumpString(n.DumpDB()) }

// Key prefixes of the blockchain database (pkg/blockchain/data_access.go).
var PrefixNames = map[byte]string{
	3: "blockID->header", 4: "height->blockID", 5: "blockID->txIDs", 6: "txID->tx", 7: "temp", 8: "blockID->assets",
	9: "height->events", 10: "state", 27: "finalizedHeight", 51: "stateDiff",
}

// DiffDumps lists the differences between two dumps ("+" only in b, "-" only in a, "~" changed),
// each line prefixed with the name of the key space.
func DiffDumps(a, b []KV) []string {
	am := map[string][]byte{}
	for _, kv := range a {
		am[string(kv.Key)] = kv.Value
	}
	bm := map[string][]byte{}
	for _, kv := range b {
		bm[string(kv.Key)] = kv.Value
	}
	var res []string
	name := func(k string) string {
		if len(k) == 0 {
			return "?"
		}
		if s, ok := PrefixNames[k[0]]; ok {
			return s
		}
		return fmt.Sprintf("prefix%d", k[0])
	}
	for k, v := range am {
		if w, ok := bm[k]; !ok {
			res = append(res, fmt.Sprintf("- %s %x=%x", name(k), k, v))
		} else if !bytes.Equal(v, w) {
			res = append(res, fmt.Sprintf("~ %s %x: %x -> %x", name(k), k, v, w))
		}
	}
	for k, v := range bm {
		if _, ok := am[k]; !ok {
			res = append(res, fmt.Sprintf("+ %s %x=%x", name(k), k, v))
		}
	}
	sort.Strings(res)
	return res
}

// PanicError wraps a panic raised by repository code during a harness call.
type PanicError struct{ Value interface{} }

func (p *PanicError) Error() string { return fmt.Sprintf("panic: %v", p.Value) }
