package node

import (
	"bytes"
	"fmt"
	"math/rand"
	"sort"
	"strings"
	"time"

	"github.com/cockroachdb/pebble/vfs"

	"github.com/LiskHQ/lisk-engine/pkg/blockchain"
	"github.com/LiskHQ/lisk-engine/pkg/codec"
	"github.com/LiskHQ/lisk-engine/pkg/labi"
	"github.com/LiskHQ/lisk-engine/pkg/p2p"
)

// Finding flags: behaviour of the repository that deviates from the property list; the self-test
// tolerates them (they are reported, not failed).
const (
	// GetAggregateCommit output (subset of signers) rejected by the node's own verifyAggregateCommit
	// (AddressKeyPairs.Sort is descending, verification sorts ascending) - DESIGN.md C06.
	FindingOwnAggregateRejected = "c06-own-aggregate-rejected"
	// A block whose header eventRoot does not match the executed events is accepted - C03.
	FindingEventRootUnchecked = "c03-event-root-unchecked"
	// A block containing a statically invalid transaction (Transaction.Validate fails) is accepted - C03.
	FindingTxValidateUnchecked = "c03-tx-validate-unchecked"
	// A block whose transaction executes with Result=Invalid is accepted (ExecuteTransaction result ignored) - C03.
	FindingExecResultIgnored = "c03-execute-result-ignored"
	// delete(apply(B)) leaves database differences other than the finalized marker / pruned data - C05.
	FindingDeleteNotExact = "c05-delete-not-exact"
	// Restart changes the database or fails.
	FindingRestartDiffers = "c13-restart-differs"
	// A node with genesis height > 0 cannot be initialised / restarted.
	FindingGenesisHeight = "node-genesis-height-nonzero"
	// A valid single commit for a height in (maxHeightCertified, maxHeightPrecommitted] is silently
	// dropped by singleCommitValidator while maxHeightPrecommitted < 100 (uint32 underflow of
	// maxHeightPrecommited-CommitRangeStored) - C06.
	FindingSingleCommitDropped = "c06-single-commit-dropped-early-chain"
	// A node that only ever applied the final chain has a different database than the node that
	// reached the same chain through deletes / re-applies / restart.
	FindingReplayDiffers = "c05-replay-differs"
	// Closing the blockchain database reports an error (db.IterateRange, used by saveBlock once a
	// height is finalized, never closes its pebble iterator).
	FindingDBCloseError = "db-close-leaked-iterators"
	// Finality does not advance after a validator change.
	FindingNoFinalityAfterChange = "c04-no-finality-after-validator-change"
)

// Finding is one tolerated deviation observed by the self-test.
type Finding struct {
	Flag     string
	Scenario string
	Detail   string
}

func (f Finding) String() string { return f.Flag + " [" + f.Scenario + "] " + f.Detail }

// SelfTestReport is the outcome of one self-test run.
type SelfTestReport struct {
	Seed        int64
	Scenarios   []string
	Findings    []Finding
	Blocks      int           // blocks processed through Process
	ProcessTime time.Duration // time spent in Process for those blocks
	Log         []string
}

// MsPerBlock is the average time of one Process call in milliseconds.
func (r *SelfTestReport) MsPerBlock() float64 {
	if r.Blocks == 0 {
		return 0
	}
	return float64(r.ProcessTime.Microseconds()) / 1000 / float64(r.Blocks)
}

// FindingFlags returns the distinct flags, sorted.
func (r *SelfTestReport) FindingFlags() []string {
	m := map[string]bool{}
	for _, f := range r.Findings {
		m[f.Flag] = true
	}
	res := []string{}
	for k := range m {
		res = append(res, k)
	}
	sort.Strings(res)
	return res
}

// SelfTest exercises the harness on nodes with 1, 4 and 7 validators and batch sizes in 4..11
// chosen from the seed. It returns an error for anything that is a harness failure or an
// untolerated misbehaviour; tolerated deviations are listed by SelfTestFull.
func SelfTest(seed int64) error {
	_, err := SelfTestFull(seed)
	return err
}

// SelfTestFull is SelfTest returning the report.
func SelfTestFull(seed int64) (*SelfTestReport, error) {
	rep := &SelfTestReport{Seed: seed}
	rng := rand.New(rand.NewSource(seed))
	for _, nv := range []int{1, 4, 7} {
		lo := 4
		if nv > lo {
			lo = nv
		}
		bs := lo + rng.Intn(11-lo+1)
		if err := SelfTestConfig(rep, nv, bs, rng.Int63()); err != nil {
			return rep, fmt.Errorf("nv=%d batch=%d: %w", nv, bs, err)
		}
	}
	probeGenesisHeight(rep, seed)
	if err := probeLongChainCommit(rep, seed); err != nil {
		return rep, fmt.Errorf("long chain: %w", err)
	}
	if err := probeStrictFS(rep, seed); err != nil {
		return rep, fmt.Errorf("strict fs: %w", err)
	}
	return rep, nil
}

type stRun struct {
	rep   *SelfTestReport
	n     *Node
	rng   *rand.Rand
	name  string
	fin   uint32
	nonce uint64
}

func (s *stRun) find(flag, detail string) {
	s.rep.Findings = append(s.rep.Findings, Finding{Flag: flag, Scenario: s.name, Detail: detail})
}

func (s *stRun) logf(format string, a ...interface{}) {
	s.rep.Log = append(s.rep.Log, s.name+": "+fmt.Sprintf(format, a...))
}

func (s *stRun) process(b *blockchain.Block) Result {
	t0 := time.Now()
	r := s.n.ProcessResult(b)
	s.rep.ProcessTime += time.Since(t0)
	s.rep.Blocks++
	return r
}

// randomOpts decorates a block with transactions, an asset and events.
func (s *stRun) randomOpts(o *BlockOpts) {
	n := s.n
	if s.rng.Intn(3) == 0 {
		k := 1 + s.rng.Intn(3)
		for i := 0; i < k; i++ {
			s.nonce++
			sender := n.Validators[s.rng.Intn(len(n.Validators))]
			o.Txs = append(o.Txs, n.NewTransaction(sender, s.nonce, uint64(1000+s.rng.Intn(1000)), []byte{TxOK, TxOK, byte(s.rng.Intn(256))}))
		}
	}
	if s.rng.Intn(4) == 0 {
		o.Assets = append(o.Assets, &blockchain.BlockAsset{Module: "random", Data: []byte{byte(s.rng.Intn(256)), 1, 2}})
	}
	if s.rng.Intn(4) == 0 {
		o.BeforeEvents = append(o.BeforeEvents, &blockchain.Event{Module: "reward", Name: "minted", Data: []byte{1, byte(s.rng.Intn(256))}, Topics: []codec.Hex{{0xaa, byte(s.rng.Intn(256))}}})
	}
	if s.rng.Intn(4) == 0 {
		o.AfterEvents = append(o.AfterEvents, &blockchain.Event{Module: "pos", Name: "round", Data: []byte{2}, Topics: []codec.Hex{{0xbb}, {0xcc, byte(s.rng.Intn(256))}}})
	}
}

// step builds the next honest block with the options, processes it and checks tip, height,
// finality monotonicity and the published events.
func (s *stRun) step(o BlockOpts) (*blockchain.Block, error) {
	n := s.n
	prevHeight := n.Height()
	b, err := n.BuildBlock(o)
	if err != nil {
		return nil, fmt.Errorf("build at height %d: %w", prevHeight+1, err)
	}
	if extra := n.DrainEvents(); len(extra) != 0 {
		return nil, fmt.Errorf("BuildBlock published events %v", EventStrings(extra))
	}
	r := s.process(b)
	if r.Err != nil {
		return nil, fmt.Errorf("valid block at height %d by %s rejected: %w", b.Header.Height, n.ValidatorByAddress(b.Header.GeneratorAddress), r.Err)
	}
	if !r.Applied || n.Height() != prevHeight+1 || !bytes.Equal(n.Tip().Header.ID, b.Header.ID) {
		return nil, fmt.Errorf("valid block at height %d not applied (tip height %d)", b.Header.Height, n.Height())
	}
	fin := n.Finalized()
	if fin < s.fin {
		return nil, fmt.Errorf("finalized height decreased %d -> %d", s.fin, fin)
	}
	_, mhpc, _ := n.BFTHeights()
	if fin < mhpc {
		return nil, fmt.Errorf("finalized %d below maxHeightPrecommitted %d after block %d", fin, mhpc, b.Header.Height)
	}
	evs := n.DrainEvents()
	var want []string
	if fin != s.fin {
		want = append(want, fmt.Sprintf("finalize %d->%d trigger=%d", s.fin, fin, b.Header.Height))
	}
	expected := ExpectedEvents(b.Header.Height, b.Assets, b.Transactions)
	want = append(want, fmt.Sprintf("new h=%d id=%x events=%d", b.Header.Height, []byte(b.Header.ID), len(expected)))
	if o.ValidatorChange != nil {
		want = append(want, fmt.Sprintf("validators n=%d pre=%d cert=%d", len(o.ValidatorChange.Validators), o.ValidatorChange.PrecommitThreshold, o.ValidatorChange.CertificateThreshold))
	}
	if got := EventStrings(evs); strings.Join(got, "|") != strings.Join(want, "|") {
		return nil, fmt.Errorf("events after block %d: got %v want %v", b.Header.Height, got, want)
	}
	for _, e := range evs {
		if e.Kind == EvNew {
			for i, ev := range e.Events {
				if !bytes.Equal(ev.Encode(), expected[i].Encode()) {
					return nil, fmt.Errorf("application event %d of block %d differs from the scripted one", i, b.Header.Height)
				}
			}
		}
	}
	// stored events (when not pruned) must be the executed ones
	if len(expected) > 0 && b.Header.Height >= fin {
		stored, err := n.Chain.DataAccess().GetEvents(b.Header.Height)
		if err != nil || len(stored) != len(expected) {
			return nil, fmt.Errorf("stored events of block %d: %d, %v; want %d", b.Header.Height, len(stored), err, len(expected))
		}
	}
	s.fin = fin
	if len(n.ABI.Inconsistencies) != 0 {
		return nil, fmt.Errorf("mock application saw inconsistent requests: %v", n.ABI.Inconsistencies)
	}
	if h, root := n.ABI.StateRoot(); h != b.Header.Height || !bytes.Equal(root, b.Header.StateRoot) {
		return nil, fmt.Errorf("application state (%d,%x) does not match tip (%d,%x)", h, root, b.Header.Height, []byte(b.Header.StateRoot))
	}
	return b, nil
}

func (s *stRun) extend(k int, decorate bool) error {
	for i := 0; i < k; i++ {
		o := BlockOpts{}
		if decorate {
			s.randomOpts(&o)
		}
		if _, err := s.step(o); err != nil {
			return err
		}
	}
	return nil
}

// allowedDeleteDiff tells whether a dump difference after apply+delete is covered by the "apart
// from the monotone finalized-height marker and data already pruned below it" clause of C05.
func allowedDeleteDiff(line string) bool {
	return strings.Contains(line, " finalizedHeight ") ||
		(strings.HasPrefix(line, "- ") && (strings.Contains(line, " stateDiff ") || strings.Contains(line, " height->events ")))
}

// applyDelete applies a block built from the options, deletes it again and compares dumps.
func (s *stRun) applyDelete(label string, o BlockOpts, exact bool) error {
	n := s.n
	d0 := n.DumpDB()
	abi0 := n.ABI.String()
	bft0 := n.BFTDump()
	tip0 := n.Tip().Header.ID
	gen, _ := n.GeneratorAt(1)
	mhg0 := uint32(0)
	if gen != nil {
		mhg0 = gen.MaxHeightGenerated
	}
	b, err := s.step(o)
	if err != nil {
		return fmt.Errorf("%s: %w", label, err)
	}
	d1 := n.DumpDB()
	if err := n.DeleteTip(false); err != nil {
		return fmt.Errorf("%s: delete of tip %d failed: %w", label, b.Header.Height, err)
	}
	evs := EventStrings(n.DrainEvents())
	if len(evs) != 1 || evs[0] != fmt.Sprintf("delete h=%d id=%x events=0", b.Header.Height, []byte(b.Header.ID)) {
		return fmt.Errorf("%s: events after delete: %v", label, evs)
	}
	if !bytes.Equal(n.Tip().Header.ID, tip0) {
		return fmt.Errorf("%s: tip after delete is not the previous tip", label)
	}
	d2 := n.DumpDB()
	var bad []string
	for _, l := range DiffDumps(d0, d2) {
		if exact || !allowedDeleteDiff(l) {
			bad = append(bad, l)
		}
	}
	if len(bad) != 0 {
		s.find(FindingDeleteNotExact, fmt.Sprintf("%s: block %d (txs=%d assets=%d): %d differences, first: %s", label, b.Header.Height, len(b.Transactions), len(b.Assets), len(bad), trunc(bad[0], 200)))
	}
	if n.BFTDump() != bft0 {
		s.find(FindingDeleteNotExact, label+": BFT store after delete differs from the store before apply")
	}
	if n.ABI.String() != abi0 {
		return fmt.Errorf("%s: application state not reverted", label)
	}
	// apply the same block again: same state as after the first apply
	if gen != nil {
		gen.MaxHeightGenerated = mhg0
	}
	r := s.process(b)
	if r.Err != nil || !r.Applied {
		return fmt.Errorf("%s: re-applying deleted block %d: applied=%v err=%v", label, b.Header.Height, r.Applied, r.Err)
	}
	n.DrainEvents()
	if diff := DiffDumps(d1, n.DumpDB()); len(diff) != 0 {
		s.find(FindingDeleteNotExact, fmt.Sprintf("%s: apply-delete-apply differs from apply: %s", label, trunc(diff[0], 200)))
	}
	s.fin = n.Finalized()
	return nil
}

func trunc(s string, n int) string {
	if len(s) > n {
		return s[:n] + "..."
	}
	return s
}

// SelfTestConfig runs all scenarios on one configuration and appends to rep.
func SelfTestConfig(rep *SelfTestReport, numValidators, batchSize int, seed int64) error {
	name := fmt.Sprintf("nv=%d,bs=%d", numValidators, batchSize)
	rep.Scenarios = append(rep.Scenarios, name)
	n, err := New(Config{NumValidators: numValidators, BatchSize: batchSize, Seed: seed, ExtraValidators: 1})
	if err != nil {
		return fmt.Errorf("New: %w", err)
	}
	defer n.Close()
	s := &stRun{rep: rep, n: n, rng: rand.New(rand.NewSource(seed)), name: name}
	g := n.Cfg.GenesisHeight
	if n.Height() != g || n.Finalized() != g || !bytes.Equal(n.Tip().Header.ID, n.Genesis.Header.ID) {
		return fmt.Errorf("after New: tip %d finalized %d", n.Height(), n.Finalized())
	}
	if a, b, c := n.BFTHeights(); a != g || b != g || c != g {
		return fmt.Errorf("BFT heights after genesis: %d %d %d", a, b, c)
	}
	s.fin = g
	if evs := n.DrainEvents(); len(evs) != 0 {
		return fmt.Errorf("events after genesis: %v", EventStrings(evs))
	}

	// 1. chain extension, finality
	if err := s.extend(3*batchSize+5, true); err != nil {
		return fmt.Errorf("extend: %w", err)
	}
	if n.Finalized() <= g {
		return fmt.Errorf("finality did not advance after %d blocks (heights %v)", 3*batchSize+5, fmt.Sprint(n.BFTHeights()))
	}
	s.logf("extended to %d, finalized %d", n.Height(), n.Finalized())

	// 2. identical block is ignored
	d0 := n.DumpDBString()
	tip := n.Tip()
	r := s.process(tip)
	if r.Err != nil || r.TipChanged || n.DumpDBString() != d0 || len(n.DrainEvents()) != 0 {
		return fmt.Errorf("identical block: err=%v tipChanged=%v dumpChanged=%v", r.Err, r.TipChanged, n.DumpDBString() != d0)
	}

	// 3. corrupted signature is rejected without a trace
	calls0 := len(n.ABI.Calls)
	bad, err := n.BuildBlock(BlockOpts{})
	if err != nil {
		return err
	}
	bad.Header.Signature[s.rng.Intn(64)] ^= 1 << uint(s.rng.Intn(8))
	bad.Header.Init()
	r = s.process(bad)
	if r.Err == nil || r.TipChanged {
		return fmt.Errorf("block with corrupted signature: err=%v tipChanged=%v", r.Err, r.TipChanged)
	}
	if n.DumpDBString() != d0 {
		return fmt.Errorf("rejected block changed the database: %v", DiffDumps(parseDump(d0), n.DumpDB()))
	}
	if evs := n.DrainEvents(); len(evs) != 0 {
		return fmt.Errorf("rejected block published events %v", EventStrings(evs))
	}
	if len(n.ABI.Calls) != calls0 {
		s.logf("rejected (signature) block caused ABI calls: %v", n.ABI.CallNames()[calls0:])
	}
	// the same content with a good signature, but from the wrong generator, is rejected too
	if len(n.Validators) > 1 {
		wrongGen, _ := n.GeneratorAt(2)
		if cur, _ := n.GeneratorAt(1); wrongGen != nil && cur != nil && wrongGen != cur {
			wb, err := n.BuildBlock(BlockOpts{SlotsAhead: 1, Generator: wrongGen})
			if err != nil {
				return err
			}
			if r := s.process(wb); r.Err == nil || r.TipChanged || n.DumpDBString() != d0 {
				return fmt.Errorf("block by the wrong generator: err=%v tipChanged=%v", r.Err, r.TipChanged)
			}
		}
	}

	// 4. probes of unchecked rules (tolerated findings)
	if err := s.probeUnchecked(); err != nil {
		return err
	}

	// 5. apply + delete restores the state
	nonVoting := BlockOpts{MaxHeightGenerated: U32(n.Height() + 1)} // implies no votes => finality cannot advance
	s.randomOpts(&nonVoting)
	nonVoting.Txs = append(nonVoting.Txs, n.NewTransaction(n.Validators[0], 900001, 5, []byte{TxOK, TxOK}))
	nonVoting.Assets = append(nonVoting.Assets, &blockchain.BlockAsset{Module: "aaa", Data: []byte{7}})
	nonVoting.AfterEvents = append(nonVoting.AfterEvents, &blockchain.Event{Module: "m", Name: "n", Data: []byte{1}, Topics: []codec.Hex{{1}}})
	if err := s.applyDelete("apply/delete non-voting block", nonVoting, true); err != nil {
		return err
	}
	voting := BlockOpts{}
	s.randomOpts(&voting)
	if err := s.applyDelete("apply/delete voting block", voting, false); err != nil {
		return err
	}
	// temp blocks
	before := n.Tip()
	if err := n.DeleteTip(true); err != nil {
		return fmt.Errorf("delete with saveTemp: %w", err)
	}
	n.DrainEvents()
	temps, err := n.TempBlocks()
	if err != nil || len(temps) != 1 || !bytes.Equal(temps[0].Header.ID, before.Header.ID) {
		return fmt.Errorf("temp blocks after DeleteTip(true): %d %v", len(temps), err)
	}
	if err := n.ProcessValidated(before, true); err != nil {
		return fmt.Errorf("ProcessValidated(removeTemp) of the deleted tip: %w", err)
	}
	n.DrainEvents()
	if temps, _ := n.TempBlocks(); len(temps) != 0 {
		return fmt.Errorf("temp block not removed by ProcessValidated(removeTemp=true)")
	}
	s.fin = n.Finalized()
	// deleting a finalized block must be refused
	if fb, err := n.BlockAt(n.Finalized()); err == nil && n.Finalized() > g {
		dd := n.DumpDBString()
		if err := n.DeleteBlock(fb, false); err == nil {
			return fmt.Errorf("deleteBlock accepted finalized height %d", fb.Header.Height)
		}
		if n.DumpDBString() != dd {
			return fmt.Errorf("refused delete changed the database")
		}
	}

	// 6. restart
	dumpBefore := n.DumpDB()
	tipBefore := n.Tip().Header.ID
	if err := n.Restart(); err != nil {
		s.find(FindingRestartDiffers, "Restart failed: "+err.Error())
		return fmt.Errorf("restart: %w", err)
	}
	if !bytes.Equal(n.Tip().Header.ID, tipBefore) || n.Finalized() != s.fin {
		return fmt.Errorf("restart changed tip or finalized height")
	}
	if diff := DiffDumps(dumpBefore, n.DumpDB()); len(diff) != 0 {
		s.find(FindingRestartDiffers, trunc(strings.Join(diff, "; "), 300))
	}
	if err := s.extend(3, true); err != nil {
		return fmt.Errorf("extend after restart: %w", err)
	}

	// 7. certificates
	if err := s.certificates(); err != nil {
		return fmt.Errorf("certificates: %w", err)
	}

	// 8. validator change
	if err := s.validatorChange(); err != nil {
		return fmt.Errorf("validator change: %w", err)
	}
	if len(n.ABI.Inconsistencies) != 0 {
		return fmt.Errorf("mock application saw inconsistent requests: %v", n.ABI.Inconsistencies)
	}

	// 9. a twin node (same configuration => same keys and genesis) replaying the final chain ends
	// in the same database state, although this node went through deletes, re-applies and a restart
	twin, err := New(n.Cfg)
	if err != nil {
		return fmt.Errorf("twin: %w", err)
	}
	defer twin.Close()
	if !bytes.Equal(twin.Genesis.Header.ID, n.Genesis.Header.ID) {
		return fmt.Errorf("twin has a different genesis block")
	}
	if gap, err := n.BlockAt(g + 2); err == nil {
		// a block that does not connect to the tip goes to the synchroniser: the harness refuses it
		d := twin.DumpDBString()
		if r := twin.ProcessResult(gap); r.Err != ErrWouldSync || r.ForkChoice != "differentChain" || r.TipChanged || twin.DumpDBString() != d {
			return fmt.Errorf("gap block on twin: err=%v forkChoice=%q", r.Err, r.ForkChoice)
		}
	}
	for h := g + 1; h <= n.Height(); h++ {
		b, err := n.BlockAt(h)
		if err != nil {
			return fmt.Errorf("BlockAt(%d): %w", h, err)
		}
		t0 := time.Now()
		r := twin.ProcessResult(b)
		rep.ProcessTime += time.Since(t0)
		rep.Blocks++
		if r.Err != nil || !r.Applied {
			return fmt.Errorf("twin rejects block %d of the chain: applied=%v err=%v", h, r.Applied, r.Err)
		}
	}
	if diff := DiffDumps(n.DumpDB(), twin.DumpDB()); len(diff) != 0 {
		s.find(FindingReplayDiffers, fmt.Sprintf("%d differences, first: %s", len(diff), trunc(diff[0], 200)))
	}
	if twin.BFTDump() != n.BFTDump() || twin.Finalized() != n.Finalized() {
		return fmt.Errorf("twin BFT state or finalized height differs")
	}
	return nil
}

func parseDump(s string) []KV {
	var res []KV
	for _, l := range strings.Split(strings.TrimSpace(s), "\n") {
		p := strings.SplitN(l, "=", 2)
		if len(p) != 2 {
			continue
		}
		var k, v []byte
		fmt.Sscanf(p[0], "%x", &k)
		fmt.Sscanf(p[1], "%x", &v)
		res = append(res, KV{k, v})
	}
	return res
}

// probeUnchecked tries blocks that the property list says must be rejected; acceptance is recorded
// as a tolerated finding and the block is deleted again.
func (s *stRun) probeUnchecked() error {
	n := s.n
	undo := func(label string) error {
		if err := n.DeleteTip(false); err != nil {
			return fmt.Errorf("%s: cannot delete probe block: %w", label, err)
		}
		n.DrainEvents()
		return nil
	}
	probe := func(flag, label string, o BlockOpts) error {
		gen, _ := n.GeneratorAt(1)
		mhg := gen.MaxHeightGenerated
		o.MaxHeightGenerated = U32(n.Height() + 1) // no votes: keeps the probe deletable
		b, err := n.BuildBlock(o)
		if err != nil {
			return err
		}
		r := s.process(b)
		n.DrainEvents()
		if r.Applied {
			s.find(flag, fmt.Sprintf("%s: block %d accepted (err=%v)", label, b.Header.Height, r.Err))
			gen.MaxHeightGenerated = mhg
			return undo(label)
		}
		s.logf("%s: rejected with %v", label, r.Err)
		return nil
	}
	if err := probe(FindingEventRootUnchecked, "header eventRoot replaced by 32 x 0x5a, block re-signed", BlockOpts{
		BeforeEvents: []*blockchain.Event{{Module: "m", Name: "n", Data: []byte{1}, Topics: []codec.Hex{{1}}}},
		Mutate:       func(b *blockchain.Block) { b.Header.EventRoot = bytes.Repeat([]byte{0x5a}, 32) },
	}); err != nil {
		return err
	}
	badTx := n.NewTransaction(n.Validators[0], 1, 1, []byte{TxOK, TxOK})
	badTx.Module = "not alphanumeric!"
	badTx.Signatures = []codec.Hex{{1, 2, 3}}
	badTx.Init()
	if badTx.Validate() == nil {
		return fmt.Errorf("probe transaction unexpectedly valid")
	}
	if err := probe(FindingTxValidateUnchecked, "transaction with non-alphanumeric module and 3-byte signature", BlockOpts{Txs: []*blockchain.Transaction{badTx}}); err != nil {
		return err
	}
	if err := probe(FindingExecResultIgnored, "transaction whose ExecuteTransaction result is Invalid(-1)", BlockOpts{Txs: []*blockchain.Transaction{n.NewTransaction(n.Validators[0], 2, 1, []byte{TxOK, TxInvalid})}}); err != nil {
		return err
	}
	// rules that are checked: these must be rejected
	mustReject := func(label string, o BlockOpts) error {
		d := n.DumpDBString()
		b, err := n.BuildBlock(o)
		if err != nil {
			return err
		}
		r := s.process(b)
		if r.Err == nil || r.TipChanged {
			return fmt.Errorf("%s: accepted (err=%v applied=%v)", label, r.Err, r.Applied)
		}
		if n.DumpDBString() != d || len(n.DrainEvents()) != 0 {
			return fmt.Errorf("%s: rejected block left traces", label)
		}
		if len(n.ABI.Inconsistencies) != 0 {
			return fmt.Errorf("%s: %v", label, n.ABI.Inconsistencies)
		}
		return nil
	}
	if err := mustReject("VerifyTransaction result invalid", BlockOpts{Txs: []*blockchain.Transaction{n.NewTransaction(n.Validators[0], 3, 1, []byte{TxInvalid})}}); err != nil {
		return err
	}
	if err := mustReject("wrong stateRoot", BlockOpts{Mutate: func(b *blockchain.Block) { b.Header.StateRoot = bytes.Repeat([]byte{1}, 32) }}); err != nil {
		return err
	}
	if err := mustReject("wrong validatorsHash", BlockOpts{Mutate: func(b *blockchain.Block) { b.Header.ValidatorsHash = bytes.Repeat([]byte{1}, 32) }}); err != nil {
		return err
	}
	if err := mustReject("wrong transactionRoot", BlockOpts{Mutate: func(b *blockchain.Block) { b.Header.TransactionRoot = bytes.Repeat([]byte{1}, 32) }}); err != nil {
		return err
	}
	if err := mustReject("wrong maxHeightPrevoted", BlockOpts{MaxHeightPrevoted: U32(n.Height() + 7)}); err != nil {
		return err
	}
	if err := mustReject("hook failure in AfterTransactionsExecute", BlockOpts{FailHook: HookAfterTxs}); err != nil {
		return err
	}
	return nil
}

func (s *stRun) activeValidators(height uint32) ([]*Validator, uint64, error) {
	params, err := s.n.BFTParams(height)
	if err != nil {
		return nil, 0, err
	}
	var res []*Validator
	for _, bv := range params.Validators() {
		v := s.n.ValidatorByAddress(bv.Address())
		if v == nil {
			return nil, 0, fmt.Errorf("unknown validator %x", []byte(bv.Address()))
		}
		res = append(res, v)
	}
	// descending by BLS key: the order in which SingleCommits.Aggregate numbers the bits
	sort.Slice(res, func(i, j int) bool { return bytes.Compare(res[i].BLSPub, res[j].BLSPub) > 0 })
	return res, params.CertificateThreshold(), nil
}

func (s *stRun) certificates() error {
	n := s.n
	// (a) every validator signs the finalized height
	_, mhpc, mhc := n.BFTHeights()
	if mhpc <= mhc {
		return fmt.Errorf("nothing to certify: precommitted %d certified %d", mhpc, mhc)
	}
	target := mhpc
	vals, threshold, err := s.activeValidators(target)
	if err != nil {
		return err
	}
	for _, v := range vals {
		if err := n.Certify(v, mhc, target); err != nil {
			return fmt.Errorf("Certify: %w", err)
		}
	}
	if got := len(n.CertPool().Get(target)); got != len(vals) {
		return fmt.Errorf("pool has %d commits for height %d, want %d", got, target, len(vals))
	}
	ac, err := n.GetAggregateCommit()
	if err != nil {
		return fmt.Errorf("GetAggregateCommit: %w", err)
	}
	if ac.Height != target || ac.Empty() {
		return fmt.Errorf("GetAggregateCommit returned height %d empty=%v, want %d", ac.Height, ac.Empty(), target)
	}
	if err := n.VerifyAggregateCommit(ac); err != nil {
		s.find(FindingOwnAggregateRejected, fmt.Sprintf("ALL %d validators signed height %d, own aggregate (bits %x) rejected: %v", len(vals), target, []byte(ac.AggregationBits), err))
		ac, err = n.ReferenceAggregate(target, vals)
		if err != nil {
			return err
		}
	}
	if _, err := s.step(BlockOpts{AggregateCommit: ac}); err != nil {
		return fmt.Errorf("block carrying the aggregate commit for height %d: %w", target, err)
	}
	if _, _, c := n.BFTHeights(); c != target {
		return fmt.Errorf("maxHeightCertified %d after block with aggregate commit for %d", c, target)
	}
	// the same aggregate again is stale now
	if err := n.VerifyAggregateCommit(ac); err == nil {
		return fmt.Errorf("aggregate commit at maxHeightCertified accepted again")
	}
	// (b) a proper subset reaching the threshold signs a later height (via the gossip validator)
	if err := s.extend(2, false); err != nil {
		return err
	}
	_, mhpc, mhc = n.BFTHeights()
	if mhpc <= mhc {
		return fmt.Errorf("no new precommitted height after certification (%d <= %d)", mhpc, mhc)
	}
	target = mhpc
	vals, threshold, err = s.activeValidators(target)
	if err != nil {
		return err
	}
	var signers []*Validator
	w := uint64(0)
	for _, v := range vals { // largest BLS keys first
		if w >= threshold {
			break
		}
		signers = append(signers, v)
		w += v.Weight
	}
	dropped := false
	for _, v := range signers {
		sc := n.SingleCommit(v, target)
		if res := n.SubmitSingleCommits(sc); res != p2p.ValidationIgnore {
			return fmt.Errorf("singleCommitValidator returned %d for a valid commit", res)
		}
		if !n.CertPool().Has(sc) {
			if !dropped {
				s.find(FindingSingleCommitDropped, fmt.Sprintf("valid single commit by an active validator for height %d (= maxHeightPrecommitted %d, maxHeightCertified %d, tip %d) silently discarded by singleCommitValidator", target, mhpc, mhc, n.Height()))
			}
			dropped = true
			if err := n.Certify(v, target-1, target); err != nil {
				return err
			}
			if !n.CertPool().Has(sc) {
				return fmt.Errorf("Certify did not add the commit of %s for height %d", v, target)
			}
		}
	}
	// an invalid signature must not enter the pool
	if len(vals) > len(signers) {
		outsider := vals[len(vals)-1]
		forged := RawSingleCommit(n.SingleCommit(outsider, target).BlockID(), target, outsider.Address, n.SingleCommit(signers[0], target).CertificateSignature())
		size := n.CertPool().Size()
		res := n.SubmitSingleCommits(forged)
		if n.CertPool().Size() != size || res == p2p.ValidationAccept || (res != p2p.ValidationReject && !dropped) {
			return fmt.Errorf("forged single commit: result %d pool %d->%d", res, size, n.CertPool().Size())
		}
	}
	ac, err = n.GetAggregateCommit()
	if err != nil {
		return fmt.Errorf("GetAggregateCommit: %w", err)
	}
	if ac.Height != target || ac.Empty() {
		return fmt.Errorf("GetAggregateCommit (subset) returned height %d empty=%v, want %d", ac.Height, ac.Empty(), target)
	}
	ref, err := n.ReferenceAggregate(target, signers)
	if err != nil {
		return err
	}
	if err := n.VerifyAggregateCommit(ref); err != nil {
		return fmt.Errorf("reference aggregate (ascending key order) rejected: %w", err)
	}
	if err := n.VerifyAggregateCommit(ac); err != nil {
		s.find(FindingOwnAggregateRejected, fmt.Sprintf("%d of %d validators (weight %d, threshold %d; the ones with the largest BLS keys) signed height %d; GetAggregateCommit bits %x, reference bits %x; own verification: %v",
			len(signers), len(vals), w, threshold, target, []byte(ac.AggregationBits), []byte(ref.AggregationBits), err))
		// a block carrying it must be rejected as well (consistency of the finding)
		b, err := n.BuildBlock(BlockOpts{AggregateCommit: ac})
		if err != nil {
			return err
		}
		if r := s.process(b); r.Applied {
			return fmt.Errorf("block with an aggregate commit rejected by VerifyAggregateCommit was accepted")
		}
		n.DrainEvents()
		ac = ref
	} else if !bytes.Equal(ac.AggregationBits, ref.AggregationBits) && len(signers) < len(vals) {
		s.logf("own aggregate accepted with bits %x (reference %x)", []byte(ac.AggregationBits), []byte(ref.AggregationBits))
	}
	if _, err := s.step(BlockOpts{AggregateCommit: ac}); err != nil {
		return fmt.Errorf("block carrying the subset aggregate for height %d: %w", target, err)
	}
	if _, _, c := n.BFTHeights(); c != target {
		return fmt.Errorf("maxHeightCertified %d after block with aggregate commit for %d", c, target)
	}
	// tampered aggregate: flip one bit of the bits
	tam := &blockchain.AggregateCommit{Height: target, AggregationBits: append([]byte{}, ref.AggregationBits...), CertificateSignature: ref.CertificateSignature}
	tam.AggregationBits[0] ^= 1
	if err := n.VerifyAggregateCommit(tam); err == nil {
		return fmt.Errorf("tampered aggregate accepted")
	}
	return nil
}

func (s *stRun) validatorChange() error {
	n := s.n
	nv := n.Cfg.NumValidators
	extra := n.Validators[nv]
	var next []*labi.Validator
	total := uint64(0)
	if nv == 1 {
		// {v0} -> {v0, extra}
		next = []*labi.Validator{n.Validators[0].Labi(1), extra.Labi(1)}
		total = 2
	} else {
		// replace validator 0 by the extra key holder
		next = append(next, extra.Labi(1))
		total = 1
		for _, v := range n.Validators[1:nv] {
			next = append(next, v.Labi(v.Weight))
			total += v.Weight
		}
	}
	vc := &ValidatorChange{Validators: next, PrecommitThreshold: DefaultThreshold(total), CertificateThreshold: DefaultThreshold(total)}
	b, err := s.step(BlockOpts{ValidatorChange: vc})
	if err != nil {
		return err
	}
	extra.Weight = 1
	gens, err := n.Generators(b.Header.Height + 1)
	if err != nil || len(gens) != len(next) {
		return fmt.Errorf("generators after change: %d %v", len(gens), err)
	}
	params, err := n.BFTParams(b.Header.Height + 1)
	if err != nil {
		return err
	}
	if !bytes.Equal(params.ValidatorsHash(), b.Header.ValidatorsHash) {
		return fmt.Errorf("stored validatorsHash differs from the header's")
	}
	finBefore := n.Finalized()
	byExtra := 0
	for i := 0; i < 3*n.Cfg.BatchSize+2*len(next); i++ {
		blk, err := s.step(BlockOpts{})
		if err != nil {
			return fmt.Errorf("block %d after validator change: %w", i, err)
		}
		if bytes.Equal(blk.Header.GeneratorAddress, extra.Address) {
			byExtra++
		}
	}
	if byExtra == 0 {
		return fmt.Errorf("the new validator never generated a block")
	}
	if n.Finalized() <= finBefore {
		s.find(FindingNoFinalityAfterChange, fmt.Sprintf("finalized stays %d for %d blocks after the change at height %d; BFT: %s", finBefore, 3*n.Cfg.BatchSize+2*len(next), b.Header.Height, trunc(n.BFTDump(), 300)))
	}
	s.logf("validator change at %d: %d blocks by the new validator, finalized %d -> %d", b.Header.Height, byExtra, finBefore, n.Finalized())
	// the removed validator can no longer generate
	if nv > 1 {
		old := n.Validators[0]
		ob, err := n.BuildBlock(BlockOpts{Generator: old, SlotsAhead: 1})
		if err != nil {
			return err
		}
		if r := s.process(ob); r.Err == nil || r.Applied {
			return fmt.Errorf("block by the removed validator accepted")
		}
		n.DrainEvents()
	}
	return nil
}

// probeGenesisHeight checks whether a node with a non-zero genesis height can be created, extended
// and restarted; failures are tolerated findings.
func probeGenesisHeight(rep *SelfTestReport, seed int64) {
	name := "genesisHeight=50"
	rep.Scenarios = append(rep.Scenarios, name)
	add := func(d string) {
		rep.Findings = append(rep.Findings, Finding{Flag: FindingGenesisHeight, Scenario: name, Detail: d})
	}
	n, err := New(Config{NumValidators: 4, Seed: seed, GenesisHeight: 50, MaxBlockCache: 20})
	if err != nil {
		add("New (Executer.Init) fails: " + err.Error())
		return
	}
	defer n.Close()
	if _, err := n.Extend(5); err != nil {
		add("Extend fails: " + err.Error())
		return
	}
	if err := n.Restart(); err != nil {
		add("Restart with tip 55, genesis 50, maxBlockCache 20 fails: " + err.Error())
		return
	}
	if _, err := n.Extend(3); err != nil {
		add("Extend after restart fails: " + err.Error())
	}
}

// probeLongChainCommit checks that on a chain longer than certificate.CommitRangeStored the gossip
// validator does accept a valid single commit for the precommitted height (the early-chain drop is
// an underflow artefact), and that restart works with a block cache smaller than the chain.
func probeLongChainCommit(rep *SelfTestReport, seed int64) error {
	name := "long chain nv=4"
	rep.Scenarios = append(rep.Scenarios, name)
	n, err := New(Config{NumValidators: 4, Seed: seed, MaxBlockCache: 30})
	if err != nil {
		return err
	}
	defer n.Close()
	t0 := time.Now()
	if _, err := n.Extend(130); err != nil {
		return err
	}
	rep.ProcessTime += time.Since(t0) / 2 // roughly half of Extend is building
	rep.Blocks += 130
	n.DrainEvents()
	_, mhpc, mhc := n.BFTHeights()
	if mhpc <= 100 {
		return fmt.Errorf("maxHeightPrecommitted %d after 130 blocks", mhpc)
	}
	v := n.Validators[0]
	sc := n.SingleCommit(v, mhpc)
	res := n.SubmitSingleCommits(sc)
	if !n.CertPool().Has(sc) {
		rep.Findings = append(rep.Findings, Finding{Flag: FindingSingleCommitDropped, Scenario: name, Detail: fmt.Sprintf("valid single commit for height %d (mhpc %d, mhc %d) dropped although mhpc > 100 (result %d)", mhpc, mhpc, mhc, res)})
	}
	// a commit for an old height (< mhpc-100 would need a longer chain) - here: height below mhc+1 is discarded
	dump := n.DumpDB()
	tip := n.Tip().Header.ID
	if err := n.Restart(); err != nil {
		rep.Findings = append(rep.Findings, Finding{Flag: FindingRestartDiffers, Scenario: name, Detail: "Restart with tip 130 and MaxBlockCache 30 fails: " + err.Error()})
		return nil
	}
	if !bytes.Equal(n.Tip().Header.ID, tip) || len(DiffDumps(dump, n.DumpDB())) != 0 {
		return fmt.Errorf("restart changed tip or database")
	}
	if _, err := n.Extend(3); err != nil {
		return fmt.Errorf("extend after restart: %w", err)
	}
	// blocks outside of the cache are still served
	if _, err := n.BlockAt(5); err != nil {
		return fmt.Errorf("BlockAt(5) outside the cache: %w", err)
	}
	return nil
}

// probeStrictFS runs a node on a strict in-memory file system and simulates a power loss.
func probeStrictFS(rep *SelfTestReport, seed int64) error {
	name := "strict fs nv=4"
	rep.Scenarios = append(rep.Scenarios, name)
	dir := ""
	if seed%2 == 0 {
		dir = "data/blockchain.db"
	}
	n, err := New(Config{NumValidators: 4, Seed: seed, FS: vfs.NewStrictMem(), Dir: dir})
	if err != nil {
		return err
	}
	defer n.Close()
	if _, err := n.Extend(12); err != nil {
		return err
	}
	n.DrainEvents()
	dump := n.DumpDB()
	tip := n.Tip().Header.ID
	if err := n.Reopen(true); err != nil {
		return fmt.Errorf("Reopen(crash): %w", err)
	}
	if !bytes.Equal(n.Tip().Header.ID, tip) {
		return fmt.Errorf("tip after crash+reopen is %d, want 12 (every block batch is written with Sync)", n.Height())
	}
	if diff := DiffDumps(dump, n.DumpDB()); len(diff) != 0 {
		rep.Findings = append(rep.Findings, Finding{Flag: FindingRestartDiffers, Scenario: name, Detail: trunc(strings.Join(diff, "; "), 300)})
	}
	if len(n.ABI.Inconsistencies) != 0 {
		return fmt.Errorf("application inconsistencies after reopen: %v", n.ABI.Inconsistencies)
	}
	if _, err := n.Extend(3); err != nil {
		return fmt.Errorf("extend after reopen: %w", err)
	}
	if err := n.CloseErr(); err != nil {
		rep.Findings = append(rep.Findings, Finding{Flag: FindingDBCloseError, Scenario: name, Detail: "db.Close() after 15 blocks: " + trunc(strings.ReplaceAll(err.Error(), "\n", " "), 120)})
	}
	return nil
}
