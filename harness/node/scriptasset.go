package node

import (
	"encoding/json"

	"github.com/LiskHQ/lisk-engine/pkg/blockchain"
)

// ScriptAsset returns the block asset that carries the scripted behaviour selected by the options
// (validator change, hook events, failing hook) exactly as BuildBlock attaches it, or nil if the
// options script nothing. An application stand-in that answers InsertAssets with this asset makes
// the REAL block generator produce a block with the same scripted behaviour.
func (o *BlockOpts) ScriptAsset() (*blockchain.BlockAsset, error) {
	s := o.script()
	if s.empty() {
		return nil, nil
	}
	data, err := json.Marshal(s)
	if err != nil {
		return nil, err
	}
	return &blockchain.BlockAsset{Module: ScriptModule, Data: data}, nil
}
