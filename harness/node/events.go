package node

import (
	"fmt"

	"github.com/LiskHQ/lisk-engine/pkg/blockchain"
	"github.com/LiskHQ/lisk-engine/pkg/consensus"
)

// Event kinds.
const (
	EvNew        = "new"
	EvDelete     = "delete"
	EvFinalize   = "finalize"
	EvValidators = "validators"
	EvFork       = "fork"
	EvNetworkNew = "networkNew"
)

// Event is one message published by the executer on its event emitter, in publication order.
type Event struct {
	Kind     string
	Height   uint32 // new/delete/networkNew/fork: block height; finalize: height of the trigger block
	BlockID  []byte // new/delete/networkNew/fork: block id; finalize: id of the trigger block
	Original uint32 // finalize: previous finalized height
	Next     uint32 // finalize: new finalized height
	Block    *blockchain.Block
	Events   []*blockchain.Event             // new: application events of the block
	Change   *consensus.EventChangeValidator // validators
	Raw      interface{}
}

func (e Event) String() string {
	switch e.Kind {
	case EvFinalize:
		return fmt.Sprintf("finalize %d->%d trigger=%d", e.Original, e.Next, e.Height)
	case EvValidators:
		return fmt.Sprintf("validators n=%d pre=%d cert=%d", len(e.Change.NextValidators), e.Change.PrecommitThreshold, e.Change.CertificateThreshold)
	default:
		return fmt.Sprintf("%s h=%d id=%x events=%d", e.Kind, e.Height, e.BlockID, len(e.Events))
	}
}

func convertEvent(msg interface{}) Event {
	switch m := msg.(type) {
	case *consensus.EventBlockNewMessage:
		return Event{Kind: EvNew, Height: m.Block.Header.Height, BlockID: m.Block.Header.ID, Block: m.Block, Events: m.Events, Raw: msg}
	case *consensus.EventBlockDeleteMessage:
		return Event{Kind: EvDelete, Height: m.Block.Header.Height, BlockID: m.Block.Header.ID, Block: m.Block, Raw: msg}
	case *consensus.EventBlockFinalizeMessage:
		ev := Event{Kind: EvFinalize, Original: m.Original, Next: m.Next, Raw: msg}
		if m.Trigger != nil {
			ev.Height, ev.BlockID = m.Trigger.Height, m.Trigger.ID
		}
		return ev
	case *consensus.EventChangeValidator:
		return Event{Kind: EvValidators, Change: m, Raw: msg}
	case *consensus.EventChainForkMessage:
		return Event{Kind: EvFork, Height: m.Block.Header.Height, BlockID: m.Block.Header.ID, Block: m.Block, Raw: msg}
	case *consensus.EventNetworkBlockNewMessage:
		return Event{Kind: EvNetworkNew, Height: m.Block.Header.Height, BlockID: m.Block.Header.ID, Block: m.Block, Raw: msg}
	default:
		return Event{Kind: fmt.Sprintf("unknown:%T", msg), Raw: msg}
	}
}

// pump moves everything queued in the (buffered) event channel into n.pending. Publication happens
// synchronously inside the executer calls made by the harness, so after a harness call returns
// every event it caused is already in the channel: draining is deterministic.
func (n *Node) pump() {
	for {
		select {
		case msg, ok := <-n.evCh:
			if !ok {
				return
			}
			n.pending = append(n.pending, convertEvent(msg))
		default:
			return
		}
	}
}

// DrainEvents returns everything published on EventBlockNew, EventBlockDelete, EventBlockFinalize,
// EventValidatorsChange (and EventChainFork, EventNetworkBlockNew) since the last call, in order.
func (n *Node) DrainEvents() []Event {
	n.pump()
	res := n.pending
	n.pending = nil
	return res
}

// EventStrings renders events canonically.
func EventStrings(evs []Event) []string {
	res := make([]string, len(evs))
	for i, e := range evs {
		res[i] = e.String()
	}
	return res
}
