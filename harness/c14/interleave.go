// Operations interleaved, deterministically, into the pool operations that are in progress while the
// pool lock is NOT held.
//
// pkg/txpool has two such windows:
//
//   - reorg (periodic promotion): every per-sender goroutine snapshots GetPromotable()/GetProcessables()
//     of its list, then asks the application (ABI.VerifyTransaction) without any lock, then applies the
//     verdicts (list.Promote(batch), t.remove(id) for the invalid suffix);
//   - onTransactionAnnoucement: asks the application without a lock, then calls Add.
//
// Add itself (verifier call and conn.Publish included), Remove and the getters hold the pool mutex from
// beginning to end; `addx` checks exactly that: an operation started from inside Add's verifier or publish
// callback must take effect after the Add.
//
// Op grammar (TX, V, P as in c14.go; INNER = `add TX:V:P` | `remove TX` | `applied TX ...` |
// `reverted TX:V:P ...`):
//
//	reorgx [TX:V ...] [| INNER]...     one promotion round; every goroutine is held in its FIRST verifier
//	                                   call (all snapshots taken, no verdict applied yet) until the inner
//	                                   operations have been executed, in order, on the same pool
//	annx TX:V:P [| INNER]...           a peer announces TX (the handler registered with the connection);
//	                                   the inner operations run while the handler waits for the verifier
//	addx TX:V:P v|p [| INNER]...       Add(TX); the inner operations are STARTED from inside the verifier
//	                                   (v) or publish (p) callback of that Add
//
// Output: `ok:<r1>/<r2>/...` (addx: `true:`/`false:`) with the results of the inner operations (`-` if
// none) and the dump of the three indexes after the OUTER operation has completed. The model-free
// invariant oracle runs after every inner operation and after the outer one.
package c14

import (
	"bytes"
	"context"
	"fmt"
	"regexp"
	"runtime"
	"runtime/pprof"
	"strconv"
	"strings"
	"sync"
	"sync/atomic"
	"time"

	"github.com/LiskHQ/lisk-engine/pkg/blockchain"
	"github.com/LiskHQ/lisk-engine/pkg/p2p"
	"github.com/LiskHQ/lisk-engine/pkg/txpool"

	"verifharness/corr"
)

// gate holds verifier calls of the outer operation until the inner operations are done.
type gate struct {
	mu      sync.Mutex
	expect  int             // number of callers that will arrive (reorg: lists with something to promote)
	arrived map[string]bool // by sender address
	open    bool            // everybody is in (or the gate was released): calls pass
	late    int             // first calls of further senders seen before the release (expect was too small)
	allIn   chan struct{}
	release chan struct{}
	hook    func() // addx: called (once) by the first call instead of blocking
	hookAt  string // "v" | "p"
	fired   bool
	once    sync.Once
	// annx: the held call is a pre-check whose answer the pool does not act upon (not recorded by the oracle)
	precheck bool
}

func newGate(expect int) *gate {
	return &gate{expect: expect, arrived: map[string]bool{}, allIn: make(chan struct{}), release: make(chan struct{})}
}

// enter is called by the scripted verifier for every call while the gate is installed.
func (g *gate) enter(tx *blockchain.Transaction) (unrecorded bool) {
	g.mu.Lock()
	if g.hook != nil {
		h := g.hook
		fire := g.hookAt == "v" && !g.fired
		if fire {
			g.fired = true
		}
		g.mu.Unlock()
		if fire {
			h()
		}
		return false
	}
	if g.open {
		g.mu.Unlock()
		return false
	}
	s := string(tx.SenderAddress())
	if g.arrived[s] {
		g.mu.Unlock()
		return false
	}
	g.arrived[s] = true
	if len(g.arrived) > g.expect {
		// a list the snapshot did not show as promotable: reported by the caller, not held
		g.late++
		g.mu.Unlock()
		return false
	}
	if len(g.arrived) == g.expect {
		g.open = true
		close(g.allIn)
	}
	pre := g.precheck
	g.mu.Unlock()
	<-g.release
	return pre
}

// publishing is called by the scripted connection for every Publish while the gate is installed.
func (g *gate) publishing() {
	g.mu.Lock()
	fire := g.hook != nil && g.hookAt == "p" && !g.fired
	h := g.hook
	if fire {
		g.fired = true
	}
	g.mu.Unlock()
	if fire {
		h()
	}
}

func (g *gate) lateCalls() int { g.mu.Lock(); defer g.mu.Unlock(); return g.late }

func (g *gate) seen() int { g.mu.Lock(); defer g.mu.Unlock(); return len(g.arrived) }

func (g *gate) releaseAll() {
	g.once.Do(func() {
		g.mu.Lock()
		g.open = true
		g.mu.Unlock()
		close(g.release)
	})
}

func (a *scriptABI) setGate(g *gate)  { a.mu.Lock(); a.gate = g; a.mu.Unlock() }
func (c *scriptConn) setGate(g *gate) { c.mu.Lock(); c.gate = g; c.mu.Unlock() }

// The goroutines of one promotion round are told apart from everything else in the process by a pprof label:
// the goroutine calling reorg carries it and the per-sender goroutines it starts inherit it.
var gateSeq uint64

const gateLabel = "c14gate"

func newGateID() string { return strconv.FormatUint(atomic.AddUint64(&gateSeq, 1), 10) }

func labelGoroutine(id string) {
	pprof.SetGoroutineLabels(pprof.WithLabels(context.Background(), pprof.Labels(gateLabel, id)))
}

var profRecord = regexp.MustCompile(`^(\d+) @`)

// labelled counts the live goroutines carrying the label value id.
func labelled(id string) int {
	var buf bytes.Buffer
	if err := pprof.Lookup("goroutine").WriteTo(&buf, 1); err != nil {
		return -1
	}
	want := fmt.Sprintf("%q:%q", gateLabel, id)
	n, cur := 0, 0
	for _, line := range strings.Split(buf.String(), "\n") {
		if m := profRecord.FindStringSubmatch(line); m != nil {
			cur, _ = strconv.Atoi(m[1])
			continue
		}
		if strings.HasPrefix(line, "# labels:") {
			if strings.Contains(line, want) {
				n += cur
			}
			cur = 0
		}
	}
	return n
}

// settle waits until exactly want goroutines of the round are alive: the one calling reorg and the ones held
// in the verifier. The goroutines of lists with nothing to promote have then taken their (empty) snapshot and
// are gone - none of them can look at its list after an inner operation has changed it.
func settle(id string, want int) bool {
	deadline := time.Now().Add(watchdog)
	for {
		if labelled(id) == want {
			return true
		}
		if time.Now().After(deadline) {
			return false
		}
		runtime.Gosched()
		time.Sleep(50 * time.Microsecond)
	}
}

// promotableLists counts the sender lists for which GetPromotable returns something, i.e. the reorg
// goroutines that will call the verifier (computed from the snapshot, without the pool's code).
func promotableLists(s txpool.VerifSnapshot) int {
	n := 0
	for _, a := range s.Accounts {
		np := len(a.Processables)
		if len(a.Nonces) == 0 || len(a.Nonces) <= np {
			continue
		}
		first := a.Nonces[np]
		if np != 0 && first != a.Processables[np-1]+1 {
			continue
		}
		n++
	}
	return n
}

// splitBars splits the words of an op at the `|` separators.
func splitBars(w []string) [][]string {
	groups := [][]string{{}}
	for _, x := range w {
		if x == "|" {
			groups = append(groups, []string{})
			continue
		}
		groups[len(groups)-1] = append(groups[len(groups)-1], x)
	}
	return groups
}

// innerResult is what the inner operations of one window produced.
type innerResult struct {
	results []string
	amb     bool   // an inner Add reached an eviction whose victim depends on map order
	bad     string // "hang" | "panic" | "bad-op": the pool is abandoned / the op is malformed
}

func (ir innerResult) String() string {
	if len(ir.results) == 0 {
		return "-"
	}
	return strings.Join(ir.results, "/")
}

// inner executes the inner operations one after the other; the invariant oracle runs after each of them
// (the outer operation holds no lock at that time, the state must be consistent).
func (r *runner) inner(groups [][]string) innerResult {
	ir := innerResult{}
	for _, g := range groups {
		if len(g) == 0 {
			ir.bad = "bad-op"
			return ir
		}
		switch g[0] {
		case "add":
			if len(g) != 2 {
				ir.bad = "bad-op"
				return ir
			}
			res := r.addOne(g[1])
			switch res {
			case "hang", "panic":
				ir.bad = res
				return ir
			case "ambiguous":
				ir.amb = true
				r.dead = true
			default:
				ir.results = append(ir.results, res)
			}
		case "remove":
			if len(g) != 2 {
				ir.bad = "bad-op"
				return ir
			}
			tx, _ := r.tx(g[1])
			var res bool
			if !r.call("Remove "+g[1], func() { res = r.pool.Remove(tx.ID) }) {
				ir.bad = r.lastBad()
				return ir
			}
			ir.results = append(ir.results, tf(res))
		case "applied":
			results := []string{}
			for _, a := range g[1:] {
				tx, _ := r.tx(a)
				var res bool
				if !r.call("Remove "+a, func() { res = r.pool.Remove(tx.ID) }) {
					ir.bad = r.lastBad()
					return ir
				}
				results = append(results, tf(res))
			}
			ir.results = append(ir.results, joinTF(results))
		case "reverted":
			results := []string{}
			for _, a := range g[1:] {
				res := r.addOne(a)
				switch res {
				case "hang", "panic":
					ir.bad = res
					return ir
				case "ambiguous":
					ir.amb = true
					r.dead = true
				default:
					results = append(results, res)
				}
			}
			ir.results = append(ir.results, joinTF(results))
		default:
			ir.bad = "bad-op"
			return ir
		}
		s, ok := r.snapshot()
		if !ok {
			ir.bad = "hang"
			return ir
		}
		r.checkInvariant(s, false)
	}
	return ir
}

func tf(b bool) string {
	if b {
		return "t"
	}
	return "f"
}

// finishX prints the line of an interleaved op (or `ambiguous`, after which the case is skipped).
func (r *runner) finishX(head string, ir innerResult, afterReorg bool) string {
	out := r.finish(head+":"+ir.String(), afterReorg)
	if out != "hang" && ir.amb {
		return "ambiguous"
	}
	return out
}

// waitDone waits for the goroutine of an outer operation under the watchdog.
func (r *runner) waitDone(what string, done chan interface{}) bool {
	select {
	case p := <-done:
		if p != nil {
			r.hung = true
			r.fail("C14-panic", fmt.Sprintf("%s: %v", what, p))
			return false
		}
		return true
	case <-time.After(watchdog):
		r.hung = true
		r.fail("C14-op-hangs", what+" did not return within "+watchdog.String())
		return false
	}
}

// reorgx: one promotion round with the inner operations executed in its verification window.
func (r *runner) reorgx(w []string) string {
	groups := splitBars(w)
	outer := map[string]int32{}
	for _, a := range groups[0][1:] {
		p := strings.Split(a, ":")
		if len(p) != 2 {
			return "bad-op"
		}
		tx, _ := r.tx(p[0])
		v, ok := verdictCode(p[1])
		if !ok {
			return "bad-op"
		}
		outer[string(tx.ID)] = v
	}
	pre, ok := r.snapshot()
	if !ok {
		return "hang"
	}
	expect := promotableLists(pre)
	g := newGate(expect)
	r.abi.script(outer)
	r.abi.setGate(g)
	defer func() {
		r.abi.setGate(nil)
		r.abi.script(nil)
	}()
	done := make(chan interface{}, 1)
	id := newGateID()
	go func() {
		defer func() { done <- recover() }()
		labelGoroutine(id)
		r.pool.VerifReorgStep()
	}()
	finished := false
	if expect > 0 {
		select {
		case <-g.allIn:
			// every list with a promotable run is held in the verifier. A write-lock round trip: reorg has
			// left its spawning loop (it holds the read lock during it); then the other goroutines finish.
			if !r.call("Remove (barrier)", func() { r.pool.Remove(make([]byte, 32)) }) {
				g.releaseAll()
				return r.lastBad()
			}
			if !settle(id, expect+1) {
				r.fail("C14-harness-window-not-settled", fmt.Sprintf("%d goroutines of the promotion round alive, expected %d", labelled(id), expect+1))
			}
		case p := <-done:
			// the round ended although lists had something to promote: no window was observed
			finished = true
			if p != nil {
				r.hung = true
				r.fail("C14-panic", fmt.Sprintf("reorg: %v", p))
				g.releaseAll()
				return "panic"
			}
			r.fail("C14-reorg-skipped-promotable", fmt.Sprintf("%d sender lists had a promotable run, the verifier saw %d of them", expect, g.seen()))
			g.releaseAll()
		case <-time.After(watchdog):
			r.fail("C14-reorg-skipped-promotable", fmt.Sprintf("%d sender lists had a promotable run, the verifier saw %d of them within %s", expect, g.seen(), watchdog))
		}
	} else {
		// nothing to promote: the round asks nobody; the inner operations follow it
		if !r.waitDone("reorg", done) {
			g.releaseAll()
			return r.lastBad()
		}
		finished = true
		g.releaseAll()
	}
	ir := r.inner(groups[1:])
	r.abi.script(outer)
	g.releaseAll()
	if !finished && !r.waitDone("reorg", done) {
		return r.lastBad()
	}
	if late := g.lateCalls(); late > 0 {
		r.fail("C14-reorg-unexpected-verification", fmt.Sprintf("%d more sender lists than the %d with a promotable run were verified", late, expect))
	}
	if ir.bad != "" {
		return ir.bad
	}
	return r.finishX("ok", ir, true)
}

// annx: a transaction announced by a peer, with the inner operations in the window between the handler's
// verifier call and its Add.
func (r *runner) annx(w []string) string {
	groups := splitBars(w)
	if len(groups[0]) != 2 {
		return "bad-op"
	}
	p := strings.Split(groups[0][1], ":")
	if len(p) != 3 {
		return "bad-op"
	}
	tx, _ := r.tx(p[0])
	v, ok := verdictCode(p[1])
	if !ok {
		return "bad-op"
	}
	handler := r.conn.handler()
	if handler == nil {
		r.fail("C14-no-announcement-handler", "Init registered no handler for "+txpool.RPCEventPostTransactionAnnouncement)
		return "bad-op"
	}
	outer := map[string]int32{string(tx.ID): v}
	// the handler's own question is a pre-check: what the pool acts upon is the answer Add gets under the lock
	g := newGate(1)
	g.precheck = true
	r.abi.script(outer)
	r.abi.setGate(g)
	defer func() {
		r.abi.setGate(nil)
		r.abi.script(nil)
		r.conn.setFail(false)
	}()
	done := make(chan interface{}, 1)
	go func() {
		defer func() { done <- recover() }()
		handler(p2p.NewEvent("peer", txpool.RPCEventPostTransactionAnnouncement, tx.Bytes()))
	}()
	finished := false
	select {
	case <-g.allIn:
	case pn := <-done:
		finished = true
		if pn != nil {
			r.hung = true
			r.fail("C14-panic", fmt.Sprintf("announcement: %v", pn))
			g.releaseAll()
			return "panic"
		}
		r.fail("C14-announcement-not-verified", "the handler returned without asking the verifier about "+p[0])
		g.releaseAll()
	case <-time.After(watchdog):
		r.hung = true
		r.fail("C14-op-hangs", "announcement did not reach the verifier within "+watchdog.String())
		g.releaseAll()
		return "hang"
	}
	ir := r.inner(groups[1:])
	// the Add of the handler: ambiguity is judged on the state it will see
	amb := false
	if ir.bad == "" {
		if mid, ok := r.snapshot(); ok {
			amb = r.ambiguous(mid, tx, v)
		}
	}
	r.abi.script(outer)
	r.conn.setFail(p[2] == "0")
	g.releaseAll()
	if !finished && !r.waitDone("announcement", done) {
		return r.lastBad()
	}
	if ir.bad != "" {
		return ir.bad
	}
	if amb && !r.dead {
		ir.amb = true
		out := r.finishX("ok", ir, false)
		r.dead = true
		return out
	}
	return r.finishX("ok", ir, false)
}

// addx: Add(TX) with the inner operations started from inside its verifier or publish callback. The
// callback gives them a moment; Add holds the pool lock, so they can only take effect after it.
const addxGrace = 15 * time.Millisecond

func (r *runner) addx(w []string) string {
	groups := splitBars(w)
	if len(groups[0]) != 3 || (groups[0][2] != "v" && groups[0][2] != "p") {
		return "bad-op"
	}
	arg := groups[0][1]
	p := strings.Split(arg, ":")
	if len(p) != 3 {
		return "bad-op"
	}
	tx, _ := r.tx(p[0])
	v, ok := verdictCode(p[1])
	if !ok {
		return "bad-op"
	}
	pre, ok := r.snapshot()
	if !ok {
		return "hang"
	}
	amb := r.ambiguous(pre, tx, v)
	var ir innerResult
	innerDone := make(chan struct{})
	started := false
	g := newGate(0)
	g.hookAt = groups[0][2]
	g.hook = func() {
		started = true
		go func() {
			defer close(innerDone)
			ir = r.inner(groups[1:])
		}()
		select {
		case <-innerDone:
		case <-time.After(addxGrace):
		}
	}
	r.abi.script(map[string]int32{string(tx.ID): v})
	r.conn.setFail(p[2] == "0")
	r.abi.setGate(g)
	r.conn.setGate(g)
	var res bool
	done := make(chan interface{}, 1)
	go func() {
		defer func() { done <- recover() }()
		res = r.pool.Add(tx)
	}()
	okAdd := r.waitDone("Add "+p[0], done)
	r.abi.setGate(nil)
	r.conn.setGate(nil)
	if !okAdd {
		return r.lastBad()
	}
	if started {
		select {
		case <-innerDone:
		case <-time.After(5 * watchdog):
			r.hung = true
			r.fail("C14-op-hangs", "operations started during Add "+p[0]+" did not return")
			return "hang"
		}
	} else {
		// Add returned before it reached the callback
		ir = r.inner(groups[1:])
	}
	r.abi.script(nil)
	r.conn.setFail(false)
	if ir.bad != "" {
		return ir.bad
	}
	if amb && !r.dead {
		ir.amb = true
		out := r.finishX(tf2(res), ir, false)
		r.dead = true
		return out
	}
	return r.finishX(tf2(res), ir, false)
}

func tf2(b bool) string {
	if b {
		return "true"
	}
	return "false"
}

// ---------------------------------------------------------------------------------------------
// generators

// innerOps returns 1..max random inner operations over the transactions emitted so far.
func (g *gen) innerOps(max int, minDiff uint64, smallPrio bool, pOK int) string {
	rng := g.rng
	s := ""
	for i := 1 + rng.Intn(max); i > 0; i-- {
		switch r := rng.Intn(100); {
		case r < 45:
			s += " | add " + g.newAdd(minDiff, smallPrio, pOK)
		case r < 75:
			if t, ok := g.existing(); ok {
				s += " | remove " + t.String()
			}
		case r < 88:
			op := " | applied"
			for j := 1 + rng.Intn(3); j > 0; j-- {
				if t, ok := g.existing(); ok {
					op += " " + t.String()
				}
			}
			s += op
		default:
			op := " | reverted"
			for j := 1 + rng.Intn(2); j > 0; j-- {
				op += " " + g.newAdd(minDiff, smallPrio, pOK)
			}
			s += op
		}
	}
	return s
}

// reorgxOp: a promotion round with scripted verdicts and random inner operations.
func (g *gen) reorgxOp(minDiff uint64, smallPrio bool, pOK int) string {
	return "reorgx" + strings.TrimPrefix(g.reorgOp(), "reorg") + g.innerOps(3, minDiff, smallPrio, pOK)
}

// interleaveScript: one or two senders with runs of consecutive nonces, a processable prefix, and a
// promotion round whose window is used to remove / replace / evict a member of the run (prefix, middle or
// tail, processable or promotable), to empty and re-create the list, or to continue the run; optionally one
// verdict of the round is `invalid`.
func (g *gen) interleaveScript() corr.Case {
	rng := g.rng
	g.tokens, g.salt = nil, 0
	n := 3 + rng.Intn(4)
	start := uint64(rng.Intn(2))
	minDiff := pick(rng, []uint64{1, 10, 1000})
	maxTx := n + 1 + rng.Intn(4)
	tight := rng.Intn(3) == 0
	others := rng.Intn(3)
	if tight {
		maxTx = n + others // the pool is full after the set-up: an inner add evicts
	}
	ops := []string{fmt.Sprintf("reset %d %d %d 0", maxTx, n+rng.Intn(3), minDiff)}
	var run []txKey
	promoted := rng.Intn(n) // a promotion round after that many transactions (0: none)
	for i := 0; i < n; i++ {
		k := g.mk(1, start+uint64(i), 2+uint64(rng.Intn(40)), 0, false)
		run = append(run, k)
		ops = append(ops, "add "+k.String()+":o:1")
		if i+1 == promoted {
			ops = append(ops, "reorg")
		}
	}
	var rest []txKey
	for i := 0; i < others; i++ {
		k := g.mk(2, uint64(i), 2+uint64(rng.Intn(40)), 0, false)
		rest = append(rest, k)
		ops = append(ops, "add "+k.String()+":o:1")
	}
	for round := 1 + rng.Intn(2); round > 0; round-- {
		op := "reorgx"
		if rng.Intn(2) == 0 {
			op += " " + run[rng.Intn(len(run))].String() + ":i"
		}
		for i := 1 + rng.Intn(3); i > 0; i-- {
			victim := run[rng.Intn(len(run))]
			switch rng.Intn(9) {
			case 0, 1: // remove a member of the run
				op += " | remove " + victim.String()
			case 2, 3: // replace a member of the run (sufficient fee)
				f := victim.f + minDiff + uint64(rng.Intn(5000))
				op += " | add " + g.mk(victim.s, victim.n, 0, f, true).String() + ":o:1"
			case 4: // another sender pays well (evicts when the pool is full)
				op += " | add " + g.mk(3, uint64(rng.Intn(2)), 200+uint64(rng.Intn(800)), 0, false).String() + ":o:1"
			case 5: // a block with a prefix of the run
				op += " | applied"
				for _, k := range run[:1+rng.Intn(len(run))] {
					op += " " + k.String()
				}
			case 6: // the whole list goes and (partly) comes back: the goroutine is left with an orphan
				op += " | applied"
				for _, k := range run {
					op += " " + k.String()
				}
				op += " | reverted"
				for _, k := range run[:1+rng.Intn(len(run))] {
					op += " " + k.String() + ":o:1"
				}
			case 7: // the run grows
				op += " | add " + g.mk(1, start+uint64(n)+uint64(rng.Intn(2)), 2+uint64(rng.Intn(40)), 0, false).String() + ":o:1"
			default:
				if len(rest) > 0 {
					op += " | remove " + rest[rng.Intn(len(rest))].String()
				} else {
					op += " | reverted " + victim.String() + ":o:1"
				}
			}
		}
		ops = append(ops, op)
		if rng.Intn(2) == 0 {
			ops = append(ops, "reorg")
		}
	}
	if rng.Intn(3) == 0 {
		ops = append(ops, "annx "+g.mk(1, start+uint64(rng.Intn(n)), 50, 0, false).String()+":"+g.verdict(70)+":1 | remove "+run[rng.Intn(len(run))].String())
	}
	ops = append(ops, "reorg", "snapshot")
	return corr.Case{Ops: ops, Tag: "interleave"}
}
