// Package c14: correspondence and model-free oracle for the transaction pool (pkg/txpool).
//
// Op grammar (one op per line; TX = S.N.F.Z.X = sender index, nonce, fee, encoded size, salt;
// V = o|p|i = verifier answer ok/pending/invalid; P = 1|0 = conn.Publish succeeds/fails):
//
//	reset <maxTx> <maxPerAccount> <minReplacementFeeDiff> <minEntranceFeePriority>
//	add TX:V:P
//	remove TX
//	reorg [TX:V ...]          one promotion round; unlisted transactions verify ok
//	applied TX ...            block applied: generator.onNewBlock removes each included tx
//	reverted TX:V:P ...       block reverted: generator.onDeleteBlock adds each tx back
//	snapshot
//	reorgx / annx / addx      operations interleaved into another operation's lock-free window: interleave.go
//
// Every op prints its result and the canonical dump of the three indexes. Every call into the pool
// runs under a watchdog; a call that does not return is the output `hang` and the pool is abandoned.
package c14

import (
	"context"
	"encoding/binary"
	"fmt"
	"math/big"
	"math/rand"
	"regexp"
	"sort"
	"strconv"
	"strings"
	"sync"
	"time"

	"github.com/LiskHQ/lisk-engine/pkg/blockchain"
	"github.com/LiskHQ/lisk-engine/pkg/codec"
	"github.com/LiskHQ/lisk-engine/pkg/crypto"
	"github.com/LiskHQ/lisk-engine/pkg/labi"
	"github.com/LiskHQ/lisk-engine/pkg/log"
	"github.com/LiskHQ/lisk-engine/pkg/p2p"
	"github.com/LiskHQ/lisk-engine/pkg/txpool"

	"verifharness/corr"
)

type prop struct{}

func init() { corr.Register(prop{}) }

func (prop) ID() string                 { return "C14" }
func (prop) Parallel() int              { return 8 }
func (prop) CaseTimeout() time.Duration { return 5 * time.Minute }

const watchdog = 2 * time.Second

// ---------------------------------------------------------------------------------------------
// transactions

type txKey struct{ s, n, f, z, x uint64 }

func (k txKey) String() string { return fmt.Sprintf("%d.%d.%d.%d.%d", k.s, k.n, k.f, k.z, k.x) }

func (k txKey) less(o txKey) bool {
	a, b := [5]uint64{k.s, k.n, k.f, k.z, k.x}, [5]uint64{o.s, o.n, o.f, o.z, o.x}
	for i := range a {
		if a[i] != b[i] {
			return a[i] < b[i]
		}
	}
	return false
}

func parseKey(s string) (txKey, bool) {
	p := strings.Split(s, ".")
	if len(p) != 5 {
		return txKey{}, false
	}
	var v [5]uint64
	for i := range p {
		n, err := strconv.ParseUint(p[i], 10, 64)
		if err != nil {
			return txKey{}, false
		}
		v[i] = n
	}
	return txKey{v[0], v[1], v[2], v[3], v[4]}, true
}

func senderKey(s uint64) []byte {
	pk := make([]byte, 32)
	binary.BigEndian.PutUint64(pk, s)
	for i := 8; i < 32; i++ {
		pk[i] = 0x11
	}
	return pk
}

func rawTx(s, n, f, x uint64, plen int) *blockchain.Transaction {
	sig := make([]byte, 64)
	binary.BigEndian.PutUint64(sig, x)
	tx := &blockchain.Transaction{
		Module:          "token",
		Command:         "transfer",
		Nonce:           n,
		Fee:             f,
		SenderPublicKey: senderKey(s),
		Params:          make([]byte, plen),
		Signatures:      []codec.Hex{sig},
	}
	tx.Init()
	return tx
}

// buildTx returns the initialised transaction whose encoding has exactly k.z bytes (padding Params).
func buildTx(k txKey) (*blockchain.Transaction, bool) {
	base := rawTx(k.s, k.n, k.f, k.x, 0).Size()
	for _, d := range []int{0, 1, 2} {
		p := int(k.z) - base - d
		if p < 0 {
			continue
		}
		tx := rawTx(k.s, k.n, k.f, k.x, p)
		if uint64(tx.Size()) == k.z {
			return tx, true
		}
	}
	return nil, false
}

// ---------------------------------------------------------------------------------------------
// scripted collaborators

type scriptABI struct {
	mu      sync.Mutex
	verdict map[string]int32 // by tx id; default ok
	last    map[string]int32 // last answer given per tx id
	gate    *gate            // installed by reorgx / annx / addx (interleave.go): holds or hooks the call
}

func (a *scriptABI) VerifyTransaction(req *labi.VerifyTransactionRequest) (*labi.VerifyTransactionResponse, error) {
	a.mu.Lock()
	v, ok := a.verdict[string(req.Transaction.ID)]
	if !ok {
		v = labi.TxVerifyResultOk
	}
	g := a.gate
	a.mu.Unlock()
	if g != nil {
		// the answer is fixed; the call returns when the operations interleaved here are done
		if g.enter(req.Transaction) {
			return &labi.VerifyTransactionResponse{Result: v}, nil
		}
	}
	a.mu.Lock()
	a.last[string(req.Transaction.ID)] = v
	a.mu.Unlock()
	return &labi.VerifyTransactionResponse{Result: v}, nil
}

func (a *scriptABI) script(m map[string]int32) {
	a.mu.Lock()
	a.verdict = m
	a.mu.Unlock()
}

type scriptConn struct {
	mu       sync.Mutex
	fail     bool
	gate     *gate            // installed by addx (interleave.go)
	announce p2p.EventHandler // the pool's handler for announced transactions, as registered by Init
}

func (c *scriptConn) handler() p2p.EventHandler { c.mu.Lock(); defer c.mu.Unlock(); return c.announce }

func (c *scriptConn) Broadcast(ctx context.Context, event string, data []byte) error { return nil }
func (c *scriptConn) RegisterRPCHandler(endpoint string, handler p2p.RPCHandler, opts ...p2p.RPCHandlerOption) error {
	return nil
}
func (c *scriptConn) RegisterEventHandler(name string, handler p2p.EventHandler, validator p2p.Validator) error {
	if name == txpool.RPCEventPostTransactionAnnouncement {
		c.mu.Lock()
		c.announce = handler
		c.mu.Unlock()
	}
	return nil
}
func (c *scriptConn) ApplyPenalty(pid p2p.PeerID, score int) {}
func (c *scriptConn) RequestFrom(ctx context.Context, peerID p2p.PeerID, procedure string, data []byte) p2p.Response {
	return *p2p.NewResponse(0, "", nil, nil)
}
func (c *scriptConn) Publish(ctx context.Context, topicName string, data []byte) error {
	c.mu.Lock()
	fail, g := c.fail, c.gate
	c.mu.Unlock()
	if g != nil {
		g.publishing()
	}
	if fail {
		return fmt.Errorf("publish failed")
	}
	return nil
}
func (c *scriptConn) setFail(b bool) { c.mu.Lock(); c.fail = b; c.mu.Unlock() }

type nopLogger struct{}

func (nopLogger) Debugf(string, ...interface{})       {}
func (nopLogger) Infof(string, ...interface{})        {}
func (nopLogger) Warningf(string, ...interface{})     {}
func (nopLogger) Errorf(string, ...interface{})       {}
func (nopLogger) Debug(string, ...interface{})        {}
func (nopLogger) Info(string, ...interface{})         {}
func (nopLogger) Error(string, ...interface{})        {}
func (nopLogger) Warning(string, ...interface{})      {}
func (l nopLogger) With(kv ...interface{}) log.Logger { return l }

func verdictCode(s string) (int32, bool) {
	switch s {
	case "o":
		return labi.TxVerifyResultOk, true
	case "p":
		return labi.TxVerifyResultPending, true
	case "i":
		return labi.TxVerifyResultInvalid, true
	}
	return 0, false
}

// ---------------------------------------------------------------------------------------------
// runner

type cfg struct {
	maxTx, maxPer        int
	minDiff, minEntrance uint64
}

type runner struct {
	cfg    cfg
	pool   *txpool.TransactionPool
	abi    *scriptABI
	conn   *scriptConn
	hung   bool              // a call did not return: the pool is abandoned
	dead   bool              // an eviction depended on map order: outputs are `skipped` from here on
	tokens map[string]txKey  // tx id -> token
	sender map[string]uint64 // address -> sender index
	fails  []corr.Fail
	seen   map[string]bool
	opIdx  int
}

func (r *runner) fail(sig, detail string) {
	// one report per signature and detail and case
	key := sig + "|" + detail
	if r.seen == nil {
		r.seen = map[string]bool{}
	}
	if r.seen[key] {
		return
	}
	r.seen[key] = true
	r.fails = append(r.fails, corr.Fail{Sig: sig, Detail: detail, Op: r.opIdx})
}

// guarded runs f under recover and the watchdog.
func guarded(f func()) (hung bool, panicked interface{}) {
	done := make(chan interface{}, 1)
	go func() {
		defer func() { done <- recover() }()
		f()
	}()
	select {
	case p := <-done:
		return false, p
	case <-time.After(watchdog):
		return true, nil
	}
}

func newPool(c cfg, abi txpool.ABI, conn *scriptConn) *txpool.TransactionPool {
	pool := txpool.NewTransactionPool(&txpool.TransactionPoolConfig{
		MaxTransactions:             c.maxTx,
		MaxTransactionsPerAccount:   c.maxPer,
		TransactionExpiryTime:       3600,
		MinEntranceFeePriority:      c.minEntrance,
		MinReplacementFeeDifference: c.minDiff,
	})
	if err := pool.Init(context.Background(), nopLogger{}, nil, nil, conn, abi); err != nil {
		panic(err)
	}
	pool.VerifStopTicker()
	return pool
}

func (r *runner) tx(tok string) (*blockchain.Transaction, txKey) {
	k, ok := parseKey(tok)
	if !ok {
		panic("bad tx token " + tok)
	}
	tx, ok := buildTx(k)
	if !ok {
		panic("unreachable size in token " + tok)
	}
	r.tokens[string(tx.ID)] = k
	r.sender[string(tx.SenderAddress())] = k.s
	return tx, k
}

func (r *runner) tokenOf(id []byte) string {
	if k, ok := r.tokens[string(id)]; ok {
		return k.String()
	}
	return "?" + corr.Hex(id)
}

func joinOr(l []string) string {
	if len(l) == 0 {
		return "-"
	}
	return strings.Join(l, ",")
}

func (r *runner) render(s txpool.VerifSnapshot) string {
	type ent struct {
		k   txKey
		str string
	}
	sortEnts := func(e []ent) []string {
		sort.SliceStable(e, func(i, j int) bool { return e[i].k.less(e[j].k) })
		res := make([]string, len(e))
		for i := range e {
			res[i] = e[i].str
		}
		return res
	}
	all := []ent{}
	for _, t := range s.All {
		all = append(all, ent{r.tokens[string(t.Key)], r.tokenOf(t.Key)})
	}
	hp := []ent{}
	for _, t := range s.Heap {
		hp = append(hp, ent{r.tokens[string(t.ID)], fmt.Sprintf("%s@%d", r.tokenOf(t.ID), t.FeePriority)})
	}
	type acc struct {
		s   uint64
		str string
	}
	accs := []acc{}
	for _, a := range s.Accounts {
		idx, ok := r.sender[string(a.Key)]
		name := strconv.FormatUint(idx, 10)
		if !ok {
			name = "?" + corr.Hex(a.Key)
		}
		txs := make([]string, len(a.Transactions))
		for i, t := range a.Transactions {
			txs[i] = fmt.Sprintf("%d=%s", t.NonceKey, r.tokenOf(t.ID))
		}
		ps := make([]string, len(a.Processables))
		for i, n := range a.Processables {
			ps[i] = strconv.FormatUint(n, 10)
		}
		accs = append(accs, acc{idx, name + "[" + joinOr(txs) + ";p=" + joinOr(ps) + "]"})
	}
	sort.SliceStable(accs, func(i, j int) bool { return accs[i].s < accs[j].s })
	as := make([]string, len(accs))
	for i := range accs {
		as[i] = accs[i].str
	}
	return "all=" + joinOr(sortEnts(all)) + " heap=" + joinOr(sortEnts(hp)) + " accts=" + joinOr(as)
}

// checkInvariant is the model-free oracle for the state clauses of C14.
func (r *runner) checkInvariant(s txpool.VerifSnapshot, afterReorg bool) {
	inAll := map[string]txpool.VerifTx{}
	slot := map[string]string{} // sender|nonce -> id
	for _, t := range s.All {
		if string(t.Key) != string(t.ID) {
			r.fail("C14-index-key-mismatch", fmt.Sprintf("allTransactions key %x holds tx %x", t.Key, t.ID))
		}
		inAll[string(t.ID)] = t
		sl := string(t.Sender) + "|" + strconv.FormatUint(t.Nonce, 10)
		if other, dup := slot[sl]; dup {
			r.fail("C14-duplicate-sender-nonce", fmt.Sprintf("allTransactions keeps %s and %s for one sender and nonce", r.tokenOf([]byte(other)), r.tokenOf(t.ID)))
		}
		slot[sl] = string(t.ID)
	}
	if len(s.All) > r.cfg.maxTx {
		r.fail("C14-pool-over-capacity", fmt.Sprintf("%d transactions pooled, MaxTransactions=%d", len(s.All), r.cfg.maxTx))
	}
	inLists := map[string]bool{}
	byAddr := map[string]txpool.VerifAccount{}
	for _, a := range s.Accounts {
		byAddr[string(a.Key)] = a
		if string(a.Key) != string(a.Address) {
			r.fail("C14-index-key-mismatch", fmt.Sprintf("perAccount key %x holds list of %x", a.Key, a.Address))
		}
		if len(a.Transactions) == 0 {
			r.fail("C14-empty-sender-list", fmt.Sprintf("sender %x has an empty list", a.Key))
		}
		if len(a.Transactions) > r.cfg.maxPer {
			r.fail("C14-sender-over-limit", fmt.Sprintf("sender list holds %d, MaxTransactionsPerAccount=%d", len(a.Transactions), r.cfg.maxPer))
		}
		if len(a.Nonces) != len(a.Transactions) {
			r.fail("C14-nonce-heap-disagrees", fmt.Sprintf("nonces %v vs %d transactions", a.Nonces, len(a.Transactions)))
		}
		has := map[uint64]txpool.VerifTx{}
		for i, t := range a.Transactions {
			if i < len(a.Nonces) && a.Nonces[i] != t.NonceKey {
				r.fail("C14-nonce-heap-disagrees", fmt.Sprintf("nonces %v vs transaction keys", a.Nonces))
			}
			if t.NonceKey != t.Nonce || string(t.Sender) != string(a.Key) {
				r.fail("C14-index-key-mismatch", fmt.Sprintf("sender list slot %d holds %s", t.NonceKey, r.tokenOf(t.ID)))
			}
			has[t.NonceKey] = t
			if inLists[string(t.ID)] {
				r.fail("C14-indexes-disagree", fmt.Sprintf("%s is in two sender-list slots", r.tokenOf(t.ID)))
			}
			inLists[string(t.ID)] = true
			if _, ok := inAll[string(t.ID)]; !ok {
				r.fail("C14-indexes-disagree", fmt.Sprintf("%s is in a sender list but not in allTransactions", r.tokenOf(t.ID)))
			}
		}
		// processable set: strictly ascending, consecutive, present, verified
		for i, n := range a.Processables {
			if i > 0 && n != a.Processables[i-1]+1 {
				r.fail("C14-processable-not-gapfree", fmt.Sprintf("processables %v", a.Processables))
				break
			}
			t, ok := has[n]
			if !ok {
				r.fail("C14-processable-not-pooled", fmt.Sprintf("processable nonce %d has no transaction", n))
				continue
			}
			r.abi.mu.Lock()
			last, verified := r.abi.last[string(t.ID)]
			r.abi.mu.Unlock()
			switch {
			case !verified:
				r.fail("C14-unverified-tx-processable", r.tokenOf(t.ID))
			case last == labi.TxVerifyResultInvalid:
				r.fail("C14-invalid-tx-processable", r.tokenOf(t.ID))
			case last == labi.TxVerifyResultPending:
				r.fail("C14-pending-tx-processable", fmt.Sprintf("%s was answered `pending` by the verifier and is processable", r.tokenOf(t.ID)))
			}
		}
	}
	for _, t := range s.All {
		a, ok := byAddr[string(t.Sender)]
		found := false
		if ok {
			for _, lt := range a.Transactions {
				if lt.NonceKey == t.Nonce && string(lt.ID) == string(t.ID) {
					found = true
				}
			}
		}
		if !found {
			r.fail("C14-indexes-disagree", fmt.Sprintf("%s is in allTransactions but not in its sender list at nonce %d", r.tokenOf(t.ID), t.Nonce))
		}
	}
	// fee queue = multiset of the pooled transactions, root minimal
	cnt := map[string]int{}
	for _, t := range s.Heap {
		cnt[string(t.ID)]++
	}
	okHeap := len(s.Heap) == len(s.All)
	for _, t := range s.All {
		if cnt[string(t.ID)] != 1 {
			okHeap = false
		}
	}
	if !okHeap {
		r.fail("C14-fee-queue-disagrees", fmt.Sprintf("fee queue has %d entries, allTransactions %d", len(s.Heap), len(s.All)))
	}
	for _, t := range s.Heap {
		if t.FeePriority < s.Heap[0].FeePriority {
			r.fail("C14-fee-queue-root-not-min", fmt.Sprintf("root %d, entry %d", s.Heap[0].FeePriority, t.FeePriority))
			break
		}
		if t.Size > 0 && t.FeePriority != t.Fee/uint64(t.Size) {
			r.fail("C14-fee-priority-wrong", r.tokenOf(t.ID))
		}
	}
}

// ambiguous tells whether this Add reaches an eviction whose victim depends on map iteration order
// (several candidates share the minimal fee priority).
func (r *runner) ambiguous(s txpool.VerifSnapshot, tx *blockchain.Transaction, v int32) bool {
	for _, t := range s.All {
		if string(t.ID) == string(tx.ID) {
			return false
		}
	}
	prio := tx.Fee / uint64(tx.Size())
	if prio < r.cfg.minEntrance {
		return false
	}
	full := len(s.All) >= r.cfg.maxTx
	if !full {
		return false
	}
	if len(s.Heap) > 0 {
		lowest := s.Heap[0].FeePriority
		for _, t := range s.Heap {
			if t.FeePriority < lowest {
				lowest = t.FeePriority
			}
		}
		if prio <= lowest {
			return false
		}
	}
	if v == labi.TxVerifyResultInvalid {
		return false
	}
	var cands []uint64
	for _, a := range s.Accounts {
		byNonce := map[uint64]txpool.VerifTx{}
		for _, t := range a.Transactions {
			byNonce[t.NonceKey] = t
		}
		if len(a.Nonces) > len(a.Processables) {
			for _, n := range a.Nonces[len(a.Processables):] {
				cands = append(cands, byNonce[n].FeePriority)
			}
		}
	}
	if len(cands) == 0 {
		for _, a := range s.Accounts {
			if len(a.Processables) > 0 {
				for _, t := range a.Transactions {
					if t.NonceKey == a.Processables[len(a.Processables)-1] {
						cands = append(cands, t.FeePriority)
					}
				}
			}
		}
	}
	if len(cands) == 0 {
		return false
	}
	min, n := cands[0], 0
	for _, c := range cands {
		if c < min {
			min = c
		}
	}
	for _, c := range cands {
		if c == min {
			n++
		}
	}
	return n > 1
}

// call runs one pool call under the watchdog. ok=false: hang or panic (already recorded).
func (r *runner) call(what string, f func()) bool {
	hung, p := guarded(f)
	if hung {
		r.hung = true
		r.fail("C14-op-hangs", what+" did not return within "+watchdog.String())
		return false
	}
	if p != nil {
		r.hung = true // abandon the pool
		r.fail("C14-panic", fmt.Sprintf("%s: %v", what, p))
		return false
	}
	return true
}

func (r *runner) snapshot() (txpool.VerifSnapshot, bool) {
	var s txpool.VerifSnapshot
	ok := r.call("snapshot", func() { s = r.pool.VerifSnapshot() })
	return s, ok
}

// addOne performs one Add with its scripted verdict and publish answer, with the replacement oracle.
// It returns "t"/"f", or "hang"/"panic"/"ambiguous".
func (r *runner) addOne(arg string) string {
	p := strings.Split(arg, ":")
	if len(p) != 3 {
		panic("bad add argument " + arg)
	}
	tx, k := r.tx(p[0])
	v, ok := verdictCode(p[1])
	if !ok {
		panic("bad verdict " + arg)
	}
	pre, ok := r.snapshot()
	if !ok {
		return "hang"
	}
	amb := r.ambiguous(pre, tx, v)
	r.abi.script(map[string]int32{string(tx.ID): v})
	r.conn.setFail(p[2] == "0")
	var res bool
	okCall := r.call("Add "+p[0], func() { res = r.pool.Add(tx) })
	r.abi.script(nil)
	r.conn.setFail(false)
	if !okCall {
		if len(r.fails) > 0 && r.fails[len(r.fails)-1].Sig == "C14-panic" {
			return "panic"
		}
		return "hang"
	}
	post, ok := r.snapshot()
	if !ok {
		return "hang"
	}
	// replacement rule: a different transaction now occupies a slot that was taken
	var old *txpool.VerifTx
	for i, t := range pre.All {
		if string(t.Sender) == string(tx.SenderAddress()) && t.Nonce == k.n && string(t.ID) != string(tx.ID) {
			old = &pre.All[i]
		}
	}
	inPost := func(id []byte) bool {
		for _, t := range post.All {
			if string(t.ID) == string(id) {
				return true
			}
		}
		for _, t := range post.Heap {
			if string(t.ID) == string(id) {
				return true
			}
		}
		for _, a := range post.Accounts {
			for _, t := range a.Transactions {
				if string(t.ID) == string(id) {
					return true
				}
			}
		}
		return false
	}
	if old != nil && inPost(tx.ID) {
		if inPost(old.ID) {
			r.fail("C14-replaced-tx-still-indexed", fmt.Sprintf("%s replaced %s, which is still in an index", p[0], r.tokenOf(old.ID)))
		}
		need := new(big.Int).Add(new(big.Int).SetUint64(old.Fee), new(big.Int).SetUint64(r.cfg.minDiff))
		if new(big.Int).SetUint64(k.f).Cmp(need) < 0 && len(pre.All) < r.cfg.maxTx {
			r.fail("C14-replacement-without-fee-increase", fmt.Sprintf("%s replaced %s (minimum difference %d)", p[0], r.tokenOf(old.ID), r.cfg.minDiff))
		}
	}
	if res && !inPost(tx.ID) {
		r.fail("C14-add-true-but-not-pooled", p[0])
	}
	if amb && !r.dead {
		return "ambiguous"
	}
	if res {
		return "t"
	}
	return "f"
}

func (r *runner) finish(res string, afterReorg bool) string {
	s, ok := r.snapshot()
	if !ok {
		return "hang"
	}
	r.checkInvariant(s, afterReorg)
	r.checkGetters(s)
	if r.dead {
		return "skipped"
	}
	return res + " " + r.render(s)
}

// checkGetters compares what the public read API answers with the indexes: GetAll = allTransactions,
// GetProcessable = the processable nonces of every sender list (each resolving to a pooled transaction),
// Get(id) finds exactly the pooled transactions. A read API that serves remembered results (a cache that is
// not dropped by every path that changes the lists) disagrees here although the three indexes agree.
func (r *runner) checkGetters(s txpool.VerifSnapshot) {
	if r.dead || r.hung {
		return
	}
	var all, proc []*blockchain.Transaction
	if !r.call("GetAll", func() { all = r.pool.GetAll() }) || !r.call("GetProcessable", func() { proc = r.pool.GetProcessable() }) {
		return
	}
	idset := func(txs []*blockchain.Transaction) map[string]int {
		m := map[string]int{}
		for _, t := range txs {
			if t != nil {
				m[string(t.ID)]++
			}
		}
		return m
	}
	wantAll := map[string]int{}
	for _, t := range s.All {
		wantAll[string(t.ID)]++
	}
	wantProc := map[string]int{}
	for _, acc := range s.Accounts {
		byNonce := map[uint64]txpool.VerifTx{}
		for _, t := range acc.Transactions {
			byNonce[t.NonceKey] = t
		}
		for _, n := range acc.Processables {
			if t, ok := byNonce[n]; ok {
				wantProc[string(t.ID)]++
			}
		}
	}
	diff := func(got, want map[string]int) string {
		var d []string
		for id, c := range got {
			if want[id] != c {
				d = append(d, fmt.Sprintf("%s returned %dx, indexed %dx", r.tokenOf([]byte(id)), c, want[id]))
			}
		}
		for id, c := range want {
			if _, ok := got[id]; !ok {
				d = append(d, fmt.Sprintf("%s missing (indexed %dx)", r.tokenOf([]byte(id)), c))
			}
		}
		sort.Strings(d)
		return strings.Join(d, "; ")
	}
	if d := diff(idset(all), wantAll); d != "" {
		r.fail("C14-getall-differs-from-index", d)
	}
	if d := diff(idset(proc), wantProc); d != "" {
		r.fail("C14-getprocessable-differs-from-lists", d)
	}
	for id := range wantAll {
		var ok bool
		if !r.call("Get", func() { _, ok = r.pool.Get([]byte(id)) }) {
			return
		}
		if !ok {
			r.fail("C14-get-misses-pooled-transaction", r.tokenOf([]byte(id)))
		}
	}
	for id := range idset(proc) {
		if _, pooled := wantAll[id]; !pooled {
			r.fail("C14-getprocessable-returns-unpooled-transaction", r.tokenOf([]byte(id)))
		}
	}
}

func (r *runner) step(op string) string {
	w := strings.Fields(op)
	if w[0] == "reset" {
		if r.pool != nil && !r.hung {
			r.pool.VerifStopTicker()
		}
		u := func(s string) uint64 {
			n, err := strconv.ParseUint(s, 10, 64)
			if err != nil {
				panic(err)
			}
			return n
		}
		r.cfg = cfg{int(u(w[1])), int(u(w[2])), u(w[3]), u(w[4])}
		r.abi = &scriptABI{last: map[string]int32{}}
		r.conn = &scriptConn{}
		r.pool = newPool(r.cfg, r.abi, r.conn)
		r.hung, r.dead = false, false
		r.tokens = map[string]txKey{}
		r.sender = map[string]uint64{}
		return "ok"
	}
	if r.hung {
		return "hang"
	}
	switch w[0] {
	case "add":
		res := r.addOne(w[1])
		switch res {
		case "hang", "panic":
			return res
		case "ambiguous":
			if out := r.finish("", false); out == "hang" {
				return out
			}
			r.dead = true
			return "ambiguous"
		case "t":
			return r.finish("true", false)
		}
		return r.finish("false", false)
	case "remove":
		tx, _ := r.tx(w[1])
		var res bool
		if !r.call("Remove "+w[1], func() { res = r.pool.Remove(tx.ID) }) {
			return r.lastBad()
		}
		return r.finish(strconv.FormatBool(res), false)
	case "reorg":
		m := map[string]int32{}
		for _, a := range w[1:] {
			p := strings.Split(a, ":")
			tx, _ := r.tx(p[0])
			v, ok := verdictCode(p[1])
			if !ok {
				panic("bad verdict " + a)
			}
			m[string(tx.ID)] = v
		}
		r.abi.script(m)
		ok := r.call("reorg", func() { r.pool.VerifReorgStep() })
		r.abi.script(nil)
		if !ok {
			return r.lastBad()
		}
		return r.finish("ok", true)
	case "applied":
		results := []string{}
		for _, a := range w[1:] {
			tx, _ := r.tx(a)
			var res bool
			if !r.call("Remove "+a, func() { res = r.pool.Remove(tx.ID) }) {
				return r.lastBad()
			}
			if res {
				results = append(results, "t")
			} else {
				results = append(results, "f")
			}
		}
		return r.finish(joinTF(results), false)
	case "reverted":
		results := []string{}
		ambNow := false
		for _, a := range w[1:] {
			res := r.addOne(a)
			switch res {
			case "hang", "panic":
				return res
			case "ambiguous":
				ambNow = true
				r.dead = true
			default:
				results = append(results, res)
			}
		}
		out := r.finish(joinTF(results), false)
		if out != "hang" && ambNow {
			return "ambiguous"
		}
		return out
	case "snapshot":
		return r.finish("ok", false)
	case "reorgx":
		return r.reorgx(w)
	case "annx":
		return r.annx(w)
	case "addx":
		return r.addx(w)
	}
	return "bad-op"
}

func joinTF(l []string) string {
	if len(l) == 0 {
		return "-"
	}
	return strings.Join(l, "")
}

func (r *runner) lastBad() string {
	if len(r.fails) > 0 && r.fails[len(r.fails)-1].Sig == "C14-panic" {
		return "panic"
	}
	return "hang"
}

func (prop) RunImpl(c corr.Case) ([]string, []corr.Fail) {
	r := &runner{}
	out := make([]string, 0, len(c.Ops))
	for i, op := range c.Ops {
		r.opIdx = i
		func() {
			defer func() {
				if e := recover(); e != nil {
					out = append(out, "panic")
					r.fail("C14-harness-panic", fmt.Sprintf("%s: %v", op, e))
				}
			}()
			out = append(out, r.step(op))
		}()
	}
	if r.pool != nil && !r.hung {
		r.pool.VerifStopTicker()
	}
	return out, r.fails
}

// ---------------------------------------------------------------------------------------------
// classification

var promoted = regexp.MustCompile(`;p=\d`)

func countAll(line string) int {
	i := strings.Index(line, "all=")
	if i < 0 {
		return -1
	}
	f := strings.Fields(line[i:])[0][4:]
	if f == "-" {
		return 0
	}
	return strings.Count(f, ",") + 1
}

func (prop) Classify(c corr.Case, out []string) string {
	kinds := map[string]bool{}
	maxTx := 0
	if w := strings.Fields(c.Ops[0]); len(w) > 1 {
		maxTx, _ = strconv.Atoi(w[1])
	}
	prev := 0
	for i, op := range c.Ops {
		if i >= len(out) {
			break
		}
		o := out[i]
		kind := strings.SplitN(op, " ", 2)[0]
		switch {
		case o == "hang":
			kinds["hang"] = true
		case o == "ambiguous":
			kinds["tie"] = true
		}
		n := countAll(o)
		if n < 0 {
			continue
		}
		if (kind == "reorgx" || kind == "annx" || kind == "addx") && strings.Contains(op, " | ") {
			// operations executed inside another operation's window; `hit` = one of them changed the pool
			head := strings.Fields(o)[0]
			if strings.Contains(head[strings.Index(head, ":")+1:], "t") {
				kinds["interleaved-hit"] = true
			} else {
				kinds["interleaved"] = true
			}
		}
		switch kind {
		case "reorgx":
			if n < prev {
				kinds["drop-invalid"] = true
			}
		case "add":
			if strings.HasPrefix(o, "true") {
				if prev >= maxTx {
					kinds["evict"] = true
				} else if n == prev {
					kinds["replace"] = true
				}
			} else if prev >= maxTx {
				kinds["full-reject"] = true
			}
		case "reorg":
			if n < prev {
				kinds["drop-invalid"] = true
			}
		case "reverted":
			if n > prev {
				kinds["reverted"] = true
			}
		case "applied":
			if n < prev {
				kinds["applied"] = true
			}
		}
		if promoted.MatchString(o) {
			kinds["promote"] = true
		}
		prev = n
	}
	if len(kinds) == 0 {
		return ""
	}
	ks := []string{}
	for k := range kinds {
		ks = append(ks, k)
	}
	sort.Strings(ks)
	return strings.Join(ks, "+")
}

// ---------------------------------------------------------------------------------------------
// generators

type gen struct {
	rng     *rand.Rand
	senders int
	maxN    int
	tokens  []txKey // every transaction emitted so far in this case
	salt    uint64
}

// mk builds a token with a reachable size and a fee giving (about) the wanted priority.
func (g *gen) mk(s, n uint64, prio uint64, exactFee uint64, useFee bool) txKey {
	g.salt++
	plen := g.rng.Intn(60)
	if g.rng.Intn(8) == 0 {
		plen = 100 + g.rng.Intn(60) // crosses the 1→2 byte length prefix
	}
	fee := exactFee
	if !useFee {
		z := uint64(rawTx(s, n, prio*150, g.salt, plen).Size())
		fee = prio*z + uint64(g.rng.Intn(int(z)))
	}
	tx := rawTx(s, n, fee, g.salt, plen)
	k := txKey{s, n, fee, uint64(tx.Size()), g.salt}
	g.tokens = append(g.tokens, k)
	return k
}

func (g *gen) prio(small bool) uint64 {
	if small || g.rng.Intn(6) == 0 {
		return uint64(g.rng.Intn(4)) // ties and the entrance threshold
	}
	return uint64(1 + g.rng.Intn(1000))
}

func (g *gen) verdict(pOK int) string {
	r := g.rng.Intn(100)
	switch {
	case r < pOK:
		return "o"
	case r < pOK+(100-pOK)/2:
		return "p"
	}
	return "i"
}

func (g *gen) pub() string {
	if g.rng.Intn(12) == 0 {
		return "0"
	}
	return "1"
}

func (g *gen) existing() (txKey, bool) {
	if len(g.tokens) == 0 {
		return txKey{}, false
	}
	return g.tokens[g.rng.Intn(len(g.tokens))], true
}

// newAdd returns an add argument: fresh slot, resend, or replacement around the fee rule.
func (g *gen) newAdd(minDiff uint64, smallPrio bool, pOK int) string {
	r := g.rng.Intn(100)
	if old, ok := g.existing(); ok && r < 30 {
		switch g.rng.Intn(6) {
		case 0: // resend the same transaction
			return old.String() + ":" + g.verdict(pOK) + ":" + g.pub()
		case 1: // below the rule
			d := uint64(0)
			if minDiff > 1 {
				d = uint64(g.rng.Int63n(int64(minDiff)))
			}
			if old.f > ^uint64(0)-d {
				d = 0
			}
			return g.mk(old.s, old.n, 0, old.f+d, true).String() + ":" + g.verdict(pOK) + ":" + g.pub()
		case 2: // exactly at the rule
			if old.f <= ^uint64(0)-minDiff {
				return g.mk(old.s, old.n, 0, old.f+minDiff, true).String() + ":" + g.verdict(pOK) + ":" + g.pub()
			}
			fallthrough
		case 3: // lower fee
			f := old.f
			if f > 0 {
				f -= uint64(g.rng.Int63n(int64(f%1000 + 1)))
			}
			return g.mk(old.s, old.n, 0, f, true).String() + ":" + g.verdict(pOK) + ":" + g.pub()
		default: // clearly above
			f := old.f
			if f < ^uint64(0)-minDiff-100000 {
				f += minDiff + uint64(g.rng.Intn(100000))
			}
			return g.mk(old.s, old.n, 0, f, true).String() + ":" + g.verdict(pOK) + ":" + g.pub()
		}
	}
	s := uint64(1 + g.rng.Intn(g.senders))
	n := uint64(g.rng.Intn(g.maxN))
	return g.mk(s, n, g.prio(smallPrio), 0, false).String() + ":" + g.verdict(pOK) + ":" + g.pub()
}

func (g *gen) reorgOp() string {
	op := "reorg"
	seen := map[txKey]bool{}
	for i := g.rng.Intn(4); i > 0; i-- {
		if t, ok := g.existing(); ok && !seen[t] {
			seen[t] = true
			v := "i"
			if g.rng.Intn(3) == 0 {
				v = "p"
			}
			op += " " + t.String() + ":" + v
		}
	}
	return op
}

func pick(rng *rand.Rand, l []uint64) uint64 { return l[rng.Intn(len(l))] }

func (g *gen) randomCase(tag string) corr.Case {
	rng := g.rng
	g.tokens, g.salt = nil, 0
	maxTx, maxPer := 1+rng.Intn(6), 1+rng.Intn(4)
	g.senders, g.maxN = 1+rng.Intn(3), 2+rng.Intn(5)
	minDiff := pick(rng, []uint64{1, 1, 10, 1000})
	minEntrance := pick(rng, []uint64{0, 0, 0, 2, 50})
	smallPrio := rng.Intn(5) == 0
	pOK := 80
	nOps := 5 + rng.Intn(30)
	switch tag {
	case "capacity":
		maxTx, maxPer = 1+rng.Intn(3), 1+rng.Intn(3)
		g.senders = 2 + rng.Intn(3)
	case "persender":
		maxTx, maxPer = 4+rng.Intn(6), 1+rng.Intn(3)
		g.senders, g.maxN = 1+rng.Intn(2), 3+rng.Intn(6)
	case "promotion":
		maxTx, maxPer = 6+rng.Intn(10), 3+rng.Intn(6)
		g.senders, g.maxN = 1+rng.Intn(2), 3+rng.Intn(5)
		pOK = 90
	case "large":
		maxTx, maxPer = 20+rng.Intn(30), 5+rng.Intn(10)
		g.senders, g.maxN = 3+rng.Intn(5), 4+rng.Intn(12)
		nOps = 40 + rng.Intn(80)
	}
	ops := []string{fmt.Sprintf("reset %d %d %d %d", maxTx, maxPer, minDiff, minEntrance)}
	for j := 0; j < nOps; j++ {
		r := rng.Intn(100)
		switch {
		case r < 58:
			ops = append(ops, "add "+g.newAdd(minDiff, smallPrio, pOK))
		case r < 66:
			if t, ok := g.existing(); ok && rng.Intn(5) > 0 {
				ops = append(ops, "remove "+t.String())
			} else {
				ops = append(ops, "remove "+g.mk(9, 9, 1, 0, false).String())
				g.tokens = g.tokens[:len(g.tokens)-1]
			}
		case r < 80:
			ops = append(ops, g.reorgOp())
		case r < 86:
			switch x := rng.Intn(10); {
			case x < 7:
				ops = append(ops, g.reorgxOp(minDiff, smallPrio, pOK))
			case x < 9:
				ops = append(ops, "annx "+g.newAdd(minDiff, smallPrio, pOK)+g.innerOps(2, minDiff, smallPrio, pOK))
			default:
				if tag != "large" {
					ops = append(ops, "addx "+g.newAdd(minDiff, smallPrio, pOK)+" "+[]string{"v", "p"}[rng.Intn(2)]+g.innerOps(2, minDiff, smallPrio, pOK))
				} else {
					ops = append(ops, g.reorgxOp(minDiff, smallPrio, pOK))
				}
			}
		case r < 91:
			op := "applied"
			for i := rng.Intn(4); i > 0; i-- {
				if t, ok := g.existing(); ok {
					op += " " + t.String()
				}
			}
			ops = append(ops, op)
		case r < 97:
			op := "reverted"
			for i := 1 + rng.Intn(3); i > 0; i-- {
				op += " " + g.newAdd(minDiff, smallPrio, pOK)
			}
			ops = append(ops, op)
		default:
			ops = append(ops, "snapshot")
		}
	}
	ops = append(ops, "reorg", "snapshot")
	return corr.Case{Ops: ops, Tag: tag}
}

// consecutive nonces, promotion, then an invalid verdict somewhere in the run, a lower nonce added late
func (g *gen) promotionScript() corr.Case {
	rng := g.rng
	g.tokens, g.salt = nil, 0
	n := 2 + rng.Intn(5)
	start := uint64(rng.Intn(3))
	ops := []string{fmt.Sprintf("reset %d %d 1 0", 8+rng.Intn(4), n+rng.Intn(3))}
	var run []txKey
	for i := 0; i < n; i++ {
		nonce := start + uint64(i)
		if rng.Intn(6) == 0 {
			nonce++ // gap
		}
		k := g.mk(1, nonce, g.prio(false), 0, false)
		run = append(run, k)
		ops = append(ops, "add "+k.String()+":"+g.verdict(85)+":1")
		if rng.Intn(3) == 0 {
			ops = append(ops, "reorg")
		}
	}
	ops = append(ops, "reorg")
	bad := run[rng.Intn(len(run))]
	switch rng.Intn(4) {
	case 0:
		ops = append(ops, "add "+g.mk(1, start+uint64(n)+uint64(rng.Intn(2)), g.prio(false), 0, false).String()+":o:1", "reorg "+bad.String()+":i")
	case 1:
		if start > 0 {
			ops = append(ops, "add "+g.mk(1, start-1, g.prio(false), 0, false).String()+":o:1")
		}
		ops = append(ops, "reorg", "add "+g.mk(1, start+uint64(n), g.prio(false), 0, false).String()+":o:1", "reorg "+bad.String()+":i")
	case 2:
		ops = append(ops, "remove "+bad.String(), "reorg", "reverted "+bad.String()+":o:1", "reorg")
	default:
		ops = append(ops, "add "+g.mk(bad.s, bad.n, 0, bad.f+1+uint64(rng.Intn(5)), true).String()+":o:1", "reorg", "add "+g.mk(1, start+uint64(n), 3, 0, false).String()+":p:1", "reorg "+bad.String()+":p")
	}
	ops = append(ops, "reorg", "snapshot")
	return corr.Case{Ops: ops, Tag: "promotion-script"}
}

// fees next to 2^64-1: the replacement rule must not wrap around
func (g *gen) overflowScript() corr.Case {
	rng := g.rng
	g.tokens, g.salt = nil, 0
	minDiff := pick(rng, []uint64{1, 10, 1000})
	top := ^uint64(0)
	f0 := top - uint64(rng.Intn(int(minDiff)+2))
	ops := []string{fmt.Sprintf("reset %d %d %d 0", 1+rng.Intn(4), 1+rng.Intn(3), minDiff)}
	ops = append(ops, "add "+g.mk(1, 0, 0, f0, true).String()+":o:1")
	for i := 0; i < 3; i++ {
		f := uint64(rng.Intn(2000))
		if rng.Intn(2) == 0 {
			f = top - uint64(rng.Intn(int(minDiff)+2))
		}
		ops = append(ops, "add "+g.mk(1, 0, 0, f, true).String()+":o:1")
	}
	ops = append(ops, "reorg", "snapshot")
	return corr.Case{Ops: ops, Tag: "fee-overflow"}
}

func (prop) Generate(rng *rand.Rand, tier string) []corr.Case {
	n := 5000
	if tier == "thorough" {
		n = 120000
	}
	g := &gen{rng: rng}
	cases := make([]corr.Case, 0, n)
	// fixed regression cases for the defects found
	cases = append(cases,
		corr.Case{Tag: "regress-replace-stale", Ops: []string{"reset 2 2 10 0", "add 1.0.1000.125.1:o:1", "add 1.0.5000.125.2:o:1", "add 2.0.9000.125.3:o:1", "add 3.0.99000.125.4:o:1", "snapshot"}},
		corr.Case{Tag: "regress-sender-limit", Ops: []string{"reset 5 1 10 0", "add 1.5.1000.125.1:o:1", "add 1.2.5000.125.2:o:1", "remove 1.5.1000.125.1", "snapshot"}},
		corr.Case{Tag: "regress-fee-overflow", Ops: []string{"reset 3 3 10 0", "add 1.0.18446744073709551615.134.1:o:1", "add 1.0.100.125.2:o:1", "snapshot"}},
		// a replacement inside the processable run while the next batch is being verified: the stale batch
		// must be abandoned (fix C14-promote-stale-batch), else the processable set becomes 0,3,4
		corr.Case{Tag: "regress-window-gap", Ops: []string{"reset 8 8 10 0", "add 1.0.1000.125.1:o:1", "add 1.1.1000.125.2:o:1", "add 1.2.1000.125.3:o:1", "reorg", "add 1.3.1000.125.4:o:1", "add 1.4.1000.125.5:o:1", "reorgx | add 1.1.5000.125.6:o:1", "reorg", "snapshot"}},
		// the pool is full and a better paying sender evicts the MIDDLE of a batch that is being verified: the rest
		// of the batch must not be promoted behind the hole
		corr.Case{Tag: "regress-window-evict-middle", Ops: []string{"reset 4 8 1 0", "add 1.0.5000.125.1:o:1", "add 1.1.5000.125.2:o:1", "add 1.2.1000.125.3:o:1", "add 1.3.5000.125.4:o:1", "reorgx | add 2.0.9000.125.5:o:1", "reorg", "snapshot"}},
		// nonce 1 turns invalid, nonce 2 is replaced while the round verifies: the dropped suffix is the OLD 1,2
		corr.Case{Tag: "regress-window-replace-in-suffix", Ops: []string{"reset 8 8 1 0", "add 1.0.5000.125.1:o:1", "add 1.1.5000.125.2:o:1", "add 1.2.5000.125.3:o:1", "add 2.0.5000.125.4:o:1", "reorgx 1.1.5000.125.2:i | add 1.2.9000.125.5:o:1", "reorg", "remove 1.0.5000.125.1", "remove 1.2.9000.125.5", "remove 2.0.5000.125.4", "snapshot"}},
		corr.Case{Tag: "regress-window-orphan", Ops: []string{"reset 8 8 10 0", "add 1.0.1000.125.1:o:1", "reorgx | remove 1.0.1000.125.1 | add 1.0.1000.125.1:o:1", "reorg", "snapshot"}},
		corr.Case{Tag: "regress-full", Ops: []string{"reset 1 1 1 0", "add 1.0.1000.125.1:o:1", "add 2.0.5000.125.2:o:1", "add 3.0.9000.125.3:o:1", "reorg", "add 1.0.99000.125.4:p:1", "snapshot"}},
	)
	for len(cases) < n {
		switch r := rng.Intn(100); {
		case r < 30:
			cases = append(cases, g.randomCase("random"))
		case r < 50:
			cases = append(cases, g.randomCase("capacity"))
		case r < 62:
			cases = append(cases, g.randomCase("persender"))
		case r < 75:
			cases = append(cases, g.randomCase("promotion"))
		case r < 80:
			cases = append(cases, g.promotionScript())
		case r < 90:
			cases = append(cases, g.interleaveScript())
		case r < 94:
			cases = append(cases, g.overflowScript())
		default:
			cases = append(cases, g.randomCase("large"))
		}
	}
	return cases
}

// ---------------------------------------------------------------------------------------------
// concurrent stress (model-free): N goroutines add / remove / reorg on one pool; the whole round must
// finish under the watchdog and the quiescent state must satisfy the invariant.

func (prop) Extra(rng *rand.Rand, tier string) corr.ExtraResult {
	rounds := 20
	if tier == "thorough" {
		rounds = 600
	}
	res := corr.ExtraResult{Notes: map[string]any{}}
	hangs, pendingSeen, others := 0, 0, 0
	for round := 0; round < rounds; round++ {
		c := cfg{1 + rng.Intn(8), 1 + rng.Intn(4), 1, 0}
		r := &runner{cfg: c, abi: &scriptABI{last: map[string]int32{}}, conn: &scriptConn{}, tokens: map[string]txKey{}, sender: map[string]uint64{}, opIdx: -1}
		r.pool = newPool(c, r.abi, r.conn)
		workers := 2 + rng.Intn(6)
		perWorker := 20 + rng.Intn(60)
		// pre-build the transactions and a static verdict per transaction
		type job struct {
			tx     *blockchain.Transaction
			remove bool
			reorg  bool
		}
		jobs := make([][]job, workers)
		verdicts := map[string]int32{}
		salt := uint64(0)
		var built []*blockchain.Transaction
		for w := range jobs {
			for i := 0; i < perWorker; i++ {
				salt++
				switch x := rng.Intn(10); {
				case x < 6 || len(built) == 0:
					s, n := uint64(1+rng.Intn(3)), uint64(rng.Intn(5))
					tx := rawTx(s, n, uint64(100+rng.Intn(100000)), salt, rng.Intn(40))
					k := txKey{s, n, tx.Fee, uint64(tx.Size()), salt}
					r.tokens[string(tx.ID)] = k
					r.sender[string(tx.SenderAddress())] = s
					built = append(built, tx)
					switch v := rng.Intn(10); {
					case v == 0:
						verdicts[string(tx.ID)] = labi.TxVerifyResultInvalid
					case v == 1:
						verdicts[string(tx.ID)] = labi.TxVerifyResultPending
					}
					jobs[w] = append(jobs[w], job{tx: tx})
				case x < 8:
					jobs[w] = append(jobs[w], job{tx: built[rng.Intn(len(built))], remove: true})
				default:
					jobs[w] = append(jobs[w], job{reorg: true})
				}
			}
		}
		r.abi.script(verdicts)
		done := make(chan struct{})
		go func() {
			var wg sync.WaitGroup
			for w := range jobs {
				wg.Add(1)
				go func(js []job) {
					defer wg.Done()
					defer func() { _ = recover() }()
					for _, j := range js {
						switch {
						case j.reorg:
							r.pool.VerifReorgStep()
						case j.remove:
							r.pool.Remove(j.tx.ID)
						default:
							r.pool.Add(j.tx)
						}
					}
				}(jobs[w])
			}
			wg.Wait()
			close(done)
		}()
		res.Evaluations += workers * perWorker
		select {
		case <-done:
		case <-time.After(10 * time.Second):
			hangs++
			res.Fails = append(res.Fails, corr.Fail{Sig: "C14-op-hangs", Detail: fmt.Sprintf("concurrent round %d (max %d, per account %d, %d workers) did not finish", round, c.maxTx, c.maxPer, workers), Op: -1})
			continue
		}
		s, ok := r.snapshot()
		if ok {
			r.checkInvariant(s, true)
		}
		r.pool.VerifStopTicker()
		for _, f := range r.fails {
			f.Detail = fmt.Sprintf("concurrent round %d: %s", round, f.Detail)
			if f.Sig == "C14-pending-tx-processable" {
				// known finding: keep a few samples, count the rest
				pendingSeen++
				if pendingSeen > 3 {
					continue
				}
			} else {
				others++
			}
			res.Fails = append(res.Fails, f)
		}
		if others > 40 {
			break
		}
	}
	res.Notes["concurrent_rounds"] = rounds
	res.Notes["concurrent_hangs"] = hangs
	res.Notes["concurrent_pending_processable"] = pendingSeen
	// Add of a transaction whose Init was never called divides by Size()==0 (not reachable through the
	// repository's callers, which all call Init): recorded as a note, not as a failure.
	func() {
		c := cfg{2, 2, 1, 0}
		pool := newPool(c, &scriptABI{last: map[string]int32{}}, &scriptConn{})
		defer pool.VerifStopTicker()
		_, p := guarded(func() {
			pool.Add(&blockchain.Transaction{Module: "token", Command: "transfer", SenderPublicKey: senderKey(1), Signatures: []codec.Hex{make([]byte, 64)}, ID: crypto.Hash([]byte{1})})
		})
		res.Notes["add_uninitialised_tx"] = fmt.Sprint(p)
	}()
	// live subscribers of the pool's emitter (subscriber.go): C14-hang-event-subscriber
	subscriberScenarios(rng, tier, &res)
	return res
}
