// Subscribers of the pool's event emitter (model-free, clause "every pool operation returns").
//
// The engine subscribes to EventTransactionNew (pool.Subscribe) and event.EventEmitter.Publish sends on
// UNBUFFERED subscriber channels with the emitter mutex held: whoever publishes waits until every
// subscriber has received. The pool is live with subscribers only because it publishes holding no pool
// lock (onTransactionAnnoucement: after Add returned). Two scenario families run the real pool with
// live subscribers; every pool operation must return within the watchdog:
//
//	callback  1-2 subscribers whose handler calls pool.Get / GetAll / GetProcessable for every event
//	          before receiving the next one, while 2-5 workers run direct Add, announced transactions
//	          (the handler registered by Init), Remove and promotion rounds concurrently;
//	stopped   a subscriber that receives the first 0-2 events and then stops receiving; one more
//	          announcement is left in flight (it parks in the emitter: that is the emitter's contract, C20)
//	          and then direct Add / Remove / Get / GetAll / GetProcessable / reorg must all return.
//
// A notification sent with the pool lock held (or any other wait for a subscriber inside a critical
// section) makes a pool operation wait for the subscriber, which waits for the pool (callback) or for
// nothing (stopped): signature C14-hang-event-subscriber.
package c14

import (
	"fmt"
	"math/rand"
	"strings"
	"sync"
	"sync/atomic"
	"time"

	"github.com/LiskHQ/lisk-engine/pkg/blockchain"
	"github.com/LiskHQ/lisk-engine/pkg/p2p"
	"github.com/LiskHQ/lisk-engine/pkg/txpool"

	"verifharness/corr"
)

const sigSubscriber = "C14-hang-event-subscriber"

type subJob struct {
	kind string // add | announce | remove | reorg | get
	tx   *blockchain.Transaction
}

func (j subJob) String() string {
	if j.tx == nil {
		return j.kind
	}
	return fmt.Sprintf("%s(sender %x nonce %d fee %d)", j.kind, []byte(j.tx.SenderPublicKey[:8]), j.tx.Nonce, j.tx.Fee)
}

func newSubPool(c cfg) (*txpool.TransactionPool, *scriptConn) {
	conn := &scriptConn{}
	return newPool(c, &scriptABI{last: map[string]int32{}}, conn), conn
}

func runSubJob(pool *txpool.TransactionPool, handler p2p.EventHandler, j subJob) {
	switch j.kind {
	case "add":
		pool.Add(j.tx)
	case "announce":
		handler(p2p.NewEvent("peer", txpool.RPCEventPostTransactionAnnouncement, j.tx.Bytes()))
	case "remove":
		pool.Remove(j.tx.ID)
	case "reorg":
		pool.VerifReorgStep()
	case "get":
		pool.Get(j.tx.ID)
		pool.GetAll()
		pool.GetProcessable()
	}
}

func genSubJobs(rng *rand.Rand, n int, salt *uint64, pAnnounce int) []subJob {
	var jobs []subJob
	var built []*blockchain.Transaction
	for i := 0; i < n; i++ {
		*salt++
		x := rng.Intn(100)
		switch {
		case x < 75 || len(built) == 0:
			tx := rawTx(uint64(1+rng.Intn(4)), uint64(rng.Intn(4)), uint64(1000+rng.Intn(100000)), *salt, rng.Intn(30))
			built = append(built, tx)
			if rng.Intn(100) < pAnnounce {
				jobs = append(jobs, subJob{"announce", tx})
			} else {
				jobs = append(jobs, subJob{"add", tx})
			}
		case x < 85:
			jobs = append(jobs, subJob{"remove", built[rng.Intn(len(built))]})
		case x < 93:
			jobs = append(jobs, subJob{"get", built[rng.Intn(len(built))]})
		default:
			jobs = append(jobs, subJob{kind: "reorg"})
		}
	}
	return jobs
}

// subscriberCallback: live subscribers that call back into the pool, concurrent workers.
func subscriberCallback(rng *rand.Rand, round int) (fail *corr.Fail, evals int) {
	c := cfg{4 + rng.Intn(40), 2 + rng.Intn(5), 1, 0}
	pool, conn := newSubPool(c)
	defer pool.VerifStopTicker()
	handler := conn.handler()
	if handler == nil {
		return &corr.Fail{Sig: "C14-no-announcement-handler", Detail: "Init registered no handler for " + txpool.RPCEventPostTransactionAnnouncement, Op: -1}, 0
	}
	nsub, calls := 1+rng.Intn(2), 2+rng.Intn(4)
	var received int64
	var subWG sync.WaitGroup
	for s := 0; s < nsub; s++ {
		ch := pool.Subscribe(txpool.EventTransactionNew)
		subWG.Add(1)
		go func() {
			defer subWG.Done()
			for m := range ch {
				if msg, ok := m.(*txpool.EventNewTransactionMessage); ok && msg.Transaction != nil {
					// the handler looks the transaction up before it takes the next event
					for i := 0; i < calls; i++ {
						pool.Get(msg.Transaction.ID)
						pool.GetAll()
						pool.GetProcessable()
					}
				}
				atomic.AddInt64(&received, 1)
			}
		}()
	}
	workers := 2 + rng.Intn(4)
	salt := uint64(round) << 32
	jobs := make([][]subJob, workers)
	for w := range jobs {
		jobs[w] = genSubJobs(rng, 12+rng.Intn(20), &salt, 50)
		evals += len(jobs[w])
	}
	var progress int64
	current := make([]atomic.Value, workers)
	var wg sync.WaitGroup
	done := make(chan struct{})
	for w := range jobs {
		wg.Add(1)
		go func(w int) {
			defer wg.Done()
			defer func() { _ = recover() }()
			for _, j := range jobs[w] {
				current[w].Store(j.String())
				runSubJob(pool, handler, j)
				atomic.AddInt64(&progress, 1)
			}
			current[w].Store("")
		}(w)
	}
	go func() { wg.Wait(); close(done) }()
	last, lastAt := int64(-1), time.Now()
	for {
		select {
		case <-done:
			// no publisher is left: closing the emitter ends the subscribers
			endDone := make(chan struct{})
			go func() { pool.End(); subWG.Wait(); close(endDone) }()
			select {
			case <-endDone:
				return nil, evals
			case <-time.After(watchdog):
				return &corr.Fail{Sig: sigSubscriber, Detail: fmt.Sprintf("callback round %d: End / the subscribers did not finish within %s after all workers returned", round, watchdog), Op: -1}, evals
			}
		case <-time.After(50 * time.Millisecond):
		}
		if p := atomic.LoadInt64(&progress) + atomic.LoadInt64(&received); p != last {
			last, lastAt = p, time.Now()
		} else if time.Since(lastAt) > watchdog {
			var stuck []string
			for w := range current {
				if s, _ := current[w].Load().(string); s != "" {
					stuck = append(stuck, fmt.Sprintf("worker %d in %s", w, s))
				}
			}
			return &corr.Fail{Sig: sigSubscriber, Detail: fmt.Sprintf(
				"callback round %d (max %d, per account %d, %d workers, %d subscribers of %s each calling Get/GetAll/GetProcessable %d times per event): no pool operation returned and no event was received for %s after %d operations and %d events; %s",
				round, c.maxTx, c.maxPer, workers, nsub, txpool.EventTransactionNew, calls, watchdog, atomic.LoadInt64(&progress), atomic.LoadInt64(&received), strings.Join(stuck, "; ")), Op: -1}, evals
		}
	}
}

// subscriberStopped: a subscriber that stops receiving; single-threaded, every pool call under the watchdog.
func subscriberStopped(rng *rand.Rand, round int) (fail *corr.Fail, evals int) {
	c := cfg{4 + rng.Intn(20), 2 + rng.Intn(4), 1, 0}
	pool, conn := newSubPool(c)
	defer pool.VerifStopTicker()
	handler := conn.handler()
	if handler == nil {
		return &corr.Fail{Sig: "C14-no-announcement-handler", Detail: "Init registered no handler for " + txpool.RPCEventPostTransactionAnnouncement, Op: -1}, 0
	}
	ch := pool.Subscribe(txpool.EventTransactionNew)
	takes := rng.Intn(3)
	resume := make(chan struct{})
	var received int64
	go func() {
		for i := 0; i < takes; i++ {
			<-ch
			atomic.AddInt64(&received, 1)
		}
		<-resume // stopped receiving (the engine's context was cancelled, the consumer is busy, ...)
		for range ch {
		}
	}()
	// clean-up: let the subscriber drain, then the parked publisher (if any) and End can finish
	defer func() {
		close(resume)
		go pool.End()
	}()
	salt := uint64(round)<<32 | 1<<31
	step := 0
	run := func(j subJob) *corr.Fail {
		step++
		evals++
		hung, pn := guarded(func() { runSubJob(pool, handler, j) })
		if hung {
			return &corr.Fail{Sig: sigSubscriber, Detail: fmt.Sprintf(
				"stopped round %d (max %d, per account %d): one subscriber of %s that received %d event(s) and then stopped receiving; step %d: %s did not return within %s",
				round, c.maxTx, c.maxPer, txpool.EventTransactionNew, atomic.LoadInt64(&received), step, j, watchdog), Op: -1}
		}
		if pn != nil {
			return &corr.Fail{Sig: "C14-panic", Detail: fmt.Sprintf("stopped round %d step %d: %s: %v", round, step, j, pn), Op: -1}
		}
		return nil
	}
	// the events the subscriber still takes: announced transactions of fresh senders (always accepted)
	for i := 0; i < takes; i++ {
		salt++
		if f := run(subJob{"announce", rawTx(uint64(100+i), 0, 5000, salt, 0)}); f != nil {
			return f, evals
		}
	}
	// one more announcement: its notification has no receiver. Waiting for the subscriber is the
	// emitter's contract (not a pool operation); the pool must stay usable meanwhile.
	inflight := rng.Intn(3) > 0
	if inflight {
		salt++
		tx := rawTx(200, 0, 5000, salt, 0)
		go func() {
			defer func() { _ = recover() }()
			runSubJob(pool, handler, subJob{"announce", tx})
		}()
		time.Sleep(20 * time.Millisecond)
	}
	for _, j := range genSubJobs(rng, 10+rng.Intn(12), &salt, 0) {
		if f := run(j); f != nil {
			return f, evals
		}
	}
	return nil, evals
}

// subscriberScenarios is called by Extra.
func subscriberScenarios(rng *rand.Rand, tier string, res *corr.ExtraResult) {
	cb, st := 6, 4
	if tier == "thorough" {
		cb, st = 120, 40
	}
	hangs := 0
	for round := 0; round < cb && hangs < 2; round++ {
		f, n := subscriberCallback(rng, round)
		res.Evaluations += n
		if f != nil {
			hangs++
			res.Fails = append(res.Fails, *f)
		}
	}
	hangs = 0
	for round := 0; round < st && hangs < 2; round++ {
		f, n := subscriberStopped(rng, round)
		res.Evaluations += n
		if f != nil {
			hangs++
			res.Fails = append(res.Fails, *f)
		}
	}
	res.Notes["subscriber_callback_rounds"] = cb
	res.Notes["subscriber_stopped_rounds"] = st
}
